/-
  C02 helper: induction showing that break/continue diverts never escape the loops that enclose them.
-/
import YashModel.Exec.Loops
namespace YashModel.Exec

structure Esc (fuel : Nat) : Prop where
  cmd : ∀ s c, Within (loops s.stack) (execCmd fuel s c).2
  elifs : ∀ s e els, Within (loops s.stack) (execElifs fuel s e els).2
  while_ : ∀ s u c b e st, s.stack = .loop :: st → Within (loops st) (execWhile fuel s u c b e).2.1
  for_ : ∀ s n b st, s.stack = .loop :: st → Within (loops st) (execFor fuel s n b).2
  case_ : ∀ s items f u, Within (loops s.stack) (execCase fuel s items f u).2.1
  list : ∀ s l, Within (loops s.stack) (execList fuel s l).2
  item : ∀ s i, Within (loops s.stack) (execItem fuel s i).2
  aor : ∀ s r st, s.stack = .condition :: st → Within (loops st) (execAndOrRest fuel s r).2
  pipe : ∀ s p, Within (loops s.stack) (execPipeline fuel s p).2
  cmds : ∀ s cs, Within (loops s.stack) (execCommands fuel s cs).2
  members : ∀ s cs f, Within 0 (execPipeMembers fuel s cs f).2

theorem esc_zero : Esc 0 := by
  refine ⟨?_, ?_, ?_, ?_, ?_, ?_, ?_, ?_, ?_, ?_, ?_⟩ <;> intros <;> simp [execCmd, execElifs, execWhile,
    execFor, execCase, execList, execItem, execAndOrRest, execPipeline, execCommands, execPipeMembers]

theorem esc_list (fuel : Nat) (ih : Esc fuel) : ∀ s l, Within (loops s.stack) (execList (fuel+1) s l).2 := by
  intro s l
  cases l with
  | nil => simp [execList]
  | cons it rest =>
    simp only [execList]
    have h1 := ih.item s it
    have b1 := (bal fuel).item s it
    generalize execItem fuel s it = x at *
    obtain ⟨s1, r⟩ := x
    cases r with
    | continue_ => simp only; have := ih.list s1 rest; simp only at b1; rw [b1] at this; exact this
    | break_ d => exact h1
    | outOfFuel => trivial

theorem esc_item (fuel : Nat) (ih : Esc fuel) : ∀ s i, Within (loops s.stack) (execItem (fuel+1) s i).2 := by
  intro s i
  obtain ⟨first, rest⟩ := i
  cases rest with
  | nil => simp only [execItem]; exact ih.pipe s first
  | cons a t =>
    simp only [execItem]
    have h1 := ih.pipe (s.push .condition) first
    have b1 := (bal fuel).pipe (s.push .condition) first
    generalize execPipeline fuel (s.push .condition) first = x at *
    obtain ⟨s1, r⟩ := x
    simp only [push_stack, loops_condition] at h1 b1
    cases r with
    | continue_ => simp only; exact ih.aor s1 (a :: t) s.stack b1
    | break_ d => exact h1
    | outOfFuel => trivial

theorem esc_aor (fuel : Nat) (ih : Esc fuel) :
    ∀ s r st, s.stack = .condition :: st → Within (loops st) (execAndOrRest (fuel+1) s r).2 := by
  intro s r st hst
  match r with
  | [] => simp [execAndOrRest]
  | [(a, p)] =>
    simp only [execAndOrRest]
    split
    · have := ih.pipe s.pop p
      simp only [pop_stack, hst, List.tail_cons] at this
      exact this
    · trivial
  | (a, p) :: b :: t =>
    simp only [execAndOrRest]
    split
    · have h1 := ih.pipe s p
      have b1 := (bal fuel).pipe s p
      generalize execPipeline fuel s p = x at *
      obtain ⟨s1, r⟩ := x
      simp only [hst, loops_condition] at h1 b1
      cases r with
      | continue_ => simp only; exact ih.aor s1 (b :: t) st b1
      | break_ d => exact h1
      | outOfFuel => trivial
    · exact ih.aor s (b :: t) st hst


theorem esc_pipe (fuel : Nat) (ih : Esc fuel) : ∀ s p, Within (loops s.stack) (execPipeline (fuel+1) s p).2 := by
  intro s p
  obtain ⟨neg, cmds⟩ := p
  simp only [execPipeline]
  split
  · exact ih.cmds s cmds
  · have h1 := ih.cmds (s.push .condition) cmds
    generalize execCommands fuel (s.push .condition) cmds = x at *
    obtain ⟨s1, r⟩ := x
    simp only [push_stack, loops_condition] at h1
    cases r with
    | continue_ => trivial
    | break_ d => exact h1
    | outOfFuel => trivial

theorem esc_members (fuel : Nat) (ih : Esc fuel) :
    ∀ s cs f, Within 0 (execPipeMembers (fuel+1) s cs f).2 := by
  intro s cs f
  cases cs with
  | nil => simp [execPipeMembers]
  | cons c rest =>
    simp only [execPipeMembers]
    generalize execCmd fuel (s.push .subshell) c = x
    obtain ⟨c1, r⟩ := x
    cases r with
    | continue_ => exact ih.members _ _ _
    | break_ d => exact ih.members _ _ _
    | outOfFuel => trivial

theorem within_zero_mono {k : Nat} {r : Res} (h : Within 0 r) : Within k r := within_mono h (Nat.zero_le k)

theorem divert_max_cases (a b : Divert) : a.max b = a ∨ a.max b = b := by
  unfold Divert.max; split <;> simp

theorem within_finishPoll {k : Nat} (prev : Nat) (s2 : St) (r t : Res) (hr : Within k r) (ht : Within k t) :
    Within k (finishPoll prev s2 r t).2 := by
  unfold finishPoll
  cases t with
  | outOfFuel => cases r <;> trivial
  | continue_ => cases r <;> simpa using hr
  | break_ d =>
    cases r with
    | continue_ => simpa using ht
    | outOfFuel => trivial
    | break_ m =>
      simp only
      rcases divert_max_cases m d with h | h <;> rw [h] <;> assumption

theorem within_pollWith (run : St → List Item → St × Res)
    (hrun : ∀ s l, Within (loops s.stack) (run s l).2) (s1 : St) (r : Res)
    (hr : Within (loops s1.stack) r) : Within (loops s1.stack) (pollWith run s1 r).2 := by
  unfold pollWith
  cases r with
  | outOfFuel => trivial
  | continue_ =>
    simp only
    cases s1.trapDue with
    | none => trivial
    | some body =>
      simp only
      have h2 := hrun ({ s1 with pending := false }.push .trap) body
      simp only [push_stack, loops_trap] at h2
      exact within_finishPoll _ _ _ _ hr (within_zero_mono h2)
  | break_ d =>
    simp only
    cases s1.trapDue with
    | none => exact hr
    | some body =>
      simp only
      have h2 := hrun ({ s1 with pending := false }.push .trap) body
      simp only [push_stack, loops_trap] at h2
      exact within_finishPoll _ _ _ _ hr (within_zero_mono h2)

theorem esc_cmds (fuel : Nat) (ih : Esc fuel) : ∀ s cs, Within (loops s.stack) (execCommands (fuel+1) s cs).2 := by
  intro s cs
  match cs with
  | [] => simp [execCommands]
  | [c] =>
    simp only [execCommands]
    have b1 := (bal fuel).cmd s c
    have h1 := ih.cmd s c
    rw [← b1] at h1 ⊢
    exact within_pollWith _ (fun s l => ih.list s l) _ _ h1
  | c :: d :: t =>
    simp only [execCommands]
    have h1 := ih.members s.enterJc (c :: d :: t) 0
    generalize execPipeMembers fuel s.enterJc (c :: d :: t) 0 = x at *
    obtain ⟨s1, r⟩ := x
    cases r with
    | continue_ => exact within_applyErrexit _ _
    | break_ d => exact within_zero_mono h1
    | outOfFuel => trivial

theorem esc_elifs (fuel : Nat) (ih : Esc fuel) :
    ∀ s e els, Within (loops s.stack) (execElifs (fuel+1) s e els).2 := by
  intro s e els
  cases e with
  | nil =>
    simp only [execElifs]
    cases els with
    | none => trivial
    | some e => exact ih.list s e
  | cons cb rest =>
    obtain ⟨cond, body⟩ := cb
    simp only [execElifs]
    have h1 := ih.list (s.push .condition) cond
    have b1 := (bal fuel).list (s.push .condition) cond
    generalize execList fuel (s.push .condition) cond = x at *
    obtain ⟨s1, r⟩ := x
    simp only [push_stack, loops_condition] at h1 b1
    have hp : s1.pop.stack = s.stack := by simp [b1]
    cases r with
    | continue_ =>
      simp only
      split
      · have := ih.list s1.pop body; rw [hp] at this; exact this
      · have := ih.elifs s1.pop rest els; rw [hp] at this; exact this
    | break_ d => exact h1
    | outOfFuel => trivial

theorem esc_for (fuel : Nat) (ih : Esc fuel) :
    ∀ s n b st, s.stack = .loop :: st → Within (loops st) (execFor (fuel+1) s n b).2 := by
  intro s n b st hst
  cases n with
  | zero => simp [execFor]
  | succ n =>
    simp only [execFor]
    have h1 := ih.list s b
    have b1 := (bal fuel).list s b
    generalize execList fuel s b = x at *
    obtain ⟨s1, r⟩ := x
    simp only [hst, loops_loop] at h1 b1
    cases hl : loopStep r with
    | stop => trivial
    | out r' => exact within_loopStep_out h1 hl
    | next => exact ih.for_ s1 n b st b1

theorem esc_case (fuel : Nat) (ih : Esc fuel) :
    ∀ s items f u, Within (loops s.stack) (execCase (fuel+1) s items f u).2.1 := by
  intro s items f u
  cases items with
  | nil => simp [execCase]
  | cons it rest =>
    obtain ⟨m, e, body, k⟩ := it
    simp only [execCase]
    split
    · simp only [St.expansionError]; split <;> trivial
    split
    · exact ih.case_ s rest false u
    · have h1 := ih.list s body
      have b1 := (bal fuel).list s body
      generalize execList fuel s body = x at *
      obtain ⟨s1, r⟩ := x
      simp only at b1
      cases r with
      | continue_ =>
        cases k with
        | break_ => trivial
        | fallThrough => simp only; have := ih.case_ s1 rest true (!body.isEmpty); rw [b1] at this; exact this
        | continue_ => simp only; have := ih.case_ s1 rest false (!body.isEmpty); rw [b1] at this; exact this
      | break_ d => exact h1
      | outOfFuel => trivial

theorem esc_while (fuel : Nat) (ih : Esc fuel) :
    ∀ s u c b e st, s.stack = .loop :: st → Within (loops st) (execWhile (fuel+1) s u c b e).2.1 := by
  intro s u c b e st hst
  simp only [execWhile]
  have h1 := ih.list (s.push .condition) c
  have b1 := (bal fuel).list (s.push .condition) c
  generalize execList fuel (s.push .condition) c = x at *
  obtain ⟨s1, r⟩ := x
  simp only [push_stack, loops_condition, hst, loops_loop] at h1 b1
  have hp : s1.pop.stack = .loop :: st := by simp [b1]
  cases hl : loopStep r with
  | stop => trivial
  | out r' => exact within_loopStep_out h1 hl
  | next =>
    simp only
    split
    · exact ih.while_ _ _ _ _ _ st hp
    · split
      · have h2 := ih.list s1.pop b
        have b2 := (bal fuel).list s1.pop b
        generalize execList fuel s1.pop b = y at *
        obtain ⟨s2, r2⟩ := y
        simp only [hp, loops_loop] at h2 b2
        cases hl2 : loopStep r2 with
        | stop => trivial
        | out r'' => exact within_loopStep_out h2 hl2
        | next =>
          simp only
          split <;> exact ih.while_ _ _ _ _ _ st b2
      · trivial


theorem esc_cmd (fuel : Nat) (ih : Esc fuel) : ∀ s c, Within (loops s.stack) (execCmd (fuel+1) s c).2 := by
  intro s c
  cases c with
  | probe m => simp only [execCmd]; exact within_finishSimple _ _ _ trivial
  | st n => simp only [execCmd]; exact within_finishSimple _ _ _ trivial
  | brk n => simp only [execCmd]; exact within_finishSimple _ _ _ (within_breakBuiltin s.stack n true)
  | cont n => simp only [execCmd]; exact within_finishSimple _ _ _ (within_breakBuiltin s.stack n false)
  | ret n => simp only [execCmd]; exact within_finishSimple _ _ _ trivial
  | exit n => simp only [execCmd]; exact within_finishSimple _ _ _ trivial
  | setE on => simp only [execCmd]; exact within_finishSimple _ _ _ trivial
  | setM on => simp only [execCmd]; exact within_finishSimple _ _ _ trivial
  | setP on => simp only [execCmd]; exact within_finishSimple _ _ _ trivial
  | unknown => simp only [execCmd]; exact within_finishSimple _ _ _ trivial
  | absent w r a => simp only [execCmd]; exact within_finishSimple _ _ _ trivial
  | tick c k => simp only [execCmd]; split <;> exact within_finishSimple _ _ _ trivial
  | setParams n => simp only [execCmd]; exact within_finishSimple _ _ _ trivial
  | freeze name => simp only [execCmd]; split <;> exact within_finishSimple _ _ _ trivial
  | forRo values => simp only [execCmd, St.expansionError]; split <;> (try split) <;> trivial
  | forPos body =>
    simp only [execCmd]
    split
    · trivial
    · have h1 := ih.for_ (s.push .loop) s.params body s.stack rfl
      generalize execFor fuel (s.push .loop) s.params body = x at *
      obtain ⟨s1, r⟩ := x
      exact h1
  | call name nargs =>
    simp only [execCmd]
    split
    · exact within_finishSimple _ _ _ trivial
    · exact within_finishSimple _ _ _ trivial
    · exact within_finishSimple _ _ _ trivial
    · rename_i body _
      have h1 := ih.cmd { s with params := nargs } body
      generalize execCmd fuel { s with params := nargs } body = x at *
      obtain ⟨s1, r⟩ := x
      simp only at h1
      split
      · exact within_finishSimple _ _ _ trivial
      · exact within_finishSimple _ _ _ h1
    · exact within_finishSimple _ _ _ trivial
  | fundef name body => simp only [execCmd]; split <;> exact within_finishSimple _ _ _ trivial
  | expErr => simp only [execCmd, St.expansionError]; split <;> trivial
  | assignErr => simp only [execCmd, St.expansionError]; split <;> trivial
  | redirErr k => simp only [execCmd]; cases k <;> first | trivial | exact within_applyErrexit _ _
  | specialErr w st => simp only [execCmd]; exact within_finishSimple _ _ _ (by split <;> trivial)
  | trapExit body => simp only [execCmd]; exact within_finishSimple _ _ _ trivial
  | trapSig body => simp only [execCmd]; exact within_finishSimple _ _ _ trivial
  | raise n => simp only [execCmd]; exact within_finishSimple _ _ _ trivial
  | raiseErr => simp only [execCmd, St.expansionError]; split <;> trivial
  | group body => simp only [execCmd]; exact ih.list s body
  | subshell body =>
    simp only [execCmd]
    generalize execList fuel (s.push .subshell) body = x
    obtain ⟨c1, r⟩ := x
    cases r with
    | continue_ => exact within_applyErrexit _ _
    | break_ d => exact within_applyErrexit _ _
    | outOfFuel => trivial
  | asyncWait body =>
    simp only [execCmd]
    generalize execList fuel (s.push .subshell) body = x
    obtain ⟨c1, r⟩ := x
    cases r with
    | continue_ => simp only []; exact within_applyErrexit _ _
    | break_ d => simp only []; exact within_applyErrexit _ _
    | outOfFuel => trivial
  | ifc cond body elifs els =>
    simp only [execCmd]
    have h1 := ih.list (s.push .condition) cond
    have b1 := (bal fuel).list (s.push .condition) cond
    generalize execList fuel (s.push .condition) cond = x at *
    obtain ⟨s1, r⟩ := x
    simp only [push_stack, loops_condition] at h1 b1
    have hp : s1.pop.stack = s.stack := by simp [b1]
    cases r with
    | continue_ =>
      simp only
      split
      · have := ih.list s1.pop body; rw [hp] at this; exact this
      · have := ih.elifs s1.pop elifs els; rw [hp] at this; exact this
    | break_ d => exact h1
    | outOfFuel => trivial
  | whileLoop u cond body =>
    simp only [execCmd]
    have h1 := ih.while_ (s.push .loop) u cond body 0 s.stack rfl
    generalize execWhile fuel (s.push .loop) u cond body 0 = x at *
    obtain ⟨s1, r, e⟩ := x
    cases r with
    | continue_ => trivial
    | break_ d => exact h1
    | outOfFuel => trivial
  | forLoop values body =>
    simp only [execCmd]
    split
    · trivial
    · have h1 := ih.for_ (s.push .loop) values body s.stack rfl
      generalize execFor fuel (s.push .loop) values body = x at *
      obtain ⟨s1, r⟩ := x
      exact h1
  | caseC items =>
    simp only [execCmd]
    have h1 := ih.case_ s items false false
    generalize execCase fuel s items false false = x at *
    obtain ⟨s1, r, u⟩ := x
    cases r with
    | continue_ => trivial
    | break_ d => exact h1
    | outOfFuel => trivial

theorem esc : ∀ fuel, Esc fuel := by
  intro fuel
  induction fuel with
  | zero => exact esc_zero
  | succ fuel ih =>
    exact ⟨esc_cmd fuel ih, esc_elifs fuel ih, esc_while fuel ih, esc_for fuel ih, esc_case fuel ih,
      esc_list fuel ih, esc_item fuel ih, esc_aor fuel ih, esc_pipe fuel ih, esc_cmds fuel ih,
      esc_members fuel ih⟩

end YashModel.Exec
