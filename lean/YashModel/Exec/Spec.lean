/-
  Spec for C02/C10: the command language of POSIX XCU 2.9–2.15 as an outcome semantics with a
  *context* instead of the implementation's frame stack.  A command runs in a context that says how
  many enclosing loops `break`/`continue` can see and whether a failure is exempt from `errexit`
  (XCU 2.8.1 / `set -e`: the condition of if/while/until, every pipeline of an and-or list but the
  last, a pipeline preceded by `!`); nothing is pushed or popped.  The state's `stack` field is never
  read or written here.  Import-free and executable; the driver prints its prediction next to the
  model's so that a disagreement with the real shell is a concrete violation.
-/
import YashModel.Exec.Model
namespace YashModel.Exec

structure Ctx where
  /-- enclosing loops visible to `break`/`continue` (a subshell starts again from 0) -/
  loops : Nat
  /-- the command is in a context where `errexit` is ignored -/
  exempt : Bool
  /-- signal traps are not run here: a trap action is running, or this is a subshell environment
      (which has no command traps; the signal is addressed to the main shell) -/
  quiet : Bool
  deriving DecidableEq, Repr

def Ctx.cond (c : Ctx) : Ctx := { c with exempt := true }
def Ctx.inLoop (c : Ctx) : Ctx := { c with loops := c.loops + 1 }
def Ctx.sub (c : Ctx) : Ctx := { c with loops := 0, quiet := true }
/-- a trap action: no enclosing loop is visible, no other trap action starts -/
def Ctx.trap (c : Ctx) : Ctx := { c with loops := 0, quiet := true }

/-- the signal's action is due after this command -/
def trapDueS (ctx : Ctx) (s : St) : Option (List Item) :=
  if s.pending && !ctx.quiet then s.sigTrap else none

/-- after every command: the action of a signal caught meanwhile runs (in the trap context), `$?` is
    restored, and of two diverts the more severe one wins -/
def pollWithS (run : Ctx → St → List Item → St × Res) (ctx : Ctx) (s1 : St) (r : Res) : St × Res :=
  match r with
  | .outOfFuel => (s1, .outOfFuel)
  | r =>
    match trapDueS ctx s1 with
    | none => (s1, r)
    | some body =>
      let x := run ctx.trap { s1 with pending := false } body
      finishPoll s1.status x.1 r x.2

/-- `set -e`: a failing command ends the shell unless exempt -/
def errexitS (ctx : Ctx) (s : St) : Res :=
  if s.status ≠ 0 ∧ s.errexit = true ∧ ctx.exempt = false then .break_ (.exit none) else .continue_

/-- what follows every simple command that completed normally -/
def afterSimple (ctx : Ctx) (s : St) (r : Res) : St × Res :=
  match r with
  | .continue_ => (s, errexitS ctx s)
  | r => (s, r)

/-- expansion and assignment errors: the shell stops with status 2 (as `exit` when errexit applies) -/
def expansionErrorS (ctx : Ctx) (s : St) : Res :=
  if s.errexit = true ∧ ctx.exempt = false then .break_ (.exit (some 2)) else .break_ (.interrupt (some 2))

/-- `break n` / `continue n`: leaves min(n, enclosing loops) loops; outside any loop it is an error of a
    special built-in -/
def breakS (ctx : Ctx) (n : Nat) (isBreak : Bool) : Nat × Res :=
  let k := min n ctx.loops
  if k = 0 then (1, .break_ (.interrupt none))
  else (0, .break_ (if isBreak then .break_ (k - 1) else .continue_ (k - 1)))

mutual
  def specCmd : Nat → Ctx → St → Cmd → St × Res
    | 0, _, s, _ => (s, .outOfFuel)
    | fuel+1, ctx, s, c =>
      match c with
      | .probe m => afterSimple ctx { s with trace := (m, s.status) :: s.trace } .continue_
      | .st n => afterSimple ctx { s with status := n } .continue_
      | .brk n => afterSimple ctx { s with status := (breakS ctx n true).1 } (breakS ctx n true).2
      | .cont n => afterSimple ctx { s with status := (breakS ctx n false).1 } (breakS ctx n false).2
      | .ret n => afterSimple ctx s (.break_ (.return_ n))
      | .exit n => afterSimple ctx s (.break_ (.exit n))
      | .setE on => afterSimple ctx { s with errexit := on, status := 0 } .continue_
      | .setM on => afterSimple ctx { s with monitor := on, status := 0 } .continue_
      | .setP on => afterSimple ctx { s with pipefail := on, status := 0 } .continue_
      | .unknown => afterSimple ctx { s with status := 127 } .continue_
      | .absent w r a =>
        afterSimple ctx { s with status := (a.orElse fun _ => r.orElse fun _ => w).getD 0 } .continue_
      | .tick c k =>
        let v := getCounter s.counters c
        if v < k then afterSimple ctx { s with counters := setCounter s.counters c (v+1), status := 0 } .continue_
        else afterSimple ctx { s with status := 1 } .continue_
      | .setParams n => afterSimple ctx { s with params := n, status := 0 } .continue_
      | .freeze name =>
        (match lookupFn s.funcs name with
         | some _ => afterSimple ctx { s with roFuncs := name :: s.roFuncs, status := 0 } .continue_
         | none => afterSimple ctx { s with status := 1 } .continue_)
      | .call name nargs =>
        match classify s name with
        | .specialColon => afterSimple ctx { s with status := 0 } .continue_
        | .regularTrue => afterSimple ctx { s with status := 0 } .continue_
        | .notFound => afterSimple ctx { s with status := 127 } .continue_
        | .status n => afterSimple ctx { s with status := n } .continue_
        | .function body =>
          let (s1, r) := specCmd fuel ctx { s with params := nargs } body
          let s1 := { s1 with params := s.params }
          match r with
          | .break_ (.return_ e) =>
            afterSimple ctx (match e with | some e => { s1 with status := e } | none => s1) .continue_
          | r => afterSimple ctx s1 r
      | .fundef name body =>
        if s.roFuncs.contains name then afterSimple ctx { s with status := 2 } .continue_
        else afterSimple ctx { s with funcs := defineFn s.funcs name body, status := 0 } .continue_
      | .expErr => (s, expansionErrorS ctx s)
      | .assignErr => (s, expansionErrorS ctx s)
      | .redirErr k =>
        let s1 := { s with status := 2 }
        (match k with
         | .special => (s1, .break_ (.interrupt none))
         | _ => (s1, errexitS ctx s1))
      | .specialErr wrapped status =>
        afterSimple ctx { s with status := status } (if wrapped then .continue_ else .break_ (.interrupt none))
      | .trapExit body => afterSimple ctx { s with exitTrap := some body, status := 0 } .continue_
      | .trapSig body => afterSimple ctx { s with sigTrap := some body, status := 0 } .continue_
      | .raise n => afterSimple ctx { s with pending := true, status := n } .continue_
      | .raiseErr => ({ s with pending := true }, expansionErrorS ctx { s with pending := true })
      | .group body => specList fuel ctx s body
      | .subshell body =>
        let (c1, r) := specList fuel ctx.sub s body
        match r with
        | .outOfFuel => (s, .outOfFuel)
        | r =>
          let c2 := c1.applyResult r
          let s1 := { s with status := c2.status, trace := c2.trace, pending := c2.pending }
          (s1, errexitS ctx s1)
      | .asyncWait body =>
        let (c1, r) := specList fuel ctx.sub s body
        match r with
        | .outOfFuel => (s, .outOfFuel)
        | r =>
          let c2 := c1.applyResult r
          let s1 := { s with status := 0, trace := c2.trace, pending := c2.pending }
          (s1, errexitS ctx s1)
      | .ifc cond body elifs els =>
        let (s1, r) := specList fuel ctx.cond s cond
        match r with
        | .continue_ =>
          if s1.status = 0 then specList fuel ctx s1 body
          else specElifs fuel ctx s1 elifs els
        | r => (s1, r)
      | .whileLoop until_ cond body =>
        let (s1, r) := specWhile fuel ctx s until_ cond body 0
        match r with
        | (.continue_, e) => ({ s1 with status := e }, .continue_)
        | (r, _) => (s1, r)
      | .forLoop values body =>
        if values = 0 ∧ !body.isEmpty then ({ s with status := 0 }, .continue_)
        else specFor fuel ctx s values body
      | .forPos body =>
        if s.params = 0 ∧ !body.isEmpty then ({ s with status := 0 }, .continue_)
        else specFor fuel ctx s s.params body
      | .forRo values =>
        if values = 0 then ({ s with status := 0 }, .continue_) else (s, expansionErrorS ctx s)
      | .caseC items =>
        let (s1, r, updated) := specCase fuel ctx s items false false
        match r with
        | .continue_ => (if updated then s1 else { s1 with status := 0 }, .continue_)
        | r => (s1, r)

  def specElifs : Nat → Ctx → St → List (List Item × List Item) → Option (List Item) → St × Res
    | 0, _, s, _, _ => (s, .outOfFuel)
    | fuel+1, ctx, s, elifs, els =>
      match elifs with
      | [] =>
        match els with
        | some e => specList fuel ctx s e
        | none => ({ s with status := 0 }, .continue_)
      | (cond, body) :: rest =>
        let (s1, r) := specList fuel ctx.cond s cond
        match r with
        | .continue_ =>
          if s1.status = 0 then specList fuel ctx s1 body
          else specElifs fuel ctx s1 rest els
        | r => (s1, r)

  /-- `ctx` is the context of the loop command itself; the last argument is the status of the last
      body command run so far (0 if none) -/
  def specWhile : Nat → Ctx → St → Bool → List Item → List Item → Nat → St × (Res × Nat)
    | 0, _, s, _, _, _, e => (s, (.outOfFuel, e))
    | fuel+1, ctx, s, until_, cond, body, e =>
      let (s1, r) := specList fuel ctx.inLoop.cond s cond
      match loopStep r with
      | .stop => (s1, (.continue_, s1.status))
      | .out r => (s1, (r, e))
      | .next =>
        match r with
        | .break_ (.continue_ 0) => specWhile fuel ctx s1 until_ cond body e
        | _ =>
          if (s1.status = 0) = !until_ then
            let (s2, r2) := specList fuel ctx.inLoop s1 body
            match loopStep r2 with
            | .stop => (s2, (.continue_, s2.status))
            | .out r => (s2, (r, e))
            | .next =>
              match r2 with
              | .break_ (.continue_ 0) => specWhile fuel ctx s2 until_ cond body e
              | _ => specWhile fuel ctx s2 until_ cond body s2.status
          else (s1, (.continue_, e))

  def specFor : Nat → Ctx → St → Nat → List Item → St × Res
    | 0, _, s, _, _ => (s, .outOfFuel)
    | _+1, _, s, 0, _ => (s, .continue_)
    | fuel+1, ctx, s, n+1, body =>
      let (s1, r) := specList fuel ctx.inLoop s body
      match loopStep r with
      | .stop => (s1, .continue_)
      | .out r => (s1, r)
      | .next => specFor fuel ctx s1 n body

  def specCase : Nat → Ctx → St → List (Bool × Bool × List Item × CaseCont) → Bool → Bool → St × Res × Bool
    | 0, _, s, _, _, u => (s, .outOfFuel, u)
    | _+1, _, s, [], _, u => (s, .continue_, u)
    | fuel+1, ctx, s, (m, e, body, k) :: rest, falling, u =>
      if !falling && e then (s, expansionErrorS ctx s, u)
      else if !falling && !m then specCase fuel ctx s rest false u
      else
        let (s1, r) := specList fuel ctx s body
        match r with
        | .continue_ =>
          let u1 := !body.isEmpty
          match k with
          | .break_ => (s1, .continue_, u1)
          | .fallThrough => specCase fuel ctx s1 rest true u1
          | .continue_ => specCase fuel ctx s1 rest false u1
        | r => (s1, r, u)

  def specList : Nat → Ctx → St → List Item → St × Res
    | 0, _, s, _ => (s, .outOfFuel)
    | _+1, _, s, [] => (s, .continue_)
    | fuel+1, ctx, s, it :: rest =>
      let (s1, r) := specItem fuel ctx s it
      match r with
      | .continue_ => specList fuel ctx s1 rest
      | r => (s1, r)

  /-- and-or list: every pipeline but the last is exempt from errexit -/
  def specItem : Nat → Ctx → St → Item → St × Res
    | 0, _, s, _ => (s, .outOfFuel)
    | fuel+1, ctx, s, .mk first rest =>
      match rest with
      | [] => specPipeline fuel ctx s first
      | _ =>
        let (s1, r) := specPipeline fuel ctx.cond s first
        match r with
        | .continue_ => specAndOrRest fuel ctx s1 rest
        | r => (s1, r)

  def specAndOrRest : Nat → Ctx → St → List (Bool × Pipeline) → St × Res
    | 0, _, s, _ => (s, .outOfFuel)
    | _+1, _, s, [] => (s, .continue_)
    | fuel+1, ctx, s, [(andThen, p)] =>
      if (s.status = 0) = andThen then specPipeline fuel ctx s p else (s, .continue_)
    | fuel+1, ctx, s, (andThen, p) :: rest =>
      if (s.status = 0) = andThen then
        let (s1, r) := specPipeline fuel ctx.cond s p
        match r with
        | .continue_ => specAndOrRest fuel ctx s1 rest
        | r => (s1, r)
      else specAndOrRest fuel ctx s rest

  def specPipeline : Nat → Ctx → St → Pipeline → St × Res
    | 0, _, s, _ => (s, .outOfFuel)
    | fuel+1, ctx, s, .mk negation cmds =>
      if !negation then specCommands fuel ctx s cmds
      else
        let (s1, r) := specCommands fuel ctx.cond s cmds
        match r with
        | .continue_ => ({ s1 with status := if s1.status = 0 then 1 else 0 }, .continue_)
        | r => (s1, r)

  def specCommands : Nat → Ctx → St → List Cmd → St × Res
    | 0, _, s, _ => (s, .outOfFuel)
    | _+1, _, s, [] => ({ s with status := 0 }, .continue_)
    | fuel+1, ctx, s, [c] =>
      -- every command is followed by the actions of the signals caught meanwhile
      let x := specCmd fuel ctx s c
      pollWithS (specList fuel) ctx x.1 x.2
    | fuel+1, ctx, s, cmds =>
      let (s1, r) := specPipeMembers fuel ctx s cmds 0
      match r with
      | .continue_ => (s1, errexitS ctx s1)
      | r => (s1, r)

  /-- each member of a multi-command pipeline runs in a subshell environment -/
  def specPipeMembers : Nat → Ctx → St → List Cmd → Nat → St × Res
    | 0, _, s, _, _ => (s, .outOfFuel)
    | _+1, _, s, [], final => ({ s with status := final }, .continue_)
    | fuel+1, ctx, s, c :: rest, final =>
      let (c1, r) := specCmd fuel ctx.sub s c
      match r with
      | .outOfFuel => (s, .outOfFuel)
      | r =>
        let c2 := c1.applyResult r
        let final' := if c2.status ≠ 0 ∨ !s.pipefail then c2.status else final
        specPipeMembers fuel ctx { s with trace := c2.trace, pending := c2.pending } rest final'
end

/-- a script is read and executed one complete command line at a time -/
def specScript : Nat → St → List Line → St × Res
  | 0, s, _ => (s, .outOfFuel)
  | _+1, s, [] => (s, .continue_)
  | fuel+1, s, .syntaxError :: _ =>
    let r := Res.break_ (.interrupt (some 2))
    (s.applyResult r, r)
  | fuel+1, s, .cmds line :: rest =>
    let x := pollWithS (specList fuel) ⟨0, false, false⟩ s .continue_
    match x.2 with
    | .continue_ =>
      let (s1, r) := specList fuel ⟨0, false, false⟩ x.1 line
      (match r with
       | .continue_ => specScript fuel s1 rest
       | r => (s1.applyResult r, r))
    | r0 => (x.1.applyResult r0, r0)

/-- the EXIT action runs in a fresh loop context (a trap cannot `break` the interrupted loops) -/
def specExitTrap (fuel : Nat) (s : St) : St × Res :=
  match s.exitTrap with
  | none => (s, .continue_)
  | some body =>
    let prev := s.status
    let (s1, r) := specList fuel ⟨0, false, true⟩ s body
    match r with
    | .outOfFuel => (s1, .outOfFuel)
    | .break_ (.interrupt (some _)) => (s1.applyResult r, r)
    | .break_ (.interrupt none) => (s1, r)
    | r => ({ s1 with status := prev }.applyResult r, r)

def specShell (fuel : Nat) (s : St) (script : List Line) : St × Res :=
  let (s1, r) := specScript fuel s script
  match r with
  | .outOfFuel => (s1, .outOfFuel)
  | .break_ (.abort _) => (s1, r)
  | _ =>
    let (s2, r2) := specExitTrap fuel s1
    match r2 with
    | .outOfFuel => (s2, .outOfFuel)
    | _ => (s2, r)

end YashModel.Exec
