/-
  Spec of the command search (C02): POSIX XCU 2.9.1.4 "Command Search and Execution" read together
  with the yash documentation of built-in types (docs/src/builtin: special / mandatory / elective /
  extension / substitutive) and of the `posixlycorrect` and `portable` options.

  Two forms.  `SpecRuns env name o` is the declarative one: an inductive relation with one rule per
  item of the POSIX text, whose side conditions are stated with `∃`/`∀` over the `$PATH` entries
  (`FirstHit`, `NoHit`) — nothing is computed.  `specRun` is the executable reading in the order of the
  POSIX text (slash, special built-in, function, other built-in, `$PATH`), used by the driver for its
  Spec column.  Exec/SearchLemmas.lean proves that the relation is functional, that `specRun` is its
  unique solution and that the transcribed code (`Search.runSimple`) computes it.
-/
import YashModel.Exec.Search
namespace YashModel.Exec.Search
open YashModel.Generated

/-- the built-in of that name the shell knows in its current mode: an extension built-in does not exist
    under `posixlycorrect` -/
def visible (env : Env) (name : Str) : Option BType :=
  match env.builtins.lookup name with
  | some t => if t = .extension ∧ env.posix = true then none else some t
  | none => none

/-- under `portable` the shell refuses to run what POSIX does not define: elective and extension
    built-ins and special built-ins under a non-POSIX name -/
def rejected (env : Env) (name : Str) (t : BType) : Bool :=
  env.portable && (t == .elective || t == .extension || (t == .special && !isPosixSpecialName name))

/-- `p` is what the `$PATH` search for `name` yields: `p = dir/name` for an entry `dir` of `$PATH` under
    which `name` is an executable file, and under no earlier entry is it one -/
def FirstHit (env : Env) (name p : Str) : Prop :=
  ∃ pre dir post, env.path.split = pre ++ dir :: post ∧
    (∀ d ∈ pre, env.isExecutableFile (joinPath d name) = false) ∧
    env.isExecutableFile (joinPath dir name) = true ∧ p = joinPath dir name

/-- `name` is an executable file under no entry of `$PATH` -/
def NoHit (env : Env) (name : Str) : Prop :=
  ∀ d ∈ env.path.split, env.isExecutableFile (joinPath d name) = false

/-- XCU 2.9.1.4, one rule per item -/
inductive SpecRuns (env : Env) (name : Str) : Outcome → Prop where
  /-- item 2: a name with a slash is executed as it is -/
  | slash : '/' ∈ name → SpecRuns env name (.exec name)
  /-- item 1.a: a special built-in is invoked (whatever functions exist) -/
  | special : '/' ∉ name → visible env name = some .special →
      rejected env name .special = false → SpecRuns env name (.builtin .special [])
  /-- item 1.c: a function -/
  | function : '/' ∉ name → visible env name ≠ some .special →
      name ∈ env.functions → SpecRuns env name .function
  /-- item 1.d: a built-in that is not substitutive is invoked without looking at `$PATH` -/
  | regular (t : BType) : '/' ∉ name → name ∉ env.functions →
      visible env name = some t → t ≠ .special → t ≠ .substitutive → rejected env name t = false →
      SpecRuns env name (.builtin t [])
  /-- `portable`: what was found is not run and nothing else is looked for; status 126 -/
  | notPortable (t : BType) : '/' ∉ name → visible env name = some t →
      (t = .special ∨ name ∉ env.functions) → rejected env name t = true →
      SpecRuns env name (.status ExecTables.NOEXEC)
  /-- item 1.e.i.a: found in `$PATH` and implemented as a (substitutive) built-in: the built-in is invoked -/
  | substitutive (p : Str) : '/' ∉ name → name ∉ env.functions →
      visible env name = some .substitutive → FirstHit env name p →
      SpecRuns env name (.builtin .substitutive p)
  /-- item 1.e.i.b: found in `$PATH`: the utility is executed -/
  | external (p : Str) : '/' ∉ name → name ∉ env.functions →
      visible env name = none → FirstHit env name p → SpecRuns env name (.exec p)
  /-- item 1.e.ii: the search fails: status 127 — also for a substitutive built-in -/
  | notFound : '/' ∉ name → name ∉ env.functions →
      (visible env name = none ∨ visible env name = some .substitutive) → NoHit env name →
      SpecRuns env name (.status ExecTables.NOT_FOUND)

/-- the `$PATH` search over a list of directories -/
def firstHitIn (env : Env) (name : Str) : List Str → Option Str
  | [] => none
  | d :: ds => if env.isExecutableFile (joinPath d name) then some (joinPath d name) else firstHitIn env name ds

/-- the executable reading, in the order of the POSIX text -/
def specRun (env : Env) (name : Str) : Outcome :=
  if name.contains '/' then .exec name
  else if visible env name = some .special then
    (if rejected env name .special then .status ExecTables.NOEXEC else .builtin .special [])
  else if env.functions.contains name then .function
  else
    match visible env name with
    | some .substitutive =>
      (match firstHitIn env name env.path.split with
       | some p => .builtin .substitutive p
       | none => .status ExecTables.NOT_FOUND)
    | some t => if rejected env name t then .status ExecTables.NOEXEC else .builtin t []
    | none =>
      (match firstHitIn env name env.path.split with
       | some p => .exec p
       | none => .status ExecTables.NOT_FOUND)

end YashModel.Exec.Search
