/- Context-loop irrelevance (wave 3, fourth pass): on the Spec, a run under `d` more visible loops either ends with a break/continue that reaches beyond the smaller context, or is the same run.  Mutual induction on fuel over the 10 context-dependent functions (`specPipeMembers` only reads `ctx.sub`).  Stated for quiet contexts (no signal-trap action can run: inside a subshell or a trap action) — with a pending trap the statement is false, see notes/C02.md. -/
import YashModel.Exec.Refine
namespace YashModel.Exec

/-- the same context with `d` more enclosing loops visible -/
def Ctx.more (c : Ctx) (d : Nat) : Ctx := { c with loops := c.loops + d }

/-- a `break`/`continue` result that reaches beyond `L` enclosing loops -/
def Reach (L : Nat) : Res → Prop
  | .break_ (.break_ k) => L ≤ k
  | .break_ (.continue_ k) => L ≤ k
  | _ => False

@[simp] theorem more_cond (c : Ctx) (d : Nat) : (c.more d).cond = c.cond.more d := rfl
@[simp] theorem more_inLoop (c : Ctx) (d : Nat) : (c.more d).inLoop = c.inLoop.more d := by
  simp [Ctx.more, Ctx.inLoop]; omega
@[simp] theorem more_sub (c : Ctx) (d : Nat) : (c.more d).sub = c.sub := rfl
@[simp] theorem more_quiet (c : Ctx) (d : Nat) : (c.more d).quiet = c.quiet := rfl
@[simp] theorem more_exempt (c : Ctx) (d : Nat) : (c.more d).exempt = c.exempt := rfl
@[simp] theorem more_loops (c : Ctx) (d : Nat) : (c.more d).loops = c.loops + d := rfl
@[simp] theorem cond_quiet (c : Ctx) : c.cond.quiet = c.quiet := rfl
@[simp] theorem cond_loops (c : Ctx) : c.cond.loops = c.loops := rfl
@[simp] theorem inLoop_quiet (c : Ctx) : c.inLoop.quiet = c.quiet := rfl
@[simp] theorem inLoop_loops (c : Ctx) : c.inLoop.loops = c.loops + 1 := rfl

/-- the larger run reaches beyond the smaller context's loops, or the two runs are the same -/
def IrrP (L : Nat) (big small : St × Res) : Prop := Reach L big.2 ∨ big = small

structure Irr (fuel : Nat) : Prop where
  cmd : ∀ (ctx : Ctx) d s c, ctx.quiet = true → IrrP ctx.loops (specCmd fuel (ctx.more d) s c) (specCmd fuel ctx s c)
  list : ∀ (ctx : Ctx) d s l, ctx.quiet = true → IrrP ctx.loops (specList fuel (ctx.more d) s l) (specList fuel ctx s l)
  item : ∀ (ctx : Ctx) d s i, ctx.quiet = true → IrrP ctx.loops (specItem fuel (ctx.more d) s i) (specItem fuel ctx s i)
  aor : ∀ (ctx : Ctx) d s r, ctx.quiet = true →
    IrrP ctx.loops (specAndOrRest fuel (ctx.more d) s r) (specAndOrRest fuel ctx s r)
  pipe : ∀ (ctx : Ctx) d s p, ctx.quiet = true →
    IrrP ctx.loops (specPipeline fuel (ctx.more d) s p) (specPipeline fuel ctx s p)
  cmds : ∀ (ctx : Ctx) d s cs, ctx.quiet = true →
    IrrP ctx.loops (specCommands fuel (ctx.more d) s cs) (specCommands fuel ctx s cs)
  elifs : ∀ (ctx : Ctx) d s e els, ctx.quiet = true →
    IrrP ctx.loops (specElifs fuel (ctx.more d) s e els) (specElifs fuel ctx s e els)
  for_ : ∀ (ctx : Ctx) d s n b, ctx.quiet = true →
    IrrP ctx.loops (specFor fuel (ctx.more d) s n b) (specFor fuel ctx s n b)
  case_ : ∀ (ctx : Ctx) d s items f u, ctx.quiet = true →
    Reach ctx.loops (specCase fuel (ctx.more d) s items f u).2.1 ∨
      specCase fuel (ctx.more d) s items f u = specCase fuel ctx s items f u
  while_ : ∀ (ctx : Ctx) d s u c b e, ctx.quiet = true →
    Reach ctx.loops (specWhile fuel (ctx.more d) s u c b e).2.1 ∨
      specWhile fuel (ctx.more d) s u c b e = specWhile fuel ctx s u c b e

theorem irr_list (fuel : Nat) (ih : Irr fuel) (ctx : Ctx) (d : Nat) (s : St) (l : List Item) (hq : ctx.quiet = true) :
    IrrP ctx.loops (specList (fuel+1) (ctx.more d) s l) (specList (fuel+1) ctx s l) := by
  cases l with
  | nil => right; simp [specList]
  | cons it rest =>
    simp only [specList]
    rcases ih.item ctx d s it hq with h | h
    · left
      generalize specItem fuel (ctx.more d) s it = x at h ⊢
      obtain ⟨s1, r⟩ := x
      cases r with
      | continue_ => simp [Reach] at h
      | outOfFuel => simp [Reach] at h
      | break_ dv => exact h
    · rw [h]
      generalize specItem fuel ctx s it = x
      obtain ⟨s1, r⟩ := x
      cases r with
      | continue_ => exact ih.list ctx d s1 rest hq
      | outOfFuel => right; rfl
      | break_ dv => right; rfl

/-- a reaching result is a divert: it is neither `continue_` nor `outOfFuel` -/
theorem reach_cases {L : Nat} {r : Res} (h : Reach L r) : ∃ dv, r = .break_ dv := by
  cases r with
  | break_ dv => exact ⟨dv, rfl⟩
  | _ => simp [Reach] at h

theorem irr_item (fuel : Nat) (ih : Irr fuel) (ctx : Ctx) (d : Nat) (s : St) (i : Item) (hq : ctx.quiet = true) :
    IrrP ctx.loops (specItem (fuel+1) (ctx.more d) s i) (specItem (fuel+1) ctx s i) := by
  obtain ⟨first, rest⟩ := i
  cases rest with
  | nil => simp only [specItem]; exact ih.pipe ctx d s first hq
  | cons r rest =>
    simp only [specItem, more_cond]
    rcases ih.pipe ctx.cond d s first hq with h | h
    · left
      obtain ⟨dv, hd⟩ := reach_cases h
      generalize specPipeline fuel (ctx.cond.more d) s first = x at h hd ⊢
      obtain ⟨s1, r0⟩ := x
      simp only at hd; subst hd; exact h
    · rw [h]
      generalize specPipeline fuel ctx.cond s first = x
      obtain ⟨s1, r0⟩ := x
      cases r0 with
      | continue_ => exact ih.aor ctx d s1 (r :: rest) hq
      | outOfFuel => right; rfl
      | break_ dv => right; rfl

theorem irr_aor (fuel : Nat) (ih : Irr fuel) (ctx : Ctx) (d : Nat) (s : St) (r : List (Bool × Pipeline))
    (hq : ctx.quiet = true) :
    IrrP ctx.loops (specAndOrRest (fuel+1) (ctx.more d) s r) (specAndOrRest (fuel+1) ctx s r) := by
  match r with
  | [] => right; simp [specAndOrRest]
  | [(andThen, p)] =>
    simp only [specAndOrRest]
    split
    · exact ih.pipe ctx d s p hq
    · right; rfl
  | (andThen, p) :: q :: rest =>
    simp only [specAndOrRest, more_cond]
    split
    · rcases ih.pipe ctx.cond d s p hq with h | h
      · left
        obtain ⟨dv, hd⟩ := reach_cases h
        generalize specPipeline fuel (ctx.cond.more d) s p = x at h hd ⊢
        obtain ⟨s1, r0⟩ := x
        simp only at hd; subst hd; exact h
      · rw [h]
        generalize specPipeline fuel ctx.cond s p = x
        obtain ⟨s1, r0⟩ := x
        cases r0 with
        | continue_ => exact ih.aor ctx d s1 (q :: rest) hq
        | outOfFuel => right; rfl
        | break_ dv => right; rfl
    · exact ih.aor ctx d s (q :: rest) hq

theorem irr_pipe (fuel : Nat) (ih : Irr fuel) (ctx : Ctx) (d : Nat) (s : St) (p : Pipeline) (hq : ctx.quiet = true) :
    IrrP ctx.loops (specPipeline (fuel+1) (ctx.more d) s p) (specPipeline (fuel+1) ctx s p) := by
  obtain ⟨neg, cmds⟩ := p
  cases neg with
  | false => simp only [specPipeline, Bool.not_false, if_true]; exact ih.cmds ctx d s cmds hq
  | true =>
    simp only [specPipeline, more_cond, Bool.not_true, Bool.false_eq_true, if_false]
    rcases ih.cmds ctx.cond d s cmds hq with h | h
    · left
      obtain ⟨dv, hd⟩ := reach_cases h
      rw [hd] at h
      simp only [hd]
      exact h
    · right; simp only [h]

theorem pollWithS_quiet (run : Ctx → St → List Item → St × Res) (ctx : Ctx) (s1 : St) (r : Res)
    (hq : ctx.quiet = true) : pollWithS run ctx s1 r = (s1, r) := by
  unfold pollWithS
  cases r <;> simp [trapDueS, hq]

@[simp] theorem errexitS_more (ctx : Ctx) (d : Nat) (s : St) : errexitS (ctx.more d) s = errexitS ctx s := rfl
@[simp] theorem afterSimple_more (ctx : Ctx) (d : Nat) (s : St) (r : Res) :
    afterSimple (ctx.more d) s r = afterSimple ctx s r := by
  cases r <;> rfl
@[simp] theorem expansionErrorS_more (ctx : Ctx) (d : Nat) (s : St) :
    expansionErrorS (ctx.more d) s = expansionErrorS ctx s := rfl

theorem irr_cmds (fuel : Nat) (ih : Irr fuel) (ctx : Ctx) (d : Nat) (s : St) (cs : List Cmd) (hq : ctx.quiet = true) :
    IrrP ctx.loops (specCommands (fuel+1) (ctx.more d) s cs) (specCommands (fuel+1) ctx s cs) := by
  match cs with
  | [] => right; simp [specCommands]
  | [c] =>
    simp only [specCommands, pollWithS_quiet _ ctx _ _ hq, pollWithS_quiet _ (ctx.more d) _ _ (by simpa using hq)]
    exact ih.cmd ctx d s c hq
  | c :: c2 :: rest =>
    right
    simp only [specCommands]
    rw [specPipeMembers_sub fuel (ctx.more d) ctx s (c :: c2 :: rest) 0 rfl]
    simp

theorem irr_elifs (fuel : Nat) (ih : Irr fuel) (ctx : Ctx) (d : Nat) (s : St)
    (e : List (List Item × List Item)) (els : Option (List Item)) (hq : ctx.quiet = true) :
    IrrP ctx.loops (specElifs (fuel+1) (ctx.more d) s e els) (specElifs (fuel+1) ctx s e els) := by
  cases e with
  | nil =>
    cases els with
    | none => right; simp [specElifs]
    | some l => simp only [specElifs]; exact ih.list ctx d s l hq
  | cons cb rest =>
    obtain ⟨cond, body⟩ := cb
    simp only [specElifs, more_cond]
    rcases ih.list ctx.cond d s cond hq with h | h
    · left
      obtain ⟨dv, hd⟩ := reach_cases h
      rw [hd] at h
      simp only [hd]
      exact h
    · simp only [h]
      generalize specList fuel ctx.cond s cond = x
      obtain ⟨s1, r0⟩ := x
      cases r0 with
      | continue_ =>
        simp only
        split
        · exact ih.list ctx d s1 body hq
        · exact ih.elifs ctx d s1 rest els hq
      | outOfFuel => right; rfl
      | break_ dv => right; rfl

theorem reach_loopStep {L : Nat} {r : Res} (h : Reach (L+1) r) :
    ∃ r', loopStep r = .out r' ∧ Reach L r' := by
  cases r with
  | break_ dv =>
    cases dv with
    | break_ k => cases k with
      | zero => simp [Reach] at h
      | succ k => exact ⟨_, rfl, by simp [Reach] at h ⊢; omega⟩
    | continue_ k => cases k with
      | zero => simp [Reach] at h
      | succ k => exact ⟨_, rfl, by simp [Reach] at h ⊢; omega⟩
    | _ => simp [Reach] at h
  | _ => simp [Reach] at h

theorem irr_for (fuel : Nat) (ih : Irr fuel) (ctx : Ctx) (d : Nat) (s : St) (n : Nat) (b : List Item)
    (hq : ctx.quiet = true) :
    IrrP ctx.loops (specFor (fuel+1) (ctx.more d) s n b) (specFor (fuel+1) ctx s n b) := by
  cases n with
  | zero => right; simp [specFor]
  | succ n =>
    simp only [specFor, more_inLoop]
    rcases ih.list ctx.inLoop d s b hq with h | h
    · left
      obtain ⟨r', hl, hr⟩ := reach_loopStep h
      simp only [hl]
      exact hr
    · simp only [h]
      generalize specList fuel ctx.inLoop s b = x
      obtain ⟨s1, r0⟩ := x
      simp only
      cases hls : loopStep r0 with
      | stop => right; rfl
      | out r => right; rfl
      | next => exact ih.for_ ctx d s1 n b hq

theorem irr_case (fuel : Nat) (ih : Irr fuel) (ctx : Ctx) (d : Nat) (s : St)
    (items : List (Bool × Bool × List Item × CaseCont)) (f u : Bool) (hq : ctx.quiet = true) :
    Reach ctx.loops (specCase (fuel+1) (ctx.more d) s items f u).2.1 ∨
      specCase (fuel+1) (ctx.more d) s items f u = specCase (fuel+1) ctx s items f u := by
  cases items with
  | nil => right; simp [specCase]
  | cons it rest =>
    obtain ⟨m, e, body, k⟩ := it
    simp only [specCase, expansionErrorS_more]
    split
    · right; rfl
    · split
      · exact ih.case_ ctx d s rest false u hq
      · rcases ih.list ctx d s body hq with h | h
        · left
          obtain ⟨dv, hd⟩ := reach_cases h
          rw [hd] at h
          simp only [hd]
          exact h
        · simp only [h]
          generalize specList fuel ctx s body = x
          obtain ⟨s1, r0⟩ := x
          cases r0 with
          | continue_ =>
            simp only
            cases k with
            | break_ => right; rfl
            | fallThrough => exact ih.case_ ctx d s1 rest true _ hq
            | continue_ => exact ih.case_ ctx d s1 rest false _ hq
          | outOfFuel => right; rfl
          | break_ dv => right; rfl

theorem irr_while (fuel : Nat) (ih : Irr fuel) (ctx : Ctx) (d : Nat) (s : St) (u : Bool) (c b : List Item) (e : Nat)
    (hq : ctx.quiet = true) :
    Reach ctx.loops (specWhile (fuel+1) (ctx.more d) s u c b e).2.1 ∨
      specWhile (fuel+1) (ctx.more d) s u c b e = specWhile (fuel+1) ctx s u c b e := by
  simp only [specWhile, more_inLoop, more_cond]
  rcases ih.list ctx.inLoop.cond d s c hq with h | h
  · left
    obtain ⟨r', hl, hr⟩ := reach_loopStep (L := ctx.loops) h
    simp only [hl]
    exact hr
  · simp only [h]
    generalize specList fuel ctx.inLoop.cond s c = x
    obtain ⟨s1, r0⟩ := x
    simp only
    cases hls : loopStep r0 with
    | stop => right; rfl
    | out r => right; rfl
    | next =>
      simp only
      have hnext : r0 = .continue_ ∨ r0 = .break_ (.continue_ 0) := by
        cases r0 with
        | continue_ => left; rfl
        | outOfFuel => simp [loopStep] at hls
        | break_ dv =>
          cases dv with
          | continue_ k => cases k <;> simp_all [loopStep]
          | break_ k => cases k <;> simp [loopStep] at hls
          | _ => simp [loopStep] at hls
      rcases hnext with h0 | h0
      · subst h0
        simp only
        split
        · rcases ih.list ctx.inLoop d s1 b hq with h2 | h2
          · left
            obtain ⟨r', hl, hr⟩ := reach_loopStep (L := ctx.loops) h2
            simp only [hl]
            exact hr
          · simp only [h2]
            generalize specList fuel ctx.inLoop s1 b = y
            obtain ⟨s2, r2⟩ := y
            simp only
            cases hls2 : loopStep r2 with
            | stop => right; rfl
            | out r => right; rfl
            | next =>
              simp only
              cases r2 with
              | continue_ => exact ih.while_ ctx d s2 u c b _ hq
              | outOfFuel => simp [loopStep] at hls2
              | break_ dv =>
                cases dv with
                | continue_ k =>
                  cases k with
                  | zero => exact ih.while_ ctx d s2 u c b _ hq
                  | succ k => simp [loopStep] at hls2
                | break_ k => cases k <;> simp [loopStep] at hls2
                | _ => simp [loopStep] at hls2
        · right; rfl
      · subst h0
        exact ih.while_ ctx d s1 u c b e hq

theorem breakS_irr (ctx : Ctx) (d n : Nat) (isBreak : Bool) :
    Reach ctx.loops (breakS (ctx.more d) n isBreak).2 ∨ breakS (ctx.more d) n isBreak = breakS ctx n isBreak := by
  by_cases hn : n ≤ ctx.loops
  · right
    have h1 : min n (ctx.more d).loops = n := by simp only [more_loops]; omega
    have h2 : min n ctx.loops = n := by omega
    simp only [breakS, h1, h2]
  · by_cases hd : d = 0
    · right; subst hd; rfl
    · left
      have hm : ¬ min n (ctx.more d).loops = 0 := by simp only [more_loops]; omega
      have hk : ctx.loops ≤ min n (ctx.more d).loops - 1 := by simp only [more_loops]; omega
      simp only [breakS, hm, if_false]
      cases isBreak <;> simpa [Reach] using hk

theorem irr_cmd (fuel : Nat) (ih : Irr fuel) (ctx : Ctx) (d : Nat) (s : St) (c : Cmd) (hq : ctx.quiet = true) :
    IrrP ctx.loops (specCmd (fuel+1) (ctx.more d) s c) (specCmd (fuel+1) ctx s c) := by
  cases c with
  | brk n =>
    simp only [specCmd]
    rcases breakS_irr ctx d n true with h | h
    · left
      obtain ⟨dv, hd⟩ := reach_cases h
      rw [hd] at h
      simp only [hd, afterSimple]
      exact h
    · right; simp only [h, afterSimple_more]
  | cont n =>
    simp only [specCmd]
    rcases breakS_irr ctx d n false with h | h
    · left
      obtain ⟨dv, hd⟩ := reach_cases h
      rw [hd] at h
      simp only [hd, afterSimple]
      exact h
    · right; simp only [h, afterSimple_more]
  | group body => simp only [specCmd]; exact ih.list ctx d s body hq
  | subshell body => right; simp only [specCmd, more_sub, errexitS_more]
  | asyncWait body => right; simp only [specCmd, more_sub, errexitS_more]
  | call name nargs =>
    simp only [specCmd]
    cases classify s name with
    | function body =>
      simp only
      rcases ih.cmd ctx d { s with params := nargs } body hq with h | h
      · left
        obtain ⟨dv, hd⟩ := reach_cases h
        generalize specCmd fuel (ctx.more d) { s with params := nargs } body = x at h hd ⊢
        obtain ⟨s1, r0⟩ := x
        simp only at hd h ⊢
        subst hd
        cases dv with
        | return_ e => simp [Reach] at h
        | _ => simpa [afterSimple] using h
      · right; simp only [h, afterSimple_more]
    | _ => right; simp only [afterSimple_more]
  | ifc cond body elifs els =>
    simp only [specCmd, more_cond]
    rcases ih.list ctx.cond d s cond hq with h | h
    · left
      obtain ⟨dv, hd⟩ := reach_cases h
      rw [hd] at h
      simp only [hd]
      exact h
    · simp only [h]
      generalize specList fuel ctx.cond s cond = x
      obtain ⟨s1, r0⟩ := x
      cases r0 with
      | continue_ =>
        simp only
        split
        · exact ih.list ctx d s1 body hq
        · exact ih.elifs ctx d s1 elifs els hq
      | outOfFuel => right; rfl
      | break_ dv => right; rfl
  | whileLoop u cond body =>
    simp only [specCmd]
    rcases ih.while_ ctx d s u cond body 0 hq with h | h
    · left
      obtain ⟨dv, hd⟩ := reach_cases h
      generalize specWhile fuel (ctx.more d) s u cond body 0 = x at h hd ⊢
      obtain ⟨s1, r0, e⟩ := x
      simp only at hd h ⊢
      subst hd
      exact h
    · right; simp only [h]
  | forLoop values body =>
    simp only [specCmd]
    split
    · right; rfl
    · exact ih.for_ ctx d s values body hq
  | forPos body =>
    simp only [specCmd]
    split
    · right; rfl
    · exact ih.for_ ctx d s s.params body hq
  | caseC items =>
    simp only [specCmd]
    rcases ih.case_ ctx d s items false false hq with h | h
    · left
      obtain ⟨dv, hd⟩ := reach_cases h
      generalize specCase fuel (ctx.more d) s items false false = x at h hd ⊢
      obtain ⟨s1, r0, u⟩ := x
      simp only at hd h ⊢
      subst hd
      exact h
    · right; simp only [h]
  | tick c k => right; simp only [specCmd, afterSimple_more]
  | freeze name => right; simp only [specCmd, afterSimple_more]
  | fundef name body => right; simp only [specCmd, afterSimple_more]
  | redirErr k => right; simp only [specCmd, errexitS_more]
  | _ => right; simp only [specCmd, afterSimple_more, expansionErrorS_more]

theorem irr_zero : Irr 0 := by
  refine ⟨?_, ?_, ?_, ?_, ?_, ?_, ?_, ?_, ?_, ?_⟩ <;> intros <;> right <;>
    simp [specCmd, specList, specItem, specAndOrRest, specPipeline, specCommands, specElifs, specFor, specCase, specWhile]

theorem irr : ∀ fuel, Irr fuel
  | 0 => irr_zero
  | fuel+1 =>
    have ih := irr fuel
    ⟨fun ctx d s c hq => irr_cmd fuel ih ctx d s c hq, fun ctx d s l hq => irr_list fuel ih ctx d s l hq,
     fun ctx d s i hq => irr_item fuel ih ctx d s i hq, fun ctx d s r hq => irr_aor fuel ih ctx d s r hq,
     fun ctx d s p hq => irr_pipe fuel ih ctx d s p hq, fun ctx d s cs hq => irr_cmds fuel ih ctx d s cs hq,
     fun ctx d s e els hq => irr_elifs fuel ih ctx d s e els hq, fun ctx d s n b hq => irr_for fuel ih ctx d s n b hq,
     fun ctx d s items f u hq => irr_case fuel ih ctx d s items f u hq,
     fun ctx d s u c b e hq => irr_while fuel ih ctx d s u c b e hq⟩

end YashModel.Exec
