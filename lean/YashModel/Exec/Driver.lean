/-
  The per-line function shared by the C02 and C10 drivers.
  Case line: `<seed> <script as S-expression>`; the seed only drives the harness's surface rendering
  and is ignored here.  Output: `trace=<m:$?,…> status=<n>` from the Impl model, and the Spec's
  prediction `=trace=… status=…` in the second column.
-/
import YashModel.Exec.Model
import YashModel.Exec.Sexp
import YashModel.Exec.Spec
namespace YashModel.Exec

def showOutcome (s : St) (r : Res) : String :=
  match r with
  | .outOfFuel => s!"FUEL trace={showTrace s.trace}"
  | _ => s!"trace={showTrace s.trace} status={s.status}"

def runLine (line : String) : String :=
  match tokenize line with
  | _seed :: toks =>
    match parseSx toks with
    | some (sx, []) =>
      match toScript sx with
      | none => "bad-case\t-"
      | some script =>
        let (s, r) := runShell 100000 {} script
        let (s', r') := specShell 100000 {} script
        let spec := match r' with
          | .outOfFuel => "-"
          | _ => "=" ++ showOutcome s' r'
        showOutcome s r ++ "\t" ++ spec
    | _ => "bad-case\t-"
  | [] => "bad-case\t-"

end YashModel.Exec
