/-
  The per-line function shared by the C02 and C10 drivers.
  Case line: `<seed> <script as S-expression>`; the seed only drives the harness's surface rendering
  and is ignored here.  Output: `trace=<m:$?,…> status=<n>`.
-/
import YashModel.Exec.Model
import YashModel.Exec.Sexp
namespace YashModel.Exec

def runLine (line : String) : String :=
  match tokenize line with
  | _seed :: toks =>
    match parseSx toks with
    | some (sx, []) =>
      match toScript sx with
      | none => "bad-case\t-"
      | some script =>
        let (s, r) := runShell 100000 {} script
        match r with
        | .outOfFuel => s!"FUEL trace={showTrace s.trace}\t-"
        | _ => s!"trace={showTrace s.trace} status={s.status}\t-"
    | _ => "bad-case\t-"
  | [] => "bad-case\t-"

end YashModel.Exec
