/-
  The per-line function shared by the C02 and C10 drivers.
  Case line: `<seed> <script as S-expression>`; the seed only drives the harness's surface rendering
  and is ignored here.  Output: `trace=<m:$?,…> status=<n>` from the Impl model, and the Spec's
  prediction `=trace=… status=…` in the second column.
-/
import YashModel.Exec.Model
import YashModel.Exec.Sexp
import YashModel.Exec.Spec
import YashModel.Exec.SearchDriver
import YashModel.Exec.SearchEnv
namespace YashModel.Exec

def showOutcome (s : St) (r : Res) : String :=
  match r with
  | .outOfFuel => s!"FUEL trace={showTrace s.trace}"
  | _ => s!"trace={showTrace s.trace} status={s.status}"

def Frame.letter : Frame → Char
  | .loop => 'L' | .subshell => 'S' | .condition => 'C' | .builtin _ => 'B'
  | .dotScript => 'D' | .trap => 'T' | .initFile => 'I'

/-- the state the shell is left in, as `prog.rs::end_state` prints it from the real `Env`: option
    flags, number of positional parameters, functions (`!` = read-only) and tick counters in sorted
    order, and the frames still on the stack (bottom first) -/
def showEnd (s : St) : String :=
  let b (x : Bool) : String := if x then "1" else "0"
  let fns := (s.funcs.map fun p =>
    String.ofList (nameStr p.1) ++ (if s.roFuncs.contains p.1 then "!" else "")).mergeSort (fun a b => decide (a ≤ b))
  let ts := (s.counters.mergeSort (fun a b => decide (a.1 ≤ b.1))).map fun (c, v) => s!"{c}:{v}"
  s!"e{b s.errexit}m{b s.monitor}p{b s.pipefail}#{s.params};fn={",".intercalate fns};t={",".intercalate ts};" ++
    s!"stk={String.ofList (s.stack.reverse.map Frame.letter)}"

def showOutcomeWith (full : Bool) (s : St) (r : Res) : String :=
  match r with
  | .outOfFuel => showOutcome s r
  | _ => if full then showOutcome s r ++ " end=" ++ showEnd s else showOutcome s r

/-- `full`: also print the final state (C02's driver; C10's compares trace and status only) -/
def runLineWith (full : Bool) (line : String) : String :=
  match tokenize line with
  | "search" :: _ => Search.runLine ((line.splitOn " ").drop 1)
  | _seed :: toks =>
    match parseSx toks with
    | some (sx, []) =>
      match toScript sx with
      | none => "bad-case\t-"
      | some script =>
        let (s, r) := runShell 100000 {} script
        let (s', r') := specShell 100000 {} script
        let spec := match r' with
          | .outOfFuel => "-"
          | _ => "=" ++ showOutcomeWith full s' r'
        showOutcomeWith full s r ++ "\t" ++ spec
    | _ => "bad-case\t-"
  | [] => "bad-case\t-"

def runLine (line : String) : String := runLineWith false line

def runLineFull (line : String) : String := runLineWith true line

end YashModel.Exec
