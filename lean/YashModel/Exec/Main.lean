/- Driver for C02 (see `Exec/Driver.lean`). -/
import YashModel.Common.Proto
import YashModel.Exec.Driver
def main : IO Unit := YashModel.Proto.mainLoop YashModel.Exec.runLineFull
