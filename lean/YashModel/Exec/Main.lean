/- Driver for C02 (see `Exec/Driver.lean`; the `bi`/`dv` families of wave 3: `Exec/BuiltinDriver.lean`). -/
import YashModel.Common.Proto
import YashModel.Exec.Driver
import YashModel.Exec.BuiltinDriver
def main : IO Unit := YashModel.Proto.mainLoop fun line =>
  (YashModel.Exec.Builtins.runLine? line).getD (YashModel.Exec.runLineFull line)
