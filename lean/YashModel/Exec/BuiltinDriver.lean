/-
  Driver side of the two wave-3 case families of c02 (formats in harness/src/bin/c02.rs):

  `bi <break|continue|return|exit> <portable 0|1> <$?> <stack, top first: L S C B b D T I, or .> <args: hex,… or .>`
      the real built-in `main` called on an `Env` with that frame stack, `$?` and option; model observation
      `p=<operand parse of break/continue> lc=<loop_count(1)>.<loop_count(2)>.<loop_count(usize::MAX)>
       cb=<current_builtin().is_special> st=<exit status> dv=<divert>` from `Exec/Builtins.lean`.
  `dv <a> <b>`: `Ord for Divert` — `cmp=<lt|eq|gt> max=<a.max(b)>` from `Divert.le` / `Divert.max`.
-/
import YashModel.Common.Proto
import YashModel.Exec.Builtins
import YashModel.Exec.Identify
import YashModel.Exec.SearchDriver
import YashModel.Exec.ReadEval
import YashModel.Exec.Sexp
namespace YashModel.Exec.Builtins
open YashModel.Proto

def frameOf : Char → Option Frame
  | 'L' => some .loop | 'S' => some .subshell | 'C' => some .condition | 'B' => some (.builtin true)
  | 'b' => some (.builtin false) | 'D' => some .dotScript | 'T' => some .trap | 'I' => some .initFile
  | _ => none

def decStack (t : String) : Option (List Frame) :=
  if t = "." then some [] else t.toList.mapM frameOf

def decArgs (t : String) : Option (List Str) :=
  if t = "." then some [] else (t.splitOn ",").mapM decChars

def showOpt : Option Nat → String
  | none => "-"
  | some n => toString n

def showDivert : Divert → String
  | .continue_ n => s!"Ct{n}" | .break_ n => s!"Bk{n}" | .return_ e => s!"R{showOpt e}"
  | .interrupt e => s!"I{showOpt e}" | .exit e => s!"X{showOpt e}" | .abort e => s!"A{showOpt e}"

def showRes : Res → String
  | .continue_ => "C"
  | .break_ d => showDivert d
  | .outOfFuel => "FUEL"

def IntErr.name : IntErr → String
  | .empty => "Empty" | .invalidDigit => "InvalidDigit" | .posOverflow => "PosOverflow"
  | .negOverflow => "NegOverflow" | .zero => "Zero"

def showBreakParse : Except BreakSyntaxError Nat → String
  | .ok n => s!"ok{n}"
  | .error (.common _) => "opt"
  | .error .tooManyOperands => "many"
  | .error (.invalidNumber e) => s!"num:{e.name}"

def decOpt (t : String) : Option (Option Nat) :=
  if t = "-" then some none else t.toNat?.map some

def decDivert (t : String) : Option Divert :=
  match t.toList with
  | 'C' :: 't' :: n => (String.ofList n).toNat?.map Divert.continue_
  | 'B' :: 'k' :: n => (String.ofList n).toNat?.map Divert.break_
  | 'R' :: e => (decOpt (String.ofList e)).map Divert.return_
  | 'I' :: e => (decOpt (String.ofList e)).map Divert.interrupt
  | 'X' :: e => (decOpt (String.ofList e)).map Divert.exit
  | 'A' :: e => (decOpt (String.ofList e)).map Divert.abort
  | _ => none

def decGuard (t : String) : ExitGuard :=
  match t.toList with
  | [i, x, c, j] => { interactive := i == '1', posix := x == '1', configured := c == '1', stoppedJob := j == '1' }
  | _ => {}

def runBiG (which portable status stack args guard : String) : String :=
    match decStack stack, decArgs args, status.toNat? with
    | some stk, some as, some st =>
      let p := portable = "1"
      let res : Option (String × BResult) :=
        match which with
        | "break" => some (showBreakParse (breakParse p as), breakMain true p stk as)
        | "continue" => some (showBreakParse (breakParse p as), breakMain false p stk as)
        | "return" => some ("-", returnMain p stk st as)
        | "exit" => some ("-", exitMainG (decGuard guard) p stk st as)
        | _ => none
      match res with
      | none => "bad-case\t-"
      | some (ps, r) =>
        let cb := match currentBuiltin stk with | none => "-" | some true => "1" | some false => "0"
        s!"p={ps} lc={loopCountChain stk 1}.{loopCountChain stk 2}.{loopCountChain stk usizeMax} cb={cb} " ++
          s!"st={r.exitStatus} dv={showRes r.divert}\t-"
    | _, _, _ => "bad-case\t-"

/-- the optional sixth token `<interactive><posixlycorrect><guard configured><a job is stopped>` (four 0/1 digits)
    sets up the suspended-jobs guard of `exit`; absent = `0000` -/
def runBi (toks : List String) : String :=
  match toks with
  | [which, portable, status, stack, args] => runBiG which portable status stack args "0000"
  | [which, portable, status, stack, args, guard] => runBiG which portable status stack args guard
  | _ => "bad-case\t-"

def runDv (toks : List String) : String :=
  match toks with
  | [a, b] =>
    match decDivert a, decDivert b with
    | some x, some y =>
      let c := if x.le y then (if y.le x then "eq" else "lt") else "gt"
      let showR (r : BResult) : String := s!"{r.exitStatus}:{showRes r.divert}"
      let ra : BResult := ⟨1, .break_ x⟩
      let rb : BResult := ⟨0, .break_ y⟩
      let plain : BResult := ⟨2, .continue_⟩
      s!"cmp={c} max={showDivert (x.max y)} es={showOpt x.exitStatus}/{showOpt y.exitStatus} " ++
        s!"rm={showR (ra.max plain)}/{showR (plain.max ra)}/{showR (ra.max rb)}\t-"
    | _, _ => "bad-case\t-"
  | _ => "bad-case\t-"

/-- `id <v|V> <aliases: name=replacement in hex, comma separated, or .> <the six tokens of a search case>`:
    `out=<hex of the line printed, or ->` for `v`, `kind=<class>` for `V` (= `type`), then `st=<exit status>` -/
def showKind : Identify.Kind → String
  | .keyword => "keyword" | .alias => "alias" | .function => "function" | .external => "external"
  | .builtin t => s!"builtin-{Search.BType.letter t}"

def decAliases (t : String) : Option (List (Str × Str)) :=
  if t = "." then some []
  else (t.splitOn ",").mapM fun a =>
    match a.splitOn "=" with
    | [n, r] => do pure (← decChars n, ← decChars r)
    | _ => none

def runId (toks : List String) : String :=
  match toks with
  | mode :: als :: rest =>
    match decAliases als, Search.parseEnv rest with
    | some aliases, some (env, name) =>
      let (c, st) := Identify.identify { env := env, aliases := aliases } name
      let body := match mode, c with
        | "v", some c => s!"out={encChars (Identify.describeShort name c)}"
        | "v", none => "out=-"
        | _, some c => s!"kind={showKind c.kind}"
        | _, none => "kind=-"
      s!"{body} st={st}\t-"
    | _, _ => "bad-case\t-"
  | _ => "bad-case\t-"

/-- `rel <initial $?> <line codes>`: the read-eval loop entered with that `$?` on a script of one line per code —
    `c` comment only, `b` blank, a digit d `st d`, `p` `probe 1`, `e` `eval '# comment'`, `E` `eval ''`, `g` `eval 'st 6'`,
    `d` `. /dot_c` (a file of comments and blank lines), `D` `. /dot_s` (comment, `st 7`, comment, blank).  `eval` and `.`
    run the same loop on their text with `executed = false`. -/
def relLines (codes : List Char) : List Line :=
  let it (c : Cmd) : Item := .mk (.mk false [c]) []
  let inner (ls : List Line) : Cmd := .st (readEvalLoop 20 { status := 1 } ls false).1.status
  codes.map fun ch =>
    if ch == 'c' || ch == 'b' then .cmds []
    else if ch == 'p' then .cmds [it (.probe 1)]
    else if ch == 'e' || ch == 'E' || ch == 'd' then .cmds [it (inner [.cmds []])]
    else if ch == 'g' then .cmds [it (inner [.cmds [it (.st 6)]])]
    else if ch == 'D' then .cmds [it (inner [.cmds [], .cmds [it (.st 7)], .cmds [], .cmds []])]
    else .cmds [it (.st (ch.toNat - 48))]

def runRel (toks : List String) : String :=
  match toks with
  | [init, codes] =>
    match init.toNat? with
    | some st0 =>
      let codes := if codes = "." then [] else codes.toList
      let (s, _) := readEvalLoop 1000 { status := st0 } (relLines codes) false
      s!"trace={showTrace s.trace} st={s.status}\t-"
    | none => "bad-case\t-"
  | _ => "bad-case\t-"

/-- the lines of the wave-3 families; `none` = not one of them -/
def runLine? (line : String) : Option String :=
  match line.splitOn " " with
  | "bi" :: toks => some (runBi toks)
  | "dv" :: toks => some (runDv toks)
  | "id" :: toks => some (runId toks)
  | "rel" :: toks => some (runRel toks)
  | _ => none

end YashModel.Exec.Builtins
