/-
  C02/C10 helper: the Impl model (frame stack, push/pop) refines the Spec (contexts): a relational
  induction on fuel over the 11 mutually recursive execution functions.
-/
import YashModel.Exec.Escape
import YashModel.Exec.Spec
namespace YashModel.Exec

/-- the Spec context that a frame stack stands for -/
def ctxOf (stack : List Frame) : Ctx :=
  ⟨loops stack, stack.contains .condition, stack.contains .trap || stack.contains .subshell⟩

/-- `b` is `a` except possibly for the frame stack (which the Spec never looks at) -/
def SameButStack (a b : St) : Prop := ∃ st, b = { a with stack := st }

def RelS (x y : St × Res) : Prop := SameButStack x.1 y.1 ∧ x.2 = y.2

theorem sbs_refl (s : St) : SameButStack s s := ⟨s.stack, rfl⟩
theorem relS_mk {a b : St} {r : Res} (h : SameButStack a b) : RelS (a, r) (b, r) := ⟨h, rfl⟩

theorem sbs_push {a b : St} (h : SameButStack a b) (f : Frame) : SameButStack (a.push f) b := by
  obtain ⟨st, rfl⟩ := h; exact ⟨st, rfl⟩
theorem sbs_pop {a b : St} (h : SameButStack a b) : SameButStack a.pop b := by
  obtain ⟨st, rfl⟩ := h; exact ⟨st, rfl⟩

theorem relS_cases {x y : St × Res} (h : RelS x y) :
    ∃ s1 r st, x = (s1, r) ∧ y = ({ s1 with stack := st }, r) := by
  obtain ⟨s1, r⟩ := x
  obtain ⟨s1', r'⟩ := y
  obtain ⟨⟨st, he⟩, hr⟩ := h
  simp only at he hr
  subst he hr
  exact ⟨s1, r, st, rfl, rfl⟩

@[simp] theorem ctxOf_condition (st : List Frame) : ctxOf (.condition :: st) = (ctxOf st).cond := by
  simp [ctxOf, Ctx.cond]
@[simp] theorem ctxOf_loop (st : List Frame) : ctxOf (.loop :: st) = (ctxOf st).inLoop := by
  simp [ctxOf, Ctx.inLoop]; omega
@[simp] theorem ctxOf_subshell (st : List Frame) : ctxOf (.subshell :: st) = (ctxOf st).sub := by
  simp [ctxOf, Ctx.sub]
@[simp] theorem ctxOf_trapFrame (st : List Frame) : ctxOf (.trap :: st) = (ctxOf st).trap := by
  simp [ctxOf, Ctx.trap]

theorem trapDue_eq (s : St) (st : List Frame) :
    s.trapDue = trapDueS (ctxOf s.stack) { s with stack := st } := by
  unfold St.trapDue trapDueS ctxOf
  cases s.pending <;> cases s.stack.contains .trap <;> cases s.stack.contains .subshell <;> simp

theorem finishPoll_sbs {a b : St} (h : SameButStack a b) (p : Nat) (r t : Res) :
    RelS (finishPoll p a r t) (finishPoll p b r t) := by
  obtain ⟨st, rfl⟩ := h
  unfold finishPoll
  cases t with
  | continue_ => cases r <;> exact relS_mk ⟨st, rfl⟩
  | outOfFuel => cases r <;> exact relS_mk ⟨st, rfl⟩
  | break_ d =>
    cases d with
    | interrupt x => cases x <;> cases r <;> exact relS_mk ⟨st, rfl⟩
    | continue_ n => cases r <;> exact relS_mk ⟨st, rfl⟩
    | break_ n => cases r <;> exact relS_mk ⟨st, rfl⟩
    | return_ x => cases r <;> exact relS_mk ⟨st, rfl⟩
    | exit x => cases r <;> exact relS_mk ⟨st, rfl⟩
    | abort x => cases r <;> exact relS_mk ⟨st, rfl⟩

theorem ctxOf_cond_loops (st : List Frame) : (ctxOf st).cond.loops = (ctxOf st).loops := rfl

theorem applyErrexit_eq (s : St) (st : List Frame) :
    s.applyErrexit = errexitS (ctxOf s.stack) { s with stack := st } := by
  unfold St.applyErrexit St.errexitApplicable errexitS ctxOf
  cases h1 : s.errexit <;> cases h2 : s.stack.contains .condition <;> simp [h1, h2]

theorem expansionError_eq (s : St) (st : List Frame) :
    s.expansionError = expansionErrorS (ctxOf s.stack) { s with stack := st } := by
  unfold St.expansionError St.errexitApplicable expansionErrorS ctxOf
  cases h1 : s.errexit <;> cases h2 : s.stack.contains .condition <;> simp [h1, h2]

theorem breakBuiltin_eq (stack : List Frame) (n : Nat) (b : Bool) :
    breakBuiltin (.builtin true :: stack) n b = breakS (ctxOf stack) n b := by
  unfold breakBuiltin breakS ctxOf
  simp only [loopCount_eq_min, loops_builtin]

theorem relS_finish (a : St) (st : List Frame) (ctx : Ctx) (hctx : ctx = ctxOf a.stack) (r : Res) :
    RelS (finishSimple a r) (afterSimple ctx { a with stack := st } r) := by
  subst hctx
  unfold finishSimple afterSimple
  cases r with
  | continue_ => simp only; rw [applyErrexit_eq a st]; exact relS_mk ⟨st, rfl⟩
  | break_ d => exact relS_mk ⟨st, rfl⟩
  | outOfFuel => exact relS_mk ⟨st, rfl⟩

theorem classify_stack (s : St) (st : List Frame) (n : Name) :
    classify { s with stack := st } n = classify s n := by
  cases n <;> rfl

theorem applyResult_stack' (c : St) (st : List Frame) (r : Res) :
    ({ c with stack := st } : St).applyResult r = { c.applyResult r with stack := st } := by
  unfold St.applyResult
  split
  · split <;> rfl
  · rfl

structure Ref (fuel : Nat) : Prop where
  cmd : ∀ s s' c, SameButStack s s' → RelS (execCmd fuel s c) (specCmd fuel (ctxOf s.stack) s' c)
  elifs : ∀ s s' e els, SameButStack s s' →
    RelS (execElifs fuel s e els) (specElifs fuel (ctxOf s.stack) s' e els)
  while_ : ∀ s s' u c b e st, SameButStack s s' → s.stack = .loop :: st →
    SameButStack (execWhile fuel s u c b e).1 (specWhile fuel (ctxOf st) s' u c b e).1 ∧
    (execWhile fuel s u c b e).2 = (specWhile fuel (ctxOf st) s' u c b e).2
  for_ : ∀ s s' n b st, SameButStack s s' → s.stack = .loop :: st →
    RelS (execFor fuel s n b) (specFor fuel (ctxOf st) s' n b)
  case_ : ∀ s s' items f u, SameButStack s s' →
    SameButStack (execCase fuel s items f u).1 (specCase fuel (ctxOf s.stack) s' items f u).1 ∧
    (execCase fuel s items f u).2 = (specCase fuel (ctxOf s.stack) s' items f u).2
  list : ∀ s s' l, SameButStack s s' → RelS (execList fuel s l) (specList fuel (ctxOf s.stack) s' l)
  item : ∀ s s' i, SameButStack s s' → RelS (execItem fuel s i) (specItem fuel (ctxOf s.stack) s' i)
  aor : ∀ s s' r st, SameButStack s s' → s.stack = .condition :: st →
    RelS (execAndOrRest fuel s r) (specAndOrRest fuel (ctxOf st) s' r)
  pipe : ∀ s s' p, SameButStack s s' → RelS (execPipeline fuel s p) (specPipeline fuel (ctxOf s.stack) s' p)
  cmds : ∀ s s' cs, SameButStack s s' → RelS (execCommands fuel s cs) (specCommands fuel (ctxOf s.stack) s' cs)
  members : ∀ s s' cs f, SameButStack s s' →
    RelS (execPipeMembers fuel s cs f) (specPipeMembers fuel (ctxOf s.stack) s' cs f)

theorem ref_zero : Ref 0 := by
  refine ⟨?_, ?_, ?_, ?_, ?_, ?_, ?_, ?_, ?_, ?_, ?_⟩
  · intro s s' c h; simp only [execCmd, specCmd]; exact ⟨h, rfl⟩
  · intro s s' e els h; simp only [execElifs, specElifs]; exact ⟨h, rfl⟩
  · intro s s' u c b e st h _; simp only [execWhile, specWhile]; exact ⟨h, trivial⟩
  · intro s s' n b st h _; simp only [execFor, specFor]; exact ⟨h, rfl⟩
  · intro s s' items f u h; simp only [execCase, specCase]; exact ⟨h, trivial⟩
  · intro s s' l h; simp only [execList, specList]; exact ⟨h, rfl⟩
  · intro s s' i h; simp only [execItem, specItem]; exact ⟨h, rfl⟩
  · intro s s' r st h _; simp only [execAndOrRest, specAndOrRest]; exact ⟨sbs_pop h, rfl⟩
  · intro s s' p h; simp only [execPipeline, specPipeline]; exact ⟨h, rfl⟩
  · intro s s' cs h; simp only [execCommands, specCommands]; exact ⟨h, rfl⟩
  · intro s s' cs f h; simp only [execPipeMembers, specPipeMembers]; exact ⟨h, rfl⟩

theorem ref_list (fuel : Nat) (ih : Ref fuel) :
    ∀ s s' l, SameButStack s s' → RelS (execList (fuel+1) s l) (specList (fuel+1) (ctxOf s.stack) s' l) := by
  intro s s' l h
  cases l with
  | nil => simp only [execList, specList]; exact relS_mk h
  | cons it rest =>
    simp only [execList, specList]
    have b1 := (bal fuel).item s it
    obtain ⟨s1, r, st1, hx, hy⟩ := relS_cases (ih.item s s' it h)
    rw [hx] at b1
    rw [hx, hy]
    simp only at b1
    cases r with
    | continue_ =>
      have := ih.list s1 { s1 with stack := st1 } rest ⟨st1, rfl⟩
      rw [b1] at this; exact this
    | break_ d => exact relS_mk ⟨st1, rfl⟩
    | outOfFuel => exact relS_mk ⟨st1, rfl⟩

theorem ref_item (fuel : Nat) (ih : Ref fuel) :
    ∀ s s' i, SameButStack s s' → RelS (execItem (fuel+1) s i) (specItem (fuel+1) (ctxOf s.stack) s' i) := by
  intro s s' i h
  obtain ⟨first, rest⟩ := i
  cases rest with
  | nil => simp only [execItem, specItem]; exact ih.pipe s s' first h
  | cons a t =>
    simp only [execItem, specItem]
    have b1 := (bal fuel).pipe (s.push .condition) first
    have h1 := ih.pipe (s.push .condition) s' first (sbs_push h _)
    simp only [push_stack, ctxOf_condition] at h1
    obtain ⟨s1, r, st1, hx, hy⟩ := relS_cases h1
    rw [hx] at b1
    rw [hx, hy]
    simp only [push_stack] at b1
    cases r with
    | continue_ => exact ih.aor s1 _ (a :: t) s.stack ⟨st1, rfl⟩ b1
    | break_ d => exact relS_mk (sbs_pop ⟨st1, rfl⟩)
    | outOfFuel => exact relS_mk (sbs_pop ⟨st1, rfl⟩)

theorem ref_aor (fuel : Nat) (ih : Ref fuel) :
    ∀ s s' r st, SameButStack s s' → s.stack = .condition :: st →
      RelS (execAndOrRest (fuel+1) s r) (specAndOrRest (fuel+1) (ctxOf st) s' r) := by
  intro s s' r st h hst
  obtain ⟨st0, rfl⟩ := h
  match r with
  | [] => simp only [execAndOrRest, specAndOrRest]; exact relS_mk ⟨st0, rfl⟩
  | [(a, p)] =>
    simp only [execAndOrRest, specAndOrRest]
    by_cases hc : (s.pop.status = 0) = (a = true)
    · have hc' : (({ s with stack := st0 } : St).status = 0) = (a = true) := hc
      rw [if_pos hc, if_pos hc']
      have := ih.pipe s.pop { s with stack := st0 } p ⟨st0, rfl⟩
      simp only [pop_stack, hst, List.tail_cons] at this
      exact this
    · have hc' : ¬ (({ s with stack := st0 } : St).status = 0) = (a = true) := hc
      rw [if_neg hc, if_neg hc']
      exact relS_mk ⟨st0, rfl⟩
  | (a, p) :: b :: t =>
    simp only [execAndOrRest, specAndOrRest]
    by_cases hc : (s.status = 0) = (a = true)
    · have hc' : (({ s with stack := st0 } : St).status = 0) = (a = true) := hc
      rw [if_pos hc, if_pos hc']
      have b1 := (bal fuel).pipe s p
      have h1 := ih.pipe s { s with stack := st0 } p ⟨st0, rfl⟩
      simp only [hst, ctxOf_condition] at h1
      obtain ⟨s1, r, st1, hx, hy⟩ := relS_cases h1
      rw [hx] at b1
      rw [hx, hy]
      simp only at b1
      cases r with
      | continue_ => exact ih.aor s1 _ (b :: t) st ⟨st1, rfl⟩ (b1.trans hst)
      | break_ d => exact relS_mk (sbs_pop ⟨st1, rfl⟩)
      | outOfFuel => exact relS_mk (sbs_pop ⟨st1, rfl⟩)
    · have hc' : ¬ (({ s with stack := st0 } : St).status = 0) = (a = true) := hc
      rw [if_neg hc, if_neg hc']
      exact ih.aor s _ (b :: t) st ⟨st0, rfl⟩ hst

theorem ref_pipe (fuel : Nat) (ih : Ref fuel) :
    ∀ s s' p, SameButStack s s' →
      RelS (execPipeline (fuel+1) s p) (specPipeline (fuel+1) (ctxOf s.stack) s' p) := by
  intro s s' p h
  obtain ⟨neg, cmds⟩ := p
  simp only [execPipeline, specPipeline]
  cases neg with
  | false => simp only [Bool.not_false, if_true]; exact ih.cmds s s' cmds h
  | true =>
    simp only [Bool.not_true, Bool.false_eq_true, if_false]
    have h1 := ih.cmds (s.push .condition) s' cmds (sbs_push h _)
    simp only [push_stack, ctxOf_condition] at h1
    obtain ⟨s1, r, st1, hx, hy⟩ := relS_cases h1
    rw [hx, hy]
    cases r with
    | continue_ => exact relS_mk ⟨st1, rfl⟩
    | break_ d => exact relS_mk ⟨st1, rfl⟩
    | outOfFuel => exact relS_mk ⟨st1, rfl⟩

theorem ref_members (fuel : Nat) (ih : Ref fuel) :
    ∀ s s' cs f, SameButStack s s' →
      RelS (execPipeMembers (fuel+1) s cs f) (specPipeMembers (fuel+1) (ctxOf s.stack) s' cs f) := by
  intro s s' cs f h
  obtain ⟨st0, rfl⟩ := h
  cases cs with
  | nil => simp only [execPipeMembers, specPipeMembers]; exact relS_mk ⟨st0, rfl⟩
  | cons c rest =>
    simp only [execPipeMembers, specPipeMembers]
    have h1 := ih.cmd (s.push .subshell) { s with stack := st0 } c ⟨st0, rfl⟩
    simp only [push_stack, ctxOf_subshell] at h1
    obtain ⟨c1, r, st1, hx, hy⟩ := relS_cases h1
    rw [hx, hy]
    cases r with
    | outOfFuel => exact relS_mk ⟨st0, rfl⟩
    | continue_ =>
      simp only [St.applyResult]
      exact ih.members { s with trace := c1.trace, pending := c1.pending } _ rest _ ⟨st0, rfl⟩
    | break_ d =>
      simp only [applyResult_stack']
      exact ih.members { s with trace := (c1.applyResult (.break_ d)).trace,
                                pending := (c1.applyResult (.break_ d)).pending } _ rest _ ⟨st0, rfl⟩

/-- only `ctx.sub` matters to the members of a pipeline -/
theorem specPipeMembers_sub (fuel : Nat) : ∀ (ctx ctx' : Ctx) s cs f, ctx.sub = ctx'.sub →
    specPipeMembers fuel ctx s cs f = specPipeMembers fuel ctx' s cs f := by
  induction fuel with
  | zero => intro ctx ctx' s cs f _; simp [specPipeMembers]
  | succ n ih =>
    intro ctx ctx' s cs f h
    cases cs with
    | nil => simp [specPipeMembers]
    | cons c rest =>
      simp only [specPipeMembers, h]
      generalize specCmd n ctx'.sub s c = x
      obtain ⟨c1, r⟩ := x
      cases r with
      | outOfFuel => rfl
      | continue_ => exact ih _ _ _ _ _ h
      | break_ d => exact ih _ _ _ _ _ h

/-- the subshell around a job-controlled pipeline is invisible to the Spec context of its members -/
theorem ctxOf_enterJc_sub (s : St) : (ctxOf s.enterJc.stack).sub = (ctxOf s.stack).sub := by
  unfold St.enterJc
  split
  · simp [St.push, Ctx.sub]
  · rfl

theorem sbs_enterJc {a b : St} (h : SameButStack a b) : SameButStack a.enterJc b := by
  unfold St.enterJc
  split
  · exact sbs_push h _
  · exact h

theorem leaveJc_eq (s s1 : St) (h : s1.stack = s.enterJc.stack) : s.leaveJc s1 = { s1 with stack := s.stack } := by
  unfold St.leaveJc St.enterJc at *
  split
  · simp_all [St.push, St.pop]
  · simp_all only [Bool.not_eq_true, ite_false, Bool.false_eq_true]
    cases s1; simp_all

/-- the poll after a command refines the Spec's: same decision, the action run in the trap context -/
theorem relS_pollWith (run : St → List Item → St × Res) (runS : Ctx → St → List Item → St × Res)
    (hrun : ∀ s s' l, SameButStack s s' → RelS (run s l) (runS (ctxOf s.stack) s' l))
    (s1 : St) (st : List Frame) (r : Res) :
    RelS (pollWith run s1 r) (pollWithS runS (ctxOf s1.stack) { s1 with stack := st } r) := by
  unfold pollWith pollWithS
  rw [← trapDue_eq s1 st]
  cases r with
  | outOfFuel => exact relS_mk ⟨st, rfl⟩
  | continue_ =>
    simp only
    cases s1.trapDue with
    | none => exact relS_mk ⟨st, rfl⟩
    | some body =>
      simp only
      have h1 := hrun ({ s1 with pending := false }.push .trap) { s1 with pending := false, stack := st } body ⟨st, rfl⟩
      simp only [push_stack, ctxOf_trapFrame] at h1
      obtain ⟨s2, t, st2, hx, hy⟩ := relS_cases h1
      rw [hx, hy]
      exact finishPoll_sbs (sbs_pop ⟨st2, rfl⟩) _ _ _
  | break_ d =>
    simp only
    cases s1.trapDue with
    | none => exact relS_mk ⟨st, rfl⟩
    | some body =>
      simp only
      have h1 := hrun ({ s1 with pending := false }.push .trap) { s1 with pending := false, stack := st } body ⟨st, rfl⟩
      simp only [push_stack, ctxOf_trapFrame] at h1
      obtain ⟨s2, t, st2, hx, hy⟩ := relS_cases h1
      rw [hx, hy]
      exact finishPoll_sbs (sbs_pop ⟨st2, rfl⟩) _ _ _

theorem ref_cmds (fuel : Nat) (ih : Ref fuel) :
    ∀ s s' cs, SameButStack s s' →
      RelS (execCommands (fuel+1) s cs) (specCommands (fuel+1) (ctxOf s.stack) s' cs) := by
  intro s s' cs h
  match cs with
  | [] => simp only [execCommands, specCommands]; obtain ⟨st0, rfl⟩ := h; exact relS_mk ⟨st0, rfl⟩
  | [c] =>
    simp only [execCommands, specCommands]
    have b1 := (bal fuel).cmd s c
    obtain ⟨s1, r, st1, hx, hy⟩ := relS_cases (ih.cmd s s' c h)
    rw [hx] at b1
    rw [hx, hy]
    simp only at b1
    rw [← b1]
    exact relS_pollWith _ _ (fun a b l hab => ih.list a b l hab) s1 st1 r
  | c :: d :: t =>
    simp only [execCommands, specCommands]
    have b1 := (bal fuel).members s.enterJc (c :: d :: t) 0
    have hm := ih.members s.enterJc s' (c :: d :: t) 0 (sbs_enterJc h)
    rw [specPipeMembers_sub fuel (ctxOf s.enterJc.stack) (ctxOf s.stack) _ _ _ (ctxOf_enterJc_sub s)] at hm
    obtain ⟨s1, r, st1, hx, hy⟩ := relS_cases hm
    rw [hx] at b1
    rw [hx, hy]
    simp only at b1
    rw [leaveJc_eq s s1 b1]
    cases r with
    | continue_ =>
      simp only
      rw [applyErrexit_eq { s1 with stack := s.stack } st1]
      exact relS_mk ⟨st1, rfl⟩
    | break_ d => exact relS_mk ⟨st1, rfl⟩
    | outOfFuel => exact relS_mk ⟨st1, rfl⟩

theorem ref_elifs (fuel : Nat) (ih : Ref fuel) :
    ∀ s s' e els, SameButStack s s' →
      RelS (execElifs (fuel+1) s e els) (specElifs (fuel+1) (ctxOf s.stack) s' e els) := by
  intro s s' e els h
  cases e with
  | nil =>
    simp only [execElifs, specElifs]
    cases els with
    | none => obtain ⟨st0, rfl⟩ := h; exact relS_mk ⟨st0, rfl⟩
    | some l => exact ih.list s s' l h
  | cons cb rest =>
    obtain ⟨cond, body⟩ := cb
    simp only [execElifs, specElifs]
    have b1 := (bal fuel).list (s.push .condition) cond
    have h1 := ih.list (s.push .condition) s' cond (sbs_push h _)
    simp only [push_stack, ctxOf_condition] at h1
    obtain ⟨s1, r, st1, hx, hy⟩ := relS_cases h1
    rw [hx] at b1
    rw [hx, hy]
    simp only [push_stack] at b1
    have hp : s1.pop.stack = s.stack := by simp [b1]
    cases r with
    | continue_ =>
      simp only
      by_cases hz : s1.pop.status = 0
      · have hz' : ({ s1 with stack := st1 } : St).status = 0 := hz
        rw [if_pos hz, if_pos hz']
        have := ih.list s1.pop { s1 with stack := st1 } body ⟨st1, rfl⟩
        rw [hp] at this; exact this
      · have hz' : ¬ ({ s1 with stack := st1 } : St).status = 0 := hz
        rw [if_neg hz, if_neg hz']
        have := ih.elifs s1.pop { s1 with stack := st1 } rest els ⟨st1, rfl⟩
        rw [hp] at this; exact this
    | break_ d => exact relS_mk (sbs_pop ⟨st1, rfl⟩)
    | outOfFuel => exact relS_mk (sbs_pop ⟨st1, rfl⟩)

theorem ref_for (fuel : Nat) (ih : Ref fuel) :
    ∀ s s' n b st, SameButStack s s' → s.stack = .loop :: st →
      RelS (execFor (fuel+1) s n b) (specFor (fuel+1) (ctxOf st) s' n b) := by
  intro s s' n b st h hst
  cases n with
  | zero => simp only [execFor, specFor]; exact relS_mk h
  | succ n =>
    simp only [execFor, specFor]
    have b1 := (bal fuel).list s b
    have h1 := ih.list s s' b h
    simp only [hst, ctxOf_loop] at h1
    obtain ⟨s1, r, st1, hx, hy⟩ := relS_cases h1
    rw [hx] at b1
    rw [hx, hy]
    simp only at b1
    cases hl : loopStep r with
    | stop => exact relS_mk ⟨st1, rfl⟩
    | out r' => exact relS_mk ⟨st1, rfl⟩
    | next => exact ih.for_ s1 _ n b st ⟨st1, rfl⟩ (b1.trans hst)

theorem ref_case (fuel : Nat) (ih : Ref fuel) :
    ∀ s s' items f u, SameButStack s s' →
      SameButStack (execCase (fuel+1) s items f u).1 (specCase (fuel+1) (ctxOf s.stack) s' items f u).1 ∧
      (execCase (fuel+1) s items f u).2 = (specCase (fuel+1) (ctxOf s.stack) s' items f u).2 := by
  intro s s' items f u h
  cases items with
  | nil => simp only [execCase, specCase]; exact ⟨h, trivial⟩
  | cons it rest =>
    obtain ⟨m, e, body, k⟩ := it
    simp only [execCase, specCase]
    split
    · obtain ⟨st0, rfl⟩ := h
      rw [expansionError_eq s st0]
      exact ⟨⟨st0, rfl⟩, rfl⟩
    split
    · exact ih.case_ s s' rest false u h
    · have b1 := (bal fuel).list s body
      obtain ⟨s1, r, st1, hx, hy⟩ := relS_cases (ih.list s s' body h)
      rw [hx] at b1
      rw [hx, hy]
      simp only at b1
      cases r with
      | continue_ =>
        cases k with
        | break_ => exact ⟨⟨st1, rfl⟩, rfl⟩
        | fallThrough =>
          have := ih.case_ s1 { s1 with stack := st1 } rest true (!body.isEmpty) ⟨st1, rfl⟩
          rw [b1] at this; exact this
        | continue_ =>
          have := ih.case_ s1 { s1 with stack := st1 } rest false (!body.isEmpty) ⟨st1, rfl⟩
          rw [b1] at this; exact this
      | break_ d => exact ⟨⟨st1, rfl⟩, rfl⟩
      | outOfFuel => exact ⟨⟨st1, rfl⟩, rfl⟩


theorem ref_while (fuel : Nat) (ih : Ref fuel) :
    ∀ s s' u c b e st, SameButStack s s' → s.stack = .loop :: st →
      SameButStack (execWhile (fuel+1) s u c b e).1 (specWhile (fuel+1) (ctxOf st) s' u c b e).1 ∧
      (execWhile (fuel+1) s u c b e).2 = (specWhile (fuel+1) (ctxOf st) s' u c b e).2 := by
  intro s s' u c b e st h hst
  simp only [execWhile, specWhile]
  have b1 := (bal fuel).list (s.push .condition) c
  have h1 := ih.list (s.push .condition) s' c (sbs_push h _)
  simp only [push_stack, hst, ctxOf_condition, ctxOf_loop] at h1
  obtain ⟨s1, r, st1, hx, hy⟩ := relS_cases h1
  rw [hx] at b1
  rw [hx, hy]
  simp only [push_stack] at b1
  have hp : s1.pop.stack = .loop :: st := by simp [b1, hst]
  cases r with
  | outOfFuel => simp only [loopStep]; first | exact ⟨⟨st1, rfl⟩, rfl⟩ | exact ⟨⟨st1, rfl⟩, trivial⟩
  | break_ d =>
    cases d with
    | continue_ n =>
      cases n with
      | zero => simp only [loopStep]; exact ih.while_ s1.pop _ u c b e st ⟨st1, rfl⟩ hp
      | succ n => simp only [loopStep]; first | exact ⟨⟨st1, rfl⟩, rfl⟩ | exact ⟨⟨st1, rfl⟩, trivial⟩
    | break_ n =>
      cases n with
      | zero => simp only [loopStep]; first | exact ⟨⟨st1, rfl⟩, rfl⟩ | exact ⟨⟨st1, rfl⟩, trivial⟩
      | succ n => simp only [loopStep]; first | exact ⟨⟨st1, rfl⟩, rfl⟩ | exact ⟨⟨st1, rfl⟩, trivial⟩
    | return_ x => simp only [loopStep]; first | exact ⟨⟨st1, rfl⟩, rfl⟩ | exact ⟨⟨st1, rfl⟩, trivial⟩
    | interrupt x => simp only [loopStep]; first | exact ⟨⟨st1, rfl⟩, rfl⟩ | exact ⟨⟨st1, rfl⟩, trivial⟩
    | exit x => simp only [loopStep]; first | exact ⟨⟨st1, rfl⟩, rfl⟩ | exact ⟨⟨st1, rfl⟩, trivial⟩
    | abort x => simp only [loopStep]; first | exact ⟨⟨st1, rfl⟩, rfl⟩ | exact ⟨⟨st1, rfl⟩, trivial⟩
  | continue_ =>
    simp only [loopStep]
    by_cases hcnd : (s1.pop.status = 0) = ((!u) = true)
    · have hcnd' : (({ s1 with stack := st1 } : St).status = 0) = ((!u) = true) := hcnd
      rw [if_pos hcnd, if_pos hcnd']
      have b2 := (bal fuel).list s1.pop b
      have h2 := ih.list s1.pop { s1 with stack := st1 } b ⟨st1, rfl⟩
      simp only [hp, ctxOf_loop] at h2
      obtain ⟨s2, r2, st2, hx2, hy2⟩ := relS_cases h2
      rw [hx2] at b2
      rw [hx2, hy2]
      have hp2 : s2.stack = .loop :: st := by simp only at b2; rw [b2, hp]
      cases r2 with
      | outOfFuel => simp only [loopStep]; first | exact ⟨⟨st2, rfl⟩, rfl⟩ | exact ⟨⟨st2, rfl⟩, trivial⟩
      | continue_ => simp only [loopStep]; exact ih.while_ s2 _ u c b _ st ⟨st2, rfl⟩ hp2
      | break_ d =>
        cases d with
        | continue_ n =>
          cases n with
          | zero => simp only [loopStep]; exact ih.while_ s2 _ u c b e st ⟨st2, rfl⟩ hp2
          | succ n => simp only [loopStep]; first | exact ⟨⟨st2, rfl⟩, rfl⟩ | exact ⟨⟨st2, rfl⟩, trivial⟩
        | break_ n =>
          cases n with
          | zero => simp only [loopStep]; first | exact ⟨⟨st2, rfl⟩, rfl⟩ | exact ⟨⟨st2, rfl⟩, trivial⟩
          | succ n => simp only [loopStep]; first | exact ⟨⟨st2, rfl⟩, rfl⟩ | exact ⟨⟨st2, rfl⟩, trivial⟩
        | return_ x => simp only [loopStep]; first | exact ⟨⟨st2, rfl⟩, rfl⟩ | exact ⟨⟨st2, rfl⟩, trivial⟩
        | interrupt x => simp only [loopStep]; first | exact ⟨⟨st2, rfl⟩, rfl⟩ | exact ⟨⟨st2, rfl⟩, trivial⟩
        | exit x => simp only [loopStep]; first | exact ⟨⟨st2, rfl⟩, rfl⟩ | exact ⟨⟨st2, rfl⟩, trivial⟩
        | abort x => simp only [loopStep]; first | exact ⟨⟨st2, rfl⟩, rfl⟩ | exact ⟨⟨st2, rfl⟩, trivial⟩
    · have hcnd' : ¬ (({ s1 with stack := st1 } : St).status = 0) = ((!u) = true) := hcnd
      rw [if_neg hcnd, if_neg hcnd']
      first | exact ⟨⟨st1, rfl⟩, rfl⟩ | exact ⟨⟨st1, rfl⟩, trivial⟩

theorem relS_finish' (a : St) (st : List Frame) (ctx : Ctx) (r : Res) (hctx : ctx = ctxOf a.stack) :
    RelS (finishSimple a r) (afterSimple ctx { a with stack := st } r) := relS_finish a st ctx hctx r

theorem ref_cmd (fuel : Nat) (ih : Ref fuel) :
    ∀ s s' c, SameButStack s s' → RelS (execCmd (fuel+1) s c) (specCmd (fuel+1) (ctxOf s.stack) s' c) := by
  intro s s' c h
  obtain ⟨st0, rfl⟩ := h
  cases c with
  | probe m => simp only [execCmd, specCmd]; exact relS_finish' _ st0 _ _ rfl
  | st n => simp only [execCmd, specCmd]; exact relS_finish' _ st0 _ _ rfl
  | brk n => simp only [execCmd, specCmd, breakBuiltin_eq]; exact relS_finish' _ st0 _ _ rfl
  | cont n => simp only [execCmd, specCmd, breakBuiltin_eq]; exact relS_finish' _ st0 _ _ rfl
  | ret n => simp only [execCmd, specCmd]; exact relS_finish' _ st0 _ _ rfl
  | exit n => simp only [execCmd, specCmd]; exact relS_finish' _ st0 _ _ rfl
  | setE on => simp only [execCmd, specCmd]; exact relS_finish' _ st0 _ _ rfl
  | setM on => simp only [execCmd, specCmd]; exact relS_finish' _ st0 _ _ rfl
  | setP on => simp only [execCmd, specCmd]; exact relS_finish' _ st0 _ _ rfl
  | unknown => simp only [execCmd, specCmd]; exact relS_finish' _ st0 _ _ rfl
  | absent w r a => simp only [execCmd, specCmd]; exact relS_finish' _ st0 _ _ rfl
  | tick c k =>
    simp only [execCmd, specCmd]
    split <;> exact relS_finish' _ st0 _ _ rfl
  | fundef name body =>
    simp only [execCmd, specCmd]
    cases s.roFuncs.contains name <;> simp only [Bool.false_eq_true, ite_true, ite_false] <;>
      exact relS_finish' _ st0 _ _ rfl
  | setParams n => simp only [execCmd, specCmd]; exact relS_finish' _ st0 _ _ rfl
  | freeze name =>
    simp only [execCmd, specCmd]
    cases lookupFn s.funcs name <;> exact relS_finish' _ st0 _ _ rfl
  | forRo values =>
    simp only [execCmd, specCmd]
    split
    · exact relS_mk ⟨st0, rfl⟩
    · rw [expansionError_eq s st0]
      exact relS_mk ⟨st0, rfl⟩
  | forPos body =>
    simp only [execCmd, specCmd]
    split
    · exact relS_mk ⟨st0, rfl⟩
    · have hf := ih.for_ (s.push .loop) { s with stack := st0 } s.params body s.stack ⟨st0, rfl⟩ rfl
      obtain ⟨s1, r, st1, hx, hy⟩ := relS_cases hf
      rw [hx, hy]
      exact relS_mk (sbs_pop ⟨st1, rfl⟩)
  | expErr =>
    simp only [execCmd, specCmd]
    rw [expansionError_eq s st0]
    exact relS_mk ⟨st0, rfl⟩
  | assignErr =>
    simp only [execCmd, specCmd]
    rw [expansionError_eq s st0]
    exact relS_mk ⟨st0, rfl⟩
  | redirErr k =>
    simp only [execCmd, specCmd]
    cases k <;> simp only <;>
      first
        | exact relS_mk ⟨st0, rfl⟩
        | (rw [applyErrexit_eq ({ s with status := 2 }) st0]; exact relS_mk ⟨st0, rfl⟩)
  | specialErr w st => simp only [execCmd, specCmd]; exact relS_finish' _ st0 _ _ rfl
  | trapExit body => simp only [execCmd, specCmd]; exact relS_finish' _ st0 _ _ rfl
  | trapSig body => simp only [execCmd, specCmd]; exact relS_finish' _ st0 _ _ rfl
  | raise n => simp only [execCmd, specCmd]; exact relS_finish' _ st0 _ _ rfl
  | raiseErr =>
    simp only [execCmd, specCmd]
    rw [expansionError_eq { s with pending := true } st0]
    exact relS_mk ⟨st0, rfl⟩
  | group body => simp only [execCmd, specCmd]; exact ih.list s _ body ⟨st0, rfl⟩
  | call name nargs =>
    simp only [execCmd, specCmd, classify_stack]
    cases hcl : classify s name with
    | specialColon => exact relS_finish' _ st0 _ _ rfl
    | regularTrue => exact relS_finish' _ st0 _ _ rfl
    | notFound => exact relS_finish' _ st0 _ _ rfl
    | status n => exact relS_finish' _ st0 _ _ rfl
    | function body =>
      simp only
      have b1 := (bal fuel).cmd { s with params := nargs } body
      obtain ⟨s1, r, st1, hx, hy⟩ :=
        relS_cases (ih.cmd { s with params := nargs } { s with stack := st0, params := nargs } body ⟨st0, rfl⟩)
      rw [hx] at b1
      rw [hx, hy]
      simp only at b1
      cases r with
      | continue_ => exact relS_finish' _ st1 _ _ (by rw [b1])
      | outOfFuel => exact relS_finish' _ st1 _ _ (by rw [b1])
      | break_ d =>
        cases d with
        | return_ x =>
          cases x with
          | none => exact relS_finish' _ st1 _ _ (by rw [b1])
          | some v => exact relS_finish' _ st1 _ _ (by simp only; rw [b1])
        | continue_ n => exact relS_finish' _ st1 _ _ (by rw [b1])
        | break_ n => exact relS_finish' _ st1 _ _ (by rw [b1])
        | interrupt x => exact relS_finish' _ st1 _ _ (by rw [b1])
        | exit x => exact relS_finish' _ st1 _ _ (by rw [b1])
        | abort x => exact relS_finish' _ st1 _ _ (by rw [b1])
  | subshell body =>
    simp only [execCmd, specCmd]
    have h1 := ih.list (s.push .subshell) { s with stack := st0 } body ⟨st0, rfl⟩
    simp only [push_stack, ctxOf_subshell] at h1
    obtain ⟨c1, r, st1, hx, hy⟩ := relS_cases h1
    rw [hx, hy]
    cases r with
    | outOfFuel => exact relS_mk ⟨st0, rfl⟩
    | continue_ =>
      simp only [St.applyResult]
      rw [applyErrexit_eq _ st0]
      exact relS_mk ⟨st0, rfl⟩
    | break_ d =>
      simp only [applyResult_stack']
      rw [applyErrexit_eq _ st0]
      exact relS_mk ⟨st0, rfl⟩
  | asyncWait body =>
    simp only [execCmd, specCmd]
    have h1 := ih.list (s.push .subshell) { s with stack := st0 } body ⟨st0, rfl⟩
    simp only [push_stack, ctxOf_subshell] at h1
    obtain ⟨c1, r, st1, hx, hy⟩ := relS_cases h1
    rw [hx, hy]
    cases r with
    | outOfFuel => exact relS_mk ⟨st0, rfl⟩
    | continue_ =>
      simp only [St.applyResult]
      rw [applyErrexit_eq _ st0]
      exact relS_mk ⟨st0, rfl⟩
    | break_ d =>
      simp only [applyResult_stack']
      rw [applyErrexit_eq _ st0]
      exact relS_mk ⟨st0, rfl⟩
  | ifc cond body elifs els =>
    simp only [execCmd, specCmd]
    have b1 := (bal fuel).list (s.push .condition) cond
    have h1 := ih.list (s.push .condition) { s with stack := st0 } cond ⟨st0, rfl⟩
    simp only [push_stack, ctxOf_condition] at h1
    obtain ⟨s1, r, st1, hx, hy⟩ := relS_cases h1
    rw [hx] at b1
    rw [hx, hy]
    simp only [push_stack] at b1
    have hp : s1.pop.stack = s.stack := by simp [b1]
    cases r with
    | continue_ =>
      simp only
      by_cases hz : s1.pop.status = 0
      · have hz' : ({ s1 with stack := st1 } : St).status = 0 := hz
        rw [if_pos hz, if_pos hz']
        have := ih.list s1.pop { s1 with stack := st1 } body ⟨st1, rfl⟩
        rw [hp] at this; exact this
      · have hz' : ¬ ({ s1 with stack := st1 } : St).status = 0 := hz
        rw [if_neg hz, if_neg hz']
        have := ih.elifs s1.pop { s1 with stack := st1 } elifs els ⟨st1, rfl⟩
        rw [hp] at this; exact this
    | break_ d => exact relS_mk (sbs_pop ⟨st1, rfl⟩)
    | outOfFuel => exact relS_mk (sbs_pop ⟨st1, rfl⟩)
  | whileLoop u cond body =>
    simp only [execCmd, specCmd]
    have hw := ih.while_ (s.push .loop) { s with stack := st0 } u cond body 0 s.stack ⟨st0, rfl⟩ rfl
    generalize execWhile fuel (s.push .loop) u cond body 0 = x at hw
    generalize specWhile fuel (ctxOf s.stack) { s with stack := st0 } u cond body 0 = y at hw
    obtain ⟨s1, r, e⟩ := x
    obtain ⟨s1', r', e'⟩ := y
    obtain ⟨⟨st1, he⟩, hr⟩ := hw
    simp only at he hr
    obtain ⟨rfl, rfl⟩ := Prod.mk.inj hr
    subst he
    cases r <;> exact relS_mk ⟨st1, rfl⟩
  | forLoop values body =>
    simp only [execCmd, specCmd]
    split
    · exact relS_mk ⟨st0, rfl⟩
    · have hf := ih.for_ (s.push .loop) { s with stack := st0 } values body s.stack ⟨st0, rfl⟩ rfl
      obtain ⟨s1, r, st1, hx, hy⟩ := relS_cases hf
      rw [hx, hy]
      exact relS_mk (sbs_pop ⟨st1, rfl⟩)
  | caseC items =>
    simp only [execCmd, specCmd]
    have hw := ih.case_ s { s with stack := st0 } items false false ⟨st0, rfl⟩
    generalize execCase fuel s items false false = x at hw
    generalize specCase fuel (ctxOf s.stack) ({ s with stack := st0 } : St) items false false = y at hw
    obtain ⟨s1, r, u⟩ := x
    obtain ⟨s1', r', u'⟩ := y
    obtain ⟨⟨st1, he⟩, hr⟩ := hw
    simp only at he hr
    obtain ⟨rfl, rfl⟩ := Prod.mk.inj hr
    subst he
    cases r with
    | continue_ => simp only; split <;> exact relS_mk ⟨st1, rfl⟩
    | break_ d => exact relS_mk ⟨st1, rfl⟩
    | outOfFuel => exact relS_mk ⟨st1, rfl⟩

theorem ref : ∀ fuel, Ref fuel := by
  intro fuel
  induction fuel with
  | zero => exact ref_zero
  | succ fuel ih =>
    exact ⟨ref_cmd fuel ih, ref_elifs fuel ih, ref_while fuel ih, ref_for fuel ih, ref_case fuel ih,
      ref_list fuel ih, ref_item fuel ih, ref_aor fuel ih, ref_pipe fuel ih, ref_cmds fuel ih,
      ref_members fuel ih⟩


theorem ctxOf_nil : ctxOf [] = ⟨0, false, false⟩ := rfl
theorem ctxOf_trap : ctxOf [.trap] = ⟨0, false, true⟩ := by
  simp [ctxOf, loops, Frame.retainsContext]

theorem ref_script (fuel : Nat) :
    ∀ s s' ls, SameButStack s s' → s.stack = [] → RelS (runScript fuel s ls) (specScript fuel s' ls) := by
  induction fuel with
  | zero => intro s s' ls h _; simp only [runScript, specScript]; exact relS_mk h
  | succ fuel ih =>
    intro s s' ls h hs
    cases ls with
    | nil => simp only [runScript, specScript]; exact relS_mk h
    | cons l rest =>
      cases l with
      | syntaxError =>
        obtain ⟨st0, rfl⟩ := h
        simp only [runScript, specScript, applyResult_stack']
        exact relS_mk ⟨st0, rfl⟩
      | cmds l =>
        simp only [runScript, specScript]
        obtain ⟨st0, rfl⟩ := h
        -- the poll before the command line
        have bp := pollWith_stack (execList fuel) (fun a b => (bal fuel).list a b) s .continue_
        have hp := relS_pollWith (execList fuel) (specList fuel)
          (fun a b l hab => (ref fuel).list a b l hab) s st0 .continue_
        rw [hs, ctxOf_nil] at hp
        obtain ⟨s0, r0, stp, hxp, hyp⟩ := relS_cases hp
        rw [hxp] at bp
        rw [hxp, hyp]
        simp only at bp
        have hs0 : s0.stack = [] := bp.trans hs
        cases r0 with
        | outOfFuel => simp only [applyResult_stack']; exact relS_mk ⟨stp, rfl⟩
        | break_ d => simp only [applyResult_stack']; exact relS_mk ⟨stp, rfl⟩
        | continue_ =>
          simp only
          have b1 := (bal fuel).list s0 l
          have h1 := (ref fuel).list s0 { s0 with stack := stp } l ⟨stp, rfl⟩
          rw [hs0, ctxOf_nil] at h1
          obtain ⟨s1, r, st1, hx, hy⟩ := relS_cases h1
          rw [hx] at b1
          rw [hx, hy]
          simp only at b1
          cases r with
          | continue_ => exact ih s1 _ rest ⟨st1, rfl⟩ (b1.trans hs0)
          | break_ d => simp only [applyResult_stack']; exact relS_mk ⟨st1, rfl⟩
          | outOfFuel => simp only [applyResult_stack']; exact relS_mk ⟨st1, rfl⟩

theorem ref_exitTrap (fuel : Nat) (s : St) (st0 : List Frame) (hs : s.stack = []) :
    RelS (runExitTrap fuel s) (specExitTrap fuel { s with stack := st0 }) := by
  unfold runExitTrap specExitTrap
  cases ht : s.exitTrap with
  | none => simp only [ht]; exact relS_mk ⟨st0, by rw [← ht]⟩
  | some body =>
    simp only [ht]
    have h1 := (ref fuel).list (s.push .trap) { s with stack := st0 } body ⟨st0, rfl⟩
    simp only [push_stack, hs, ctxOf_trap, ht] at h1
    obtain ⟨s1, r, st1, hx, hy⟩ := relS_cases h1
    rw [hx, hy]
    cases r with
    | outOfFuel => exact relS_mk (sbs_pop ⟨st1, rfl⟩)
    | continue_ =>
      simp only [St.applyResult]
      exact relS_mk ⟨st1, rfl⟩
    | break_ d =>
      cases d with
      | interrupt x =>
        cases x with
        | none => exact relS_mk (sbs_pop ⟨st1, rfl⟩)
        | some v =>
          simp only [applyResult_stack']
          exact relS_mk ⟨st1, rfl⟩
      | continue_ n => simp only [St.applyResult, Divert.exitStatus]; exact relS_mk ⟨st1, rfl⟩
      | break_ n => simp only [St.applyResult, Divert.exitStatus]; exact relS_mk ⟨st1, rfl⟩
      | return_ x =>
        cases x <;> simp only [St.applyResult, Divert.exitStatus] <;> exact relS_mk ⟨st1, rfl⟩
      | exit x =>
        cases x <;> simp only [St.applyResult, Divert.exitStatus] <;> exact relS_mk ⟨st1, rfl⟩
      | abort x =>
        cases x <;> simp only [St.applyResult, Divert.exitStatus] <;> exact relS_mk ⟨st1, rfl⟩

theorem ref_shell (fuel : Nat) (s : St) (script : List Line) (hs : s.stack = []) :
    RelS (runShell fuel s script) (specShell fuel s script) := by
  unfold runShell specShell
  have b1 : (runScript fuel s script).1.stack = s.stack := by
    induction fuel generalizing s script with
    | zero => simp [runScript]
    | succ fuel ih =>
      cases script with
      | nil => simp [runScript]
      | cons l rest =>
        cases l with
        | syntaxError => simp [runScript]
        | cmds l =>
          simp only [runScript]
          have hp := pollWith_stack (execList fuel) (fun a b => (bal fuel).list a b) s .continue_
          generalize pollWith (execList fuel) s .continue_ = xp at *
          obtain ⟨s0, r0⟩ := xp
          simp only at hp
          cases r0 with
          | outOfFuel => simpa using hp
          | break_ d => simpa using hp
          | continue_ =>
            simp only
            have h := (bal fuel).list s0 l
            generalize execList fuel s0 l = x at *
            obtain ⟨s1, r⟩ := x
            cases r with
            | continue_ => simp only; rw [ih s1 rest ((h.trans hp).trans hs)]; exact h.trans hp
            | break_ d => simpa using h.trans hp
            | outOfFuel => simpa using h.trans hp
  obtain ⟨s1, r, st1, hx, hy⟩ := relS_cases (ref_script fuel s s script (sbs_refl s) hs)
  rw [hx] at b1
  rw [hx, hy]
  simp only at b1
  have hs1 : s1.stack = [] := b1.trans hs
  cases r with
  | outOfFuel => exact relS_mk ⟨st1, rfl⟩
  | continue_ =>
    simp only
    obtain ⟨s2, r2, st2, hx2, hy2⟩ := relS_cases (ref_exitTrap fuel s1 st1 hs1)
    rw [hx2, hy2]
    cases r2 <;> exact relS_mk ⟨st2, rfl⟩
  | break_ d =>
    cases d with
    | abort e => exact relS_mk ⟨st1, rfl⟩
    | _ =>
      simp only
      obtain ⟨s2, r2, st2, hx2, hy2⟩ := relS_cases (ref_exitTrap fuel s1 st1 hs1)
      rw [hx2, hy2]
      cases r2 <;> exact relS_mk ⟨st2, rfl⟩

end YashModel.Exec
