/-
  Impl model of command execution (C02, shared with C10): a transcription of
  yash-semantics/src/command{.rs,/and_or.rs,/pipeline.rs,/item.rs,/compound_command/*.rs,
  /function_definition.rs,/simple_command/{builtin,function,external}.rs}, the `break`/`continue`/
  `return`/`exit` built-ins, `Stack::loop_count` and `Env::{apply_errexit,apply_result}`.

  The interpreter mirrors the Rust structure (a `Result = Continue | Break Divert` threaded through
  frame pushes and pops), not POSIX prose.  It is indexed by fuel; exhaustion is a distinct outcome.
  Import-free and executable.
-/
namespace YashModel.Exec

/-- `yash_env::stack::Frame` (the variants that command execution pushes) -/
inductive Frame where
  | loop | subshell | condition | builtin (special : Bool) | dotScript | trap | initFile
  deriving DecidableEq, Repr

/-- `retains_context` of `Stack::loop_count` -/
def Frame.retainsContext : Frame → Bool
  | .loop | .condition | .builtin _ => true
  | .subshell | .dotScript | .trap | .initFile => false

/-- `Stack::loop_count(max)`; the stack's top is the *head* of the list. -/
def loopCountAux : List Frame → Nat → Nat
  | [], _ => 0
  | _, 0 => 0
  | f :: rest, max + 1 =>
    if f.retainsContext then
      (if f = .loop then 1 + loopCountAux rest max else loopCountAux rest (max + 1))
    else 0

def loopCount (stack : List Frame) (max : Nat) : Nat := loopCountAux stack max

/-- `yash_env::semantics::Divert` -/
inductive Divert where
  | continue_ (count : Nat)
  | break_ (count : Nat)
  | return_ (status : Option Nat)
  | interrupt (status : Option Nat)
  | exit (status : Option Nat)
  | abort (status : Option Nat)
  deriving DecidableEq, Repr

def Divert.exitStatus : Divert → Option Nat
  | .continue_ _ | .break_ _ => none
  | .return_ s | .interrupt s | .exit s | .abort s => s

/-- the derived `Ord` of `Divert`: variants in declaration order (severity), then the payload
    (`None < Some`, numbers by value) -/
def Divert.rank : Divert → Nat
  | .continue_ _ => 0 | .break_ _ => 1 | .return_ _ => 2 | .interrupt _ => 3 | .exit _ => 4 | .abort _ => 5

def optLe : Option Nat → Option Nat → Bool
  | none, _ => true
  | some _, none => false
  | some a, some b => a ≤ b

def Divert.le (a b : Divert) : Bool :=
  if a.rank < b.rank then true
  else if b.rank < a.rank then false
  else match a, b with
    | .continue_ x, .continue_ y => x ≤ y
    | .break_ x, .break_ y => x ≤ y
    | .return_ x, .return_ y => optLe x y
    | .interrupt x, .interrupt y => optLe x y
    | .exit x, .exit y => optLe x y
    | .abort x, .abort y => optLe x y
    | _, _ => true

/-- `Ord::max` -/
def Divert.max (a b : Divert) : Divert := if a.le b then b else a

/-- `ControlFlow<Divert, ()>` plus fuel exhaustion -/
inductive Res where
  | continue_
  | break_ (d : Divert)
  | outOfFuel
  deriving DecidableEq, Repr

/-- names a simple command may invoke through the command search -/
inductive Name where
  | f (k : Nat)       -- a plain function name `f<k>` (nothing else of that name exists)
  | true_             -- `true`: a mandatory (regular) built-in, a function of that name wins
  | colon             -- `:`: a special built-in, it wins over a function of that name
  | sbIn              -- `sbin`: a substitutive built-in whose external counterpart is in `$PATH`
  | sbOut             -- `sbout`: a substitutive built-in with nothing of that name in `$PATH`
  | xtIn              -- `xtin`: no built-in; an executable file of that name is in `$PATH`
  | xtPath            -- `/bin/xtin`: a name with a slash is always an external utility
  deriving DecidableEq, Repr

inductive CaseCont where | break_ | fallThrough | continue_
  deriving DecidableEq, Repr

/-- the kind of command a failing redirection is attached to (C10) -/
inductive RedirKind where
  | regular | special | function | external | compound | absent
  deriving DecidableEq, Repr

mutual
  inductive Cmd where
    | probe (marker : Nat)                 -- regular built-in: trace (marker, $?), `$?` preserved
    | st (n : Nat)                         -- regular built-in returning status n
    | brk (n : Nat)                        -- `break n` (n ≥ 1)
    | cont (n : Nat)                       -- `continue n`
    | ret (n : Option Nat)                 -- `return [n]`
    | exit (n : Option Nat)                -- `exit [n]`
    | setE (on : Bool)                     -- `set -e` / `set +e`
    | setM (on : Bool)                     -- `set -m` / `set +m` (job control)
    | setP (on : Bool)                     -- `set -o pipefail` / `set +o pipefail`
    | call (name : Name) (nargs : Nat)     -- a command name resolved by the search order, with arguments
    | setParams (n : Nat)                  -- `set -- w1 … wn`: the positional parameters of this context
    | freeze (name : Name)                 -- `typeset -fr name`: makes the function read-only
    | unknown                              -- a name that is nothing: status 127
    | absent (words redirs assigns : Option Nat)
        -- no command name: words that expand to no field, redirections (performed in a subshell) and
        -- assignments, each possibly holding command substitutions (the status of its last one, if any)
    | tick (c k : Nat)                     -- regular built-in: succeeds while counter c < k, then fails
    | group (body : List Item)
    | subshell (body : List Item)
    | asyncWait (body : List Item)         -- `{ body; } & wait`: an asynchronous list, then `wait`
    | ifc (cond : List Item) (body : List Item) (elifs : List (List Item × List Item)) (els : Option (List Item))
    | whileLoop (until_ : Bool) (cond : List Item) (body : List Item)
    | forLoop (values : Nat) (body : List Item)
    | forPos (body : List Item)            -- `for v do …`: one iteration per positional parameter
    | forRo (values : Nat)                 -- `for ro in w1 … wn`: the loop variable is read-only
    | caseC (items : List (Bool × Bool × List Item × CaseCont))
        -- (a pattern matches, evaluating the patterns fails before any match, body, continuation)
    | fundef (name : Name) (body : Cmd)
    -- shell errors (C10)
    | expErr                               -- simple command whose word expansion fails (`probe ${u?}`)
    | assignErr                            -- assignment to a read-only variable, alone or before a command
    | redirErr (k : RedirKind)             -- command whose redirection cannot be performed
    | specialErr (wrapped : Bool) (status : Nat)   -- usage error of a special built-in, directly or via `command`
    | trapExit (body : List Item)          -- `trap '…' EXIT`
    | trapSig (body : List Item)           -- `trap '…' USR1`
    | raise (n : Nat)                      -- `st n $(kill -s USR1 $$)`: a regular command during which
                                           -- the (main) shell receives the trapped signal
    | raiseErr                             -- `st 0 $(kill -s USR1 $$) ${u?}`: the signal, then an
                                           -- expansion error in the same command
  inductive Pipeline where
    | mk (negation : Bool) (commands : List Cmd)
  inductive Item where
    | mk (first : Pipeline) (rest : List (Bool × Pipeline))   -- (isAndThen, pipeline)
end

structure St where
  status : Nat := 0
  errexit : Bool := false
  pipefail : Bool := false
  monitor : Bool := false
  params : Nat := 0                       -- number of positional parameters of the current context
  roFuncs : List Name := []               -- read-only functions
  stack : List Frame := []
  funcs : List (Name × Cmd) := []
  counters : List (Nat × Nat) := []
  trace : List (Nat × Nat) := []          -- newest first
  exitTrap : Option (List Item) := none
  sigTrap : Option (List Item) := none    -- the action of the trapped signal (USR1)
  pending : Bool := false                 -- the signal was caught and its action has not run yet
  deriving Inhabited

def St.push (s : St) (f : Frame) : St := { s with stack := f :: s.stack }
def St.pop (s : St) : St := { s with stack := s.stack.tail }

/-- `Env::controls_jobs` -/
def St.controlsJobs (s : St) : Bool := s.monitor && !s.stack.contains .subshell

/-- `run_traps_for_caught_signals` is due: a caught signal with a command action, and no trap action
    running. A subshell has no command traps (`enter_subshell` resets them) and the signal goes to
    `$$`, which stays the main shell: what a child (or a child of a child) sends is pending in the
    main shell, which is waiting for that child and polls when it has joined it. -/
def St.trapDue (s : St) : Option (List Item) :=
  if s.pending && !s.stack.contains .trap && !s.stack.contains .subshell then s.sigTrap else none

/-- the tail of `run_trap` and of `Command::execute`: `$?` is restored unless the action was
    interrupted; of two diverts the more severe one wins -/
def finishPoll (prev : Nat) (s2 : St) (r t : Res) : St × Res :=
  let s3 : St := match t with
    | .break_ (.interrupt (some e)) => { s2 with status := e }
    | .break_ (.interrupt none) => s2
    | _ => { s2 with status := prev }
  match r, t with
  | _, .outOfFuel => (s3, .outOfFuel)
  | r, .continue_ => (s3, r)
  | .continue_, t => (s3, t)
  | .break_ m, .break_ d => (s3, .break_ (m.max d))
  | .outOfFuel, _ => (s3, .outOfFuel)

/-- `run_traps_for_caught_signals` after a command that ended with `r` in state `s1`; `run` executes
    the action (a list, under the `Trap` frame pushed here) -/
def pollWith (run : St → List Item → St × Res) (s1 : St) (r : Res) : St × Res :=
  match r with
  | .outOfFuel => (s1, .outOfFuel)
  | r =>
    match s1.trapDue with
    | none => (s1, r)
    | some body =>
      let x := run ({ s1 with pending := false }.push .trap) body
      finishPoll s1.status x.1.pop r x.2

/-- entering / leaving the subshell that wraps a job-controlled pipeline -/
def St.enterJc (s : St) : St := if s.controlsJobs then s.push .subshell else s
def St.leaveJc (s s1 : St) : St := if s.controlsJobs then s1.pop else s1

/-- `errexit_is_applicable` -/
def St.errexitApplicable (s : St) : Bool := s.errexit && !s.stack.contains .condition

/-- `apply_errexit` -/
def St.applyErrexit (s : St) : Res :=
  if s.status ≠ 0 ∧ s.errexitApplicable then .break_ (.exit none) else .continue_

/-- `Handle for expansion::Error` (also assignment errors): the error status travels in the divert -/
def St.expansionError (s : St) : Res :=
  if s.errexitApplicable then .break_ (.exit (some 2)) else .break_ (.interrupt (some 2))

/-- `apply_result` -/
def St.applyResult (s : St) : Res → St
  | .break_ d => match d.exitStatus with | some e => { s with status := e } | none => s
  | _ => s

def lookupFn (fs : List (Name × Cmd)) (n : Name) : Option Cmd :=
  match fs with
  | [] => none
  | (m, c) :: t => if m = n then some c else lookupFn t n

def defineFn (fs : List (Name × Cmd)) (n : Name) (c : Cmd) : List (Name × Cmd) :=
  (n, c) :: fs.filter (fun p => p.1 ≠ n)

def getCounter (cs : List (Nat × Nat)) (c : Nat) : Nat :=
  match cs with
  | [] => 0
  | (k, v) :: t => if k = c then v else getCounter t c

def setCounter (cs : List (Nat × Nat)) (c v : Nat) : List (Nat × Nat) :=
  (c, v) :: cs.filter (fun p => p.1 ≠ c)

/-- what the command search finds for a name (`classify`): special built-in, function, other built-in -/
inductive Target where
  | specialColon | function (body : Cmd) | regularTrue | notFound
  | status (n : Nat)    -- a target whose only effect is its exit status (see `classify`)

def classify (s : St) : Name → Target
  | .colon => .specialColon
  | .true_ => match lookupFn s.funcs .true_ with | some b => .function b | none => .regularTrue
  | .f k => match lookupFn s.funcs (.f k) with | some b => .function b | none => .notFound
  -- `resolve_builtin`: a substitutive built-in runs (status 0) only if `search_path` finds its name,
  -- otherwise the command is not found; a function of that name comes first either way
  | .sbIn => match lookupFn s.funcs .sbIn with | some b => .function b | none => .status 0
  | .sbOut => match lookupFn s.funcs .sbOut with | some b => .function b | none => .status 127
  -- an external utility found in `$PATH`: the simulated `execve` fails with ENOSYS, status 126
  | .xtIn => match lookupFn s.funcs .xtIn with | some b => .function b | none => .status 126
  -- `name.contains('/')`: functions are not consulted
  | .xtPath => .status 126

/-- `break`/`continue` built-in (`semantics::run`) with the `Builtin` frame already pushed:
    returns (exit status, divert) -/
def breakBuiltin (stack : List Frame) (n : Nat) (isBreak : Bool) : Nat × Res :=
  let count := loopCount stack n
  if count = 0 then (1, .break_ (.interrupt none))      -- "not in a loop": special built-in error
  else (0, .break_ (if isBreak then .break_ (count - 1) else .continue_ (count - 1)))

/-- the tail shared by every simple command: `env.exit_status = …; result.divert()?; apply_errexit()` -/
def finishSimple (s : St) (r : Res) : St × Res :=
  match r with
  | .continue_ => (s, s.applyErrexit)
  | r => (s, r)

/-- the loop-control part of `Loop::execute` / `for_loop::execute` applied to a body/condition result:
    `none` = go on looping normally -/
inductive LoopStep where
  | next            -- `Continue(())` or `Continue{0}`: next iteration
  | stop            -- `Break{0}`: leave this loop
  | out (r : Res)   -- propagate (with the count already decremented)

def loopStep : Res → LoopStep
  | .continue_ => .next
  | .break_ (.break_ 0) => .stop
  | .break_ (.break_ (n+1)) => .out (.break_ (.break_ n))
  | .break_ (.continue_ 0) => .next
  | .break_ (.continue_ (n+1)) => .out (.break_ (.continue_ n))
  | r => .out r

mutual
  /-- `impl Command for syntax::Command` (no traps are pending in this model) -/
  def execCmd : Nat → St → Cmd → St × Res
    | 0, s, _ => (s, .outOfFuel)
    | fuel+1, s, c =>
      match c with
      | .probe m =>
        let s1 := { s with trace := (m, s.status) :: s.trace }
        finishSimple s1 .continue_
      | .st n => finishSimple { s with status := n } .continue_
      | .brk n =>
        let (e, r) := breakBuiltin (.builtin true :: s.stack) n true
        finishSimple { s with status := e } r
      | .cont n =>
        let (e, r) := breakBuiltin (.builtin true :: s.stack) n false
        finishSimple { s with status := e } r
      | .ret n => finishSimple s (.break_ (.return_ n))
      | .exit n => finishSimple s (.break_ (.exit n))
      | .setE on => finishSimple { s with errexit := on, status := 0 } .continue_
      | .setM on => finishSimple { s with monitor := on, status := 0 } .continue_
      | .setP on => finishSimple { s with pipefail := on, status := 0 } .continue_
      | .unknown => finishSimple { s with status := 127 } .continue_
      -- `execute_absent_target`: the status of the last command substitution of the assignments,
      -- else of the redirections, else of the words, else zero
      | .absent w r a =>
        finishSimple { s with status := (a.orElse fun _ => r.orElse fun _ => w).getD 0 } .continue_
      | .tick c k =>
        let v := getCounter s.counters c
        if v < k then finishSimple { s with counters := setCounter s.counters c (v+1), status := 0 } .continue_
        else finishSimple { s with status := 1 } .continue_
      | .setParams n => finishSimple { s with params := n, status := 0 } .continue_
      | .freeze name =>
        -- `SetFunctions::execute`: an unknown function is an error of a non-special built-in
        (match lookupFn s.funcs name with
         | some _ => finishSimple { s with roFuncs := name :: s.roFuncs, status := 0 } .continue_
         | none => finishSimple { s with status := 1 } .continue_)
      | .call name nargs =>
        match classify s name with
        | .specialColon => finishSimple { s with status := 0 } .continue_
        | .regularTrue => finishSimple { s with status := 0 } .continue_
        | .notFound => finishSimple { s with status := 127 } .continue_
        | .function body =>
          -- `execute_function_body`: a new context holds the arguments as positional parameters;
          -- only `Return` is caught
          let (s1, r) := execCmd fuel { s with params := nargs } body
          let s1 := { s1 with params := s.params }
          match r with
          | .break_ (.return_ e) =>
            finishSimple (match e with | some e => { s1 with status := e } | none => s1) .continue_
          | r => finishSimple s1 r
        | .status n => finishSimple { s with status := n } .continue_
      | .fundef name body =>
        -- `define_function`: a read-only function of that name stays; status 2, `apply_errexit`
        if s.roFuncs.contains name then finishSimple { s with status := 2 } .continue_
        else finishSimple { s with funcs := defineFn s.funcs name body, status := 0 } .continue_
      | .expErr => (s, s.expansionError)
      | .assignErr => (s, s.expansionError)
      | .redirErr k =>
        -- `redir::Error::handle`: status 2, continue; a special built-in then interrupts the shell
        let s1 := { s with status := 2 }
        (match k with
         | .special => (s1, .break_ (.interrupt none))
         | _ => (s1, s1.applyErrexit))
      | .specialErr wrapped status =>
        -- `report_error`/`report_failure`: the innermost `Builtin` frame decides (`command` pushes a
        -- frame with `is_special = false`)
        finishSimple { s with status := status } (if wrapped then .continue_ else .break_ (.interrupt none))
      | .trapExit body => finishSimple { s with exitTrap := some body, status := 0 } .continue_
      | .trapSig body => finishSimple { s with sigTrap := some body, status := 0 } .continue_
      | .raise n => finishSimple { s with pending := true, status := n } .continue_
      | .raiseErr => ({ s with pending := true }, { s with pending := true }.expansionError)
      | .group body => execList fuel s body
      | .subshell body =>
        -- the child runs on a copy with a `Subshell` frame; only status and output come back
        let (c1, r) := execList fuel (s.push .subshell) body
        match r with
        | .outOfFuel => (s, .outOfFuel)
        | r =>
          let c2 := c1.applyResult r
          let s1 := { s with status := c2.status, trace := c2.trace, pending := c2.pending }
          (s1, s1.applyErrexit)
      | .asyncWait body =>
        -- `execute_async`: the list runs in a subshell and the shell goes on at once with status 0;
        -- `wait` without operands then returns 0 when the child is gone. Only the output comes back.
        let (c1, r) := execList fuel (s.push .subshell) body
        match r with
        | .outOfFuel => (s, .outOfFuel)
        | r =>
          let c2 := c1.applyResult r
          let s1 := { s with status := 0, trace := c2.trace, pending := c2.pending }
          (s1, s1.applyErrexit)
      | .ifc cond body elifs els =>
        let (s1, r) := execList fuel (s.push .condition) cond
        let s1 := s1.pop
        match r with
        | .continue_ =>
          if s1.status = 0 then execList fuel s1 body
          else execElifs fuel s1 elifs els
        | r => (s1, r)
      | .whileLoop until_ cond body =>
        let (s1, r) := execWhile fuel (s.push .loop) until_ cond body 0
        let s1 := s1.pop
        match r with
        | (.continue_, e) => ({ s1 with status := e }, .continue_)
        | (r, _) => (s1, r)
      | .forLoop values body =>
        let s0 := s.push .loop
        if values = 0 ∧ !body.isEmpty then ({ s0 with status := 0 }.pop, .continue_)
        else
          let (s1, r) := execFor fuel s0 values body
          (s1.pop, r)
      | .forPos body =>
        let s0 := s.push .loop
        if s.params = 0 ∧ !body.isEmpty then ({ s0 with status := 0 }.pop, .continue_)
        else
          let (s1, r) := execFor fuel s0 s.params body
          (s1.pop, r)
      | .forRo values =>
        -- the first assignment to the loop variable fails: `Handle for expansion::Error`
        if values = 0 then ({ s with status := 0 }, .continue_) else (s, s.expansionError)
      | .caseC items =>
        let (s1, r, updated) := execCase fuel s items false false
        match r with
        | .continue_ => (if updated then s1 else { s1 with status := 0 }, .continue_)
        | r => (s1, r)

  /-- the `elif … else … fi` tail of `if::execute` -/
  def execElifs : Nat → St → List (List Item × List Item) → Option (List Item) → St × Res
    | 0, s, _, _ => (s, .outOfFuel)
    | fuel+1, s, elifs, els =>
      match elifs with
      | [] =>
        match els with
        | some e => execList fuel s e
        | none => ({ s with status := 0 }, .continue_)
      | (cond, body) :: rest =>
        let (s1, r) := execList fuel (s.push .condition) cond
        let s1 := s1.pop
        match r with
        | .continue_ =>
          if s1.status = 0 then execList fuel s1 body
          else execElifs fuel s1 rest els
        | r => (s1, r)

  /-- `Loop::execute` + `Loop::iterate`; the last argument is the loop's own `exit_status` register.
      Returns the result together with that register. -/
  def execWhile : Nat → St → Bool → List Item → List Item → Nat → St × (Res × Nat)
    | 0, s, _, _, _, e => (s, (.outOfFuel, e))
    | fuel+1, s, until_, cond, body, e =>
      -- evaluate_condition
      let (s1, r) := execList fuel (s.push .condition) cond
      let s1 := s1.pop
      match loopStep r with
      | .stop => (s1, (.continue_, s1.status))              -- Break{0}: exit_status := env.exit_status
      | .out r => (s1, (r, e))
      | .next =>
        match r with
        | .break_ (.continue_ 0) => execWhile fuel s1 until_ cond body e   -- `continue` in the condition
        | _ =>
          if (s1.status = 0) = !until_ then
            let (s2, r2) := execList fuel s1 body
            match loopStep r2 with
            | .stop => (s2, (.continue_, s2.status))
            | .out r => (s2, (r, e))
            | .next =>
              match r2 with
              | .break_ (.continue_ 0) => execWhile fuel s2 until_ cond body e
              | _ => execWhile fuel s2 until_ cond body s2.status
          else (s1, (.continue_, e))

  /-- the iteration of `for_loop::execute` (the variable itself is not modelled) -/
  def execFor : Nat → St → Nat → List Item → St × Res
    | 0, s, _, _ => (s, .outOfFuel)
    | _+1, s, 0, _ => (s, .continue_)
    | fuel+1, s, n+1, body =>
      let (s1, r) := execList fuel s body
      match loopStep r with
      | .stop => (s1, .continue_)
      | .out r => (s1, r)
      | .next => execFor fuel s1 n body

  /-- `case::execute`; flags: falling through, exit status updated -/
  def execCase : Nat → St → List (Bool × Bool × List Item × CaseCont) → Bool → Bool → St × Res × Bool
    | 0, s, _, _, u => (s, .outOfFuel, u)
    | _+1, s, [], _, u => (s, .continue_, u)
    | fuel+1, s, (m, e, body, k) :: rest, falling, u =>
      -- the patterns of an item are expanded only when the item is not entered by falling through
      if !falling && e then (s, s.expansionError, u)
      else if !falling && !m then execCase fuel s rest false u
      else
        let (s1, r) := execList fuel s body
        match r with
        | .continue_ =>
          let u1 := !body.isEmpty
          match k with
          | .break_ => (s1, .continue_, u1)
          | .fallThrough => execCase fuel s1 rest true u1
          | .continue_ => execCase fuel s1 rest false u1
        | r => (s1, r, u)

  /-- `impl Command for syntax::List` -/
  def execList : Nat → St → List Item → St × Res
    | 0, s, _ => (s, .outOfFuel)
    | _+1, s, [] => (s, .continue_)
    | fuel+1, s, it :: rest =>
      let (s1, r) := execItem fuel s it
      match r with
      | .continue_ => execList fuel s1 rest
      | r => (s1, r)

  /-- `impl Command for AndOrList` -/
  def execItem : Nat → St → Item → St × Res
    | 0, s, _ => (s, .outOfFuel)
    | fuel+1, s, .mk first rest =>
      match rest with
      | [] => execPipeline fuel s first
      | _ =>
        let (s1, r) := execPipeline fuel (s.push .condition) first
        match r with
        | .continue_ => execAndOrRest fuel s1 rest
        | r => (s1.pop, r)

  /-- the conditional pipelines of an and-or list; the state still has the `Condition` frame on
      entry, which is dropped before the last pipeline -/
  def execAndOrRest : Nat → St → List (Bool × Pipeline) → St × Res
    | 0, s, _ => (s.pop, .outOfFuel)
    | _+1, s, [] => (s.pop, .continue_)
    | fuel+1, s, [(andThen, p)] =>
      let s := s.pop
      if (s.status = 0) = andThen then execPipeline fuel s p else (s, .continue_)
    | fuel+1, s, (andThen, p) :: rest =>
      if (s.status = 0) = andThen then
        let (s1, r) := execPipeline fuel s p
        match r with
        | .continue_ => execAndOrRest fuel s1 rest
        | r => (s1.pop, r)
      else execAndOrRest fuel s rest

  /-- `impl Command for syntax::Pipeline` -/
  def execPipeline : Nat → St → Pipeline → St × Res
    | 0, s, _ => (s, .outOfFuel)
    | fuel+1, s, .mk negation cmds =>
      if !negation then execCommands fuel s cmds
      else
        let (s1, r) := execCommands fuel (s.push .condition) cmds
        let s1 := s1.pop
        match r with
        | .continue_ => ({ s1 with status := if s1.status = 0 then 1 else 0 }, .continue_)
        | r => (s1, r)

  /-- `execute_commands_in_pipeline` -/
  def execCommands : Nat → St → List Cmd → St × Res
    | 0, s, _ => (s, .outOfFuel)
    | _+1, s, [] => ({ s with status := 0 }, .continue_)
    | fuel+1, s, [c] =>
      -- `impl Command for syntax::Command`: the command, then the traps of caught signals
      let x := execCmd fuel s c
      pollWith (execList fuel) x.1 x.2
    | fuel+1, s, cmds =>
      -- `execute_multi_command_pipeline`: every command in its own subshell; under job control
      -- (`execute_job_controlled_pipeline`) the whole pipeline runs in one more subshell, whose exit
      -- status and output come back; `apply_errexit` is the parent's either way
      let (s1, r) := execPipeMembers fuel s.enterJc cmds 0
      match r with
      | .continue_ => (s.leaveJc s1, (s.leaveJc s1).applyErrexit)
      | r => (s.leaveJc s1, r)

  /-- runs each member on a copy of the parent state; `final` accumulates the pipeline status -/
  def execPipeMembers : Nat → St → List Cmd → Nat → St × Res
    | 0, s, _, _ => (s, .outOfFuel)
    | _+1, s, [], final => ({ s with status := final }, .continue_)
    | fuel+1, s, c :: rest, final =>
      let (c1, r) := execCmd fuel (s.push .subshell) c
      match r with
      | .outOfFuel => (s, .outOfFuel)
      | r =>
        let c2 := c1.applyResult r
        let final' := if c2.status ≠ 0 ∨ !s.pipefail then c2.status else final
        execPipeMembers fuel { s with trace := c2.trace, pending := c2.pending } rest final'
end

/-- one command line as `read_eval_loop` sees it: a complete command, or text that does not parse -/
inductive Line where
  | cmds (l : List Item)
  | syntaxError

/-- `read_eval_loop` + `apply_result` on a script given as a list of command lines -/
def runScript : Nat → St → List Line → St × Res
  | 0, s, _ => (s, .outOfFuel)
  | _+1, s, [] => (s, .continue_)
  | fuel+1, s, .syntaxError :: _ =>
    -- `Handle for parser::Error`: Interrupt(Some(ERROR))
    let r := Res.break_ (.interrupt (some 2))
    (s.applyResult r, r)
  | fuel+1, s, .cmds line :: rest =>
    -- `run_command`: traps of signals caught so far, then the command line
    let x := pollWith (execList fuel) s .continue_
    match x.2 with
    | .continue_ =>
      let (s1, r) := execList fuel x.1 line
      (match r with
       | .continue_ => runScript fuel s1 rest
       | r => (s1.applyResult r, r))
    | r0 => (x.1.applyResult r0, r0)

/-- `run_exit_trap` / `run_trap`: the action runs under a `Trap` frame; `$?` is restored afterwards
    unless the action itself was interrupted -/
def runExitTrap (fuel : Nat) (s : St) : St × Res :=
  match s.exitTrap with
  | none => (s, .continue_)
  | some body =>
    let prev := s.status
    let (s1, r) := execList fuel (s.push .trap) body
    let s1 := s1.pop
    match r with
    | .outOfFuel => (s1, .outOfFuel)
    -- an error with a status of its own (expansion, syntax): that status is the one propagated
    | .break_ (.interrupt (some _)) => (s1.applyResult r, r)
    | .break_ (.interrupt none) => (s1, r)
    | r => ({ s1 with status := prev }.applyResult r, r)

/-- the shell process: `run_as_shell_process` after option parsing -/
def runShell (fuel : Nat) (s : St) (script : List Line) : St × Res :=
  let (s1, r) := runScript fuel s script
  match r with
  | .outOfFuel => (s1, .outOfFuel)
  | .break_ (.abort _) => (s1, r)
  | _ =>
    let (s2, r2) := runExitTrap fuel s1
    match r2 with
    | .outOfFuel => (s2, .outOfFuel)
    | _ => (s2, r)

end YashModel.Exec
