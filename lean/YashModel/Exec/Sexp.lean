/-
  S-expression reader for programs of the Exec model (driver-side; shared by the C02 and C10 drivers).
  Grammar: see `toCmd` / `toPipeline` / `toItem` below.
-/
import YashModel.Exec.Model
namespace YashModel.Exec

inductive Sx where
  | atom (s : String)
  | list (xs : List Sx)
  deriving Inhabited

def tokenize (s : String) : List String :=
  let rec go (cs : List Char) (cur : List Char) (acc : List String) : List String :=
    let flush := if cur.isEmpty then acc else String.ofList cur.reverse :: acc
    match cs with
    | [] => flush.reverse
    | c :: rest =>
      if c = '(' ∨ c = ')' then go rest [] (String.singleton c :: flush)
      else if c = ' ' then go rest [] flush
      else go rest (c :: cur) acc
  go s.toList [] []

/-- parses one S-expression; returns it with the remaining tokens -/
partial def parseSx : List String → Option (Sx × List String)
  | [] => none
  | "(" :: rest =>
    let rec items (ts : List String) (acc : List Sx) : Option (Sx × List String) :=
      match ts with
      | [] => none
      | ")" :: rest => some (.list acc.reverse, rest)
      | ts => match parseSx ts with
        | some (x, rest) => items rest (x :: acc)
        | none => none
    items rest []
  | ")" :: _ => none
  | a :: rest => some (.atom a, rest)

def Sx.nat? : Sx → Option Nat
  | .atom a => a.toNat?
  | _ => none

def toName : Sx → Option Name
  | .atom "f0" => some (.f 0)
  | .atom "f1" => some (.f 1)
  | .atom "f2" => some (.f 2)
  | .atom "ok" => some .true_
  | .atom "colon" => some .colon
  | .atom "sbin" => some .sbIn
  | .atom "sbout" => some .sbOut
  | .atom "xtin" => some .xtIn
  | .atom "xtpath" => some .xtPath
  | _ => none

/-- `-` or a number -/
def Sx.optNat? : Sx → Option (Option Nat)
  | .atom "-" => some none
  | x => x.nat?.map some

mutual
  partial def toCmd : Sx → Option Cmd
    | .list [.atom "probe", n] => do pure (.probe (← n.nat?))
    | .list [.atom "st", n] => do pure (.st (← n.nat?))
    | .list [.atom "brk", n] => do pure (.brk (← n.nat?))
    | .list [.atom "cont", n] => do pure (.cont (← n.nat?))
    | .list [.atom "ret"] => some (.ret none)
    | .list [.atom "ret", n] => do pure (.ret (some (← n.nat?)))
    | .list [.atom "exit"] => some (.exit none)
    | .list [.atom "exit", n] => do pure (.exit (some (← n.nat?)))
    | .list [.atom "sete", n] => do pure (.setE ((← n.nat?) != 0))
    | .list [.atom "setm", n] => do pure (.setM ((← n.nat?) != 0))
    | .list [.atom "setpf", n] => do pure (.setP ((← n.nat?) != 0))
    | .list [.atom "call", n] => do pure (.call (← toName n) 0)
    | .list [.atom "call", n, k] => do pure (.call (← toName n) (← k.nat?))
    | .list [.atom "setp", k] => do pure (.setParams (← k.nat?))
    | .list [.atom "freeze", n] => do pure (.freeze (← toName n))
    | .list [.atom "forpos", b] => do pure (.forPos (← toList b))
    | .list [.atom "forro", k] => do pure (.forRo (← k.nat?))
    | .list [.atom "unk"] => some .unknown
    | .list [.atom "abs", w, r, a] => do pure (.absent (← w.optNat?) (← r.optNat?) (← a.optNat?))
    | .list [.atom "tick", c, k] => do pure (.tick (← c.nat?) (← k.nat?))
    | .list [.atom "grp", l] => do pure (.group (← toList l))
    | .list [.atom "sub", l] => do pure (.subshell (← toList l))
    | .list [.atom "async", l] => do pure (.asyncWait (← toList l))
    | .list [.atom "if", c, b, .list elifs] => do
        pure (.ifc (← toList c) (← toList b) (← toElifs elifs) none)
    | .list [.atom "if", c, b, .list elifs, e] => do
        pure (.ifc (← toList c) (← toList b) (← toElifs elifs) (some (← toList e)))
    | .list [.atom "while", c, b] => do pure (.whileLoop false (← toList c) (← toList b))
    | .list [.atom "until", c, b] => do pure (.whileLoop true (← toList c) (← toList b))
    | .list [.atom "for", n, b] => do pure (.forLoop (← n.nat?) (← toList b))
    | .list (.atom "case" :: items) => do pure (.caseC (← items.mapM toCaseItem))
    | .list [.atom "def", n, c] => do pure (.fundef (← toName n) (← toCmd c))
    | .list [.atom "experr"] => some .expErr
    | .list [.atom "asgerr"] => some .assignErr
    | .list [.atom "rederr", .atom k] => do
        let k ← match k with
          | "regular" => some RedirKind.regular | "special" => some .special | "function" => some .function
          | "external" => some .external | "compound" => some .compound | "absent" => some .absent | _ => none
        pure (.redirErr k)
    | .list [.atom "specerr", w, st] => do pure (.specialErr ((← w.nat?) != 0) (← st.nat?))
    | .list [.atom "trapexit", b] => do pure (.trapExit (← toList b))
    | .list [.atom "trapsig", b] => do pure (.trapSig (← toList b))
    | .list [.atom "raise", n] => do pure (.raise (← n.nat?))
    | .list [.atom "raiseerr"] => some .raiseErr
    | _ => none

  partial def toElifs : List Sx → Option (List (List Item × List Item))
    | [] => some []
    | c :: b :: rest => do pure ((← toList c, ← toList b) :: (← toElifs rest))
    | _ => none

  partial def toCaseItem : Sx → Option (Bool × Bool × List Item × CaseCont)
    | .list [m, .atom k, b] => do
        let k ← match k with
          | "b" => some CaseCont.break_ | "f" => some .fallThrough | "c" => some .continue_ | _ => none
        -- 0 = no pattern matches, 1 = one matches, 2 = expanding the patterns fails
        let m ← m.nat?
        pure (m == 1, m == 2, ← toList b, k)
    | _ => none

  partial def toPipeline : Sx → Option Pipeline
    | .list (.atom "pl" :: neg :: cmds) => do pure (.mk ((← neg.nat?) != 0) (← cmds.mapM toCmd))
    | c => do pure (.mk false [← toCmd c])           -- a bare command is a one-command pipeline

  partial def toItem : Sx → Option Item
    | .list (.atom "ao" :: first :: rest) => do
        let rest ← rest.mapM fun
          | .list [.atom "and", p] => do pure (true, ← toPipeline p)
          | .list [.atom "or", p] => do pure (false, ← toPipeline p)
          | _ => none
        pure (.mk (← toPipeline first) rest)
    | p => do pure (.mk (← toPipeline p) [])           -- a bare pipeline is an and-or list of one

  partial def toList : Sx → Option (List Item)
    | .list xs => xs.mapM toItem
    | _ => none
end

/-- a script: list of command lines; the atom `synerr` stands for a line that does not parse -/
def toScript : Sx → Option (List Line)
  | .list ls => ls.mapM fun
    | .atom "synerr" => some Line.syntaxError
    | l => (toList l).map Line.cmds
  | _ => none

def showTrace (t : List (Nat × Nat)) : String :=
  ",".intercalate (t.reverse.map fun (m, s) => s!"{m}:{s}")

end YashModel.Exec
