/-
  Impl model of the four control-flow built-ins as the executor calls them (C02, wave 3): a transcription of
  yash-builtin/src/break.rs + break/syntax.rs + break/semantics.rs, continue.rs + continue/semantics.rs,
  return.rs, exit.rs, of the divert part of common/report.rs (`prepare_report_message_and_divert`, `report`,
  `report_error`, `report_simple_failure`, `syntax_error`) and of `Stack::loop_count` / `Stack::current_builtin`
  (yash-env/src/stack.rs) in the iterator-chain form they are written in.

  The option parser is not copied: `parse_arguments` is C20's committed model (`YashModel.Args.parseArguments`)
  and the option tables of `return` / `exit` are the rows C20's plugin re-extracts (`Generated.ArgSpecs`).
  Numeric operands: `str::parse::<NonZeroUsize>()` and `str::parse::<i32>()` (core::num `from_str_radix`, radix 10).

  Import-free (only `YashModel.*`) and executable.
-/
import YashModel.Exec.Model
import YashModel.Args.Model
import YashModel.Generated.ArgSpecs
import YashModel.Generated.ExecTables
namespace YashModel.Exec.Builtins
open YashModel.Exec
open YashModel.Generated

abbrev Str := YashModel.Args.Str

/-! ### yash-env/src/stack.rs -/

/-- `Stack::loop_count(max_count)`:
    `iter().rev().take_while(retains_context).filter(== Loop).take(max_count).count()`; the top of the stack is
    the head of the list -/
def loopCountChain (stack : List Frame) (max : Nat) : Nat :=
  (((stack.takeWhile Frame.retainsContext).filter (fun f => f = .loop)).take max).length

/-- `Stack::current_builtin`: `is_special` of the innermost `Frame::Builtin` -/
def currentBuiltin : List Frame → Option Bool
  | [] => none
  | .builtin sp :: _ => some sp
  | _ :: rest => currentBuiltin rest

/-! ### core::num: `from_str_radix(src, 10)` -/

/-- `IntErrorKind` -/
inductive IntErr where
  | empty | invalidDigit | posOverflow | negOverflow | zero
  deriving DecidableEq, Repr

/-- `(c as char).to_digit(10)` -/
def digitVal (c : Char) : Option Nat :=
  if 48 ≤ c.toNat ∧ c.toNat ≤ 57 then some (c.toNat - 48) else none

/-- the checked digit loop: an invalid digit is reported before the overflow its position would cause;
    `bound` is the largest magnitude of the type for this sign -/
def parseDigits (bound : Nat) (ovf : IntErr) : List Char → Nat → Except IntErr Nat
  | [], acc => .ok acc
  | c :: cs, acc =>
    match digitVal c with
    | none => .error .invalidDigit
    | some d => if acc * 10 + d > bound then .error ovf else parseDigits bound ovf cs (acc * 10 + d)

def usizeMax : Nat := 2 ^ 64 - 1

/-- `str::parse::<usize>()`: an optional `+`; a `-` is just an invalid digit of an unsigned type -/
def parseUsize (s : Str) : Except IntErr Nat :=
  match s with
  | [] => .error .empty
  | ['+'] => .error .invalidDigit
  | ['-'] => .error .invalidDigit
  | '+' :: ds => parseDigits usizeMax .posOverflow ds 0
  | ds => parseDigits usizeMax .posOverflow ds 0

/-- `str::parse::<NonZeroUsize>()` -/
def parseNonZeroUsize (s : Str) : Except IntErr Nat :=
  match parseUsize s with
  | .ok 0 => .error .zero
  | r => r

/-- `str::parse::<i32>()` (`ExitStatus` wraps a `c_int`) -/
def parseI32 (s : Str) : Except IntErr Int :=
  match s with
  | [] => .error .empty
  | ['+'] => .error .invalidDigit
  | ['-'] => .error .invalidDigit
  | '+' :: ds => (parseDigits (2 ^ 31 - 1) .posOverflow ds 0).map Int.ofNat
  | '-' :: ds => (parseDigits (2 ^ 31) .negOverflow ds 0).map fun n => - Int.ofNat n
  | ds => (parseDigits (2 ^ 31 - 1) .posOverflow ds 0).map Int.ofNat

/-! ### yash-builtin/src/common/report.rs -/

/-- `yash_env::builtin::Result` (`should_retain_redirs` is false in everything below) -/
structure BResult where
  exitStatus : Nat
  divert : Res
  deriving DecidableEq, Repr

/-- `yash_env::builtin::Result::max`: the larger exit status; a divert wins over none, of two the more severe -/
def BResult.max (a b : BResult) : BResult :=
  ⟨Nat.max a.exitStatus b.exitStatus,
    match a.divert, b.divert with
    | .continue_, other => other
    | other, .continue_ => other
    | .break_ l, .break_ r => .break_ (l.max r)
    | l, _ => l⟩

/-- the divert of `prepare_report_message_and_divert`: an error in a special built-in interrupts the shell -/
def reportDivert (stack : List Frame) : Res :=
  if (currentBuiltin stack).getD false then .break_ (.interrupt none) else .continue_

/-- `report_error` (also `syntax_error`): `ExitStatus::ERROR` -/
def reportError (stack : List Frame) : BResult := ⟨ExecTables.ERROR, reportDivert stack⟩

/-- `report_simple_failure`: `ExitStatus::FAILURE` -/
def reportSimpleFailure (stack : List Frame) : BResult := ⟨ExecTables.FAILURE, reportDivert stack⟩

/-! ### the option parser (C20's model) -/

/-- `Mode::with_env` -/
def modeWithEnv (portable : Bool) : Args.Mode := if portable then .portable else .withExtensions

def specOfRow (r : ArgSpecs.Row) : Args.OptionSpec :=
  { short := r.1, long := r.2.1, takesArg := r.2.2.1, extension := r.2.2.2 }

/-- `OPTION_SPECS` of return.rs -/
def returnSpecs : List Args.OptionSpec := ArgSpecs.specs_return.map specOfRow
/-- `OPTIONS` of exit.rs -/
def exitSpecs : List Args.OptionSpec := ArgSpecs.specs_exit.map specOfRow

/-! ### break / continue -/

/-- `break::syntax::Error` (without the fields it carries) -/
inductive BreakSyntaxError where
  | common (e : Args.ParseError)
  | tooManyOperands
  | invalidNumber (e : IntErr)
  deriving Repr

/-- `break::syntax::parse` (shared by `continue`) -/
def breakParse (portable : Bool) (args : List Str) : Except BreakSyntaxError Nat :=
  match Args.parseArguments [] (modeWithEnv portable) args with
  | .error e => .error (.common e)
  | .ok (_, operands) =>
    if operands.length > 1 then .error .tooManyOperands
    else
      match operands.getLast? with          -- `operands.pop()`
      | none => .ok 1
      | some field =>
        match parseNonZeroUsize field with
        | .ok n => .ok n
        | .error e => .error (.invalidNumber e)

/-- `break::semantics::run` / `continue::semantics::run`: `none` = `Error::NotInLoop` -/
def breakRun (isBreak : Bool) (stack : List Frame) (maxCount : Nat) : Option BResult :=
  let count := loopCountChain stack maxCount
  if count = 0 then none
  else some ⟨ExecTables.SUCCESS, .break_ (if isBreak then .break_ (count - 1) else .continue_ (count - 1))⟩

/-- `break::main` / `continue::main` -/
def breakMain (isBreak : Bool) (portable : Bool) (stack : List Frame) (args : List Str) : BResult :=
  match breakParse portable args with
  | .ok count =>
    match breakRun isBreak stack count with
    | some result => result
    | none => reportSimpleFailure stack
  | .error _ => reportError stack

/-! ### return / exit -/

/-- the operand part shared word for word by return.rs and exit.rs: `none` = an error was reported -/
def statusOperand (operands : List Str) : Option (Option Nat) :=
  match operands with
  | _ :: _ :: _ => none                       -- "too many operands"
  | [] => some none
  | [arg] =>
    match parseI32 arg with
    | .ok v => if v ≥ 0 then some (some v.toNat) else none      -- "negative exit status"
    | .error _ => none

/-- `return::main`; `status` is `env.exit_status` -/
def returnMain (portable : Bool) (stack : List Frame) (status : Nat) (args : List Str) : BResult :=
  match Args.parseArguments returnSpecs (modeWithEnv portable) args with
  | .error _ => reportError stack
  | .ok (options, operands) =>
    let noReturn := options.any fun o => o.spec.short == some 'n'
    match statusOperand operands with
    | none => reportError stack
    | some exitStatus =>
      if noReturn then ⟨exitStatus.getD status, .continue_⟩
      else ⟨status, .break_ (.return_ exitStatus)⟩

/-- `exit::main` of a shell that is not interactive (the suspended-jobs guard needs `env.is_interactive()`);
    `-f` is parsed and otherwise without effect -/
def exitMain (portable : Bool) (stack : List Frame) (status : Nat) (args : List Str) : BResult :=
  match Args.parseArguments exitSpecs (modeWithEnv portable) args with
  | .error _ => reportError stack
  | .ok (_, operands) =>
    match statusOperand operands with
    | none => reportError stack
    | some exitStatus => ⟨status, .break_ (.exit exitStatus)⟩

/-- what the suspended-jobs guard of `exit` reads from the environment: the `interactive` and `posixlycorrect`
    options, whether a `SuspendedJobsGuardConfig` is stored in `env.any`, whether some job is stopped -/
structure ExitGuard where
  interactive : Bool := false
  posix : Bool := false
  configured : Bool := false
  stoppedJob : Bool := false
  deriving DecidableEq, Repr

/-- `Env::is_interactive`: the option is on and the shell is not in a subshell -/
def isInteractive (optInteractive : Bool) (stack : List Frame) : Bool :=
  optInteractive && !stack.contains .subshell

/-- `exit::main` in full: after the options and the operand (their errors come first), the suspended-jobs guard —
    without `-f`, in an interactive shell that is not `posixlycorrect`, with the guard configured and a stopped job,
    the built-in refuses: status `FAILURE` and `Interrupt(None)` (which an interactive shell survives) -/
def exitMainG (g : ExitGuard) (portable : Bool) (stack : List Frame) (status : Nat) (args : List Str) : BResult :=
  match Args.parseArguments exitSpecs (modeWithEnv portable) args with
  | .error _ => reportError stack
  | .ok (options, operands) =>
    let force := options.any fun o => o.spec.short == some 'f'
    match statusOperand operands with
    | none => reportError stack
    | some exitStatus =>
      if !force && isInteractive g.interactive stack && !g.posix && g.configured && g.stoppedJob then
        ⟨ExecTables.FAILURE, .break_ (.interrupt none)⟩
      else ⟨status, .break_ (.exit exitStatus)⟩

/-! ### the caller: `execute_builtin` -/

/-- `execute_builtin` after the redirections and assignments: push `Frame::Builtin`, run `main`, pop;
    `SimpleCommand::execute` then stores the exit status, follows the divert and applies errexit
    (`finishSimple`) -/
def runBuiltin (s : St) (isSpecial : Bool) (main : List Frame → BResult) : St × Res :=
  let r := main (.builtin isSpecial :: s.stack)
  finishSimple { s with status := r.exitStatus } r.divert

end YashModel.Exec.Builtins
