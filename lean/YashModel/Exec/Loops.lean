/-
  Helper lemmas for C02: a `Break n` / `Continue n` divert that leaves any construct is bounded by the
  number of loops enclosing it (so none reaches the top level), by induction on fuel.
-/
import YashModel.Exec.Balance
namespace YashModel.Exec

/-- number of `Loop` frames visible from the top of the stack (`loop_count(∞)`) -/
def loops : List Frame → Nat
  | [] => 0
  | f :: rest => if f.retainsContext then (if f = .loop then 1 + loops rest else loops rest) else 0

theorem loopCountAux_eq_min (stack : List Frame) (max : Nat) :
    loopCountAux stack max = min max (loops stack) := by
  induction stack generalizing max with
  | nil => cases max <;> simp [loopCountAux, loops]
  | cons f rest ih =>
    cases max with
    | zero => simp [loopCountAux]
    | succ m =>
      simp only [loopCountAux, loops]
      split
      · split
        · rw [ih]; omega
        · rw [ih]
      · simp

theorem loopCount_eq_min (stack : List Frame) (max : Nat) : loopCount stack max = min max (loops stack) :=
  loopCountAux_eq_min stack max

@[simp] theorem loops_condition (st : List Frame) : loops (.condition :: st) = loops st := by
  simp [loops, Frame.retainsContext]
@[simp] theorem loops_builtin (st : List Frame) (b : Bool) : loops (.builtin b :: st) = loops st := by
  simp [loops, Frame.retainsContext]
@[simp] theorem loops_loop (st : List Frame) : loops (.loop :: st) = 1 + loops st := by
  simp [loops, Frame.retainsContext]
@[simp] theorem loops_trap (st : List Frame) : loops (.trap :: st) = 0 := by
  simp [loops, Frame.retainsContext]
@[simp] theorem loops_subshell (st : List Frame) : loops (.subshell :: st) = 0 := by
  simp [loops, Frame.retainsContext]

/-- the divert carried by a result stays within `k` enclosing loops -/
def Within (k : Nat) : Res → Prop
  | .break_ (.break_ n) => n < k
  | .break_ (.continue_ n) => n < k
  | _ => True

theorem within_mono {k k' : Nat} {r : Res} (h : Within k r) (hk : k ≤ k') : Within k' r := by
  unfold Within at *
  split <;> simp_all <;> omega

@[simp] theorem within_continue (k : Nat) : Within k .continue_ := trivial
@[simp] theorem within_fuel (k : Nat) : Within k .outOfFuel := trivial

theorem within_applyErrexit (s : St) (k : Nat) : Within k s.applyErrexit := by
  unfold St.applyErrexit; split <;> trivial

theorem within_finishSimple (s : St) (r : Res) (k : Nat) (h : Within k r) : Within k (finishSimple s r).2 := by
  unfold finishSimple
  split
  · exact within_applyErrexit s k
  · exact h

theorem within_breakBuiltin (stack : List Frame) (n : Nat) (b : Bool) :
    Within (loops stack) (breakBuiltin (.builtin true :: stack) n b).2 := by
  unfold breakBuiltin
  simp only [loopCount_eq_min, loops_builtin]
  split
  · trivial
  · cases b <;> simp [Within] <;> omega

/-- what `loopStep` passes outward from a loop body is within one loop less -/
theorem within_loopStep_out {k : Nat} {r r' : Res} (h : Within (1 + k) r) (hl : loopStep r = .out r') :
    Within k r' := by
  cases r with
  | continue_ => simp [loopStep] at hl
  | outOfFuel => simp [loopStep] at hl; subst hl; trivial
  | break_ d =>
    cases d with
    | break_ n =>
      cases n with
      | zero => simp [loopStep] at hl
      | succ n => simp [loopStep] at hl; subst hl; simp [Within] at *; omega
    | continue_ n =>
      cases n with
      | zero => simp [loopStep] at hl
      | succ n => simp [loopStep] at hl; subst hl; simp [Within] at *; omega
    | return_ e => simp [loopStep] at hl; subst hl; trivial
    | interrupt e => simp [loopStep] at hl; subst hl; trivial
    | exit e => simp [loopStep] at hl; subst hl; trivial
    | abort e => simp [loopStep] at hl; subst hl; trivial

end YashModel.Exec
