/-
  `read_eval_loop_impl` (yash-semantics/src/runner.rs) with its `executed` flag, as of /repo 4afb140: a command line
  without commands (blank, comment only) does not count as an executed command, and a loop that executed none ends
  with `$?` = 0 (POSIX: `eval` / `.` return zero when no command is executed).  `Exec.runScript` (shared with C10) is
  this loop entered with the flag already set: `readEvalLoop_true`.
  Import-free and executable.
-/
import YashModel.Exec.Model
namespace YashModel.Exec

/-- `read_eval_loop_impl`; the last argument is `executed` -/
def readEvalLoop : Nat → St → List Line → Bool → St × Res
  | 0, s, _, _ => (s, .outOfFuel)
  | _+1, s, [], executed => (if executed then s else { s with status := 0 }, .continue_)
  | _+1, s, .syntaxError :: _, _ =>
    let r := Res.break_ (.interrupt (some 2))
    (s.applyResult r, r)
  | fuel+1, s, .cmds line :: rest, executed =>
    let x := pollWith (execList fuel) s .continue_
    match x.2 with
    | .continue_ =>
      let (s1, r) := execList fuel x.1 line
      (match r with
       | .continue_ => readEvalLoop fuel s1 rest (executed || !line.isEmpty)
       | r => (s1.applyResult r, r))
    | r0 => (x.1.applyResult r0, r0)

end YashModel.Exec
