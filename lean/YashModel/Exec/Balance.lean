/-
  Helper lemmas for C02: every execution function restores the frame stack (push/pop balance on every
  path, including diverts and fuel exhaustion).
-/
import YashModel.Exec.Model
namespace YashModel.Exec

@[simp] theorem push_stack (s : St) (f : Frame) : (s.push f).stack = f :: s.stack := rfl
@[simp] theorem pop_stack (s : St) : s.pop.stack = s.stack.tail := rfl
@[simp] theorem applyResult_stack (s : St) (r : Res) : (s.applyResult r).stack = s.stack := by
  unfold St.applyResult
  split
  · split <;> rfl
  · rfl

@[simp] theorem finishSimple_stack (s : St) (r : Res) : (finishSimple s r).1.stack = s.stack := by
  unfold finishSimple; split <;> rfl

structure Bal (fuel : Nat) : Prop where
  cmd : ∀ s c, (execCmd fuel s c).1.stack = s.stack
  elifs : ∀ s e els, (execElifs fuel s e els).1.stack = s.stack
  while_ : ∀ s u c b e, (execWhile fuel s u c b e).1.stack = s.stack
  for_ : ∀ s n b, (execFor fuel s n b).1.stack = s.stack
  case_ : ∀ s items f u, (execCase fuel s items f u).1.stack = s.stack
  list : ∀ s l, (execList fuel s l).1.stack = s.stack
  item : ∀ s i, (execItem fuel s i).1.stack = s.stack
  aor : ∀ s r, (execAndOrRest fuel s r).1.stack = s.stack.tail
  pipe : ∀ s p, (execPipeline fuel s p).1.stack = s.stack
  cmds : ∀ s cs, (execCommands fuel s cs).1.stack = s.stack
  members : ∀ s cs f, (execPipeMembers fuel s cs f).1.stack = s.stack

theorem bal_zero : Bal 0 := by
  refine ⟨?_, ?_, ?_, ?_, ?_, ?_, ?_, ?_, ?_, ?_, ?_⟩ <;> intros <;> simp [execCmd, execElifs, execWhile,
    execFor, execCase, execList, execItem, execAndOrRest, execPipeline, execCommands, execPipeMembers]

theorem bal_list (fuel : Nat) (ih : Bal fuel) : ∀ s l, (execList (fuel+1) s l).1.stack = s.stack := by
  intro s l
  cases l with
  | nil => simp [execList]
  | cons it rest =>
    simp only [execList]
    have h1 := ih.item s it
    generalize execItem fuel s it = x at *
    obtain ⟨s1, r⟩ := x
    cases r <;> simp_all [ih.list]


theorem bal_item (fuel : Nat) (ih : Bal fuel) : ∀ s i, (execItem (fuel+1) s i).1.stack = s.stack := by
  intro s i
  obtain ⟨first, rest⟩ := i
  cases rest with
  | nil => simp [execItem, ih.pipe]
  | cons a t =>
    simp only [execItem]
    have h1 := ih.pipe (s.push .condition) first
    generalize execPipeline fuel (s.push .condition) first = x at *
    obtain ⟨s1, r⟩ := x
    cases r <;> simp_all [ih.aor]

theorem bal_aor (fuel : Nat) (ih : Bal fuel) : ∀ s r, (execAndOrRest (fuel+1) s r).1.stack = s.stack.tail := by
  intro s r
  match r with
  | [] => simp [execAndOrRest]
  | [(a, p)] =>
    simp only [execAndOrRest]
    split
    · simp [ih.pipe]
    · simp
  | (a, p) :: b :: t =>
    simp only [execAndOrRest]
    split
    · have h1 := ih.pipe s p
      generalize execPipeline fuel s p = x at *
      obtain ⟨s1, r⟩ := x
      cases r <;> simp_all [ih.aor]
    · simp [ih.aor]

theorem bal_pipe (fuel : Nat) (ih : Bal fuel) : ∀ s p, (execPipeline (fuel+1) s p).1.stack = s.stack := by
  intro s p
  obtain ⟨neg, cmds⟩ := p
  simp only [execPipeline]
  split
  · simp [ih.cmds]
  · have h1 := ih.cmds (s.push .condition) cmds
    generalize execCommands fuel (s.push .condition) cmds = x at *
    obtain ⟨s1, r⟩ := x
    cases r <;> simp_all

theorem finishPoll_stack (prev : Nat) (s2 : St) (r t : Res) : (finishPoll prev s2 r t).1.stack = s2.stack := by
  unfold finishPoll
  cases t with
  | continue_ => cases r <;> simp
  | outOfFuel => cases r <;> simp
  | break_ d =>
    cases d with
    | interrupt x => cases x <;> cases r <;> simp
    | _ => cases r <;> simp

theorem pollWith_stack (run : St → List Item → St × Res) (hrun : ∀ s l, (run s l).1.stack = s.stack)
    (s1 : St) (r : Res) : (pollWith run s1 r).1.stack = s1.stack := by
  unfold pollWith
  cases r with
  | outOfFuel => rfl
  | continue_ =>
    simp only
    cases s1.trapDue with
    | none => rfl
    | some body => simp only; rw [finishPoll_stack]; simp [St.pop, St.push, hrun]
  | break_ d =>
    simp only
    cases s1.trapDue with
    | none => rfl
    | some body => simp only; rw [finishPoll_stack]; simp [St.pop, St.push, hrun]

theorem leaveJc_stack (s s1 : St) (h : s1.stack = s.enterJc.stack) : (s.leaveJc s1).stack = s.stack := by
  unfold St.leaveJc St.enterJc at *
  split <;> simp_all [St.push, St.pop]

theorem bal_cmds (fuel : Nat) (ih : Bal fuel) : ∀ s cs, (execCommands (fuel+1) s cs).1.stack = s.stack := by
  intro s cs
  match cs with
  | [] => simp [execCommands]
  | [c] =>
    simp only [execCommands]
    rw [pollWith_stack _ (fun s l => ih.list s l)]
    exact ih.cmd s c
  | c :: d :: t =>
    simp only [execCommands]
    have h1 := ih.members s.enterJc (c :: d :: t) 0
    generalize execPipeMembers fuel s.enterJc (c :: d :: t) 0 = x at *
    obtain ⟨s1, r⟩ := x
    have h2 := leaveJc_stack s s1 h1
    cases r <;> simp_all

theorem bal_members (fuel : Nat) (ih : Bal fuel) :
    ∀ s cs f, (execPipeMembers (fuel+1) s cs f).1.stack = s.stack := by
  intro s cs f
  cases cs with
  | nil => simp [execPipeMembers]
  | cons c rest =>
    simp only [execPipeMembers]
    generalize execCmd fuel (s.push .subshell) c = x
    obtain ⟨c1, r⟩ := x
    cases r <;> simp [ih.members]

theorem bal_elifs (fuel : Nat) (ih : Bal fuel) :
    ∀ s e els, (execElifs (fuel+1) s e els).1.stack = s.stack := by
  intro s e els
  cases e with
  | nil =>
    simp only [execElifs]
    cases els <;> simp [ih.list]
  | cons cb rest =>
    obtain ⟨cond, body⟩ := cb
    simp only [execElifs]
    have h1 := ih.list (s.push .condition) cond
    generalize execList fuel (s.push .condition) cond = x at *
    obtain ⟨s1, r⟩ := x
    cases r with
    | continue_ => simp only; split <;> simp_all [ih.list, ih.elifs]
    | break_ d => simp_all
    | outOfFuel => simp_all

theorem bal_for (fuel : Nat) (ih : Bal fuel) : ∀ s n b, (execFor (fuel+1) s n b).1.stack = s.stack := by
  intro s n b
  cases n with
  | zero => simp [execFor]
  | succ n =>
    simp only [execFor]
    have h1 := ih.list s b
    generalize execList fuel s b = x at *
    obtain ⟨s1, r⟩ := x
    cases hl : loopStep r <;> simp_all [ih.for_]

theorem bal_case (fuel : Nat) (ih : Bal fuel) :
    ∀ s items f u, (execCase (fuel+1) s items f u).1.stack = s.stack := by
  intro s items f u
  cases items with
  | nil => simp [execCase]
  | cons it rest =>
    obtain ⟨m, e, body, k⟩ := it
    simp only [execCase]
    split
    · simp
    split
    · simp [ih.case_]
    · have h1 := ih.list s body
      generalize execList fuel s body = x at *
      obtain ⟨s1, r⟩ := x
      cases r with
      | continue_ => cases k <;> simp_all [ih.case_]
      | break_ d => simp_all
      | outOfFuel => simp_all

theorem bal_while (fuel : Nat) (ih : Bal fuel) :
    ∀ s u c b e, (execWhile (fuel+1) s u c b e).1.stack = s.stack := by
  intro s u c b e
  simp only [execWhile]
  have h1 := ih.list (s.push .condition) c
  generalize execList fuel (s.push .condition) c = x at *
  obtain ⟨s1, r⟩ := x
  simp only at h1
  have hs1 : s1.stack.tail = s.stack := by simp [h1]
  cases hl : loopStep r with
  | stop => simpa using hs1
  | out r' => simpa using hs1
  | next =>
    simp only
    split
    · rw [ih.while_]; simpa using hs1
    · split
      · have h2 := ih.list s1.pop b
        generalize execList fuel s1.pop b = y at *
        obtain ⟨s2, r2⟩ := y
        simp only [pop_stack] at h2
        cases hl2 : loopStep r2 with
        | stop => simp [h2, hs1]
        | out r'' => simp [h2, hs1]
        | next =>
          simp only
          split <;> rw [ih.while_] <;> simp [h2, hs1]
      · simpa using hs1


theorem bal_cmd (fuel : Nat) (ih : Bal fuel) : ∀ s c, (execCmd (fuel+1) s c).1.stack = s.stack := by
  intro s c
  cases c with
  | probe m => simp [execCmd]
  | st n => simp [execCmd]
  | brk n => simp [execCmd]
  | cont n => simp [execCmd]
  | ret n => simp [execCmd]
  | exit n => simp [execCmd]
  | setE on => simp [execCmd]
  | setM on => simp [execCmd]
  | setP on => simp [execCmd]
  | unknown => simp [execCmd]
  | absent w r a => simp [execCmd]
  | tick c k => simp only [execCmd]; split <;> simp
  | setParams n => simp [execCmd]
  | freeze name => simp only [execCmd]; split <;> simp
  | forRo values => simp only [execCmd]; split <;> simp
  | forPos body =>
    simp only [execCmd]
    split
    · simp
    · have h1 := ih.for_ (s.push .loop) s.params body
      generalize execFor fuel (s.push .loop) s.params body = x at *
      obtain ⟨s1, r⟩ := x
      simp_all
  | call name nargs =>
    simp only [execCmd]
    split
    · simp
    · simp
    · simp
    · rename_i body _
      have h1 := ih.cmd { s with params := nargs } body
      generalize execCmd fuel { s with params := nargs } body = x at *
      obtain ⟨s1, r⟩ := x
      simp only at h1
      split
      · rename_i e _
        cases e <;> simp [h1]
      · simp [h1]
    · simp
  | fundef name body => simp only [execCmd]; split <;> simp
  | expErr => simp [execCmd]
  | assignErr => simp [execCmd]
  | redirErr k => simp only [execCmd]; cases k <;> simp
  | specialErr w st => simp [execCmd]
  | trapExit body => simp [execCmd]
  | trapSig body => simp [execCmd]
  | raise n => simp [execCmd]
  | raiseErr => simp [execCmd]
  | group body => simp [execCmd, ih.list]
  | subshell body =>
    simp only [execCmd]
    generalize execList fuel (s.push .subshell) body = x
    obtain ⟨c1, r⟩ := x
    cases r <;> simp
  | asyncWait body =>
    simp only [execCmd]
    generalize execList fuel (s.push .subshell) body = x
    obtain ⟨c1, r⟩ := x
    cases r <;> simp
  | ifc cond body elifs els =>
    simp only [execCmd]
    have h1 := ih.list (s.push .condition) cond
    generalize execList fuel (s.push .condition) cond = x at *
    obtain ⟨s1, r⟩ := x
    cases r with
    | continue_ => simp only; split <;> simp_all [ih.list, ih.elifs]
    | break_ d => simp_all
    | outOfFuel => simp_all
  | whileLoop u cond body =>
    simp only [execCmd]
    have h1 := ih.while_ (s.push .loop) u cond body 0
    generalize execWhile fuel (s.push .loop) u cond body 0 = x at *
    obtain ⟨s1, r, e⟩ := x
    cases r <;> simp_all
  | forLoop values body =>
    simp only [execCmd]
    split
    · simp
    · have h1 := ih.for_ (s.push .loop) values body
      generalize execFor fuel (s.push .loop) values body = x at *
      obtain ⟨s1, r⟩ := x
      simp_all
  | caseC items =>
    simp only [execCmd]
    have h1 := ih.case_ s items false false
    generalize execCase fuel s items false false = x at *
    obtain ⟨s1, r, u⟩ := x
    cases r with
    | continue_ => simp only; split <;> simp_all
    | break_ d => simp_all
    | outOfFuel => simp_all

theorem bal : ∀ fuel, Bal fuel := by
  intro fuel
  induction fuel with
  | zero => exact bal_zero
  | succ fuel ih =>
    exact ⟨bal_cmd fuel ih, bal_elifs fuel ih, bal_while fuel ih, bal_for fuel ih, bal_case fuel ih,
      bal_list fuel ih, bal_item fuel ih, bal_aor fuel ih, bal_pipe fuel ih, bal_cmds fuel ih,
      bal_members fuel ih⟩

end YashModel.Exec
