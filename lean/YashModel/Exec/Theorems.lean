/-
  C02 — property theorems (and non-vacuity examples) ONLY.  Helper lemmas: Balance, Loops, Escape.

  Property text (abridged): for every program built from lists, and-or lists, negated and
  multi-command pipelines, groups, subshells, if/while/until/for/case, function definitions and
  calls and break/continue/return/exit, the commands that run, their order, `$?` at every point
  and the final status are those of POSIX XCU 2.9–2.15: `&&`/`||` short-circuit left to right with
  equal precedence, `!` inverts only the status, loops honour break/continue levels, `return`
  leaves only the innermost function, a compound command's status is that of the last command it
  ran (zero if none).

  The theorems are about the Impl model `YashModel.Exec` (tied to the Rust code by the c02
  correspondence run) and hold for every program, every state and every fuel.
-/
import YashModel.Exec.Escape
import YashModel.Exec.Refine
import YashModel.Exec.FuelMono
import YashModel.Exec.SearchCompose
import YashModel.Exec.BuiltinLemmas
import YashModel.Exec.LawLemmas
import YashModel.Exec.Identify
import YashModel.Exec.LoopIrrelevance
import YashModel.Exec.ReadEval
namespace YashModel.Exec

/-! ### ★ stack_balanced: every push has its pop on every path -/

theorem stack_balanced_cmd (fuel : Nat) (s : St) (c : Cmd) : (execCmd fuel s c).1.stack = s.stack :=
  (bal fuel).cmd s c

theorem stack_balanced_list (fuel : Nat) (s : St) (l : List Item) : (execList fuel s l).1.stack = s.stack :=
  (bal fuel).list s l

theorem stack_balanced_script (fuel : Nat) (s : St) (ls : List Line) :
    (runScript fuel s ls).1.stack = s.stack := by
  induction fuel generalizing s ls with
  | zero => simp [runScript]
  | succ fuel ih =>
    cases ls with
    | nil => simp [runScript]
    | cons l rest =>
      cases l with
      | syntaxError => simp [runScript]
      | cmds l =>
      simp only [runScript]
      have hp := pollWith_stack (execList fuel) (fun a b => (bal fuel).list a b) s .continue_
      generalize pollWith (execList fuel) s .continue_ = xp at *
      obtain ⟨s0, r0⟩ := xp
      simp only at hp
      cases r0 with
      | outOfFuel => simpa using hp
      | break_ d => simpa using hp
      | continue_ =>
        simp only
        have h := (bal fuel).list s0 l
        generalize execList fuel s0 l = x at *
        obtain ⟨s1, r⟩ := x
        cases r with
        | continue_ => simp only; rw [ih]; exact h.trans hp
        | break_ d => simpa using h.trans hp
        | outOfFuel => simpa using h.trans hp

/-! ### ★ break_never_escapes -/

/-- A `break`/`continue` divert leaving any command is bounded by the number of loops that enclose
    the command (counted through condition and built-in frames, stopping at a subshell). -/
theorem break_never_escapes (fuel : Nat) (s : St) (c : Cmd) : Within (loops s.stack) (execCmd fuel s c).2 :=
  (esc fuel).cmd s c

theorem break_never_escapes_list (fuel : Nat) (s : St) (l : List Item) :
    Within (loops s.stack) (execList fuel s l).2 :=
  (esc fuel).list s l

/-- Hence nothing but `Return`, `Interrupt`, `Exit` (or `Abort`) ends a script run at top level. -/
theorem toplevel_no_break (fuel : Nat) (s : St) (ls : List Line) (hs : loops s.stack = 0) (n : Nat) :
    (runScript fuel s ls).2 ≠ .break_ (.break_ n) ∧ (runScript fuel s ls).2 ≠ .break_ (.continue_ n) := by
  induction fuel generalizing s ls with
  | zero => simp [runScript]
  | succ fuel ih =>
    cases ls with
    | nil => simp [runScript]
    | cons l rest =>
      cases l with
      | syntaxError => simp [runScript]
      | cmds l =>
      simp only [runScript]
      have hp := pollWith_stack (execList fuel) (fun a b => (bal fuel).list a b) s .continue_
      have hw := within_pollWith (execList fuel) (fun a b => (esc fuel).list a b) s .continue_ trivial
      generalize pollWith (execList fuel) s .continue_ = xp at *
      obtain ⟨s0, r0⟩ := xp
      simp only at hp hw
      rw [hs] at hw
      have hs0 : loops s0.stack = 0 := by rw [hp]; exact hs
      cases r0 with
      | outOfFuel => simp
      | break_ d => cases d <;> simp_all [Within]
      | continue_ =>
        simp only
        have h := (esc fuel).list s0 l
        have hb := (bal fuel).list s0 l
        generalize execList fuel s0 l = x at *
        obtain ⟨s1, r⟩ := x
        rw [hs0] at h
        cases r with
        | continue_ => simp only; exact ih s1 rest (by simp only at hb; rw [hb]; exact hs0)
        | outOfFuel => simp
        | break_ d =>
          cases d <;> simp_all [Within]

/-- `break n` inside `d` visible loops leaves exactly `min n d` of them (`d = 0`: an error of a
    special built-in, which interrupts the shell with status 1). -/
theorem break_leaves_min (fuel : Nat) (s : St) (n : Nat) :
    execCmd (fuel+1) s (.brk n) =
      if min n (loops s.stack) = 0 then ({ s with status := 1 }, .break_ (.interrupt none))
      else ({ s with status := 0 }, .break_ (.break_ (min n (loops s.stack) - 1))) := by
  simp only [execCmd, breakBuiltin, loopCount_eq_min, loops_builtin]
  split <;> simp [finishSimple]

/-- a loop consumes one level of `break`: `Break{0}` ends the loop normally, `Break{k+1}` leaves it
    as `Break{k}`; likewise for `continue` -/
theorem loop_consumes_level (k : Nat) :
    loopStep (.break_ (.break_ 0)) = .stop ∧ loopStep (.break_ (.break_ (k+1))) = .out (.break_ (.break_ k)) ∧
    loopStep (.break_ (.continue_ 0)) = .next ∧
    loopStep (.break_ (.continue_ (k+1))) = .out (.break_ (.continue_ k)) := by
  simp [loopStep]

/-! ### ★ return_innermost -/

/-- `return` leaves only the innermost function: a function call never yields a `Return` divert,
    and when its body returns with a status the caller goes on with exactly that status. -/
theorem return_innermost (fuel : Nat) (s : St) (name : Name) (nargs : Nat) (body : Cmd)
    (hc : classify s name = .function body) :
    (∀ e, (execCmd (fuel+1) s (.call name nargs)).2 ≠ .break_ (.return_ e)) ∧
    (∀ e, (execCmd fuel { s with params := nargs } body).2 = .break_ (.return_ (some e)) →
      (execCmd (fuel+1) s (.call name nargs)).1.status = e ∧
      (execCmd (fuel+1) s (.call name nargs)).2 = (execCmd (fuel+1) s (.call name nargs)).1.applyErrexit) ∧
    -- the caller's positional parameters are what they were, whatever the body did
    (execCmd (fuel+1) s (.call name nargs)).1.params = s.params := by
  simp only [execCmd, hc]
  generalize execCmd fuel { s with params := nargs } body = x
  obtain ⟨s1, r⟩ := x
  refine ⟨?_, ?_, ?_⟩
  · intro e
    cases r with
    | continue_ => simp [finishSimple, St.applyErrexit]; split <;> simp
    | outOfFuel => simp [finishSimple]
    | break_ d =>
      cases d with
      | return_ e' => cases e' <;> simp only [finishSimple, St.applyErrexit] <;> split <;> simp
      | _ => simp [finishSimple]
  · intro e hr
    simp only at hr
    subst hr
    simp [finishSimple]
  · cases r with
    | continue_ => simp [finishSimple]
    | outOfFuel => simp [finishSimple]
    | break_ d =>
      cases d with
      | return_ e' => cases e' <;> simp [finishSimple]
      | _ => simp [finishSimple]

/-! ### ★ and-or lists -/

/-- the skipped side of `&&` / `||` contributes nothing: state and trace are untouched -/
theorem andor_skips (fuel : Nat) (s : St) (andThen : Bool) (p q : Bool × Pipeline) (rest : List (Bool × Pipeline))
    (hskip : (s.status = 0) ≠ p.1) (hp : p.1 = andThen) :
    execAndOrRest (fuel+1) s (p :: q :: rest) = execAndOrRest fuel s (q :: rest) := by
  obtain ⟨a, pp⟩ := p
  simp only [execAndOrRest]
  simp only at hskip
  simp [hskip]

/-- left to right with equal precedence: after `a` (run in a condition context) the rest is decided
    only by the current `$?`, one operator at a time -/
theorem andor_left_to_right (fuel : Nat) (s : St) (a : Pipeline) (r : Bool × Pipeline) (rest : List (Bool × Pipeline)) :
    execItem (fuel+1) s (.mk a (r :: rest)) =
      match execPipeline fuel (s.push .condition) a with
      | (s1, .continue_) => execAndOrRest fuel s1 (r :: rest)
      | (s1, res) => (s1.pop, res) := by
  simp only [execItem]
  generalize execPipeline fuel (s.push .condition) a = x
  obtain ⟨s1, res⟩ := x
  cases res <;> rfl

/-- the last pipeline of an and-or list runs without the condition frame (so errexit applies to it) -/
theorem andor_last_unconditioned (fuel : Nat) (s : St) (andThen : Bool) (p : Pipeline) :
    execAndOrRest (fuel+1) s [(andThen, p)] =
      if (s.pop.status = 0) = andThen then execPipeline fuel s.pop p else (s.pop, .continue_) := by
  simp [execAndOrRest]

/-! ### ★ negation -/

/-- `! p` runs `p` exactly as in a condition context (same trace, same diverts) and, when `p`
    completes normally, only inverts the status — it never triggers errexit itself -/
theorem negation_status_only (fuel : Nat) (s : St) (cmds : List Cmd) :
    execPipeline (fuel+1) s (.mk true cmds) =
      match execCommands fuel (s.push .condition) cmds with
      | (s1, .continue_) => ({ s1.pop with status := if s1.pop.status = 0 then 1 else 0 }, .continue_)
      | (s1, r) => (s1.pop, r) := by
  simp only [execPipeline]
  generalize execCommands fuel (s.push .condition) cmds = x
  obtain ⟨s1, r⟩ := x
  cases r <;> simp [St.pop]

theorem negation_keeps_trace (fuel : Nat) (s : St) (cmds : List Cmd) :
    (execPipeline (fuel+1) s (.mk true cmds)).1.trace = (execCommands fuel (s.push .condition) cmds).1.trace := by
  rw [negation_status_only]
  generalize execCommands fuel (s.push .condition) cmds = x
  obtain ⟨s1, r⟩ := x
  cases r <;> simp [St.pop]

/-! ### ★ compound commands yield zero when no body ran -/

theorem if_none_taken_zero (fuel : Nat) (s : St) (cond body : List Item)
    (hc : (execList (fuel+1) (s.push .condition) cond).2 = .continue_)
    (hs : (execList (fuel+1) (s.push .condition) cond).1.status ≠ 0) :
    execCmd (fuel+2) s (.ifc cond body [] none) =
      ({ (execList (fuel+1) (s.push .condition) cond).1.pop with status := 0 }, .continue_) := by
  simp only [execCmd]
  generalize execList (fuel+1) (s.push .condition) cond = x at *
  obtain ⟨s1, r⟩ := x
  simp only at hc hs
  subst hc
  have : ¬ s1.pop.status = 0 := hs
  simp [this, execElifs]

/-- `while` whose condition fails at once (or `until` whose condition succeeds at once) yields 0 -/
theorem while_no_iteration_zero (fuel : Nat) (s : St) (until_ : Bool) (cond body : List Item)
    (hc : (execList fuel ((s.push .loop).push .condition) cond).2 = .continue_)
    (hs : ((execList fuel ((s.push .loop).push .condition) cond).1.status = 0) ≠ !until_) :
    (execCmd (fuel+2) s (.whileLoop until_ cond body)).1.status = 0 ∧
    (execCmd (fuel+2) s (.whileLoop until_ cond body)).2 = .continue_ := by
  simp only [execCmd, execWhile]
  generalize execList fuel ((s.push .loop).push .condition) cond = x at *
  obtain ⟨s1, r⟩ := x
  simp only at hc hs
  subst hc
  have : ¬ (s1.pop.status = 0 ↔ until_ = false) := by
    intro h; apply hs; simpa [St.pop] using h
  simp [loopStep, this]

/-- `for` over no words yields 0 (bodies are never empty in parser-produced trees) -/
theorem for_no_words_zero (fuel : Nat) (s : St) (body : List Item) (hb : body ≠ []) :
    execCmd (fuel+1) s (.forLoop 0 body) = ({ s with status := 0 }, .continue_) := by
  have : body.isEmpty = false := by cases body <;> simp_all
  simp [execCmd, this, St.push, St.pop]

/-- `case` with no matching item (and no failing pattern expansion) yields 0 and runs nothing -/
theorem case_no_match_zero (fuel : Nat) (s : St) (items : List (Bool × Bool × List Item × CaseCont))
    (hm : ∀ it ∈ items, it.1 = false ∧ it.2.1 = false) (hf : items.length < fuel) :
    execCmd (fuel+1) s (.caseC items) = ({ s with status := 0 }, .continue_) := by
  have key : ∀ (fuel : Nat) (items : List (Bool × Bool × List Item × CaseCont)) (u : Bool),
      (∀ it ∈ items, it.1 = false ∧ it.2.1 = false) → items.length < fuel →
      execCase fuel s items false u = (s, .continue_, u) := by
    intro fuel
    induction fuel with
    | zero => intro items u _ h; omega
    | succ fuel ih =>
      intro items u hm hf
      cases items with
      | nil => simp [execCase]
      | cons it rest =>
        obtain ⟨m, e, body, k⟩ := it
        have hm0 : m = false ∧ e = false := hm (m, e, body, k) (by simp)
        obtain ⟨hm1, he1⟩ := hm0
        subst hm1 he1
        simp only [execCase]
        simp only [Bool.not_false, Bool.and_self, Bool.and_false, Bool.false_eq_true, if_true, if_false]
        exact ih rest u (fun it h => hm it (List.mem_cons_of_mem _ h)) (by simp at hf; omega)
  simp only [execCmd, key fuel items false hm hf]
  simp

/-- the patterns of a `case` item are expanded only if the item is reached without falling through: an
    item entered through `;&` runs its body whatever its patterns would do (here: fail to expand), while
    the same item reached normally stops the shell with the expansion error -/
theorem case_fallthrough_skips_patterns (fuel : Nat) (s : St) (m : Bool) (body : List Item) (k : CaseCont)
    (rest : List (Bool × Bool × List Item × CaseCont)) (u : Bool) :
    (execCase (fuel+1) s ((m, true, body, k) :: rest) false u).2.1 = s.expansionError ∧
    execCase (fuel+1) s ((m, true, body, k) :: rest) true u =
      execCase (fuel+1) s ((true, false, body, k) :: rest) true u := by
  constructor
  · simp [execCase]
  · simp [execCase]

/-- a loop's status is that of the last command its body ran: the `while` register -/
theorem while_status_is_last_body (fuel : Nat) (s : St) (until_ : Bool) (cond body : List Item) (e : Nat) :
    (execCmd (fuel+1) s (.whileLoop until_ cond body)).2 = .continue_ →
    (execCmd (fuel+1) s (.whileLoop until_ cond body)).1.status =
      (execWhile fuel (s.push .loop) until_ cond body 0).2.2 := by
  simp only [execCmd]
  generalize execWhile fuel (s.push .loop) until_ cond body 0 = x
  obtain ⟨s1, r, e'⟩ := x
  cases r <;> simp

/-- a command without a name (only assignments and/or words that expand to nothing) has the status of
    the last command substitution it performed — those of the assignments after those of the
    redirections after those of the words — and zero if it performed none -/
theorem absent_command_status (fuel : Nat) (s : St) (w r a : Option Nat) :
    (execCmd (fuel+1) s (.absent w r a)).1.status =
      match a, r, w with
      | some x, _, _ => x
      | none, some y, _ => y
      | none, none, some z => z
      | none, none, none => 0 := by
  cases a <;> cases r <;> cases w <;> simp [execCmd, finishSimple] <;> split <;> rfl

/-- an asynchronous list followed by `wait` never diverts the shell and leaves status 0: whatever the
    list does — `exit`, `break`, `return`, a failing command under errexit — stays in its subshell;
    only its output is seen (and the signals it sent to the shell) -/
theorem async_list_isolated (fuel : Nat) (s : St) (body : List Item)
    (hf : (execList fuel (s.push .subshell) body).2 ≠ .outOfFuel) :
    (execCmd (fuel+1) s (.asyncWait body)).2 = .continue_ ∧
    (execCmd (fuel+1) s (.asyncWait body)).1 =
      { s with status := 0,
               trace := ((execList fuel (s.push .subshell) body).1.applyResult
                          (execList fuel (s.push .subshell) body).2).trace,
               -- a signal the list sent to the shell is pending when the list has been joined
               pending := ((execList fuel (s.push .subshell) body).1.applyResult
                          (execList fuel (s.push .subshell) body).2).pending } := by
  simp only [execCmd]
  generalize execList fuel (s.push .subshell) body = x at *
  obtain ⟨c1, r⟩ := x
  cases r <;> simp_all [St.applyErrexit]

/-- a subshell `( … )` contains everything its body does but the output, the status and the signals it
    sent: no `break`/`continue`/`return`/`exit` leaves it (the only divert of the command itself is the
    parent's own errexit), and options, parameters, functions and counters of the shell are untouched -/
theorem subshell_contains (fuel : Nat) (s : St) (body : List Item) :
    ((execCmd (fuel+1) s (.subshell body)).2 = .continue_ ∨
     (execCmd (fuel+1) s (.subshell body)).2 = .break_ (.exit none) ∨
     (execCmd (fuel+1) s (.subshell body)).2 = .outOfFuel) ∧
    (∃ st tr pe, (execCmd (fuel+1) s (.subshell body)).1 = { s with status := st, trace := tr, pending := pe }) := by
  simp only [execCmd]
  generalize execList fuel (s.push .subshell) body = x
  obtain ⟨c1, r⟩ := x
  cases r with
  | outOfFuel => exact ⟨Or.inr (Or.inr rfl), s.status, s.trace, s.pending, rfl⟩
  | continue_ =>
    refine ⟨?_, _, _, _, rfl⟩
    simp only [St.applyErrexit]; split <;> simp
  | break_ d =>
    refine ⟨?_, _, _, _, rfl⟩
    simp only [St.applyErrexit]; split <;> simp

/-- not vacuous: `( set -e; f0() { :; }; break 2; probe 1 )` inside a loop, then `( exit 3 )` -/
example :
    let s : St := { stack := [.loop] }
    let body : List Item := [.mk (.mk false [.setE true]) [], .mk (.mk false [.fundef (.f 0) (.group [])]) [],
      .mk (.mk false [.brk 2]) [], .mk (.mk false [.probe 1]) []]
    (execCmd 9 s (.subshell body)).2 = .continue_ ∧ (execCmd 9 s (.subshell body)).1.status = 1 ∧
    (execCmd 9 s (.subshell body)).1.errexit = false ∧ (execCmd 9 s (.subshell body)).1.funcs.length = 0 ∧
    (execCmd 9 s (.subshell [.mk (.mk false [.exit (some 3)]) []])).1.status = 3 := by
  decide

/-- `for v do …` iterates once per positional parameter of the current context: it is the loop over
    that many words -/
theorem for_pos_is_for_params (fuel : Nat) (s : St) (body : List Item) :
    execCmd (fuel+1) s (.forPos body) = execCmd (fuel+1) s (.forLoop s.params body) := by
  simp [execCmd]

/-- a function made read-only is never replaced: the definition fails with status 2 and the function
    table is what it was; any other definition succeeds with status 0 -/
theorem readonly_function_stays (fuel : Nat) (s : St) (name : Name) (body : Cmd) :
    (s.roFuncs.contains name = true →
      (execCmd (fuel+1) s (.fundef name body)).1.funcs = s.funcs ∧
      (execCmd (fuel+1) s (.fundef name body)).1.status = 2) ∧
    (s.roFuncs.contains name = false →
      (execCmd (fuel+1) s (.fundef name body)).1.funcs = defineFn s.funcs name body ∧
      (execCmd (fuel+1) s (.fundef name body)).1.status = 0) := by
  constructor <;> intro h <;> simp only [execCmd, h, finishSimple, Bool.false_eq_true, ite_true, ite_false] <;> simp

/-! ### the command search order -/

/-- special built-in, then function, then other built-in: a function named like the special
    built-in `:` is never called; one named like a regular built-in is -/
theorem search_order (s : St) (body : Cmd) :
    classify { s with funcs := defineFn s.funcs .colon body } .colon = .specialColon ∧
    classify { s with funcs := defineFn s.funcs .true_ body } .true_ = .function body := by
  constructor
  · rfl
  · simp [classify, defineFn, lookupFn]

/-- …then the other built-ins, then `$PATH`: a substitutive built-in counts only if `$PATH` has its
    name (otherwise the command is not found, 127, although the built-in exists), an external utility
    found in `$PATH` is started (126: the simulated `execve` fails), a function of either name comes
    first, and a name with a slash never reaches the functions -/
theorem search_order_path (s : St) (body : Cmd) :
    (lookupFn s.funcs .sbIn = none → classify s .sbIn = .status 0) ∧
    (lookupFn s.funcs .sbOut = none → classify s .sbOut = .status 127) ∧
    (lookupFn s.funcs .xtIn = none → classify s .xtIn = .status 126) ∧
    classify { s with funcs := defineFn s.funcs .sbIn body } .sbIn = .function body ∧
    classify { s with funcs := defineFn s.funcs .sbOut body } .sbOut = .function body ∧
    classify { s with funcs := defineFn s.funcs .xtIn body } .xtIn = .function body ∧
    classify { s with funcs := defineFn s.funcs .xtPath body } .xtPath = .status 126 := by
  refine ⟨?_, ?_, ?_, ?_, ?_, ?_, rfl⟩
  · intro h; simp [classify, h]
  · intro h; simp [classify, h]
  · intro h; simp [classify, h]
  · simp [classify, defineFn, lookupFn]
  · simp [classify, defineFn, lookupFn]
  · simp [classify, defineFn, lookupFn]

/-! ### ☆ the command search (extension round): yash-env/src/semantics/command/search.rs inside the model

`Search.runSimple` transcribes what `SimpleCommand::execute` does with a command name (`classify`, then
`resolve_builtin` / `search_path` at the place of use); `Search.SpecRuns` is POSIX XCU 2.9.1.4 as a
relation with one rule per item of the text. -/

open Search in
/-- every simple command is dispatched as XCU 2.9.1.4 prescribes — for every table of built-ins, set of
    functions, `$PATH` value (unset, scalar, array), file system and option setting -/
theorem search_meets_posix (env : Search.Env) (name : Search.Str) :
    SpecRuns env name (runSimple env name) := by
  rw [← specRun_eq_runSimple]; exact specRuns_specRun env name

open Search in
/-- …and the rules leave no choice: whatever satisfies them is what the code does (so the eight rules
    are exhaustive and mutually exclusive) -/
theorem search_posix_unique (env : Search.Env) (name : Search.Str) (o : Outcome)
    (h : SpecRuns env name o) : o = runSimple env name := by
  rw [← specRun_eq_runSimple]; exact specRuns_unique env name o h

open Search in
/-- the order of the search in plain words: a name with a slash never looks at built-ins or functions;
    a special built-in hides a function of its name; a function hides every other built-in and `$PATH` -/
theorem search_order_general (env : Search.Env) (name : Search.Str) :
    ('/' ∈ name → runSimple env name = .exec name) ∧
    ('/' ∉ name → visible env name = some .special → rejected env name .special = false →
      runSimple env name = .builtin .special []) ∧
    ('/' ∉ name → visible env name ≠ some .special → name ∈ env.functions →
      runSimple env name = .function) := by
  refine ⟨fun h => ?_, fun h hv hr => ?_, fun h hv hf => ?_⟩
  · exact (search_posix_unique env name _ (.slash h)).symm
  · exact (search_posix_unique env name _ (.special h hv hr)).symm
  · exact (search_posix_unique env name _ (.function h hv hf)).symm

open Search in
/-- `search_path` returns `dir/name` for the first entry `dir` of `$PATH` under which `name` is an
    executable file, and nothing iff there is no such entry -/
theorem search_path_first_hit (env : Search.Env) (name : Search.Str) :
    (∀ p, searchPath env name = some p ↔ FirstHit env name p) ∧
    (searchPath env name = none ↔ NoHit env name) := by
  rw [searchPath_eq_firstHitIn]
  exact ⟨fun p => (firstHit_iff env name p).symm, (noHit_iff env name).symm⟩

open Search in
/-- a scalar `$PATH` is cut exactly at its colons: the entries joined by `:` give the value back, no
    entry contains a colon, and there is always at least one entry (the empty value is one empty entry,
    i.e. the working directory) -/
theorem path_split_colons (v : Search.Str) :
    [':'].intercalate (PathVal.scalar v).split = v ∧
    (∀ d ∈ (PathVal.scalar v).split, ':' ∉ d) ∧ (PathVal.scalar v).split ≠ [] :=
  ⟨splitOn_join ':' v, splitOn_no_sep ':' v, splitOn_ne_nil ':' v⟩

open Search in
/-- the one-call `search` and the dispatch of `SimpleCommand::execute` (which calls `classify`,
    `resolve_builtin` and `search_path` at three different places) agree: same target, same path, and a
    failed search is exactly a command that does not run, with the status of `Error::exit_status` -/
theorem search_agrees_with_dispatch (env : Search.Env) (name : Search.Str) :
    match search env name with
    | .ok (.builtin t _ p) => runSimple env name = .builtin t p
    | .ok .function => runSimple env name = .function
    | .ok (.external p) => runSimple env name = .exec p
    | .error e => runSimple env name = .status e.exitStatus := by
  unfold Search.search Search.runSimple
  cases hc : Search.classify env name with
  | function => simp
  | builtin t a p0 =>
    simp only
    cases hr : resolveBuiltin env name t a <;> simp [Error.exitStatus]
  | external p0 =>
    simp only
    by_cases hs : '/' ∈ name
    · simp [hs]
    · cases hp : searchPath env name <;> simp [hs, Error.exitStatus]

/-- composition: the name classes of the executor model (`classify`, used by `execCmd` for `.call`) are
    the transcribed search run in the environment the harness installs — what runs is the function
    body found by `lookupFn`, or nothing but the status the search dictates (the constants 126/127 of
    the model are `ExitStatus::NOEXEC`/`NOT_FOUND` as extracted from the code) -/
theorem classify_is_search (s : St) (n : Name) :
    (classify s n).effect =
      outcomeEffect s.funcs n (Search.runSimple (harnessEnv s.funcs) (nameStr n)) :=
  classify_is_search_effect s n

/-- not vacuous: in `PATH=/nonexistent::/bin` with `/bin/ls` and `./ls` executable, `ls` is found in the
    working directory (the empty entry) before `/bin`; a function `ls` hides both; a substitutive
    built-in `ls` runs with that path; without the files it is "not found" although the built-in exists -/
example :
    let ls := ['l', 's']
    let env : Search.Env := {
      path := .scalar "/nonexistent::/bin".toList, execs := ["/bin/ls".toList, "/ls".toList] }
    Search.runSimple env ls = .exec ls ∧
    Search.runSimple { env with functions := [ls] } ls = .function ∧
    Search.runSimple { env with builtins := [(ls, .substitutive)] } ls = .builtin .substitutive ls ∧
    Search.runSimple { env with builtins := [(ls, .substitutive)], execs := [] } ls = .status 127 ∧
    Search.runSimple { env with builtins := [(ls, .special)], functions := [ls] } ls = .builtin .special [] ∧
    Search.runSimple { env with builtins := [(ls, .extension)], posix := true } ls = .exec ls ∧
    Search.runSimple { env with builtins := [(ls, .elective)], portable := true } ls = .status 126 := by
  decide

/-! ### the tables of the code (re-extracted into `Generated/ExecTables.lean` on every run) -/

/-- the variant's name in yash-env/src/stack.rs -/
def Frame.rustName : Frame → String
  | .loop => "Loop" | .subshell => "Subshell" | .condition => "Condition" | .builtin _ => "Builtin"
  | .dotScript => "DotScript" | .trap => "Trap" | .initFile => "InitFile"

/-- `Frame.retainsContext` is the `retains_context` match of `Stack::loop_count` as it stands in the
    code, and the model's frames are all the variants of `enum Frame` -/
theorem retainsContext_table :
    (∀ f : Frame, Generated.ExecTables.retainsContext.lookup f.rustName = some f.retainsContext) ∧
    Generated.ExecTables.frameVariants =
      [Frame.loop, .subshell, .condition, .builtin true, .dotScript, .trap, .initFile].map Frame.rustName := by
  refine ⟨fun f => ?_, by decide⟩
  cases f with
  | builtin b => cases b <;> decide
  | _ => decide

open Search in
/-- the exit statuses of a failed search are those of `Unusable::exit_status` / `Error::exit_status`, the
    built-in types are the variants of `enum Type`, in the code as it stands -/
theorem search_tables :
    (∀ u : Unusable, (Generated.ExecTables.unusableStatus.lookup u.rustName).bind
        (Generated.ExecTables.exitStatusByName.lookup ·) = some u.exitStatus) ∧
    Generated.ExecTables.exitStatusByName.lookup Generated.ExecTables.errorNotFoundStatus =
      some Error.notFound.exitStatus ∧
    BType.all.map BType.rustName = Generated.ExecTables.builtinTypes ∧
    Generated.ExecTables.availabilityVariants = ["Available", "NotPortable"] := by
  refine ⟨fun u => ?_, by decide, by decide, by decide⟩
  cases u <;> decide

/-! ### ☆ exec_refines_spec: the frame-stack implementation refines the context semantics -/

/-- Every command, in every state and with every fuel, behaves under the implementation's frame stack
    exactly as the Spec prescribes for the context that stack stands for (`loops` visible loops,
    errexit-exempt iff a `Condition` frame is present): same result, same state up to the stack. -/
theorem exec_refines_spec (fuel : Nat) (s : St) (c : Cmd) :
    SameButStack (execCmd fuel s c).1 (specCmd fuel (ctxOf s.stack) s c).1 ∧
    (execCmd fuel s c).2 = (specCmd fuel (ctxOf s.stack) s c).2 :=
  (ref fuel).cmd s s c (sbs_refl s)

theorem exec_refines_spec_list (fuel : Nat) (s : St) (l : List Item) :
    SameButStack (execList fuel s l).1 (specList fuel (ctxOf s.stack) s l).1 ∧
    (execList fuel s l).2 = (specList fuel (ctxOf s.stack) s l).2 :=
  (ref fuel).list s s l (sbs_refl s)

/-- Whole shell runs (read-eval loop, shell errors, EXIT trap): the commands traced, `$?` at each of
    them, the final exit status and the way the run ended are those of the Spec. -/
theorem shell_refines_spec (fuel : Nat) (script : List Line) :
    (runShell fuel {} script).1.trace = (specShell fuel {} script).1.trace ∧
    (runShell fuel {} script).1.status = (specShell fuel {} script).1.status ∧
    (runShell fuel {} script).2 = (specShell fuel {} script).2 := by
  obtain ⟨⟨st, h⟩, hr⟩ := ref_shell fuel {} script rfl
  rw [h]
  exact ⟨rfl, rfl, hr⟩

/-- …and so is everything the shell is left with (the final state the c02 driver prints and the harness
    reads from the real `Env`): option flags, positional parameters, function table, read-only set,
    counters, traps — the Spec's final state is the implementation's, but for the frame stack the Spec
    does not have -/
theorem shell_refines_spec_state (fuel : Nat) (script : List Line) :
    ∃ st, (specShell fuel {} script).1 = { (runShell fuel {} script).1 with stack := st } :=
  (ref_shell fuel {} script rfl).1

/-- a whole shell run leaves the frame stack as it found it: after the last command and the EXIT trap
    nothing is left on it (`stk=` is empty in every observation) -/
theorem stack_balanced_shell (fuel : Nat) (s : St) (script : List Line) :
    (runShell fuel s script).1.stack = s.stack := by
  unfold runShell
  have h1 := stack_balanced_script fuel s script
  generalize runScript fuel s script = x at h1
  obtain ⟨s1, r⟩ := x
  simp only at h1
  have h2 : (runExitTrap fuel s1).1.stack = s1.stack := by
    unfold runExitTrap
    cases s1.exitTrap with
    | none => rfl
    | some body =>
      simp only
      have hb := (bal fuel).list (s1.push .trap) body
      generalize execList fuel (s1.push .trap) body = y at hb
      obtain ⟨s2, r2⟩ := y
      simp only at hb
      have hp : s2.stack.tail = s1.stack := by simp [hb, St.push]
      have key : ∀ (t : St) (r : Res), (t.applyResult r).stack = t.stack := by
        intro t r
        cases r with
        | break_ d => simp only [St.applyResult]; split <;> rfl
        | _ => rfl
      cases r2 with
      | continue_ => simp [key, St.pop, hp]
      | outOfFuel => simp [St.pop, hp]
      | break_ d =>
        cases d with
        | interrupt x => cases x <;> simp [key, St.pop, hp]
        | _ => simp [key, St.pop, hp]
  simp only
  generalize runExitTrap fuel s1 = z at h2 ⊢
  obtain ⟨s2, r2⟩ := z
  simp only at h2
  cases r with
  | outOfFuel => exact h1
  | continue_ => cases r2 <;> exact h2.trans h1
  | break_ d =>
    cases d with
    | abort x => exact h1
    | _ => cases r2 <;> exact h2.trans h1

/-! ### ☆ sequential lists compose -/

/-- `l1; l2` is `l1`, then — iff `l1` ended normally — `l2` in the state `l1` left, with the fuel `l1`'s
    items did not use; a divert (or fuel exhaustion) inside `l1` ends the whole list with that result and
    nothing of `l2` runs.  For every state, every pair of lists and every fuel that covers `l1`'s length. -/
theorem list_sequential (l1 l2 : List Item) : ∀ (fuel : Nat) (s : St), l1.length ≤ fuel →
    execList fuel s (l1 ++ l2) =
      match execList fuel s l1 with
      | (s1, .continue_) => execList (fuel - l1.length) s1 l2
      | x => x := by
  induction l1 with
  | nil =>
    intro fuel s _
    cases fuel with
    | zero => simp [execList]
    | succ n => simp [execList]
  | cons it rest ih =>
    intro fuel s hle
    cases fuel with
    | zero => simp at hle
    | succ n =>
      simp only [List.cons_append, execList, List.length_cons]
      generalize execItem n s it = x
      obtain ⟨s1, r⟩ := x
      cases r with
      | continue_ =>
        simp only
        rw [ih n s1 (by simp at hle; omega)]
        have : n + 1 - (rest.length + 1) = n - rest.length := by omega
        rw [this]
      | break_ d => simp
      | outOfFuel => simp

/-- not vacuous: `probe 1; st 3` then `probe 2; exit 4; probe 3` -/
example :
    let l1 : List Item := [.mk (.mk false [.probe 1]) [], .mk (.mk false [.st 3]) []]
    let l2 : List Item := [.mk (.mk false [.probe 2]) [], .mk (.mk false [.exit (some 4)]) [], .mk (.mk false [.probe 3]) []]
    (execList 9 {} l1).2 = .continue_ ∧ (execList 9 {} (l1 ++ l2)).2 = .break_ (.exit (some 4)) ∧
    (execList 9 {} (l1 ++ l2)).1.trace = [(2, 3), (1, 0)] ∧
    (execList 9 {} (l2 ++ l1)).1.trace = [(2, 0)] := by
  decide

/-! ### ☆ pipeline_status: the exit status of a multi-command pipeline

Without `pipefail` it is the exit status of the last command; with `pipefail` that of the rightmost
command that failed, zero if none did — whatever the commands are, under job control or not. -/

/-- the status a pipeline reports, from the exit statuses of its commands in order (`final` starts at 0):
    the register update of `execute_multi_command_pipeline` -/
def pipeStatus (pipefail : Bool) : List Nat → Nat → Nat
  | [], final => final
  | e :: rest, final => pipeStatus pipefail rest (if e ≠ 0 ∨ !pipefail then e else final)

/-- the exit statuses of the members, each run in its own subshell on a copy of the shell's state -/
def memberStatuses : Nat → St → List Cmd → List Nat
  | 0, _, _ => []
  | _+1, _, [] => []
  | fuel+1, s, c :: rest =>
    let x := execCmd fuel (s.push .subshell) c
    let c2 := x.1.applyResult x.2
    c2.status :: memberStatuses fuel { s with trace := c2.trace, pending := c2.pending } rest

/-- the members of a pipeline never make the pipeline divert: each runs in its own subshell -/
theorem members_never_divert (fuel : Nat) : ∀ (s : St) (cs : List Cmd) (f : Nat) (dv : Divert),
    (execPipeMembers fuel s cs f).2 ≠ .break_ dv := by
  induction fuel with
  | zero => intro s cs f dv; simp [execPipeMembers]
  | succ fuel ih =>
    intro s cs f dv
    cases cs with
    | nil => simp [execPipeMembers]
    | cons c rest =>
      simp only [execPipeMembers]
      generalize execCmd fuel (s.push .subshell) c = x
      obtain ⟨c1, r⟩ := x
      cases r with
      | outOfFuel => simp
      | continue_ => exact ih _ rest _ dv
      | break_ d => exact ih _ rest _ dv

theorem members_status (fuel : Nat) : ∀ (s : St) (cs : List Cmd) (f : Nat),
    (execPipeMembers fuel s cs f).2 = .continue_ →
    (execPipeMembers fuel s cs f).1.status = pipeStatus s.pipefail (memberStatuses fuel s cs) f := by
  induction fuel with
  | zero => intro s cs f h; simp [execPipeMembers] at h
  | succ fuel ih =>
    intro s cs f h
    cases cs with
    | nil => simp [execPipeMembers, memberStatuses, pipeStatus]
    | cons c rest =>
      simp only [execPipeMembers, memberStatuses, pipeStatus] at h ⊢
      generalize execCmd fuel (s.push .subshell) c = x at h ⊢
      obtain ⟨c1, r⟩ := x
      cases r with
      | outOfFuel => simp at h
      | continue_ => exact ih _ rest _ h
      | break_ d => exact ih _ rest _ h

/-- The status of the whole pipeline command (`c1 | c2 | …`, two or more commands), with or without the
    job-control wrapper subshell. -/
theorem pipeline_status (fuel : Nat) (s : St) (c d : Cmd) (t : List Cmd)
    (h : (execCommands (fuel+1) s (c :: d :: t)).2 ≠ .outOfFuel) :
    (execPipeMembers fuel s.enterJc (c :: d :: t) 0).2 = .continue_ ∧
    (execCommands (fuel+1) s (c :: d :: t)).1.status =
      pipeStatus s.pipefail (memberStatuses fuel s.enterJc (c :: d :: t)) 0 := by
  simp only [execCommands] at h ⊢
  have hm := members_status fuel s.enterJc (c :: d :: t) 0
  have hpf : s.enterJc.pipefail = s.pipefail := by unfold St.enterJc; split <;> rfl
  have hst : ∀ s1 : St, (s.leaveJc s1).status = s1.status := by intro s1; unfold St.leaveJc; split <;> rfl
  have hnd := members_never_divert fuel s.enterJc (c :: d :: t) 0
  generalize execPipeMembers fuel s.enterJc (c :: d :: t) 0 = x at h hm hnd ⊢
  obtain ⟨s1, r⟩ := x
  have hr : r = .continue_ := by
    -- members never divert: each runs in its own subshell
    cases r with
    | continue_ => rfl
    | outOfFuel => simp at h
    | break_ dv => exact absurd rfl (hnd dv)
  subst hr
  simp only [hst] at hm ⊢
  refine ⟨trivial, ?_⟩
  rw [← hpf]
  exact hm trivial

/-- without `pipefail`: the last command's status -/
theorem pipeStatus_last (sts : List Nat) (f : Nat) (h : sts ≠ []) : pipeStatus false sts f = sts.getLast h := by
  induction sts generalizing f with
  | nil => exact absurd rfl h
  | cons e rest ih =>
    cases rest with
    | nil => simp [pipeStatus]
    | cons e2 r2 =>
      have := ih (if e ≠ 0 ∨ (!false) = true then e else f) (by simp)
      simp only [pipeStatus] at this ⊢
      simpa using this

/-- with `pipefail`: the rightmost non-zero status, or what the register held (zero) if there is none -/
theorem pipeStatus_pipefail (sts : List Nat) (f : Nat) :
    pipeStatus true sts f = ((sts.reverse.find? (· ≠ 0)).getD f) := by
  induction sts generalizing f with
  | nil => simp [pipeStatus]
  | cons e rest ih =>
    simp only [pipeStatus, ih, List.reverse_cons, List.find?_append]
    by_cases he : e = 0
    · subst he; simp
    · cases hf : List.find? (fun x => decide (x ≠ 0)) rest.reverse <;> simp [he]

/-- not vacuous: `st 2 | st 0 | st 0` is 0 without pipefail and 2 with it -/
example :
    let p : List Cmd := [.st 2, .st 0, .st 0]
    (execCommands 5 {} p).1.status = 0 ∧ (execCommands 5 { pipefail := true } p).1.status = 2 ∧
    (execCommands 5 { pipefail := true } [.st 2, .st 3, .st 0]).1.status = 3 := by decide

/-! ### ☆ fuel_irrelevant: the fuel index is only a termination device

Every theorem of this file holds "for every fuel"; these theorems say what that quantifier means.  If
an execution returns anything but `outOfFuel`, every larger amount of fuel returns the same state and
the same result, so a terminating execution has exactly one outcome: the one the driver prints. -/

theorem fuel_irrelevant (n k : Nat) (s : St) (c : Cmd) (h : (execCmd n s c).2 ≠ .outOfFuel) :
    execCmd (n+k) s c = execCmd n s c :=
  le_add (fun n => execCmd n s c) (fun x => x.2 = .outOfFuel) (fun n => (mono_all n).cmd s c) n k h

theorem fuel_irrelevant_list (n k : Nat) (s : St) (l : List Item) (h : (execList n s l).2 ≠ .outOfFuel) :
    execList (n+k) s l = execList n s l :=
  le_add (fun n => execList n s l) (fun x => x.2 = .outOfFuel) (fun n => (mono_all n).list s l) n k h

theorem fuel_irrelevant_shell (n k : Nat) (s : St) (script : List Line)
    (h : (runShell n s script).2 ≠ .outOfFuel) : runShell (n+k) s script = runShell n s script :=
  le_add (fun n => runShell n s script) (fun x => x.2 = .outOfFuel) (fun n => runShell_le n s script) n k h

/-- a terminating command has one outcome, whatever the fuel it was run with -/
theorem outcome_unique (n m : Nat) (s : St) (c : Cmd)
    (hn : (execCmd n s c).2 ≠ .outOfFuel) (hm : (execCmd m s c).2 ≠ .outOfFuel) :
    execCmd n s c = execCmd m s c := by
  rcases Nat.le_total n m with h | h
  · obtain ⟨k, rfl⟩ := Nat.exists_eq_add_of_le h
    exact (fuel_irrelevant n k s c hn).symm
  · obtain ⟨k, rfl⟩ := Nat.exists_eq_add_of_le h
    exact fuel_irrelevant m k s c hm

/-- a terminating shell run has one trace, one exit status and one way of ending -/
theorem shell_outcome_unique (n m : Nat) (script : List Line)
    (hn : (runShell n {} script).2 ≠ .outOfFuel) (hm : (runShell m {} script).2 ≠ .outOfFuel) :
    runShell n {} script = runShell m {} script := by
  rcases Nat.le_total n m with h | h
  · obtain ⟨k, rfl⟩ := Nat.exists_eq_add_of_le h
    exact (fuel_irrelevant_shell n k {} script hn).symm
  · obtain ⟨k, rfl⟩ := Nat.exists_eq_add_of_le h
    exact fuel_irrelevant_shell m k {} script hm

/-- not vacuous: `while tick 0 3; do probe 1; done` terminates with fuel 40 (and not with fuel 5) -/
example :
    let c : Cmd := .whileLoop false [.mk (.mk false [.tick 0 3]) []] [.mk (.mk false [.probe 1]) []]
    (execCmd 40 {} c).2 = .continue_ ∧ (execCmd 5 {} c).2 = .outOfFuel ∧ (execCmd 40 {} c).1.trace.length = 3 := by
  decide

/-! ### non-vacuity: the hypotheses above are met by concrete programs -/

/-- `while false; do probe 1; done` : condition fails at once -/
example :
    let s : St := {}
    (execList 5 ((s.push .loop).push .condition) [.mk (.mk false [.st 1]) []]).2 = .continue_ ∧
    (execCmd 7 s (.whileLoop false [.mk (.mk false [.st 1]) []] [.mk (.mk false [.probe 1]) []])).1.status = 0 := by
  decide

/-- `st 1 && probe 1 || probe 2`: with `$? = 1` the `&&` side is skipped (hypotheses of `andor_skips`) and
    the `||` side runs -/
example :
    let s : St := { status := 1, stack := [.condition] }
    let p : Bool × Pipeline := (true, .mk false [.probe 1])
    let q : Bool × Pipeline := (false, .mk false [.probe 2])
    ((s.status = 0) ≠ p.1) ∧ (execAndOrRest 9 s [p, q]).1.trace = [(2, 1)] := by
  decide

/-- `if st 3; then probe 1; fi` (hypotheses of `if_none_taken_zero`): the condition ends normally with a
    non-zero status, nothing runs, `$?` is 0 -/
example :
    let s : St := {}
    let cond : List Item := [.mk (.mk false [.st 3]) []]
    (execList 6 (s.push .condition) cond).2 = .continue_ ∧ (execList 6 (s.push .condition) cond).1.status ≠ 0 ∧
    (execCmd 7 s (.ifc cond [.mk (.mk false [.probe 1]) []] [] none)).1.status = 0 ∧
    (execCmd 7 s (.ifc cond [.mk (.mk false [.probe 1]) []] [] none)).1.trace = [] := by
  decide

/-- `case x in y) probe 1;; z) probe 2;; esac` after `st 5` (hypotheses of `case_no_match_zero`) -/
example :
    let items : List (Bool × Bool × List Item × CaseCont) :=
      [(false, false, [.mk (.mk false [.probe 1]) []], .break_), (false, false, [.mk (.mk false [.probe 2]) []], .break_)]
    (items.all fun it => !it.1 && !it.2.1) = true ∧ items.length < 5 ∧
    (execCmd 6 { status := 5 } (.caseC items)).1.status = 0 ∧ (execCmd 6 { status := 5 } (.caseC items)).1.trace = [] ∧
    (execCmd 6 { status := 5 } (.caseC items)).2 = .continue_ := by
  decide

/-- `{ probe 1; exit 3; probe 2; } & wait` under errexit (hypothesis of `async_list_isolated`): the list
    terminates in its subshell; the shell goes on with status 0 and sees the one probe -/
example :
    let s : St := { errexit := true, status := 4 }
    let body : List Item := [.mk (.mk false [.probe 1]) [], .mk (.mk false [.exit (some 3)]) [], .mk (.mk false [.probe 2]) []]
    (execList 8 (s.push .subshell) body).2 ≠ .outOfFuel ∧
    (execCmd 9 s (.asyncWait body)).2 = .continue_ ∧ (execCmd 9 s (.asyncWait body)).1.status = 0 ∧
    (execCmd 9 s (.asyncWait body)).1.trace = [(1, 4)] := by
  decide

/-- `exit 3 | st 0 | unknown` under job control (hypothesis of `pipeline_status`): the run terminates, and
    the status is that of the last command without pipefail, of the rightmost failure with it -/
example :
    let s : St := { monitor := true }
    (execCommands 6 s [.exit (some 3), .st 0, .unknown]).2 ≠ .outOfFuel ∧
    (execCommands 6 s [.exit (some 3), .st 0, .unknown]).1.status = 127 ∧
    (execCommands 6 { s with pipefail := true } [.exit (some 3), .st 0, .st 0]).1.status = 3 := by
  decide

/-- a function body that returns 7: `f0() { probe 1; return 7; probe 2; }; f0` -/
example :
    let body : Cmd := .group [.mk (.mk false [.probe 1]) [], .mk (.mk false [.ret (some 7)]) [], .mk (.mk false [.probe 2]) []]
    let s : St := { funcs := [(.f 0, body)] }
    (execCmd 20 s body).2 = .break_ (.return_ (some 7)) ∧
    (execCmd 21 s (.call (.f 0) 0)).1.status = 7 ∧ (execCmd 21 s (.call (.f 0) 0)).1.trace = [(1, 0)] := by
  decide

/-- `break 2` inside two nested loops inside a condition leaves both (`Within` is not vacuous) -/
example : loops [.builtin true, .condition, .loop, .loop, .subshell, .loop] = 2 ∧
    (execCmd 3 { stack := [.condition, .loop, .loop, .subshell, .loop] } (.brk 5)).2 = .break_ (.break_ 1) := by
  decide

/-! ### wave 3: the control-flow built-ins behind `brk` / `cont` / `ret` / `exit` (Exec/Builtins.lean) -/

section Wave3
open Builtins

/-- `Stack::loop_count` as written in stack.rs (take_while / filter / take / count) is the recursion the executor
    model uses, and both are `min max (visible loops)` -/
theorem loop_count_is_chain (stack : List Frame) (max : Nat) :
    loopCountChain stack max = loopCount stack max ∧ loopCountChain stack max = min max (loops stack) :=
  ⟨loopCountChain_eq stack max, loopCountChain_eq_min stack max⟩

/-- composition: the executor model's `break n` / `continue n` is the transcribed built-in (`parse_arguments`,
    `str::parse::<NonZeroUsize>`, `semantics::run`, the error reports) called by `execute_builtin` with the
    operand text `w`, for every text Rust's parser reads as `n`; without an operand it is `break 1` -/
theorem break_builtin_is_model (fuel : Nat) (s : St) (isBreak p : Bool) (w : Str) (n : Nat)
    (h : parseNonZeroUsize w = .ok n) :
    runBuiltin s true (fun st => breakMain isBreak p st [w]) =
      execCmd (fuel+1) s (if isBreak then .brk n else .cont n) ∧
    runBuiltin s true (fun st => breakMain isBreak p st []) =
      execCmd (fuel+1) s (if isBreak then .brk 1 else .cont 1) := by
  constructor
  · simp only [runBuiltin, breakMain_of_parse isBreak p s.stack [w] n (breakParse_operand p w n h)]
    cases isBreak <;> simp [execCmd]
  · simp only [runBuiltin, breakMain_of_parse isBreak p s.stack [] 1 (breakParse_nil p)]
    cases isBreak <;> simp [execCmd]

example : parseNonZeroUsize ['+', '2'] = .ok 2 ∧ parseNonZeroUsize ['0', '0', '7'] = .ok 7 := ⟨rfl, rfl⟩

/-- composition: the executor model's `return [n]` / `exit [n]` is the transcribed built-in called by
    `execute_builtin`, for every operand text `w` that `str::parse::<i32>` reads as a non-negative `v` (a text
    beginning with `-` is an option to `parse_arguments`, never an operand) -/
theorem return_exit_builtin_is_model (fuel : Nat) (s : St) (p : Bool) (w : Str) (v : Nat)
    (h : parseI32 w = .ok (Int.ofNat v)) (hw : w.head? ≠ some '-') :
    runBuiltin s true (fun st => returnMain p st s.status [w]) = execCmd (fuel+1) s (.ret (some v)) ∧
    runBuiltin s true (fun st => returnMain p st s.status []) = execCmd (fuel+1) s (.ret none) ∧
    runBuiltin s true (fun st => exitMain p st s.status [w]) = execCmd (fuel+1) s (.exit (some v)) ∧
    runBuiltin s true (fun st => exitMain p st s.status []) = execCmd (fuel+1) s (.exit none) := by
  refine ⟨?_, ?_, ?_, ?_⟩
  · simp [runBuiltin, returnMain, parseArguments_operand _ _ w hw, statusOperand, h, execCmd]
  · simp [runBuiltin, returnMain, parseArguments_nil, statusOperand, execCmd]
  · simp [runBuiltin, exitMain, parseArguments_operand _ _ w hw, statusOperand, h, execCmd]
  · simp [runBuiltin, exitMain, parseArguments_nil, statusOperand, execCmd]

example : parseI32 ['+', '0', '7'] = .ok (Int.ofNat 7) ∧ parseI32 ['2', '5', '6'] = .ok (Int.ofNat 256) := ⟨rfl, rfl⟩

/-- every call of `break` / `continue`, whatever the arguments and the frame stack: either the operands parse to
    some `n ≥ 1`, a loop is visible, and the result is status 0 with exactly `min n (visible loops) - 1` further
    levels — or nothing is left: a non-zero status (2 for a syntax error, 1 outside a loop) and the shell is
    interrupted iff the innermost built-in frame is that of a special built-in -/
theorem break_main_cases (isBreak p : Bool) (stack : List Frame) (args : List Str) :
    (∃ n, breakParse p args = .ok n ∧ 1 ≤ n ∧ 0 < loops stack ∧
      breakMain isBreak p stack args =
        ⟨0, .break_ (if isBreak then .break_ (min n (loops stack) - 1) else .continue_ (min n (loops stack) - 1))⟩) ∨
    ((breakMain isBreak p stack args).exitStatus ≠ 0 ∧
      (breakMain isBreak p stack args).divert =
        if currentBuiltin stack = some true then .break_ (.interrupt none) else .continue_) := by
  have hrd : reportDivert stack = if currentBuiltin stack = some true then .break_ (.interrupt none) else .continue_ := by
    unfold reportDivert
    cases currentBuiltin stack with
    | none => simp
    | some b => cases b <;> simp
  cases hp : breakParse p args with
  | error e => right; simp [breakMain, hp, reportError, hrd, Generated.ExecTables.ERROR]
  | ok n =>
    have hn : 1 ≤ n := by
      unfold breakParse at hp
      split at hp
      · simp at hp
      · split at hp
        · simp at hp
        · split at hp
          · simp at hp; omega
          · split at hp
            · rename_i hq
              simp at hp; subst hp
              exact (parseNonZeroUsize_ok _ _ hq).2
            · simp at hp
    by_cases hl : loops stack = 0
    · right
      simp [breakMain, hp, breakRun, loopCountChain_eq_min, hl, reportSimpleFailure, hrd, Generated.ExecTables.FAILURE]
    · left
      refine ⟨n, rfl, hn, by omega, ?_⟩
      have : ¬ min n (loops stack) = 0 := by omega
      simp [breakMain, hp, breakRun, loopCountChain_eq_min, this, Generated.ExecTables.SUCCESS]

/-- every call of `return` / `exit` (non-interactive shell), whatever the arguments: a syntax error (status 2, the
    shell interrupted iff the innermost built-in frame is special), or the divert of that built-in and no other —
    `Return` resp. `Exit` carrying the operand, with `$?` left as it was; `return -n` does not divert and yields
    the operand (or `$?`) as its status -/
theorem return_exit_main_cases (p : Bool) (stack : List Frame) (status : Nat) (args : List Str) :
    (((returnMain p stack status args).exitStatus = 2 ∧
        (returnMain p stack status args).divert =
          if currentBuiltin stack = some true then .break_ (.interrupt none) else .continue_) ∨
      (∃ es, returnMain p stack status args = ⟨status, .break_ (.return_ es)⟩) ∨
      (∃ es : Option Nat, returnMain p stack status args = ⟨es.getD status, .continue_⟩)) ∧
    (((exitMain p stack status args).exitStatus = 2 ∧
        (exitMain p stack status args).divert =
          if currentBuiltin stack = some true then .break_ (.interrupt none) else .continue_) ∨
      (∃ es, exitMain p stack status args = ⟨status, .break_ (.exit es)⟩)) := by
  have hrd : reportDivert stack = if currentBuiltin stack = some true then .break_ (.interrupt none) else .continue_ := by
    unfold reportDivert
    cases currentBuiltin stack with
    | none => simp
    | some b => cases b <;> simp
  constructor
  · unfold returnMain
    split
    · left; simp [reportError, hrd, Generated.ExecTables.ERROR]
    · split
      · left; simp [reportError, hrd, Generated.ExecTables.ERROR]
      · rename_i es _
        simp only
        split
        · right; right; exact ⟨es, rfl⟩
        · right; left; exact ⟨es, rfl⟩
  · unfold exitMain
    split
    · left; simp [reportError, hrd, Generated.ExecTables.ERROR]
    · split
      · left; simp [reportError, hrd, Generated.ExecTables.ERROR]
      · rename_i es _
        right; exact ⟨es, rfl⟩

/-- not vacuous, every branch: `return -n 5`, `return -- 3`, `return -5` (an unknown option), `return 1 2`,
    `exit -f 4`, `exit 2147483648` (overflow) in a special / a regular built-in frame -/
example :
    returnMain false [.builtin true] 9 [['-', 'n'], ['5']] = ⟨5, .continue_⟩ ∧
    returnMain false [.builtin true] 9 [['-', '-'], ['3']] = ⟨9, .break_ (.return_ (some 3))⟩ ∧
    returnMain false [.builtin true] 9 [['-', '5']] = ⟨2, .break_ (.interrupt none)⟩ ∧
    returnMain false [.builtin false, .builtin true] 9 [['1'], ['2']] = ⟨2, .continue_⟩ ∧
    returnMain true [.builtin true] 9 [['-', 'n']] = ⟨2, .break_ (.interrupt none)⟩ ∧
    exitMain false [.builtin true] 9 [['-', 'f'], ['4']] = ⟨9, .break_ (.exit (some 4))⟩ ∧
    exitMain false [.condition, .builtin true] 9 [['2','1','4','7','4','8','3','6','4','8']] = ⟨2, .break_ (.interrupt none)⟩ := by
  refine ⟨?_, ?_, ?_, ?_, ?_, ?_, ?_⟩ <;> decide

/-- what `str::parse` makes of an operand written without a sign: it is read as `n` iff it consists of ASCII
    digits only, denotes `n` in decimal, and `n` fits the type — `1 ≤ n ≤ usize::MAX` for `break`/`continue`
    (`NonZeroUsize`), `n ≤ i32::MAX` for `return`/`exit`; both bounds inclusive -/
theorem operand_is_decimal_value (ds : List Char) (n : Nat) (hne : ds ≠ [])
    (hp : ds.head? ≠ some '+') (hm : ds.head? ≠ some '-') :
    (parseNonZeroUsize ds = .ok n ↔
      (∀ c ∈ ds, (digitVal c).isSome = true) ∧ n = decimalValue ds 0 ∧ 1 ≤ n ∧ n ≤ 2 ^ 64 - 1) ∧
    (parseI32 ds = .ok (Int.ofNat n) ↔
      (∀ c ∈ ds, (digitVal c).isSome = true) ∧ n = decimalValue ds 0 ∧ n ≤ 2 ^ 31 - 1) := by
  constructor
  · have key := parseDigits_ok_iff usizeMax .posOverflow ds 0 n (Nat.zero_le _)
    constructor
    · intro h
      obtain ⟨h1, h2⟩ := parseNonZeroUsize_ok ds n h
      rw [parseUsize_unsigned ds hne hp hm] at h1
      obtain ⟨a, b, c⟩ := key.1 h1
      exact ⟨a, b, h2, c⟩
    · intro ⟨a, b, h2, c⟩
      have h1 := key.2 ⟨a, b, c⟩
      unfold parseNonZeroUsize
      rw [parseUsize_unsigned ds hne hp hm, h1]
      cases n with
      | zero => omega
      | succ k => rfl
  · rw [parseI32_unsigned ds hne hp hm]
    have key := parseDigits_ok_iff (2 ^ 31 - 1) .posOverflow ds 0 n (Nat.zero_le _)
    rw [← key]
    cases parseDigits (2 ^ 31 - 1) .posOverflow ds 0 with
    | error e => simp [Except.map]
    | ok v => simp [Except.map]; exact Int.ofNat_inj

/-- not vacuous, at the boundaries: `usize::MAX` and `i32::MAX` are accepted, one more is not, `0` is no count -/
example :
    parseNonZeroUsize "18446744073709551615".toList = .ok (2 ^ 64 - 1) ∧
    parseNonZeroUsize "18446744073709551616".toList = .error .posOverflow ∧
    parseNonZeroUsize ['0'] = .error .zero ∧
    parseI32 "2147483647".toList = .ok (2 ^ 31 - 1) ∧ parseI32 "2147483648".toList = .error .posOverflow ∧
    parseI32 "-2147483648".toList = .ok (-(2 ^ 31)) ∧ parseI32 "-2147483649".toList = .error .negOverflow ∧
    parseI32 "99x".toList = .error .invalidDigit ∧ parseI32 "99999999999x".toList = .error .posOverflow := by
  refine ⟨?_, ?_, ?_, ?_, ?_, ?_, ?_, ?_, ?_⟩ <;> rfl

/-! ### wave 3: `Ord for Divert` (the merge of a command's divert with a trap action's, command.rs) -/

/-- the derived `Ord for Divert` is a linear order … -/
theorem divert_le_linear_order (a b c : Divert) :
    a.le a = true ∧ (a.le b = true ∨ b.le a = true) ∧ (a.le b = true → b.le a = true → a = b) ∧
    (a.le b = true → b.le c = true → a.le c = true) := by
  refine ⟨?_, ?_, ?_, ?_⟩
  · cases a <;> simp [Divert.le, Divert.rank, optLe_refl]
  · cases a <;> cases b <;> simp [Divert.le, Divert.rank, optLe_total] <;> omega
  · cases a <;> cases b <;> simp [Divert.le, Divert.rank] <;>
      first | omega | (intro h1 h2; exact optLe_antisymm _ _ h1 h2)
  · cases a <;> cases b <;> simp [Divert.le, Divert.rank] <;> cases c <;> simp [Divert.le, Divert.rank] <;>
      first | omega | (intro h1 h2; exact optLe_trans _ _ _ h1 h2)

/-- … and `Ord::max` on it picks one of its arguments, an upper bound of both, the same whichever comes first;
    the later variant (`Continue < Break < Return < Interrupt < Exit < Abort`) wins whatever the payloads -/
theorem divert_max_props (a b : Divert) :
    (a.max b = a ∨ a.max b = b) ∧ a.le (a.max b) = true ∧ b.le (a.max b) = true ∧ a.max b = b.max a ∧
    (a.rank < b.rank → a.max b = b) := by
  obtain ⟨hr, ht, ha, _⟩ := divert_le_linear_order a b a
  obtain ⟨hrb, _, _, _⟩ := divert_le_linear_order b a b
  refine ⟨?_, ?_, ?_, ?_, ?_⟩
  · unfold Divert.max; split <;> simp
  · unfold Divert.max; split <;> simp_all
  · unfold Divert.max; split
    · exact hrb
    · rcases ht with h | h
      · simp_all
      · exact h
  · unfold Divert.max
    by_cases h1 : a.le b = true <;> by_cases h2 : b.le a = true
    · simp [h1, h2]; exact (ha h1 h2).symm
    · simp [h1, h2]
    · simp [h1, h2]
    · rcases ht with h | h <;> simp_all
  · intro h
    have : a.le b = true := by simp [Divert.le, h]
    simp [Divert.max, this]

/-- not vacuous: `Exit(None)` beats `Return(Some 255)`; among equals the payload decides, `None` first -/
example : (Divert.return_ (some 255)).max (.exit none) = .exit none ∧
    (Divert.interrupt none).max (.interrupt (some 0)) = .interrupt (some 0) ∧
    (Divert.break_ 2).max (.break_ 1) = .break_ 2 := by decide

/-! ### wave 3: more tables of the code -/

/-- the variant's name in yash-env/src/semantics.rs -/
def Divert.rustName : Divert → String
  | .continue_ _ => "Continue" | .break_ _ => "Break" | .return_ _ => "Return"
  | .interrupt _ => "Interrupt" | .exit _ => "Exit" | .abort _ => "Abort"

/-- `Divert.rank` (the severity `Divert.le` / `Divert.max` compare first) is the position of the variant in
    `enum Divert` as it stands in the code, whose `Ord` is derived -/
theorem divert_rank_table (d : Divert) :
    Generated.ExecTables.divertVariants[d.rank]? = some d.rustName ∧
    Generated.ExecTables.divertVariants.length = 6 := by
  cases d <;> simp only [Divert.rank, Divert.rustName] <;> decide

/-- the statuses and the divert of the error reports are those of common/report.rs as it stands: `report_error`
    (and `syntax_error` through it) passes `ERROR`, `report_simple_failure` `FAILURE`, and
    `prepare_report_message_and_divert` interrupts exactly for a special built-in -/
theorem report_tables (stack : List Frame) :
    (Generated.ExecTables.reportStatus.lookup "report_error").bind (Generated.ExecTables.exitStatusByName.lookup ·) =
      some (reportError stack).exitStatus ∧
    (Generated.ExecTables.reportStatus.lookup "report_simple_failure").bind
      (Generated.ExecTables.exitStatusByName.lookup ·) = some (reportSimpleFailure stack).exitStatus ∧
    Generated.ExecTables.reportDivert = ("Break(Interrupt(None))", "Continue(())") ∧
    (reportError stack).divert = (if currentBuiltin stack = some true then .break_ (.interrupt none) else .continue_) ∧
    (reportSimpleFailure stack).divert = (reportError stack).divert := by
  refine ⟨by simp only [reportError]; decide, by simp only [reportSimpleFailure]; decide, by decide, ?_, rfl⟩
  simp only [reportError, reportDivert]
  cases currentBuiltin stack with
  | none => simp
  | some b => cases b <;> simp

end Wave3

/-! ### wave 3, second half: algebraic laws of the command language (helper lemmas: Exec/LawLemmas.lean)

Each law equates two *different programs* on the transcribed executor, for all sub-commands and all states: the
frame stacks they build differ (an extra `Condition` frame, a group's extra command boundary), so none of them is an
unfolding of one definition — they go through `exec_refines_spec` (the stack matters only through its context),
`stack_balanced_*` and `fuel_irrelevant`.  Fuel: the larger program is given the extra fuel its nesting consumes; the
hypothesis `… ≠ outOfFuel` says that the smaller one terminates.  Hypotheses of the form `….trapDue = none` say that
no action of a caught signal is waiting at the one command boundary the regrouped program has and the other lacks. -/

section Laws

/-- `{ c; }` ≡ `c`: a brace group around one command is that command (same state, trace, `$?`, divert), the only
    thing the group adds being one more point at which the action of a caught signal may run — nothing when none
    is due in the state `c` leaves -/
theorem group_is_command (n : Nat) (s : St) (c : Cmd) (ht : (execCmd n s c).1.trapDue = none) :
    execCmd (n+5) s (.group (wrap c)) = execCmd n s c := by
  simp only [execCmd]
  exact execList_wrap n s c ht

/-- `elif` is `else if`: the tail `elif c2; then b2; …` of an `if` runs exactly as the command
    `if c2; then b2; …; fi` -/
theorem elifs_is_if (f : Nat) (s : St) (c b : List Item) (rest : List (List Item × List Item)) (els : Option (List Item)) :
    execElifs f s ((c, b) :: rest) els = execCmd f s (.ifc c b rest els) := by
  cases f with
  | zero => simp [execElifs, execCmd]
  | succ f => simp only [execElifs, execCmd]

/-- `if c1; then b1; elif c2; then b2; …; fi` ≡ `if c1; then b1; else if c2; then b2; …; fi; fi` for all
    conditions, bodies, further `elif`s and `else` parts and every state: whenever the flat form terminates, the
    nested form (given the fuel its extra nesting takes) ends in the same state with the same trace, `$?` and divert
    — provided no caught signal's action is due when the inner `if` ends (the nested form has one more command
    boundary there) -/
theorem if_elif_is_nested (f : Nat) (s : St) (c1 b1 c2 b2 : List Item)
    (rest : List (List Item × List Item)) (els : Option (List Item))
    (hterm : (execCmd (f+1) s (.ifc c1 b1 ((c2, b2) :: rest) els)).2 ≠ .outOfFuel)
    (ht : (execCmd f (execList f (s.push .condition) c1).1.pop (.ifc c2 b2 rest els)).1.trapDue = none) :
    execCmd (f+6) s (.ifc c1 b1 [] (some (wrap (.ifc c2 b2 rest els)))) =
      execCmd (f+1) s (.ifc c1 b1 ((c2, b2) :: rest) els) := by
  simp only [execCmd] at hterm ⊢
  have hx : (execList f (s.push .condition) c1).2 ≠ .outOfFuel := by
    intro h
    apply hterm
    generalize execList f (s.push .condition) c1 = x at h
    obtain ⟨s1, r⟩ := x
    simp only at h; subst h; rfl
  rw [show f + 5 = f + 5 from rfl, lift_list f 5 _ _ hx]
  generalize execList f (s.push .condition) c1 = x at hterm ht ⊢
  obtain ⟨s1, r⟩ := x
  cases r with
  | outOfFuel => rfl
  | break_ d => rfl
  | continue_ =>
    simp only at hterm ht ⊢
    by_cases h0 : s1.pop.status = 0
    · simp only [h0, if_true] at hterm ⊢
      exact lift_list f 5 _ _ hterm
    · simp only [h0, if_false] at hterm ⊢
      simp only [execElifs]
      rw [execList_wrap f s1.pop _ ht, elifs_is_if]

/-- `! { ! p; }`: the pipeline runs exactly as under a single `!` (errexit-exempt context, same trace, a divert
    passes through unchanged) and the status is 0 iff `p`'s is 0, else 1 — negation touches nothing but the status,
    twice -/
theorem double_negation (n : Nat) (s : St) (cmds : List Cmd)
    (ht : (execCommands n (s.push .condition) cmds).1.trapDue = none) :
    execPipeline (n+6) s (.mk true [.group [.mk (.mk true cmds) []]]) =
      match execCommands n (s.push .condition) cmds with
      | (s1, .continue_) => ({ s1.pop with status := if s1.pop.status = 0 then 0 else 1 }, .continue_)
      | (s1, r) => (s1.pop, r) := by
  have hpp : (s.push .condition).push .condition =
      { s.push .condition with stack := .condition :: .condition :: s.stack } := rfl
  have hcc := cmds_ctx_only n (s.push .condition) (.condition :: .condition :: s.stack) cmds
    (by simp only [St.push]; exact ctxOf_cond_cond s.stack)
  have hb := (bal n).cmds (s.push .condition) cmds
  simp only [execPipeline, execCommands, execCmd, execList, execItem, Bool.not_true, Bool.false_eq_true, if_false,
    hpp, hcc]
  generalize execCommands n (s.push .condition) cmds = x at ht hb ⊢
  obtain ⟨t, r⟩ := x
  simp only [St.push] at hb
  simp only at ht hb ⊢
  cases r with
  | outOfFuel => simp [pollWith, St.pop, hb]
  | break_ d =>
    rw [pollWith_none]
    · simp [St.pop, hb]
    · simpa [St.trapDue, St.pop, hb] using ht
  | continue_ =>
    simp only
    rw [pollWith_none]
    · simp [St.pop, hb]
      split <;> simp_all
    · simpa [St.trapDue, St.pop, hb] using ht

/-- `&&` and `||` have equal precedence and associate to the left: `a op1 b op2 c` ≡ `{ a op1 b; } op2 c` for all four
    combinations of operators, all pipelines and every state — same final state (trace, `$?`, options, functions),
    same divert — whenever the flat list terminates, provided no caught signal's action is due when the group ends
    (the group is one more command boundary) -/
theorem andor_left_assoc (n : Nat) (s : St) (a b c : Pipeline) (op1 op2 : Bool)
    (hterm : (execItem (n+3) s (.mk a [(op1, b), (op2, c)])).2 ≠ .outOfFuel)
    (ht : (execItem (n+3) (s.push .condition) (.mk a [(op1, b)])).1.trapDue = none) :
    execItem (n+8) s (.mk (.mk false [.group [.mk a [(op1, b)]]]) [(op2, c)]) =
      execItem (n+3) s (.mk a [(op1, b), (op2, c)]) := by
  have hpp : (s.push .condition).push .condition =
      { s.push .condition with stack := .condition :: .condition :: s.stack } := rfl
  have hcc := pipe_ctx_only (n+2) (s.push .condition) (.condition :: .condition :: s.stack) a
    (by simp only [St.push]; exact ctxOf_cond_cond s.stack)
  have hb := (bal (n+2)).pipe (s.push .condition) a
  -- the group's body
  have hinner : execItem (n+3) (s.push .condition) (.mk a [(op1, b)]) =
      match execPipeline (n+2) (s.push .condition) a with
      | (u1, .continue_) => if (u1.status = 0) = op1 then execPipeline (n+1) u1 b else (u1, .continue_)
      | (u1, r) => (u1, r) := by
    rw [execItem_andor, hpp, hcc]
    generalize execPipeline (n+2) (s.push .condition) a = x at hb ⊢
    obtain ⟨u1, r⟩ := x
    simp only [St.push] at hb
    have hu : ({ u1 with stack := .condition :: .condition :: s.stack } : St).pop = u1 := by
      cases u1; simp_all [St.pop]
    cases r with
    | continue_ => simp only; rw [execAndOrRest_last, hu]
    | break_ d => simp only [hu]
    | outOfFuel => simp only [hu]
  rw [hinner] at ht
  rw [execItem_andor] at hterm
  rw [execItem_andor, execPipeline_group, hinner, execItem_andor]
  generalize execPipeline (n+2) (s.push .condition) a = x at hb ht hterm ⊢
  obtain ⟨u1, r⟩ := x
  cases r with
  | outOfFuel => exact absurd rfl hterm
  | break_ d =>
    simp only at ht ⊢
    rw [pollWith_none _ _ _ ht]
  | continue_ =>
    simp only at ht hterm ⊢
    rw [execAndOrRest_more] at hterm ⊢
    by_cases h1 : (u1.status = 0) = op1
    · simp only [h1, if_true] at ht hterm ⊢
      generalize execPipeline (n+1) u1 b = y at ht hterm ⊢
      obtain ⟨u2, r2⟩ := y
      cases r2 with
      | outOfFuel => exact absurd rfl hterm
      | break_ d => simp only at ht ⊢; rw [pollWith_none _ _ _ ht]
      | continue_ =>
        simp only at ht hterm ⊢
        rw [pollWith_none _ _ _ ht]
        simp only
        simp only [execAndOrRest_last] at hterm ⊢
        by_cases h2 : (u2.pop.status = 0) = op2
        · simp only [h2, if_true] at hterm ⊢
          exact lift_pipe n 6 _ _ hterm
        · simp only [h2, if_false]
    · simp only [h1, if_false] at ht hterm ⊢
      rw [pollWith_none _ _ _ ht]
      simp only
      simp only [execAndOrRest_last] at hterm ⊢
      by_cases h2 : (u1.pop.status = 0) = op2
      · simp only [h2, if_true] at hterm ⊢
        exact lift_pipe n 6 _ _ hterm
      · simp only [h2, if_false]

/-- `until p; do body; done` ≡ `while ! p; do body; done` for every pipeline `p`, every state and every fuel: same
    iterations, same trace, same final state and `$?`, same divert.  The one thing the two differ in is the `$?` the
    body *starts* with (`p`'s own non-zero status under `until`, 0 after `! p`), so the law is stated for bodies that
    do not read the `$?` they start with (`hbody`; every body whose first command sets `$?` qualifies:
    `list_after_st`) -/
theorem until_is_while_not (f : Nat) (s : St) (cmds : List Cmd) (body : List Item)
    (hbody : ∀ (g : Nat) (t : St) (k : Nat), (execList g t body).2 ≠ .outOfFuel →
      execList g { t with status := k } body = execList g t body)
    (hterm : (execCmd f s (.whileLoop true (condPos cmds) body)).2 ≠ .outOfFuel) :
    execCmd f s (.whileLoop false (condNeg cmds) body) = execCmd f s (.whileLoop true (condPos cmds) body) := by
  cases f with
  | zero => simp [execCmd] at hterm
  | succ f =>
    rw [execCmd_while_post] at hterm ⊢
    rw [execCmd_while_post]
    rw [until_while_post cmds body hbody f (s.push .loop) 0 hterm]

/-! non-vacuity of the laws -/

/-- a list item made of one command -/
def itemOf (c : Cmd) : Item := .mk (.mk false [c]) []

/-- not vacuous: `if st 1; then probe 1; elif st 0; then probe 2; fi` terminates, no signal is due, and both forms
    trace probe 2 -/
example :
    (execCmd 11 {} (.ifc [itemOf (.st 1)] [itemOf (.probe 1)] [([itemOf (.st 0)], [itemOf (.probe 2)])] none)).2 ≠ .outOfFuel ∧
    (execCmd 10 (execList 10 (({} : St).push .condition) [itemOf (.st 1)]).1.pop
      (.ifc [itemOf (.st 0)] [itemOf (.probe 2)] [] none)).1.trapDue = none ∧
    (execCmd 16 {} (.ifc [itemOf (.st 1)] [itemOf (.probe 1)] [] (some (wrap (.ifc [itemOf (.st 0)] [itemOf (.probe 2)] [] none))))).1.trace
      = [(2, 0)] := by
  refine ⟨by decide, rfl, by decide⟩

/-- not vacuous: `st 1 && probe 1 || probe 2` (the `&&` side skipped, the `||` side run) and its grouped form -/
example :
    (execItem 8 {} (.mk (.mk false [.st 1]) [(true, .mk false [.probe 1]), (false, .mk false [.probe 2])])).2 ≠ .outOfFuel ∧
    (execItem 8 (({} : St).push .condition) (.mk (.mk false [.st 1]) [(true, .mk false [.probe 1])])).1.trapDue = none ∧
    (execItem 13 {} (.mk (.mk false [.group [.mk (.mk false [.st 1]) [(true, .mk false [.probe 1])]]])
      [(false, .mk false [.probe 2])])).1.trace = [(2, 1)] := by
  refine ⟨by decide, rfl, by decide⟩

/-- not vacuous: `! { ! st 3; }` yields 1, `! { ! st 0; }` yields 0 -/
example :
    (execCommands 4 (({} : St).push .condition) [.st 3]).1.trapDue = none ∧
    (execPipeline 10 {} (.mk true [.group [.mk (.mk true [.st 3]) []]])).1.status = 1 ∧
    (execPipeline 10 {} (.mk true [.group [.mk (.mk true [.st 0]) []]])).1.status = 0 := by
  refine ⟨rfl, by decide, by decide⟩

/-- not vacuous: `until tick 0 0; do st 0; probe 1; break; done`: the condition fails, the body (it begins with
    `st 0`, so `list_after_st` gives `hbody`) runs once and leaves the loop -/
example :
    let body := [itemOf (.st 0), itemOf (.probe 1), itemOf (.brk 1)]
    (∀ (g : Nat) (t : St) (k : Nat), (execList g t body).2 ≠ .outOfFuel →
      execList g { t with status := k } body = execList g t body) ∧
    (execCmd 20 {} (.whileLoop true (condPos [.tick 0 0]) body)).2 ≠ .outOfFuel ∧
    (execCmd 20 {} (.whileLoop false (condNeg [.tick 0 0]) body)).1.trace = [(1, 0)] := by
  refine ⟨fun g t k h => list_after_st 0 _ g t k h, by decide, by decide⟩

end Laws

/-! ### wave 3, second half: ill-formed argument vectors of the control-flow built-ins -/

section Illformed
open Builtins

/-- ill-formed argument vectors need no constructor of their own: whenever `break`/`continue`/`return`/`exit`
    reports an error — any argument vector, called directly (`special = true`) or through `command`
    (`special = false`: the innermost built-in frame is `command`'s, not special) — `execute_builtin` running the
    transcribed `main` is exactly the executor model's `specialErr wrapped status` (C10's shell-error command, which
    the generator renders as `return 1 2`, `exit x`, `break 0`, `continue x`, …), with the status the transcription
    computes -/
theorem illformed_builtin_is_specialErr (fuel : Nat) (s : St) (special isBreak p : Bool) (args : List Str) :
    ((breakMain isBreak p (.builtin special :: s.stack) args).exitStatus ≠ 0 →
      runBuiltin s special (fun st => breakMain isBreak p st args) =
        execCmd (fuel+1) s (.specialErr (!special) (breakMain isBreak p (.builtin special :: s.stack) args).exitStatus)) ∧
    (returnMain p (.builtin special :: s.stack) s.status args = reportError (.builtin special :: s.stack) →
      runBuiltin s special (fun st => returnMain p st s.status args) = execCmd (fuel+1) s (.specialErr (!special) 2)) ∧
    (exitMain p (.builtin special :: s.stack) s.status args = reportError (.builtin special :: s.stack) →
      runBuiltin s special (fun st => exitMain p st s.status args) = execCmd (fuel+1) s (.specialErr (!special) 2)) := by
  refine ⟨?_, ?_, ?_⟩
  · intro hne
    rcases break_main_cases isBreak p (.builtin special :: s.stack) args with ⟨n, _, _, _, h⟩ | ⟨_, hd⟩
    · rw [h] at hne; exact absurd rfl hne
    · simp only [runBuiltin, execCmd, hd, currentBuiltin_top]
      cases special <;> simp
  · intro h
    simp only [runBuiltin, execCmd, h, reportError, reportDivert, currentBuiltin_top, Generated.ExecTables.ERROR]
    cases special <;> simp
  · intro h
    simp only [runBuiltin, execCmd, h, reportError, reportDivert, currentBuiltin_top, Generated.ExecTables.ERROR]
    cases special <;> simp

/-- not vacuous: the eight argument vectors the generator writes for `specialErr _ 2` all are errors with status 2 -/
example :
    (breakMain true false [.builtin true, .loop] [['1'], ['2']]).exitStatus = 2 ∧
    (breakMain true false [.builtin true, .loop] [['0']]).exitStatus = 2 ∧
    (breakMain false false [.builtin false, .builtin true, .loop] [['x']]).exitStatus = 2 ∧
    (breakMain false false [.builtin true, .loop] [['0']]).exitStatus = 2 ∧
    returnMain false [.builtin true] 7 [['1'], ['2']] = reportError [.builtin true] ∧
    returnMain false [.builtin true] 7 [['x']] = reportError [.builtin true] ∧
    exitMain false [.builtin false, .builtin true] 7 [['1'], ['2']] = reportError [.builtin false, .builtin true] ∧
    exitMain false [.builtin true] 7 [['x']] = reportError [.builtin true] := by
  refine ⟨?_, ?_, ?_, ?_, ?_, ?_, ?_, ?_⟩ <;> decide

/-- the suspended-jobs guard of `exit` (docs/src/builtins/exit.md: "in an interactive shell, if there are suspended
    jobs, the built-in prints a warning and refuses to exit … returns exit status 1 without exiting"; `-f` overrides):
    for every argument vector, stack and `$?`, `exit` either does what the unguarded built-in does, or it refuses —
    status 1, `Interrupt(None)` — and it refuses only where the unguarded built-in would have exited, and only in
    an interactive shell (option on, not in a subshell) that is not `posixlycorrect`, has the guard configured and
    a stopped job; outside such a shell the guard is invisible (`exitMain` is that instance) -/
theorem exit_guard (g : ExitGuard) (p : Bool) (stack : List Frame) (status : Nat) (args : List Str) :
    (exitMainG g p stack status args = exitMain p stack status args ∨
      (exitMainG g p stack status args = ⟨1, .break_ (.interrupt none)⟩ ∧
        (∃ es, exitMain p stack status args = ⟨status, .break_ (.exit es)⟩) ∧
        g.interactive = true ∧ stack.contains .subshell = false ∧ g.posix = false ∧ g.configured = true ∧
        g.stoppedJob = true)) ∧
    ((isInteractive g.interactive stack = false ∨ g.posix = true ∨ g.configured = false ∨ g.stoppedJob = false) →
      exitMainG g p stack status args = exitMain p stack status args) := by
  unfold exitMainG exitMain
  cases Args.parseArguments exitSpecs (modeWithEnv p) args with
  | error e => simp
  | ok x =>
    obtain ⟨options, operands⟩ := x
    simp only
    cases statusOperand operands with
    | none => simp
    | some es =>
      simp only
      constructor
      · by_cases hc : (!(options.any fun o => o.spec.short == some 'f') && isInteractive g.interactive stack &&
            !g.posix && g.configured && g.stoppedJob) = true
        · right
          simp only [hc, if_true]
          simp only [Bool.and_eq_true, Bool.not_eq_true', isInteractive] at hc
          refine ⟨by simp [Generated.ExecTables.FAILURE], ⟨es, rfl⟩, ?_⟩
          simp_all
        · left; simp only [hc]; simp
      · intro h
        have : (!(options.any fun o => o.spec.short == some 'f') && isInteractive g.interactive stack &&
            !g.posix && g.configured && g.stoppedJob) = false := by
          rcases h with h | h | h | h <;> simp [h]
        simp [this]

/-- not vacuous: an interactive shell with a stopped job — `exit 3` refuses (again and again: the built-in keeps no
    memory of an earlier refusal), `exit -f 3` and `exit --force` go through, `exit 1 2` is the syntax error first,
    `( exit 3 )` and a `posixlycorrect` shell are not guarded -/
example :
    let g : ExitGuard := { interactive := true, configured := true, stoppedJob := true }
    exitMainG g false [.builtin true] 9 [['3']] = ⟨1, .break_ (.interrupt none)⟩ ∧
    exitMainG g false [.builtin true] 1 [['3']] = ⟨1, .break_ (.interrupt none)⟩ ∧
    exitMainG g false [.builtin true] 9 [['-', 'f'], ['3']] = ⟨9, .break_ (.exit (some 3))⟩ ∧
    exitMainG g false [.builtin true] 9 [['-', '-', 'f', 'o', 'r', 'c', 'e']] = ⟨9, .break_ (.exit none)⟩ ∧
    exitMainG g false [.builtin true] 9 [['1'], ['2']] = ⟨2, .break_ (.interrupt none)⟩ ∧
    exitMainG g false [.builtin true, .subshell] 9 [['3']] = ⟨9, .break_ (.exit (some 3))⟩ ∧
    exitMainG { g with posix := true } false [.builtin true] 9 [['3']] = ⟨9, .break_ (.exit (some 3))⟩ := by
  refine ⟨?_, ?_, ?_, ?_, ?_, ?_, ?_⟩ <;> decide

end Illformed

/-! ### wave 3, third pass: `command -v` / `command -V` / `type` (Exec/Identify.lean) -/

section IdentifyThms
open Search Identify

theorem searchPath_exec (env : Search.Env) (name p : Str) (h : searchPath env name = some p) :
    env.isExecutableFile p = true := by
  unfold searchPath at h
  exact List.find?_some h

/-- `command -v` / `command -V` / `type` answer what a simple command of that name would do — for every table of
    built-ins, function set, `$PATH`, file system, option setting and alias set, and every name that is neither a
    keyword nor an alias (those are reported as such, before any search):
    a function iff the shell would call the function; a built-in of type `t` iff it would run that built-in (for a
    substitutive one, with the absolute path of the file found in `$PATH`); an external utility at `p` iff it would
    `execve` an executable file whose absolute path is `p`; and "not found" — nothing printed, exit status 1 —
    iff the command would fail with a non-zero status without running anything, or would try to execute a file
    that is not executable -/
theorem identify_agrees_with_execution (e : IdEnv) (name : Str)
    (hk : isKeyword name = false) (ha : e.aliases.lookup name = none) :
    match identify e name with
    | (some (.target (.builtin t _ p)), st) =>
      st = 0 ∧ ∃ p', runSimple e.env name = .builtin t p' ∧ p = (if t = .substitutive then absPath p' else p')
    | (some (.target .function), st) => st = 0 ∧ runSimple e.env name = .function
    | (some (.target (.external p)), st) =>
      st = 0 ∧ ∃ p', runSimple e.env name = .exec p' ∧ e.env.isExecutableFile p' = true ∧ p = absPath p'
    | (none, st) =>
      st = 1 ∧ ((∃ n, runSimple e.env name = .status n ∧ n ≠ 0) ∨
        (∃ p', runSimple e.env name = .exec p' ∧ e.env.isExecutableFile p' = false))
    | (some _, _) => False := by
  simp only [identify, categorize, hk, ha, search, runSimple, Bool.false_eq_true, if_false]
  cases hc : Search.classify e.env name with
  | function => simp [normalizeTarget, Generated.ExecTables.SUCCESS]
  | builtin t a p0 =>
    simp only
    cases hr : resolveBuiltin e.env name t a with
    | error u =>
      simp only [Generated.ExecTables.FAILURE]
      refine ⟨trivial, Or.inl ⟨_, rfl, ?_⟩⟩
      cases u <;> simp [Unusable.exitStatus, Generated.ExecTables.NOT_FOUND, Generated.ExecTables.NOEXEC]
    | ok p =>
      simp only
      by_cases hs : t = .substitutive
      · subst hs
        have hp : e.env.isExecutableFile p = true := by
          unfold resolveBuiltin at hr
          cases a with
          | notPortable => simp at hr
          | available =>
            simp only [if_true] at hr
            cases hsp : searchPath e.env name with
            | none => simp [hsp] at hr
            | some q => simp [hsp] at hr; subst hr; exact searchPath_exec _ _ _ hsp
        simp [normalizeTarget, hp, Generated.ExecTables.SUCCESS]
      · have hp : p = [] := by
          unfold resolveBuiltin at hr
          cases a with
          | notPortable => simp at hr
          | available => simp [hs] at hr; exact hr
        subst hp
        cases t <;> simp_all [normalizeTarget, Generated.ExecTables.SUCCESS]
  | external p0 =>
    simp only
    by_cases hsl : name.contains '/' = true
    · simp only [hsl, if_true]
      by_cases hx : e.env.isExecutableFile name = true
      · simp [normalizeTarget, hx, Generated.ExecTables.SUCCESS]
      · simp [normalizeTarget, hx, Generated.ExecTables.FAILURE]
    · simp only [hsl, Bool.false_eq_true, if_false]
      cases hsp : searchPath e.env name with
      | none => simp [Generated.ExecTables.FAILURE, Generated.ExecTables.NOT_FOUND]
      | some q =>
        have hq := searchPath_exec _ _ _ hsp
        simp [normalizeTarget, hq, Generated.ExecTables.SUCCESS]

/-- the order of `categorize`: a keyword is reported as a keyword whatever else bears the name, then an alias, then
    the command search; the exit status is 0 exactly when something is printed, and 1 otherwise -/
theorem identify_precedence (e : IdEnv) (name : Str) :
    (isKeyword name = true → identify e name = (some .keyword, 0)) ∧
    (isKeyword name = false → ∀ r, e.aliases.lookup name = some r → identify e name = (some (.alias name r), 0)) ∧
    ((identify e name).2 = 0 ↔ (identify e name).1.isSome = true) ∧
    ((identify e name).2 = 0 ∨ (identify e name).2 = 1) := by
  refine ⟨?_, ?_, ?_, ?_⟩
  · intro h; simp [identify, categorize, h, Generated.ExecTables.SUCCESS]
  · intro h r hr; simp [identify, categorize, h, hr, Generated.ExecTables.SUCCESS]
  · unfold identify; cases categorize e name <;> simp [Generated.ExecTables.SUCCESS, Generated.ExecTables.FAILURE]
  · unfold identify; cases categorize e name <;> simp [Generated.ExecTables.SUCCESS, Generated.ExecTables.FAILURE]

/-- not vacuous: `if` defined as a function and as an alias is still a keyword; `na` with an alias, a function and a
    file `/rel/na` behind the relative `$PATH` entry `rel`: the alias, then (without it) the function, then the
    absolute path `/rel/na`; a name with a slash that is not executable is not found although the shell would try to execute it -/
example :
    let env : Search.Env :=
      { functions := ["if".toList, "na".toList], path := PathVal.scalar "rel".toList, execs := ["/rel/na".toList] }
    identify { env := env, aliases := [("if".toList, "x".toList)] } "if".toList = (some .keyword, 0) ∧
    identify { env := env, aliases := [("na".toList, "nb".toList)] } "na".toList =
      (some (.alias "na".toList "nb".toList), 0) ∧
    identify { env := env } "na".toList = (some (.target .function), 0) ∧
    identify { env := { env with functions := [] } } "na".toList = (some (.target (.external "/rel/na".toList)), 0) ∧
    identify { env := env } "x/y".toList = (none, 1) ∧
    Search.runSimple env "x/y".toList = .exec "x/y".toList := by
  refine ⟨?_, ?_, ?_, ?_, ?_, ?_⟩ <;> decide

end IdentifyThms

/-! ### wave 3, third pass: pipeline stages that end by `exit` / `return` -/

/-- a stage of a pipeline is a subshell: when it ends by `exit n` or `return n` — executed at any depth inside the
    stage, the divert is what the stage's command returns — its exit status is the operand `n`; without an operand it
    is the `$?` at that point; and a stage that ends normally or by `break`/`continue` has the `$?` it ended with.
    (`pipeline_status` then gives the pipeline's status from these.) -/
theorem stage_status_is_operand (fuel : Nat) (s : St) (c : Cmd) (rest : List Cmd) :
    (memberStatuses (fuel+1) s (c :: rest)).head? =
      some (match (execCmd fuel (s.push .subshell) c).2 with
        | .break_ (.exit (some n)) => n
        | .break_ (.return_ (some n)) => n
        | .break_ (.interrupt (some n)) => n
        | .break_ (.abort (some n)) => n
        | _ => (execCmd fuel (s.push .subshell) c).1.status) := by
  simp only [memberStatuses, List.head?_cons]
  generalize execCmd fuel (s.push .subshell) c = x
  obtain ⟨c1, r⟩ := x
  cases r with
  | continue_ => rfl
  | outOfFuel => rfl
  | break_ d =>
    cases d with
    | continue_ k => rfl
    | break_ k => rfl
    | return_ e => cases e <;> rfl
    | interrupt e => cases e <;> rfl
    | exit e => cases e <;> rfl
    | abort e => cases e <;> rfl

/-- not vacuous: `{ if st 0; then st 3; exit 7; fi; st 0; } | st 0` under pipefail is 7 (the operand, from two levels
    down), `… exit; …` is 3 (`$?` at that point), and `{ f0() { return 9; }; f0; st 0; } | st 0` is 0: `return`
    leaves only the function -/
example :
    let it (c : Cmd) : Item := .mk (.mk false [c]) []
    let stage (e : Option Nat) : Cmd := .group [it (.ifc [it (.st 0)] [it (.st 3), it (.exit e)] [] none), it (.st 0)]
    (execCommands 20 { pipefail := true } [stage (some 7), .st 0]).1.status = 7 ∧
    (execCommands 20 { pipefail := true } [stage none, .st 0]).1.status = 3 ∧
    (execCommands 20 { pipefail := true }
      [.group [it (.fundef (.f 0) (.group [it (.ret (some 9))])), it (.call (.f 0) 0), it (.st 0)], .st 0]).1.status = 0 := by
  decide

/-! ### wave 3, fourth pass: context-loop irrelevance and what follows (Exec/LoopIrrelevance.lean) -/

/-- context-loop irrelevance on the executor: a list run with one more `Loop` frame on the stack (in a context where
    no signal-trap action can run: inside a subshell or a trap action) either ends with a `break`/`continue` that
    reaches that loop or beyond, or is the very same run — same divert, same state but for the extra frame -/
theorem loop_frame_irrelevant (f : Nat) (s : St) (l : List Item) (hq : (ctxOf s.stack).quiet = true) :
    Reach (loops s.stack) (execList f (s.push .loop) l).2 ∨
      execList f (s.push .loop) l = ({ (execList f s l).1 with stack := .loop :: s.stack }, (execList f s l).2) := by
  have r1 : RelS (execList f (s.push .loop) l) (specList f ((ctxOf s.stack).more 1) s l) := by
    have := (ref f).list (s.push .loop) s l ⟨s.stack, rfl⟩
    rw [show (s.push .loop).stack = .loop :: s.stack from rfl, ctxOf_loop] at this
    exact this
  have r2 := (ref f).list s s l (sbs_refl s)
  have hb : (execList f (s.push .loop) l).1.stack = .loop :: s.stack := (bal f).list (s.push .loop) l
  rcases (irr f).list (ctxOf s.stack) 1 s l hq with h | h
  · left
    rw [r1.2]
    exact h
  · right
    rw [h] at r1
    have he := eq_of_sbs r2.1 r1.1
    rw [hb] at he
    exact Prod.ext he (r1.2.trans r2.2.symm)

/-- `for x in w; do body; done` ≡ `body` (one word): when the body, run inside the loop, ends without a
    `break`/`continue` (normally, or by return/exit/an error), the loop command is the body run without the loop —
    same state, trace, `$?` and divert -/
theorem for_one_is_body (g : Nat) (s : St) (body : List Item) (hne : body ≠ [])
    (hq : (ctxOf s.stack).quiet = true)
    (hnb : ∀ k, (execList (g+1) (s.push .loop) body).2 ≠ .break_ (.break_ k) ∧
      (execList (g+1) (s.push .loop) body).2 ≠ .break_ (.continue_ k)) :
    execCmd (g+3) s (.forLoop 1 body) = execList (g+1) s body := by
  have hbe : body.isEmpty = false := by cases body <;> simp_all
  simp only [execCmd, execFor, hbe]
  simp only [Nat.succ_ne_zero, false_and, if_false, Bool.not_false]
  rcases loop_frame_irrelevant (g+1) s body hq with h | h
  · exfalso
    generalize execList (g+1) (s.push .loop) body = x at h hnb
    obtain ⟨s1, r⟩ := x
    cases r with
    | break_ dv =>
      cases dv with
      | break_ k => exact (hnb k).1 rfl
      | continue_ k => exact (hnb k).2 rfl
      | _ => simp [Reach] at h
    | _ => simp [Reach] at h
  · rw [h] at hnb ⊢
    have hbs := (bal (g+1)).list s body
    generalize execList (g+1) s body = x at hnb hbs ⊢
    obtain ⟨s1, r⟩ := x
    simp only at hnb hbs ⊢
    have hpop : ({ s1 with stack := .loop :: s.stack } : St).pop = s1 := by
      cases s1; simp_all [St.pop]
    cases r with
    | continue_ => simp [loopStep, execFor, hpop]
    | outOfFuel => simp [loopStep, hpop]
    | break_ dv =>
      cases dv with
      | break_ k => exact absurd rfl (hnb k).1
      | continue_ k => exact absurd rfl (hnb k).2
      | _ => simp [loopStep, hpop]

/-- not vacuous (`for_one_is_body`): inside a subshell, `for x in w; do probe 1; st 4; done` is `probe 1; st 4` -/
example :
    let it (c : Cmd) : Item := .mk (.mk false [c]) []
    let s : St := { stack := [.subshell] }
    (ctxOf s.stack).quiet = true ∧
    (execList 6 (s.push .loop) [it (.probe 1), it (.st 4)]).2 = .continue_ ∧
    execCmd 8 s (.forLoop 1 [it (.probe 1), it (.st 4)]) = execList 6 s [it (.probe 1), it (.st 4)] := by
  refine ⟨by decide, by decide, ?_⟩
  have h : (execList 6 (({ stack := [.subshell] } : St).push .loop)
      [.mk (.mk false [.probe 1]) [], .mk (.mk false [.st 4]) []]).2 = .continue_ := by decide
  exact for_one_is_body 5 _ _ (by simp) (by decide) (by intro k; rw [h]; simp)

/-- the textbook unfolding `while c; do b; done` ≡ `if c; then b; while c; do b; done; fi` does NOT hold for `$?`
    in the shell (POSIX: a `while` that runs its body no further yields the status of the last body executed, but a
    *fresh* `while` that never runs its body yields 0): `while tick 0 1; do st 5; done` ends with 5, its unfolding with
    0 — same trace, different status.  (The law that does hold is the loop's own recursion with its status register:
    `while_status_is_last_body`.) -/
example :
    let it (c : Cmd) : Item := .mk (.mk false [c]) []
    let w : Cmd := .whileLoop false [it (.tick 0 1)] [it (.st 5)]
    (execCmd 30 {} w).1.status = 5 ∧
    (execCmd 30 {} (.ifc [it (.tick 0 1)] [it (.st 5), it w] [] none)).1.status = 0 := by
  decide

/-- yash-rs has no function frame (`execute_function_body` pushes nothing on `env.stack`): `break`/`continue` inside a
    function body see the CALLER's loops — `f0() { break; }; while …; do f0; probe 1; done` leaves the loop.  In the
    model: a call whose body is `break n` inside `L > 0` visible loops yields `Break (min n L - 1)` to the caller -/
theorem function_break_reaches_caller (fuel : Nat) (s : St) (name : Name) (nargs n : Nat)
    (hc : classify s name = .function (.brk n)) (hl : 0 < min n (loops s.stack)) :
    (execCmd (fuel+2) s (.call name nargs)).2 = .break_ (.break_ (min n (loops s.stack) - 1)) := by
  have h0 : ¬ min n (loops s.stack) = 0 := by omega
  simp [execCmd, hc, breakBuiltin, loopCount_eq_min, loops_builtin, h0, finishSimple]

example :
    let it (c : Cmd) : Item := .mk (.mk false [c]) []
    (runShell 60 {} [.cmds [it (.fundef (.f 0) (.brk 1)),
      it (.whileLoop false [it (.tick 0 3)] [it (.call (.f 0) 0), it (.probe 1)]), it (.probe 2)]]).1.trace = [(2, 0)] := by
  decide

/-! ### tables of break/continue (re-extracted; both the chain/early-return and the loop/`checked_sub` shapes are read) -/

/-- the level arithmetic and the default count of the transcribed `break`/`continue` are those of the code as it
    stands: with `c > 0` visible loops the divert carries `c - breakLevelOffset`, and no operand means
    `breakDefaultCount` -/
theorem break_tables (isBreak p : Bool) (stack : List Frame) (n : Nat) (h : Builtins.loopCountChain stack n ≠ 0) :
    Builtins.breakRun isBreak stack n =
      some ⟨Generated.ExecTables.SUCCESS, .break_ (if isBreak
        then .break_ (Builtins.loopCountChain stack n - Generated.ExecTables.breakLevelOffset)
        else .continue_ (Builtins.loopCountChain stack n - Generated.ExecTables.continueLevelOffset))⟩ ∧
    Builtins.breakParse p [] = .ok Generated.ExecTables.breakDefaultCount := by
  refine ⟨by simp [Builtins.breakRun, h, Generated.ExecTables.breakLevelOffset,
    Generated.ExecTables.continueLevelOffset], Builtins.breakParse_nil p⟩

/-! ### the read-eval loop's `executed` flag (/repo 4afb140; Exec/ReadEval.lean) -/

/-- `runScript` (the loop the whole-shell theorems are about) is `read_eval_loop_impl` entered with `executed` set:
    it never resets `$?` -/
theorem readEvalLoop_true (fuel : Nat) : ∀ (s : St) (lines : List Line),
    readEvalLoop fuel s lines true = runScript fuel s lines := by
  induction fuel with
  | zero => intro s lines; simp [readEvalLoop, runScript]
  | succ fuel ih =>
    intro s lines
    cases lines with
    | nil => simp [readEvalLoop, runScript]
    | cons l rest =>
      cases l with
      | syntaxError => simp [readEvalLoop, runScript]
      | cmds line =>
        simp only [readEvalLoop, runScript, Bool.true_or]
        generalize pollWith (execList fuel) s .continue_ = x
        obtain ⟨s0, r0⟩ := x
        cases r0 with
        | continue_ =>
          simp only
          generalize execList fuel s0 line = y
          obtain ⟨s1, r⟩ := y
          cases r <;> simp [ih]
        | _ => rfl

theorem readEvalLoop_blank (n : Nat) : ∀ (fuel : Nat) (s : St) (executed : Bool), n + 2 ≤ fuel → s.trapDue = none →
    readEvalLoop fuel s (List.replicate n (.cmds [])) executed =
      (if executed then s else { s with status := 0 }, .continue_) := by
  induction n with
  | zero =>
    intro fuel s executed hf _
    obtain ⟨f, rfl⟩ : ∃ f, fuel = f + 1 := ⟨fuel - 1, by omega⟩
    simp [readEvalLoop]
  | succ n ih =>
    intro fuel s executed hf ht
    obtain ⟨f, rfl⟩ : ∃ f, fuel = f + 2 := ⟨fuel - 2, by omega⟩
    simp only [List.replicate_succ, readEvalLoop, pollWith_none _ _ _ ht, execList, List.isEmpty_nil,
      Bool.not_true, Bool.or_false]
    exact ih (f+1) s executed (by omega) ht

/-- a script (main input, `eval` text, `.` file) whose lines hold no command at all — blank or comment only — ends
    with `$?` = 0 whatever `$?` was before, having changed nothing else (POSIX: zero when no command is executed) -/
theorem script_without_commands_status_zero (n fuel : Nat) (s : St) (hf : n + 2 ≤ fuel) (ht : s.trapDue = none) :
    readEvalLoop fuel s (List.replicate n (.cmds [])) false = ({ s with status := 0 }, .continue_) := by
  simpa using readEvalLoop_blank n fuel s false hf ht

/-- blank and comment-only lines after a command keep its status: once a command has been executed, any number of
    lines without commands leaves the state — `$?` included — as it is -/
theorem trailing_blank_lines_keep_status (n fuel : Nat) (s : St) (hf : n + 2 ≤ fuel) (ht : s.trapDue = none) :
    readEvalLoop fuel s (List.replicate n (.cmds [])) true = (s, .continue_) := by
  simpa using readEvalLoop_blank n fuel s true hf ht

/-- not vacuous, and the flag is set by the first line that holds a command, not before: `# c` / `st 4` / `# c` entered
    with `$?` = 3 ends with 4; `# c` / blank alone ends with 0; a syntax error counts as executed (status 2) -/
example :
    let it (c : Cmd) : Item := .mk (.mk false [c]) []
    (readEvalLoop 20 { status := 3 } [.cmds [], .cmds [it (.st 4)], .cmds []] false).1.status = 4 ∧
    (readEvalLoop 20 { status := 3 } [.cmds [], .cmds []] false).1.status = 0 ∧
    (readEvalLoop 20 { status := 3 } [.cmds [], .syntaxError] false).1.status = 2 ∧
    (readEvalLoop 20 { status := 3 } [.cmds [it (.probe 1)], .cmds []] false).1.status = 3 := by
  decide

end YashModel.Exec
