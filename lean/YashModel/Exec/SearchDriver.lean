/-
  Driver side of the command-search family (`search …` case lines; format in harness/src/prog.rs,
  `search_family`).  Model observation: `cl=… se=… sp=… run=…:<status>` from `Search.classify`,
  `Search.search`, `Search.searchPath`, `Search.runSimple`; Spec column: the same line with the `run`
  part computed by `Search.specRun` (POSIX XCU 2.9.1.4) — compared with the real shell.
-/
import YashModel.Common.Proto
import YashModel.Exec.SearchSpec
namespace YashModel.Exec.Search
open YashModel.Proto

def decList (t : String) : Option (List Str) :=
  if t = "." then some [] else (t.splitOn ",").mapM decChars

def BType.letter : BType → Char
  | .special => 's' | .mandatory => 'm' | .elective => 'e' | .extension => 'x' | .substitutive => 'u'

def btypeOf : String → Option BType
  | "s" => some .special | "m" => some .mandatory | "e" => some .elective
  | "x" => some .extension | "u" => some .substitutive | _ => none

def decBuiltins (t : String) : Option (List (Str × BType)) :=
  if t = "." then some []
  else (t.splitOn ",").mapM fun b =>
    match b.splitOn ":" with
    | [n, ty] => do pure (← decChars n, ← btypeOf ty)
    | _ => none

def showClassify : Target → String
  | .builtin t a _ => s!"B{t.letter}{match a with | .available => 'A' | .notPortable => 'N'}"
  | .function => "F"
  | .external _ => "X"

def showSearch : Except Error Target → String
  | .ok (.builtin t _ p) => s!"B{t.letter}:{encChars p}"
  | .ok .function => "F"
  | .ok (.external p) => s!"X:{encChars p}"
  | .error .notFound => s!"Enotfound:{Error.notFound.exitStatus}"
  | .error (.unusable .notInPath) => s!"Enotinpath:{(Error.unusable .notInPath).exitStatus}"
  | .error (.unusable .notPortable) => s!"Enotportable:{(Error.unusable .notPortable).exitStatus}"

/-- what the harness sees of an outcome: the built-ins print `B<type>` and return 0, the functions print
    `F` and return 0, the simulated `execve` of an existing executable file fails with ENOSYS (126) and
    a file that does not exist gives ENOENT (127) -/
def showRun (env : Env) : Outcome → String
  | .builtin t _ => s!"B{t.letter}:0"
  | .function => "F:0"
  | .exec p => if env.isExecutableFile p then "-:126" else "-:127"
  | .status n => s!"-:{n}"

def parseEnv (toks : List String) : Option (Env × Str) :=
  match toks with
  | [opts, path, execs, builtins, functions, name] => do
    let o := opts.toList
    let pv ← match path.splitOn ":" with
      | ["u", _] => some PathVal.unset
      | ["s", d] => do pure (PathVal.scalar ([':'].intercalate (← decList d)))
      | ["a", d] => do pure (PathVal.array (← decList d))
      | _ => none
    let env : Env := {
      builtins := ← decBuiltins builtins, functions := ← decList functions, path := pv,
      execs := ← decList execs, posix := o.head? == some '1', portable := o.tail.head? == some '1' }
    pure (env, ← decChars name)
  | _ => none

def runLine (toks : List String) : String :=
  match parseEnv toks with
  | none => "bad-case\t-"
  | some (env, name) =>
    let head := s!"cl={showClassify (classify env name)} se={showSearch (search env name)} " ++
      s!"sp={match searchPath env name with | some p => encChars p | none => "none"}"
    s!"{head} run={showRun env (runSimple env name)}\t={head} run={showRun env (specRun env name)}"

end YashModel.Exec.Search
