/-
  Impl model of the command search (C02): a transcription of
  yash-env/src/semantics/command/search.rs (`impl ClassifyEnv for Env` = `Env.builtin`, `classify`,
  `search_path`, `resolve_builtin`, `search`, `Unusable::exit_status`, `Error::exit_status`) and of the
  dispatch on its result in yash-semantics/src/command/simple_command.rs (`SimpleCommand::execute`),
  simple_command/builtin.rs (`execute_builtin`: the `resolve_builtin` check) and
  simple_command/external.rs (`execute_external_utility`: slash → the name itself, else `search_path`).

  Same data layout as the code: a table of built-ins with their `Type`, the set of function names,
  `$PATH` as unset / scalar / array (`Expansion::split`), the `posixlycorrect` and `portable` options;
  `PathBuf::from_iter([dir, name])` is `joinPath`.  The constants (exit statuses, the POSIX special
  built-in names) come from `Generated/ExecTables.lean`, re-extracted from /repo on every run.

  Strings are `List Char` here (the driver converts).  Import-free apart from the generated table;
  executable.
-/
import YashModel.Generated.ExecTables
namespace YashModel.Exec.Search
open YashModel.Generated

abbrev Str := List Char

/-- `yash_env::builtin::Type` -/
inductive BType where
  | special | mandatory | elective | extension | substitutive
  deriving DecidableEq, Repr

/-- the variant's name in the Rust source (ties `BType` to `ExecTables.builtinTypes`) -/
def BType.rustName : BType → String
  | .special => "Special" | .mandatory => "Mandatory" | .elective => "Elective"
  | .extension => "Extension" | .substitutive => "Substitutive"

def BType.all : List BType := [.special, .mandatory, .elective, .extension, .substitutive]

/-- `search::Availability` -/
inductive Avail where
  | available | notPortable
  deriving DecidableEq, Repr

/-- `$PATH` as `PathEnv::path` returns it: `Expansion::{Unset, Scalar, Array}` -/
inductive PathVal where
  | unset
  | scalar (v : Str)
  | array (vs : List Str)
  deriving DecidableEq, Repr

/-- what the command search reads of `Env` -/
structure Env where
  /-- `env.builtins` (a map: the first entry of a name counts) -/
  builtins : List (Str × BType) := []
  /-- the names in `env.functions` -/
  functions : List Str := []
  path : PathVal := .unset
  /-- absolute paths of the files that have an execute permission bit -/
  execs : List Str := []
  /-- `PosixlyCorrect` is on -/
  posix : Bool := false
  /-- `Portable` is on -/
  portable : Bool := false
  deriving Repr

/-- `is_posix_special_builtin_name`: membership in `POSIX_SPECIAL_BUILTIN_NAMES` -/
def isPosixSpecialName (name : Str) : Bool :=
  ExecTables.posixSpecialNames.any fun n => n.toList == name

/-- `str::split(':')`: the maximal colon-free segments (never empty: `""` gives `[""]`) -/
def splitOn (sep : Char) : Str → List Str
  | [] => [[]]
  | c :: cs =>
    if c = sep then [] :: splitOn sep cs
    else (c :: (splitOn sep cs).headD []) :: (splitOn sep cs).tail

/-- `Expansion::split` -/
def PathVal.split : PathVal → List Str
  | .unset => []
  | .scalar v => splitOn ':' v
  | .array vs => vs

/-- `PathBuf::from_iter([dir, name])` (unix_path `push`): an absolute `name` replaces the directory, a
    separator is inserted unless the directory is empty or already ends with one -/
def joinPath (dir name : Str) : Str :=
  if name.head? = some '/' then name
  else if dir = [] then name
  else if dir.getLast? = some '/' then dir ++ name
  else dir ++ '/' :: name

/-- how the (virtual) system resolves a path: relative to the working directory, which is `/` in the
    harness -/
def absPath (p : Str) : Str := if p.head? = some '/' then p else '/' :: p

/-- `PathEnv::is_executable_file` -/
def Env.isExecutableFile (env : Env) (p : Str) : Bool := env.execs.contains (absPath p)

/-- `search_path`: the first `$PATH` entry under which `name` is an executable file -/
def searchPath (env : Env) (name : Str) : Option Str :=
  (env.path.split.map fun dir => joinPath dir name).find? env.isExecutableFile

/-- `impl ClassifyEnv for Env`: `builtin(name)` — an extension built-in is ignored under
    `posixlycorrect`; under `portable` a built-in POSIX does not define is found but not available -/
def Env.builtin (env : Env) (name : Str) : Option (BType × Avail) :=
  match env.builtins.lookup name with
  | none => none
  | some t =>
    if t = .extension ∧ env.posix = true then none
    else
      some (t,
        match t with
        | .elective | .extension => if env.portable then .notPortable else .available
        | .special => if env.portable && !isPosixSpecialName name then .notPortable else .available
        | .mandatory | .substitutive => .available)

/-- `search::Target` (the function and the built-in's body are not part of the search) -/
inductive Target where
  | builtin (t : BType) (a : Avail) (path : Str)
  | function
  | external (path : Str)
  deriving DecidableEq, Repr

/-- `classify` -/
def classify (env : Env) (name : Str) : Target :=
  if name.contains '/' then .external []
  else
    match env.builtin name with
    | some (.special, a) => .builtin .special a []
    | b =>
      if env.functions.contains name then .function
      else
        match b with
        | some (t, a) => .builtin t a []
        | none => .external []

/-- `search::Unusable` -/
inductive Unusable where
  | notInPath | notPortable
  deriving DecidableEq, Repr

def Unusable.rustName : Unusable → String
  | .notInPath => "NotInPath" | .notPortable => "NotPortable"

/-- `Unusable::exit_status` -/
def Unusable.exitStatus : Unusable → Nat
  | .notInPath => ExecTables.NOT_FOUND
  | .notPortable => ExecTables.NOEXEC

/-- `search::Error` -/
inductive Error where
  | notFound
  | unusable (u : Unusable)
  deriving DecidableEq, Repr

/-- `Error::exit_status` -/
def Error.exitStatus : Error → Nat
  | .notFound => ExecTables.NOT_FOUND
  | .unusable u => u.exitStatus

/-- `resolve_builtin` -/
def resolveBuiltin (env : Env) (name : Str) (t : BType) (a : Avail) : Except Unusable Str :=
  match a with
  | .notPortable => .error .notPortable
  | .available =>
    if t = .substitutive then
      match searchPath env name with
      | some p => .ok p
      | none => .error .notInPath
    else .ok []

/-- `search` -/
def search (env : Env) (name : Str) : Except Error Target :=
  match classify env name with
  | .builtin t a _ =>
    match resolveBuiltin env name t a with
    | .ok p => .ok (.builtin t a p)
    | .error u => .error (.unusable u)
  | .external _ =>
    if name.contains '/' then .ok (.external name)
    else
      match searchPath env name with
      | some p => .ok (.external p)
      | none => .error .notFound
  | .function => .ok .function

/-- what a simple command with this name does -/
inductive Outcome where
  | builtin (t : BType) (path : Str)   -- the built-in runs (`path`: the utility a substitutive one shadows)
  | function                           -- the function runs
  | exec (path : Str)                  -- `execve(path)` in a subshell
  | status (n : Nat)                   -- nothing runs; `$?` is n
  deriving DecidableEq, Repr

/-- `SimpleCommand::execute` for a non-empty field list: `classify`, then `execute_builtin` (which
    applies `resolve_builtin` just before running), `execute_function` or `execute_external_utility` -/
def runSimple (env : Env) (name : Str) : Outcome :=
  match classify env name with
  | .builtin t a _ =>
    match resolveBuiltin env name t a with
    | .error u => .status u.exitStatus
    | .ok p => .builtin t p
  | .function => .function
  | .external _ =>
    match (if name.contains '/' then some name else searchPath env name) with
    | some p => .exec p
    | none => .status ExecTables.NOT_FOUND

end YashModel.Exec.Search
