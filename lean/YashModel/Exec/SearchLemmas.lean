/-
  Lemmas about the command search: `$PATH` splitting and scanning characterised declaratively, the
  executable Spec equals the transcription, the relational Spec is functional and `specRun` solves it.
-/
import YashModel.Exec.SearchSpec
namespace YashModel.Exec.Search
open YashModel.Generated

/-! ### `str::split(':')` -/

theorem splitOn_ne_nil (sep : Char) (s : Str) : splitOn sep s ≠ [] := by
  cases s with
  | nil => simp [splitOn]
  | cons c cs => simp only [splitOn]; split <;> simp

theorem splitOn_cons_headD (sep : Char) (s : Str) :
    (splitOn sep s).headD [] :: (splitOn sep s).tail = splitOn sep s := by
  have := splitOn_ne_nil sep s
  cases h : splitOn sep s with
  | nil => exact absurd h this
  | cons a b => rfl

/-- joining the segments with the separator gives the string back -/
theorem splitOn_join (sep : Char) (s : Str) : [sep].intercalate (splitOn sep s) = s := by
  induction s with
  | nil => simp [splitOn, List.intercalate]
  | cons c cs ih =>
    simp only [splitOn]
    by_cases h : c = sep
    · subst h
      simp only [if_true]
      have hne := splitOn_ne_nil c cs
      cases hs : splitOn c cs with
      | nil => exact absurd hs hne
      | cons a b =>
        rw [hs] at ih
        simp only [List.intercalate, List.intersperse, List.flatten] at ih ⊢
        cases b with
        | nil => simp_all [List.intersperse]
        | cons b1 b2 => simp_all [List.intersperse]
    · simp only [h, if_false]
      have hne := splitOn_ne_nil sep cs
      cases hs : splitOn sep cs with
      | nil => exact absurd hs hne
      | cons a b =>
        rw [hs] at ih
        simp only [List.headD, List.tail]
        cases b with
        | nil => simp_all [List.intercalate, List.intersperse]
        | cons b1 b2 => simp_all [List.intercalate, List.intersperse]

/-- no segment contains the separator -/
theorem splitOn_no_sep (sep : Char) (s : Str) : ∀ seg ∈ splitOn sep s, sep ∉ seg := by
  induction s with
  | nil => simp [splitOn]
  | cons c cs ih =>
    intro seg hseg
    simp only [splitOn] at hseg
    by_cases h : c = sep
    · simp only [h, if_true, List.mem_cons] at hseg
      rcases hseg with rfl | hseg
      · simp
      · exact ih seg hseg
    · simp only [h, if_false, List.mem_cons] at hseg
      have hc := splitOn_cons_headD sep cs
      rcases hseg with rfl | hseg
      · intro hm
        simp only [List.mem_cons] at hm
        rcases hm with rfl | hm
        · exact h rfl
        · exact ih _ (by rw [← hc]; simp) hm
      · exact ih seg (by rw [← hc]; simp [hseg])

/-! ### the `$PATH` scan -/

theorem firstHitIn_some_iff (env : Env) (name : Str) (ds : List Str) (p : Str) :
    firstHitIn env name ds = some p ↔
      ∃ pre dir post, ds = pre ++ dir :: post ∧
        (∀ d ∈ pre, env.isExecutableFile (joinPath d name) = false) ∧
        env.isExecutableFile (joinPath dir name) = true ∧ p = joinPath dir name := by
  induction ds with
  | nil => simp [firstHitIn]
  | cons d ds ih =>
    simp only [firstHitIn]
    by_cases hd : env.isExecutableFile (joinPath d name) = true
    · simp only [hd, if_true, Option.some.injEq]
      constructor
      · intro h; exact ⟨[], d, ds, rfl, by simp, hd, h.symm⟩
      · rintro ⟨pre, dir, post, heq, hpre, hdir, hp⟩
        cases pre with
        | nil => simp only [List.nil_append, List.cons.injEq] at heq; rw [hp, ← heq.1]
        | cons a pre =>
          simp only [List.cons_append, List.cons.injEq] at heq
          have := hpre a (by simp)
          rw [← heq.1, hd] at this
          exact absurd this (by simp)
    · have hd' : env.isExecutableFile (joinPath d name) = false := by simpa using hd
      simp only [hd', Bool.false_eq_true, if_false, ih]
      constructor
      · rintro ⟨pre, dir, post, heq, hpre, hdir, hp⟩
        refine ⟨d :: pre, dir, post, by simp [heq], ?_, hdir, hp⟩
        intro x hx
        simp only [List.mem_cons] at hx
        rcases hx with rfl | hx
        · exact hd'
        · exact hpre x hx
      · rintro ⟨pre, dir, post, heq, hpre, hdir, hp⟩
        cases pre with
        | nil =>
          simp only [List.nil_append, List.cons.injEq] at heq
          rw [← heq.1, hd'] at hdir
          exact absurd hdir (by simp)
        | cons a pre =>
          simp only [List.cons_append, List.cons.injEq] at heq
          exact ⟨pre, dir, post, heq.2, fun x hx => hpre x (by simp [hx]), hdir, hp⟩

theorem firstHitIn_none_iff (env : Env) (name : Str) (ds : List Str) :
    firstHitIn env name ds = none ↔ ∀ d ∈ ds, env.isExecutableFile (joinPath d name) = false := by
  induction ds with
  | nil => simp [firstHitIn]
  | cons d ds ih =>
    simp only [firstHitIn]
    by_cases hd : env.isExecutableFile (joinPath d name) = true
    · simp [hd]
    · have hd' : env.isExecutableFile (joinPath d name) = false := by simpa using hd
      simp [hd', ih]

/-- `search_path` (an iterator chain `map`/`find`) is that scan -/
theorem searchPath_eq_firstHitIn (env : Env) (name : Str) :
    searchPath env name = firstHitIn env name env.path.split := by
  unfold searchPath
  induction env.path.split with
  | nil => simp [firstHitIn]
  | cons d ds ih =>
    simp only [List.map_cons, List.find?_cons, firstHitIn]
    by_cases hd : env.isExecutableFile (joinPath d name) = true
    · simp [hd]
    · have hd' : env.isExecutableFile (joinPath d name) = false := by simpa using hd
      simp [hd', ih]

theorem firstHit_iff (env : Env) (name p : Str) :
    FirstHit env name p ↔ firstHitIn env name env.path.split = some p := by
  rw [firstHitIn_some_iff]; rfl

theorem noHit_iff (env : Env) (name : Str) :
    NoHit env name ↔ firstHitIn env name env.path.split = none := by
  rw [firstHitIn_none_iff]; rfl

/-! ### `Env.builtin` in the Spec's vocabulary -/

theorem builtin_eq (env : Env) (name : Str) :
    env.builtin name =
      (visible env name).map fun t => (t, if rejected env name t then Avail.notPortable else .available) := by
  unfold Env.builtin visible rejected
  cases env.builtins.lookup name with
  | none => rfl
  | some t =>
    simp only
    by_cases h : t = .extension ∧ env.posix = true
    · simp [h]
    · simp only [h, if_false, Option.map_some]
      cases t <;> cases hp : env.portable <;> simp

/-! ### the executable Spec is what the transcribed code computes -/

theorem specRun_eq_runSimple (env : Env) (name : Str) : specRun env name = runSimple env name := by
  unfold specRun runSimple classify resolveBuiltin
  rw [searchPath_eq_firstHitIn, builtin_eq]
  by_cases hs : '/' ∈ name
  · simp [hs]
  · by_cases hf : name ∈ env.functions
    · cases hv : visible env name with
      | none => simp [hs, hf]
      | some t => cases hr : rejected env name t <;> cases t <;> simp_all [Unusable.exitStatus]
    · cases hv : visible env name with
      | none => cases hh : firstHitIn env name env.path.split <;> simp [hs, hf, hh]
      | some t =>
        cases hh : firstHitIn env name env.path.split <;> cases hr : rejected env name t <;> cases t <;>
          first | (simp_all [Unusable.exitStatus]; done) | simp_all [Unusable.exitStatus, rejected]

/-! ### the relational Spec: `specRun` solves it and nothing else does -/

theorem specRuns_specRun (env : Env) (name : Str) : SpecRuns env name (specRun env name) := by
  unfold specRun
  by_cases hs : '/' ∈ name
  · simp only [List.contains_eq_mem, hs, decide_true, if_true]; exact .slash hs
  · simp only [List.contains_eq_mem, hs, decide_false, Bool.false_eq_true, if_false]
    by_cases hsp : visible env name = some .special
    · simp only [hsp, if_true]
      cases hr : rejected env name .special
      · simp only [Bool.false_eq_true, if_false]; exact .special hs hsp hr
      · simp only [if_true]; exact .notPortable .special hs hsp (Or.inl rfl) hr
    · simp only [hsp, if_false]
      by_cases hf : name ∈ env.functions
      · simp only [hf, decide_true, if_true]
        exact .function hs hsp hf
      · simp only [hf, decide_false, Bool.false_eq_true, if_false]
        cases hv : visible env name with
        | none =>
          simp only
          cases hh : firstHitIn env name env.path.split with
          | none => exact .notFound hs hf (Or.inl hv) ((noHit_iff env name).2 hh)
          | some p => exact .external p hs hf hv ((firstHit_iff env name p).2 hh)
        | some t =>
          cases t with
          | special => exact absurd hv hsp
          | substitutive =>
            simp only
            cases hh : firstHitIn env name env.path.split with
            | none => exact .notFound hs hf (Or.inr hv) ((noHit_iff env name).2 hh)
            | some p => exact .substitutive p hs hf hv ((firstHit_iff env name p).2 hh)
          | mandatory =>
            simp only
            cases hr : rejected env name .mandatory
            · simp only [Bool.false_eq_true, if_false]
              exact .regular .mandatory hs hf hv (by simp) (by simp) hr
            · simp only [if_true]; exact .notPortable .mandatory hs hv (Or.inr hf) hr
          | elective =>
            simp only
            cases hr : rejected env name .elective
            · simp only [Bool.false_eq_true, if_false]
              exact .regular .elective hs hf hv (by simp) (by simp) hr
            · simp only [if_true]; exact .notPortable .elective hs hv (Or.inr hf) hr
          | extension =>
            simp only
            cases hr : rejected env name .extension
            · simp only [Bool.false_eq_true, if_false]
              exact .regular .extension hs hf hv (by simp) (by simp) hr
            · simp only [if_true]; exact .notPortable .extension hs hv (Or.inr hf) hr

theorem specRuns_unique (env : Env) (name : Str) (o : Outcome) (h : SpecRuns env name o) :
    o = specRun env name := by
  unfold specRun
  cases h with
  | slash hs => simp [hs]
  | special hs hv hr => simp [hs, hv, hr]
  | function hs hv hf => simp [hs, hv, hf]
  | regular t hs hf hv ht1 ht2 hr => cases t <;> simp_all
  | notPortable t hs hv hor hr =>
    cases t with
    | special => simp [hs, hv, hr]
    | substitutive => simp [rejected] at hr
    | mandatory => simp [rejected] at hr
    | elective => simp_all
    | extension => simp_all
  | substitutive p hs hf hv hh =>
    have := (firstHit_iff env name p).1 hh
    simp [hs, hv, hf, this]
  | external p hs hf hv hh =>
    have := (firstHit_iff env name p).1 hh
    simp [hs, hv, hf, this]
  | notFound hs hf hv hh =>
    have := (noHit_iff env name).1 hh
    rcases hv with hv | hv <;> simp [hs, hv, hf, this]

end YashModel.Exec.Search
