/-
  Fuel is only a termination device: once an execution function returns anything but `outOfFuel`,
  more fuel returns exactly the same state and result (C02/C10 helper).
-/
import YashModel.Exec.Model
namespace YashModel.Exec

/-- `a` ran out of fuel, or it is already the final answer `b` -/
def Le (a b : St × Res) : Prop := a.2 = .outOfFuel ∨ a = b
def LeW (a b : St × (Res × Nat)) : Prop := a.2.1 = .outOfFuel ∨ a = b
def LeC (a b : St × Res × Bool) : Prop := a.2.1 = .outOfFuel ∨ a = b

structure Mono (n : Nat) : Prop where
  cmd : ∀ s c, Le (execCmd n s c) (execCmd (n+1) s c)
  elifs : ∀ s e els, Le (execElifs n s e els) (execElifs (n+1) s e els)
  while_ : ∀ s u c b e, LeW (execWhile n s u c b e) (execWhile (n+1) s u c b e)
  for_ : ∀ s k b, Le (execFor n s k b) (execFor (n+1) s k b)
  case_ : ∀ s items f u, LeC (execCase n s items f u) (execCase (n+1) s items f u)
  list : ∀ s l, Le (execList n s l) (execList (n+1) s l)
  item : ∀ s i, Le (execItem n s i) (execItem (n+1) s i)
  aor : ∀ s r, Le (execAndOrRest n s r) (execAndOrRest (n+1) s r)
  pipe : ∀ s p, Le (execPipeline n s p) (execPipeline (n+1) s p)
  cmds : ∀ s cs, Le (execCommands n s cs) (execCommands (n+1) s cs)
  members : ∀ s cs f, Le (execPipeMembers n s cs f) (execPipeMembers (n+1) s cs f)

theorem mono_zero : Mono 0 := by
  refine ⟨?_, ?_, ?_, ?_, ?_, ?_, ?_, ?_, ?_, ?_, ?_⟩ <;> intros <;> left <;> simp [execCmd, execElifs, execWhile,
    execFor, execCase, execList, execItem, execAndOrRest, execPipeline, execCommands, execPipeMembers]


macro "mstep " h:term:max a:term:max b:term:max " with " x:ident hm:ident : tactic => `(tactic|
  (have $hm := $h
   generalize $b = y at $hm:ident ⊢
   generalize $a = $x at $hm:ident ⊢
   rcases $hm:ident with $hm:ident | $hm:ident
   rotate_left
   subst $hm:ident
   rotate_left))

theorem mono_list (n : Nat) (ih : Mono n) : ∀ s l, Le (execList (n+1) s l) (execList (n+2) s l) := by
  intro s l
  cases l with
  | nil => right; simp [execList]
  | cons it rest =>
    simp only [execList]
    mstep (ih.item s it) (execItem n s it) (execItem (n+1) s it) with x hm
    · obtain ⟨s1, r⟩ := x; simp only at hm; subst hm; left; rfl
    · obtain ⟨s1, r⟩ := x
      cases r with
      | continue_ => exact ih.list s1 rest
      | break_ d => right; rfl
      | outOfFuel => left; rfl

theorem mono_item (n : Nat) (ih : Mono n) : ∀ s i, Le (execItem (n+1) s i) (execItem (n+2) s i) := by
  intro s i
  obtain ⟨first, rest⟩ := i
  cases rest with
  | nil => simp only [execItem]; exact ih.pipe s first
  | cons a t =>
    simp only [execItem]
    mstep (ih.pipe (s.push .condition) first) (execPipeline n (s.push .condition) first)
      (execPipeline (n+1) (s.push .condition) first) with x hm
    · obtain ⟨s1, r⟩ := x; simp only at hm; subst hm; left; rfl
    · obtain ⟨s1, r⟩ := x
      cases r with
      | continue_ => exact ih.aor s1 (a :: t)
      | break_ d => right; rfl
      | outOfFuel => left; rfl

theorem mono_aor (n : Nat) (ih : Mono n) : ∀ s r, Le (execAndOrRest (n+1) s r) (execAndOrRest (n+2) s r) := by
  intro s r
  match r with
  | [] => right; simp [execAndOrRest]
  | [(a, p)] =>
    simp only [execAndOrRest]
    split
    · exact ih.pipe _ p
    · right; rfl
  | (a, p) :: b :: t =>
    simp only [execAndOrRest]
    split
    · mstep (ih.pipe s p) (execPipeline n s p) (execPipeline (n+1) s p) with x hm
      · obtain ⟨s1, r⟩ := x; simp only at hm; subst hm; left; rfl
      · obtain ⟨s1, r⟩ := x
        cases r with
        | continue_ => exact ih.aor s1 (b :: t)
        | break_ d => right; rfl
        | outOfFuel => left; rfl
    · exact ih.aor s (b :: t)

theorem mono_pipe (n : Nat) (ih : Mono n) : ∀ s p, Le (execPipeline (n+1) s p) (execPipeline (n+2) s p) := by
  intro s p
  obtain ⟨neg, cmds⟩ := p
  simp only [execPipeline]
  split
  · exact ih.cmds s cmds
  · mstep (ih.cmds (s.push .condition) cmds) (execCommands n (s.push .condition) cmds)
      (execCommands (n+1) (s.push .condition) cmds) with x hm
    · obtain ⟨s1, r⟩ := x; simp only at hm; subst hm; left; rfl
    · right; rfl

theorem finishPoll_outOfFuel (prev : Nat) (s2 : St) (r : Res) : (finishPoll prev s2 r .outOfFuel).2 = .outOfFuel := by
  unfold finishPoll; cases r <;> rfl

theorem finishPoll_le (prev : Nat) (x y : St × Res) (r : Res) (h : Le x y) :
    Le (finishPoll prev x.1.pop r x.2) (finishPoll prev y.1.pop r y.2) := by
  rcases h with h | rfl
  · obtain ⟨a, t⟩ := x; simp only at h; subst h; left; exact finishPoll_outOfFuel _ _ _
  · right; rfl

theorem pollWith_mono (run run' : St → List Item → St × Res) (h : ∀ s l, Le (run s l) (run' s l))
    (s1 : St) (r : Res) : Le (pollWith run s1 r) (pollWith run' s1 r) := by
  unfold pollWith
  cases r with
  | outOfFuel => left; rfl
  | continue_ =>
    simp only
    cases s1.trapDue with
    | none => right; rfl
    | some body => exact finishPoll_le _ _ _ _ (h _ _)
  | break_ d =>
    simp only
    cases s1.trapDue with
    | none => right; rfl
    | some body => exact finishPoll_le _ _ _ _ (h _ _)

theorem pollWith_outOfFuel (run : St → List Item → St × Res) (s1 : St) :
    pollWith run s1 .outOfFuel = (s1, .outOfFuel) := rfl

theorem mono_cmds (n : Nat) (ih : Mono n) : ∀ s cs, Le (execCommands (n+1) s cs) (execCommands (n+2) s cs) := by
  intro s cs
  match cs with
  | [] => right; simp [execCommands]
  | [c] =>
    simp only [execCommands]
    mstep (ih.cmd s c) (execCmd n s c) (execCmd (n+1) s c) with x hm
    · obtain ⟨s1, r⟩ := x; simp only at hm; subst hm; left; rfl
    · exact pollWith_mono _ _ ih.list _ _
  | c :: d :: t =>
    simp only [execCommands]
    mstep (ih.members s.enterJc (c :: d :: t) 0) (execPipeMembers n s.enterJc (c :: d :: t) 0)
      (execPipeMembers (n+1) s.enterJc (c :: d :: t) 0) with x hm
    · obtain ⟨s1, r⟩ := x; simp only at hm; subst hm; left; rfl
    · right; rfl

theorem mono_members (n : Nat) (ih : Mono n) :
    ∀ s cs f, Le (execPipeMembers (n+1) s cs f) (execPipeMembers (n+2) s cs f) := by
  intro s cs f
  cases cs with
  | nil => right; simp [execPipeMembers]
  | cons c rest =>
    simp only [execPipeMembers]
    mstep (ih.cmd (s.push .subshell) c) (execCmd n (s.push .subshell) c) (execCmd (n+1) (s.push .subshell) c) with x hm
    · obtain ⟨s1, r⟩ := x; simp only at hm; subst hm; left; rfl
    · obtain ⟨s1, r⟩ := x
      cases r with
      | continue_ => exact ih.members _ rest _
      | break_ d => exact ih.members _ rest _
      | outOfFuel => left; rfl

theorem mono_elifs (n : Nat) (ih : Mono n) :
    ∀ s e els, Le (execElifs (n+1) s e els) (execElifs (n+2) s e els) := by
  intro s e els
  cases e with
  | nil =>
    simp only [execElifs]
    cases els with
    | none => right; rfl
    | some b => exact ih.list s b
  | cons cb rest =>
    obtain ⟨cond, body⟩ := cb
    simp only [execElifs]
    mstep (ih.list (s.push .condition) cond) (execList n (s.push .condition) cond)
      (execList (n+1) (s.push .condition) cond) with x hm
    · obtain ⟨s1, r⟩ := x; simp only at hm; subst hm; left; rfl
    · obtain ⟨s1, r⟩ := x
      cases r with
      | continue_ =>
        simp only
        split
        · exact ih.list _ body
        · exact ih.elifs _ rest els
      | break_ d => right; rfl
      | outOfFuel => left; rfl

theorem mono_for (n : Nat) (ih : Mono n) : ∀ s k b, Le (execFor (n+1) s k b) (execFor (n+2) s k b) := by
  intro s k b
  cases k with
  | zero => right; simp [execFor]
  | succ k =>
    simp only [execFor]
    mstep (ih.list s b) (execList n s b) (execList (n+1) s b) with x hm
    · obtain ⟨s1, r⟩ := x; simp only at hm; subst hm; left; rfl
    · obtain ⟨s1, r⟩ := x
      cases hl : loopStep r with
      | stop => right; rfl
      | out r' =>
        simp only
        cases r with
        | outOfFuel => simp only [loopStep] at hl; cases hl; left; rfl
        | _ => right; rfl
      | next => exact ih.for_ s1 k b

theorem loopStep_out_outOfFuel : loopStep .outOfFuel = .out .outOfFuel := rfl

theorem mono_case (n : Nat) (ih : Mono n) :
    ∀ s items f u, LeC (execCase (n+1) s items f u) (execCase (n+2) s items f u) := by
  intro s items f u
  cases items with
  | nil => right; simp [execCase]
  | cons it rest =>
    obtain ⟨m, e, body, k⟩ := it
    simp only [execCase]
    split
    · right; rfl
    · split
      · exact ih.case_ s rest false u
      · mstep (ih.list s body) (execList n s body) (execList (n+1) s body) with x hm
        · obtain ⟨s1, r⟩ := x; simp only at hm; subst hm; left; rfl
        · obtain ⟨s1, r⟩ := x
          cases r with
          | continue_ =>
            simp only
            cases k with
            | break_ => right; rfl
            | fallThrough => exact ih.case_ s1 rest true _
            | continue_ => exact ih.case_ s1 rest false _
          | break_ d => right; rfl
          | outOfFuel => left; rfl

theorem mono_while (n : Nat) (ih : Mono n) :
    ∀ s u c b e, LeW (execWhile (n+1) s u c b e) (execWhile (n+2) s u c b e) := by
  intro s u c b e
  simp only [execWhile]
  mstep (ih.list (s.push .condition) c) (execList n (s.push .condition) c)
    (execList (n+1) (s.push .condition) c) with x hm
  · obtain ⟨s1, r⟩ := x; simp only at hm; subst hm; left; rfl
  · obtain ⟨s1, r⟩ := x
    cases hl : loopStep r with
    | stop => right; rfl
    | out r' =>
      simp only
      cases r with
      | outOfFuel => simp only [loopStep] at hl; cases hl; left; rfl
      | _ => right; rfl
    | next =>
      simp only
      split
      · exact ih.while_ _ u c b e
      · split
        · mstep (ih.list s1.pop b) (execList n s1.pop b) (execList (n+1) s1.pop b) with x2 hm2
          · obtain ⟨s2, r2⟩ := x2; simp only at hm2; subst hm2; left; rfl
          · obtain ⟨s2, r2⟩ := x2
            cases hl2 : loopStep r2 with
            | stop => right; rfl
            | out r' =>
              simp only
              cases r2 with
              | outOfFuel => simp only [loopStep] at hl2; cases hl2; left; rfl
              | _ => right; rfl
            | next =>
              simp only
              split
              · exact ih.while_ _ u c b e
              · exact ih.while_ _ u c b _
        · right; rfl

theorem finishSimple_outOfFuel (s : St) : (finishSimple s .outOfFuel).2 = .outOfFuel := rfl

theorem call_le (m m' : Nat) (s : St) (name : Name) (nargs : Nat)
    (h : ∀ s c, Le (execCmd m s c) (execCmd m' s c)) :
    Le (execCmd (m+1) s (.call name nargs)) (execCmd (m'+1) s (.call name nargs)) := by
  simp only [execCmd]
  cases classify s name with
  | function body =>
    simp only
    mstep (h { s with params := nargs } body) (execCmd m { s with params := nargs } body)
      (execCmd m' { s with params := nargs } body) with x hm
    · obtain ⟨s1, r⟩ := x; simp only at hm; subst hm; left; rfl
    · right; rfl
  | _ => right; rfl

theorem mono_cmd (n : Nat) (ih : Mono n) : ∀ s c, Le (execCmd (n+1) s c) (execCmd (n+2) s c) := by
  intro s c
  cases c with
  | group body => simp only [execCmd]; exact ih.list s body
  | subshell body =>
    simp only [execCmd]
    mstep (ih.list (s.push .subshell) body) (execList n (s.push .subshell) body)
      (execList (n+1) (s.push .subshell) body) with x hm
    · obtain ⟨s1, r⟩ := x; simp only at hm; subst hm; left; rfl
    · right; rfl
  | asyncWait body =>
    simp only [execCmd]
    mstep (ih.list (s.push .subshell) body) (execList n (s.push .subshell) body)
      (execList (n+1) (s.push .subshell) body) with x hm
    · obtain ⟨s1, r⟩ := x; simp only at hm; subst hm; left; rfl
    · right; rfl
  | ifc cond body elifs els =>
    simp only [execCmd]
    mstep (ih.list (s.push .condition) cond) (execList n (s.push .condition) cond)
      (execList (n+1) (s.push .condition) cond) with x hm
    · obtain ⟨s1, r⟩ := x; simp only at hm; subst hm; left; rfl
    · obtain ⟨s1, r⟩ := x
      cases r with
      | continue_ =>
        simp only
        split
        · exact ih.list _ body
        · exact ih.elifs _ elifs els
      | break_ d => right; rfl
      | outOfFuel => left; rfl
  | whileLoop u cond body =>
    simp only [execCmd]
    mstep (ih.while_ (s.push .loop) u cond body 0) (execWhile n (s.push .loop) u cond body 0)
      (execWhile (n+1) (s.push .loop) u cond body 0) with x hm
    · obtain ⟨s1, r, e⟩ := x; simp only at hm; subst hm; left; rfl
    · right; rfl
  | forLoop values body =>
    simp only [execCmd]
    split
    · right; rfl
    · mstep (ih.for_ (s.push .loop) values body) (execFor n (s.push .loop) values body)
        (execFor (n+1) (s.push .loop) values body) with x hm
      · obtain ⟨s1, r⟩ := x; simp only at hm; subst hm; left; rfl
      · right; rfl
  | forPos body =>
    simp only [execCmd]
    split
    · right; rfl
    · mstep (ih.for_ (s.push .loop) s.params body) (execFor n (s.push .loop) s.params body)
        (execFor (n+1) (s.push .loop) s.params body) with x hm
      · obtain ⟨s1, r⟩ := x; simp only at hm; subst hm; left; rfl
      · right; rfl
  | caseC items =>
    simp only [execCmd]
    mstep (ih.case_ s items false false) (execCase n s items false false)
      (execCase (n+1) s items false false) with x hm
    · obtain ⟨s1, r, u⟩ := x; simp only at hm; subst hm; left; rfl
    · right; rfl
  | call name nargs => exact call_le n (n+1) s name nargs ih.cmd
  | _ => right; simp only [execCmd]

theorem mono_succ (n : Nat) (ih : Mono n) : Mono (n+1) :=
  ⟨mono_cmd n ih, mono_elifs n ih, mono_while n ih, mono_for n ih, mono_case n ih, mono_list n ih,
   mono_item n ih, mono_aor n ih, mono_pipe n ih, mono_cmds n ih, mono_members n ih⟩

theorem mono_all : ∀ n, Mono n
  | 0 => mono_zero
  | n+1 => mono_succ n (mono_all n)

theorem runScript_le (n : Nat) : ∀ s ls, Le (runScript n s ls) (runScript (n+1) s ls) := by
  induction n with
  | zero => intro s ls; left; simp [runScript]
  | succ n ihn =>
    intro s ls
    cases ls with
    | nil => right; simp [runScript]
    | cons l rest =>
      cases l with
      | syntaxError => right; simp only [runScript]
      | cmds line =>
        simp only [runScript]
        mstep (pollWith_mono _ _ (mono_all n).list s .continue_) (pollWith (execList n) s .continue_)
          (pollWith (execList (n+1)) s .continue_) with x hm
        · obtain ⟨s1, r⟩ := x; simp only at hm; subst hm; left; rfl
        · obtain ⟨s0, r0⟩ := x
          cases r0 with
          | continue_ =>
            simp only
            mstep ((mono_all n).list s0 line) (execList n s0 line) (execList (n+1) s0 line) with x2 hm2
            · obtain ⟨s1, r⟩ := x2; simp only at hm2; subst hm2; left; rfl
            · obtain ⟨s1, r⟩ := x2
              cases r with
              | continue_ => exact ihn s1 rest
              | break_ d => right; rfl
              | outOfFuel => left; rfl
          | break_ d => right; rfl
          | outOfFuel => left; rfl

theorem runExitTrap_le (n : Nat) (s : St) : Le (runExitTrap n s) (runExitTrap (n+1) s) := by
  unfold runExitTrap
  cases s.exitTrap with
  | none => right; rfl
  | some body =>
    simp only
    mstep ((mono_all n).list (s.push .trap) body) (execList n (s.push .trap) body)
      (execList (n+1) (s.push .trap) body) with x hm
    · obtain ⟨s1, r⟩ := x; simp only at hm; subst hm; left; rfl
    · right; rfl

theorem runShell_le (n : Nat) (s : St) (script : List Line) :
    Le (runShell n s script) (runShell (n+1) s script) := by
  unfold runShell
  mstep (runScript_le n s script) (runScript n s script) (runScript (n+1) s script) with x hm
  · obtain ⟨s1, r⟩ := x; simp only at hm; subst hm; left; rfl
  · obtain ⟨s1, r⟩ := x
    cases r with
    | outOfFuel => left; rfl
    | continue_ =>
      simp only
      mstep (runExitTrap_le n s1) (runExitTrap n s1) (runExitTrap (n+1) s1) with x2 hm2
      · obtain ⟨s2, r2⟩ := x2; simp only at hm2; subst hm2; left; rfl
      · right; rfl
    | break_ d =>
      cases d with
      | abort e => right; rfl
      | _ =>
        simp only
        mstep (runExitTrap_le n s1) (runExitTrap n s1) (runExitTrap (n+1) s1) with x2 hm2
        · obtain ⟨s2, r2⟩ := x2; simp only at hm2; subst hm2; left; rfl
        · right; rfl

/-- from one more unit of fuel to any amount more -/
theorem le_add {α : Type} (f : Nat → α) (bad : α → Prop)
    (h : ∀ n, bad (f n) ∨ f n = f (n+1)) (n k : Nat) (hn : ¬ bad (f n)) : f (n+k) = f n := by
  induction k with
  | zero => rfl
  | succ k ih =>
    have h1 := h (n+k)
    rw [ih] at h1
    rcases h1 with h1 | h1
    · exact absurd h1 hn
    · rw [← Nat.add_assoc, ← h1]

end YashModel.Exec
