/-
  The command-search environment of the program runs (C02/C10): what `harness/src/prog.rs::observe`
  installs — the built-ins `:` (special, from yash-builtin), `ok` (mandatory), `sbin`/`sbout`
  (substitutive), `PATH=/nonexistent:/bin`, the executable files `/bin/sbin` and `/bin/xtin` — and the
  functions the program has defined so far.  With it the name classes of `Exec.Model.classify` are
  instances of the transcribed search (`Search.runSimple`) instead of a stand-in: theorem
  `classify_is_search` (Exec/SearchCompose.lean).  Import-free.
-/
import YashModel.Exec.Model
import YashModel.Exec.Search
namespace YashModel.Exec

/-- the word a `Name` is rendered as (harness/src/prog.rs `NAMES`) -/
def nameStr : Name → Search.Str
  | .f k => 'f' :: Nat.toDigits 10 k
  | .true_ => ['o', 'k']
  | .colon => [':']
  | .sbIn => ['s', 'b', 'i', 'n']
  | .sbOut => ['s', 'b', 'o', 'u', 't']
  | .xtIn => ['x', 't', 'i', 'n']
  | .xtPath => ['/', 'b', 'i', 'n', '/', 'x', 't', 'i', 'n']

/-- the search environment the harness installs, with the function names `fs` -/
def envWith (fs : List Search.Str) : Search.Env :=
  { builtins := [([':'], .special), (['o', 'k'], .mandatory),
                 (['s', 'b', 'i', 'n'], .substitutive), (['s', 'b', 'o', 'u', 't'], .substitutive)],
    functions := fs,
    path := .scalar ['/', 'n', 'o', 'n', 'e', 'x', 'i', 's', 't', 'e', 'n', 't', ':', '/', 'b', 'i', 'n'],
    execs := [['/', 'b', 'i', 'n', '/', 's', 'b', 'i', 'n'], ['/', 'b', 'i', 'n', '/', 'x', 't', 'i', 'n']] }

/-- the search environment of a program run whose function table is `funcs` -/
def harnessEnv (funcs : List (Name × Cmd)) : Search.Env := envWith (funcs.map fun p => nameStr p.1)

/-- what running a search outcome amounts to in those runs: a function body to execute, or just an exit
    status — `:`, `ok`, `sbin`, `sbout` return 0, the simulated `execve` fails with ENOSYS (126 = NOEXEC) -/
def outcomeEffect (funcs : List (Name × Cmd)) (n : Name) : Search.Outcome → Sum Cmd Nat
  | .builtin _ _ => .inr 0
  | .function => match lookupFn funcs n with | some b => .inl b | none => .inr Generated.ExecTables.NOT_FOUND
  | .exec _ => .inr Generated.ExecTables.NOEXEC
  | .status k => .inr k

/-- the same view of `Exec.Model`'s `Target` -/
def Target.effect : Target → Sum Cmd Nat
  | .specialColon => .inr 0
  | .function b => .inl b
  | .regularTrue => .inr 0
  | .notFound => .inr 127
  | .status n => .inr n

end YashModel.Exec
