/-
  C16 — helper lemmas, part 1: the normal form of per-name stacks, the abstraction function
  (transpose to a stack of maps), and the column view used to compare both sides name by name.
  Property theorems are in `Theorems.lean`.
-/
import YashModel.Variable.Model
import YashModel.Variable.Spec
namespace YashModel.Variable

/-! ### normal form -/

/-- `assert_normalized` of the Rust tests (indices strictly increasing, below the number of
    contexts) plus "the base context is regular" -/
structure Norm (s : VariableSet) : Prop where
  sorted : ∀ n, (s.all n).Pairwise (fun a b => a.ctx < b.ctx)
  bounded : ∀ n v, v ∈ s.all n → v.ctx < s.contexts.length
  base : ∃ ps t, s.contexts = Context.regular ps :: t

/-- the same on a stack read from the top: strictly decreasing and below `k` -/
def Dec : Nat → List VIC → Prop
  | _, [] => True
  | k, v :: r => v.ctx < k ∧ Dec v.ctx r

@[simp] theorem dec_nil (k : Nat) : Dec k [] = True := rfl
@[simp] theorem dec_cons (k : Nat) (v : VIC) (r : List VIC) : Dec k (v :: r) = (v.ctx < k ∧ Dec v.ctx r) := rfl

theorem dec_mono {k k' : Nat} {r : List VIC} (h : Dec k r) (hk : k ≤ k') : Dec k' r := by
  cases r with
  | nil => trivial
  | cons v r => exact ⟨Nat.lt_of_lt_of_le h.1 hk, h.2⟩

theorem dec_lt {k : Nat} {r : List VIC} (h : Dec k r) : ∀ u ∈ r, u.ctx < k := by
  induction r generalizing k with
  | nil => intro u hu; cases hu
  | cons v r ih =>
    intro u hu
    cases hu with
    | head => exact h.1
    | tail _ hu => exact Nat.lt_trans (ih h.2 u hu) h.1

theorem dec_append_single (k : Nat) (r : List VIC) (v : VIC) :
    Dec k (r ++ [v]) ↔ Dec k r ∧ (∀ u ∈ r, v.ctx < u.ctx) ∧ v.ctx < k := by
  induction r generalizing k with
  | nil => simp
  | cons a r ih =>
    simp only [List.cons_append, dec_cons, ih, List.mem_cons, forall_eq_or_imp]
    constructor
    · rintro ⟨h1, h2, h3, h4⟩; exact ⟨⟨h1, h2⟩, ⟨h4, h3⟩, Nat.lt_trans h4 h1⟩
    · rintro ⟨⟨h1, h2⟩, ⟨h4, h3⟩, _⟩; exact ⟨h1, h2, h3, h4⟩

theorem dec_reverse_iff (k : Nat) (st : List VIC) :
    Dec k st.reverse ↔ st.Pairwise (fun a b => a.ctx < b.ctx) ∧ ∀ v ∈ st, v.ctx < k := by
  induction st with
  | nil => simp
  | cons v t ih =>
    simp only [List.reverse_cons, dec_append_single, ih, List.pairwise_cons, List.mem_cons,
      forall_eq_or_imp, List.mem_reverse]
    constructor
    · rintro ⟨⟨h1, h2⟩, h3, h4⟩; exact ⟨⟨h3, h1⟩, h4, h2⟩
    · rintro ⟨⟨h3, h1⟩, h4, h2⟩; exact ⟨⟨h1, h2⟩, h3, h4⟩

theorem Norm.dec {s : VariableSet} (h : Norm s) (n : Name) : Dec s.contexts.length (s.all n).reverse :=
  (dec_reverse_iff _ _).2 ⟨h.sorted n, h.bounded n⟩

theorem norm_of_dec {s : VariableSet} (h : ∀ n, Dec s.contexts.length (s.all n).reverse)
    (hb : ∃ ps t, s.contexts = Context.regular ps :: t) : Norm s :=
  ⟨fun n => ((dec_reverse_iff _ _).1 (h n)).1, fun n => ((dec_reverse_iff _ _).1 (h n)).2, hb⟩

theorem dec_dropWhile {k : Nat} {r : List VIC} (p : VIC → Bool) (h : Dec k r) : Dec k (r.dropWhile p) := by
  induction r generalizing k with
  | nil => trivial
  | cons v r ih =>
    simp only [List.dropWhile_cons]
    split
    · exact dec_mono (ih h.2) (Nat.le_of_lt h.1)
    · exact h

/-! ### abstraction: transpose to a stack of maps -/

/-- the variable the stack holds for context `i` -/
def cellAt (st : List VIC) (i : Nat) : Option Variable := (st.find? (fun v => v.ctx == i)).map (·.var)

/-- contexts given top first; the context at the head has index `t.length` -/
def absRev (all : Name → List VIC) : List Context → SSet
  | [] => []
  | c :: t => ⟨c, fun n => cellAt (all n) t.length⟩ :: absRev all t

/-- the abstraction function -/
def abs (s : VariableSet) : SSet := absRev s.all s.contexts.reverse

/-! ### columns -/

/-- what each context, from the top, holds for one name -/
abbrev Col := List (Context × Option Variable)

def col (X : SSet) (n : Name) : Col := X.map (fun c => (c.kind, c.vars n))

@[simp] theorem col_nil (n : Name) : col [] n = [] := rfl
@[simp] theorem col_cons (c : SCtx) (X : SSet) (n : Name) : col (c :: X) n = (c.kind, c.vars n) :: col X n := rfl

theorem sset_ext {X Y : SSet} (h : ∀ n, col X n = col Y n) : X = Y := by
  induction X generalizing Y with
  | nil =>
    cases Y with
    | nil => rfl
    | cons d Y => have := h ""; simp at this
  | cons c X ih =>
    cases Y with
    | nil => have := h ""; simp at this
    | cons d Y =>
      have hX : X = Y := ih (fun n => by have := h n; simp only [col_cons, List.cons.injEq] at this; exact this.2)
      have hk : c.kind = d.kind := by have := h ""; simp only [col_cons, List.cons.injEq, Prod.mk.injEq] at this; exact this.1.1
      have hv : c.vars = d.vars := by
        funext n; have := h n; simp only [col_cons, List.cons.injEq, Prod.mk.injEq] at this; exact this.1.2
      cases c; cases d; simp_all

/-- the column of a sorted stack: merge the sparse stack (top first) into the dense context list -/
def dense : List Context → List VIC → Col
  | [], _ => []
  | c :: t, [] => (c, none) :: dense t []
  | c :: t, v :: r => if v.ctx = t.length then (c, some v.var) :: dense t r else (c, none) :: dense t (v :: r)

def cells (f : Nat → Option Variable) : List Context → Col
  | [] => []
  | c :: t => (c, f t.length) :: cells f t

theorem col_absRev (all : Name → List VIC) (rcs : List Context) (n : Name) :
    col (absRev all rcs) n = cells (cellAt (all n)) rcs := by
  induction rcs with
  | nil => rfl
  | cons c t ih => simp [absRev, cells, ih]

theorem cells_congr {f g : Nat → Option Variable} (rcs : List Context)
    (h : ∀ i, i < rcs.length → f i = g i) : cells f rcs = cells g rcs := by
  induction rcs with
  | nil => rfl
  | cons c t ih =>
    simp only [cells]
    rw [h t.length (by simp), ih (fun i hi => h i (by simp; omega))]

theorem find_reverse_unique (st : List VIC) (i : Nat) (h : st.Pairwise (fun a b => a.ctx < b.ctx)) :
    st.reverse.find? (fun v => v.ctx == i) = st.find? (fun v => v.ctx == i) := by
  induction st with
  | nil => rfl
  | cons v t ih =>
    rw [List.pairwise_cons] at h
    simp only [List.reverse_cons, List.find?_append, List.find?_cons, ih h.2]
    by_cases hv : v.ctx = i
    · have : t.find? (fun v => v.ctx == i) = none := by
        rw [List.find?_eq_none]
        intro u hu
        have := h.1 u hu
        simp; omega
      have hb : (v.ctx == i) = true := by simp [hv]
      simp [hb, this]
    · have hb : (v.ctx == i) = false := by simp [hv]
      simp [hb]

theorem dense_of_dec (c : Context) (t : List Context) (r : List VIC) (h : Dec t.length r) :
    dense (c :: t) r = (c, none) :: dense t r := by
  cases r with
  | nil => rfl
  | cons v r => simp only [dense]; rw [if_neg (by have := h.1; omega)]

theorem cells_dense (rcs : List Context) (r : List VIC) (h : Dec rcs.length r) :
    cells (fun i => (r.find? (fun v => v.ctx == i)).map (·.var)) rcs = dense rcs r := by
  induction rcs generalizing r with
  | nil => simp [cells, dense]
  | cons c t ih =>
    cases r with
    | nil => simpa [cells, dense] using ih [] trivial
    | cons v r' =>
      simp only [List.length_cons, dec_cons] at h
      by_cases hv : v.ctx = t.length
      · simp only [cells, dense, hv, if_true, List.find?_cons, beq_self_eq_true, Option.map_some]
        congr 1
        rw [← ih r' (hv ▸ h.2)]
        apply cells_congr
        intro i hi
        have : (t.length == i) = false := by simp; omega
        simp [this]
      · have hlt : v.ctx < t.length := by omega
        have hd : Dec t.length (v :: r') := ⟨hlt, h.2⟩
        rw [dense_of_dec c t _ hd, ← ih _ hd]
        simp only [cells, List.cons.injEq, Prod.mk.injEq, true_and, and_true]
        have : (v :: r').find? (fun u => u.ctx == t.length) = none := by
          rw [List.find?_eq_none]
          intro u hu
          have := dec_lt hd u hu
          simp; omega
        simp [this]

/-- Lemma A: on a normalised set the column of the abstraction is the merge of the stack -/
theorem col_abs {s : VariableSet} (h : Norm s) (n : Name) :
    col (abs s) n = dense s.contexts.reverse (s.all n).reverse := by
  unfold abs
  rw [col_absRev]
  have hd := h.dec n
  rw [← cells_dense _ _ (by simpa using hd)]
  apply cells_congr
  intro i _
  unfold cellAt
  rw [find_reverse_unique _ _ (h.sorted n)]

theorem dense_kinds (rcs : List Context) (r : List VIC) : (dense rcs r).map (·.1) = rcs := by
  induction rcs generalizing r with
  | nil => rfl
  | cons c t ih =>
    cases r with
    | nil => simp [dense, ih]
    | cons v r => simp only [dense]; split <;> simp [ih]

theorem dense_length (rcs : List Context) (r : List VIC) : (dense rcs r).length = rcs.length := by
  have := congrArg List.length (dense_kinds rcs r); simpa using this

theorem absRev_length (all : Name → List VIC) (rcs : List Context) : (absRev all rcs).length = rcs.length := by
  induction rcs with
  | nil => rfl
  | cons c t ih => simp [absRev, ih]

theorem abs_length (s : VariableSet) : (abs s).length = s.contexts.length := by
  simp [abs, absRev_length]

theorem abs_kinds (s : VariableSet) : (abs s).map (·.kind) = s.contexts.reverse := by
  unfold abs
  generalize s.contexts.reverse = rcs
  induction rcs with
  | nil => rfl
  | cons c t ih => simp [absRev, ih]

/-- frame rule: changing the stack of one name changes one column -/
theorem abs_setStack {s : VariableSet} (hN : Norm s) (n : Name) (st' : List VIC) (Y : SSet)
    (hd : Dec s.contexts.length st'.reverse)
    (hY : ∀ m, col Y m = if m = n then dense s.contexts.reverse st'.reverse else col (abs s) m) :
    abs (s.setStack n st') = Y := by
  have hN' : Norm (s.setStack n st') := by
    apply norm_of_dec
    · intro m
      simp only [VariableSet.setStack]
      split
      · exact hd
      · exact hN.dec m
    · exact hN.base
  apply sset_ext
  intro m
  rw [col_abs hN', hY m]
  simp only [VariableSet.setStack]
  split
  · rfl
  · rw [col_abs hN]

end YashModel.Variable
