/-
  C16 — Impl model: transcription of `yash-env/src/variable.rs` (`VariableSet`) and of
  `yash-env/src/variable/main.rs` (`Variable`, `VariableRefMut::{assign, export, make_read_only}`).

  Data layout as in the Rust code: one stack per *name* (`all_variables: HashMap<String,
  Vec<VariableInContext>>`, bottom first, ascending context index) plus the context stack
  (`contexts: Vec<Context>`, bottom first).  The `HashMap` is a function `Name → List VIC`
  (an absent key and a key with an empty `Vec` are indistinguishable through the public API:
  `get` uses `last()?`, `iter`/`env_c_strings` skip empty stacks); whoever iterates supplies the
  finite list of names to visit (the driver passes every name a case mentions), the order being
  unspecified in Rust (the harness sorts).  `Location`s are numbers (the location `Variable::expand`
  reads is `Loc` below).  `Quirk` (extension round): the `quirk` field, `set_quirk`, `init` and
  `Variable::expand` are modelled at the end of this file and in `Init.lean`.

  A `&mut self` method becomes a function returning the new set; the RAII guard of
  `push_context` becomes `pushContext … popContext`.  Import-free, executable.
-/
namespace YashModel.Variable

abbrev Name := String

/-- `variable/value.rs` `Value` -/
inductive Value where
  | scalar (s : String)
  | array (vs : List String)
  deriving DecidableEq, Repr, Inhabited

/-- `variable/quirk.rs` `Quirk` -/
inductive Quirk where
  | lineNumber
  deriving DecidableEq, Repr, Inhabited

/-- `variable/main.rs` `Variable`; locations are numbers -/
structure Variable where
  value : Option Value := none
  lastAssigned : Option Nat := none
  exported : Bool := false
  readOnly : Option Nat := none
  quirk : Option Quirk := none
  deriving DecidableEq, Repr, Inhabited

/-- `Variable::is_read_only` -/
def Variable.isReadOnly (v : Variable) : Bool := v.readOnly.isSome

/-- `VariableInContext` -/
structure VIC where
  var : Variable
  ctx : Nat
  deriving DecidableEq, Repr

/-- `Context` -/
inductive Context where
  | regular (params : List String)
  | volatile
  deriving DecidableEq, Repr, Inhabited

def Context.isRegular : Context → Bool
  | .regular _ => true
  | .volatile => false

/-- `Scope` -/
inductive Scope where
  | global | loc | volatile
  deriving DecidableEq, Repr

/-- `VariableSet` -/
structure VariableSet where
  all : Name → List VIC
  contexts : List Context

/-- `VariableSet::default` -/
def VariableSet.new : VariableSet := { all := fun _ => [], contexts := [.regular []] }

/-- replace the stack of one name (`HashMap` entry update) -/
def VariableSet.setStack (s : VariableSet) (n : Name) (st : List VIC) : VariableSet :=
  { s with all := fun m => if m = n then st else s.all m }

/-- `VariableSet::get`: `all_variables.get(name)?.last()?.variable` -/
def VariableSet.get (s : VariableSet) (n : Name) : Option Variable :=
  (s.all n).getLast?.map (·.var)

/-- `Iterator::rposition` -/
def rposition {α} (p : α → Bool) (l : List α) : Option Nat :=
  (l.reverse.findIdx? p).map (fun j => l.length - 1 - j)

/-- `index_of_topmost_regular_context` (`.expect`: the base context is regular; 0 otherwise) -/
def topRegular (cs : List Context) : Nat := (rposition Context.isRegular cs).getD 0

/-- `index_of_context` -/
def indexOfContext (scope : Scope) (cs : List Context) : Nat :=
  match scope with
  | .global => 0
  | .loc => topRegular cs
  | .volatile => topRegular cs + 1

/-- `VariableSet::get_scoped` -/
def VariableSet.getScoped (s : VariableSet) (n : Name) (scope : Scope) : Option Variable :=
  ((s.all n).getLast?.filter (fun v => decide (indexOfContext scope s.contexts ≤ v.ctx))).map (·.var)

/-- `matches!(self.contexts[i], Context::Volatile)`; an out-of-range index (a panic in Rust) cannot
    occur on a normalised set and counts as "not volatile" here -/
def isVolatileAt (cs : List Context) (i : Nat) : Bool := cs[i]? == some Context.volatile

/-- The `while let Some(var) = stack.last_mut()` loop of `get_or_new_impl` for `Global | Local`,
    on the stack read from its end (`rst` = the `Vec` reversed; result reversed likewise).
    `removed` is `removed_volatile_variable` (`get_or_insert` keeps the first one popped). -/
def lowerLoop (cs : List Context) (target : Nat) : List VIC → Option Variable → List VIC
  | [], removed => [⟨removed.getD {}, target⟩]
  | v :: rest, removed =>
    if v.ctx < target then ⟨removed.getD {}, target⟩ :: v :: rest
    else if isVolatileAt cs v.ctx then lowerLoop cs target rest (some (removed.getD v.var))
    else ⟨removed.getD v.var, v.ctx⟩ :: rest

/-- the `Scope::Volatile` branch of `get_or_new_impl` (after the `assert_eq!`), stack reversed -/
def volatileBranch (ci : Nat) : List VIC → List VIC
  | [] => [⟨{}, ci⟩]
  | v :: rest => if v.ctx ≠ ci then ⟨v.var, ci⟩ :: v :: rest else v :: rest

/-- `VariableSet::get_or_new_impl`; `none` = the documented panic "no volatile context to store
    the variable" -/
def VariableSet.getOrNew (s : VariableSet) (n : Name) (scope : Scope) : Option VariableSet :=
  let rst := (s.all n).reverse
  match scope with
  | .global => some (s.setStack n (lowerLoop s.contexts 0 rst none).reverse)
  | .loc => some (s.setStack n (lowerLoop s.contexts (topRegular s.contexts) rst none).reverse)
  | .volatile =>
    let ci := s.contexts.length - 1
    if isVolatileAt s.contexts ci then some (s.setStack n (volatileBranch ci rst).reverse)
    else none

/-- apply `f` through the `VariableRefMut` that `get_or_new` returned (`stack.last_mut()`) -/
def modifyHead (f : Variable → Variable) : List VIC → List VIC
  | [] => []
  | v :: rest => ⟨f v.var, v.ctx⟩ :: rest

def VariableSet.modifyLast (s : VariableSet) (n : Name) (f : Variable → Variable) : VariableSet :=
  s.setStack n (modifyHead f (s.all n).reverse).reverse

/-- `VariableRefMut::assign_impl`, the new variable -/
def Variable.assign (v : Variable) (val : Value) (loc : Option Nat) : Variable :=
  if v.isReadOnly then v else { v with value := some val, lastAssigned := loc }

/-- `VariableRefMut::export` -/
def Variable.setExport (v : Variable) (b : Bool) : Variable := { v with exported := b }

/-- `VariableRefMut::make_read_only` (`get_or_insert`: the first location stays) -/
def Variable.makeReadOnly (v : Variable) (loc : Nat) : Variable :=
  { v with readOnly := some (v.readOnly.getD loc) }

/-- `VariableRefMut::set_quirk` (overwrites any existing quirk) -/
def Variable.setQuirk (v : Variable) (q : Option Quirk) : Variable := { v with quirk := q }

/-- `slice::partition_point` on a slice partitioned by `p` -/
def partitionPoint {α} (p : α → Bool) (l : List α) : Nat := (l.takeWhile p).length

inductive UnsetResult where
  | ok (old : Option Variable)
  | readOnly (loc : Nat)
  deriving DecidableEq, Repr

/-- `VariableSet::unset` -/
def VariableSet.unset (s : VariableSet) (n : Name) (scope : Scope) : VariableSet × UnsetResult :=
  let stack := s.all n
  let index := indexOfContext scope s.contexts
  let index := partitionPoint (fun vic => decide (vic.ctx < index)) stack
  -- `stack[index..].iter().rposition(is_read_only)` and then `stack[index + position]`:
  -- the last read-only element of the slice
  match (stack.drop index).reverse.find? (fun vic => vic.var.isReadOnly) with
  | some vic => (s, .readOnly (vic.var.readOnly.getD 0))
  | none => (s.setStack n (stack.take index), .ok ((stack.drop index).getLast?.map (·.var)))

/-- `VariableSet::iter` over the given keys -/
def VariableSet.iter (s : VariableSet) (scope : Scope) (names : List Name) : List (Name × Variable) :=
  names.filterMap fun n =>
    match (s.all n).getLast? with
    | some v => if indexOfContext scope s.contexts ≤ v.ctx then some (n, v.var) else none
    | none => none

def joinColon : List String → String
  | [] => ""
  | [a] => a
  | a :: t => a ++ ":" ++ joinColon t

def hasNul (s : String) : Bool := s.toList.any (· == Char.ofNat 0)

/-- one element of `env_c_strings`: `name=value` (as a pair) for an exported variable with a value,
    skipping names containing `=` and strings containing NUL (`CString::new` fails) -/
def envEntry (n : Name) (v : Variable) : Option (Name × String) :=
  if !v.exported || n.toList.any (· == '=') then none else
  match v.value with
  | none => none
  | some (.scalar x) => if hasNul n || hasNul x then none else some (n, x)
  | some (.array xs) =>
    let x := joinColon xs
    if hasNul n || hasNul x then none else some (n, x)

/-- `VariableSet::env_c_strings` over the given keys -/
def VariableSet.env (s : VariableSet) (names : List Name) : List (Name × String) :=
  names.filterMap fun n => (s.get n).bind (envEntry n)

/-- `VariableSet::positional_params`: `contexts.iter().rev().find_map(..)` (`.expect` → `[]`) -/
def VariableSet.positionalParams (s : VariableSet) : List String :=
  (s.contexts.reverse.findSome? fun c => match c with
    | .regular ps => some ps
    | .volatile => none).getD []

/-- `contexts.iter_mut().rev().find_map(..)` followed by an assignment through the reference:
    replace the first regular context of the reversed stack -/
def setFirstRegular (ps : List String) : List Context → List Context
  | [] => []
  | c :: t => if c.isRegular then .regular ps :: t else c :: setFirstRegular ps t

/-- `positional_params_mut().values = …` (the topmost regular context) -/
def VariableSet.setPositionalParams (s : VariableSet) (ps : List String) : VariableSet :=
  { s with contexts := (setFirstRegular ps s.contexts.reverse).reverse }

/-- `push_context_impl` -/
def VariableSet.pushContext (s : VariableSet) (c : Context) : VariableSet :=
  { s with contexts := s.contexts ++ [c] }

/-- `stack.pop_if(|vic| vic.context_index >= len)` -/
def popIf (len : Nat) (st : List VIC) : List VIC :=
  match st.getLast? with
  | some v => if len ≤ v.ctx then st.dropLast else st
  | none => st

/-- `pop_context_impl` (`assert_ne!(len, 1)`: popping the base context is a panic in Rust and is
    not reachable through the guards; here it leaves the set unchanged) -/
def VariableSet.popContext (s : VariableSet) : VariableSet :=
  if s.contexts.length ≤ 1 then s else
  { all := fun n => popIf (s.contexts.length - 1) (s.all n), contexts := s.contexts.dropLast }

/-! ### operations of a history -/

inductive Op where
  | push (c : Context)
  | pop
  | getOrNew (n : Name) (scope : Scope)
  | assign (n : Name) (scope : Scope) (v : Value) (loc : Option Nat)
  | export (n : Name) (scope : Scope) (b : Bool)
  | readonly (n : Name) (scope : Scope) (loc : Nat)
  | unset (n : Name) (scope : Scope)
  | setParams (ps : List String)
  | quirk (n : Name) (scope : Scope) (q : Option Quirk)
  deriving Repr

inductive Res where
  | done
  | noVolatile
  | assigned (old : Option Value) (oldLoc : Option Nat)
  | readOnly (loc : Nat)
  | unset (old : Option Variable)
  deriving DecidableEq, Repr

/-- result of `VariableRefMut::assign` on the variable `get_or_new` returned -/
def assignRes (v : Variable) : Res :=
  match v.readOnly with
  | some l => .readOnly l
  | none => .assigned v.value v.lastAssigned

def VariableSet.step (s : VariableSet) : Op → VariableSet × Res
  | .push c => (s.pushContext c, .done)
  | .pop => (s.popContext, .done)
  | .getOrNew n sc =>
    match s.getOrNew n sc with
    | none => (s, .noVolatile)
    | some s1 => (s1, .done)
  | .assign n sc v loc =>
    match s.getOrNew n sc with
    | none => (s, .noVolatile)
    | some s1 => (s1.modifyLast n (·.assign v loc), assignRes ((s1.get n).getD {}))
  | .export n sc b =>
    match s.getOrNew n sc with
    | none => (s, .noVolatile)
    | some s1 => (s1.modifyLast n (·.setExport b), .done)
  | .readonly n sc loc =>
    match s.getOrNew n sc with
    | none => (s, .noVolatile)
    | some s1 => (s1.modifyLast n (·.makeReadOnly loc), .done)
  | .unset n sc =>
    match s.unset n sc with
    | (s1, .ok old) => (s1, .unset old)
    | (s1, .readOnly l) => (s1, .readOnly l)
  | .setParams ps => (s.setPositionalParams ps, .done)
  | .quirk n sc q =>
    match s.getOrNew n sc with
    | none => (s, .noVolatile)
    | some s1 => (s1.modifyLast n (·.setQuirk q), .done)

/-- `VariableSet::get_scalar`: the value of a scalar variable (`None` for unset values and arrays) -/
def scalarOf : Option Variable → Option String
  | some { value := some (.scalar x), .. } => some x
  | _ => none

def VariableSet.getScalar (s : VariableSet) (n : Name) : Option String := scalarOf (s.get n)

/-- one round of the loop of `VariableSet::extend_env`: `get_or_new(name, Global)`, `assign`, and
    `export(true)` only if the assignment was not refused (the second `get_or_new` hidden in the
    `export` operation finds the same variable again) -/
def VariableSet.extendEnv1 (s : VariableSet) (n : Name) (v : String) : VariableSet :=
  match s.step (.assign n .global (.scalar v) none) with
  | (s1, .readOnly _) => s1
  | (s1, _) => (s1.step (.export n .global true)).1

/-- `VariableSet::extend_env` -/
def VariableSet.extendEnv (s : VariableSet) : List (Name × String) → VariableSet
  | [] => s
  | (n, v) :: t => (s.extendEnv1 n v).extendEnv t

def VariableSet.run (s : VariableSet) : List Op → VariableSet
  | [] => s
  | op :: ops => (s.step op).1.run ops

/-! ### quirks, `Variable::expand`, `VariableSet::init` (extension round) -/

/-- `source.rs` `Location`, reduced to what `quirk::expand` reads: the code's first line number and
    text, the character index `range.start`, and — when `code.source` is `Source::Alias` — the
    location of the word the alias replaced (`original`).  Every other `Source` variant is `none`. -/
inductive Loc where
  | plain (startLine : Nat) (text : String) (start : Nat)
  | alias (startLine : Nat) (text : String) (start : Nat) (original : Loc)
  deriving Repr

/-- `Code::line_number`: `start_line_number` plus the number of newlines among the first
    `char_index` characters (`saturating_add` on `u64` is not modelled: numbers stay small) -/
def lineNumber (startLine : Nat) (text : String) (charIndex : Nat) : Nat :=
  startLine + ((text.toList.take charIndex).filter (· == '\n')).length

/-- `variable/quirk.rs` `Expansion` -/
inductive Expansion where
  | unset
  | scalar (s : String)
  | array (vs : List String)
  deriving DecidableEq, Repr

/-- `impl From<Option<&Value>> for Expansion` -/
def Expansion.ofValue : Option Value → Expansion
  | none => .unset
  | some (.scalar s) => .scalar s
  | some (.array vs) => .array vs

/-- `Expansion::len`: 0, the length of the scalar in bytes (`str::len`), the number of elements -/
def Expansion.len : Expansion → Nat
  | .unset => 0
  | .scalar s => s.utf8ByteSize
  | .array vs => vs.length

/-- `Expansion::is_empty` -/
def Expansion.isEmpty (e : Expansion) : Bool := e.len == 0

/-- `Expansion::split`: nothing, the scalar split at every `:`, the elements -/
def Expansion.split : Expansion → List String
  | .unset => []
  | .scalar s => s.splitOn ":"
  | .array vs => vs

/-- `Value::split` (value.rs): the scalar split at every `:`, the elements of an array -/
def Value.split : Value → List String
  | .scalar s => s.splitOn ":"
  | .array vs => vs

/-- the `while let Source::Alias { original, .. } = &*location.code.source` loop of `quirk::expand`
    followed by `location.code.line_number(location.range.start)` -/
def Loc.line : Loc → Nat
  | .plain startLine text start => lineNumber startLine text start
  | .alias _ _ _ original => original.line

/-- `variable/quirk.rs` `expand` (= `Variable::expand`): no quirk → the value; `LineNumber` → the
    line number of the location as a decimal string, whatever the value is -/
def Variable.expand (v : Variable) (loc : Loc) : Expansion :=
  match v.quirk with
  | none => Expansion.ofValue v.value
  | some .lineNumber => .scalar (toString loc.line)

/-- the operations of `VariableSet::init`: for every `(name, value)` of its `VARIABLES` table
    `get_or_new(name, Global).assign(value, None).ok()` (a refusal is ignored), then
    `get_or_new(LINENO, Global).set_quirk(Some(Quirk::LineNumber))` -/
def initOps (variables : List (Name × String)) (lineno : Name) : List Op :=
  variables.map (fun p => Op.assign p.1 .global (.scalar p.2) none) ++
    [Op.quirk lineno .global (some .lineNumber)]

end YashModel.Variable
