/-
  C16 — helper lemmas, part 2: every Spec operation on a name acts on that name's column only,
  and on a merged column it does what the Rust code does to the per-name stack.
-/
import YashModel.Variable.Lemmas
namespace YashModel.Variable

/-! ### lookup -/

def cLookup : Col → Option Variable
  | [] => none
  | (_, some v) :: _ => some v
  | (_, none) :: t => cLookup t

theorem lookup_col (X : SSet) (n : Name) : lookup X n = cLookup (col X n) := by
  induction X with
  | nil => rfl
  | cons c X ih => simp only [lookup, col_cons]; cases h : c.vars n <;> simp [cLookup, ih]

theorem col_take (X : SSet) (k : Nat) (n : Name) : col (X.take k) n = (col X n).take k := by
  simp [col, List.map_take]

theorem dec_zero {r : List VIC} (h : Dec 0 r) : r = [] := by
  cases r with
  | nil => rfl
  | cons v r => exact absurd h.1 (Nat.not_lt_zero _)

theorem cLookup_dense_take (rcs : List Context) (r : List VIC) (k : Nat) (h : Dec rcs.length r)
    (hk : k ≤ rcs.length) :
    cLookup ((dense rcs r).take k) = (r.head?.filter (fun v => decide (rcs.length - k ≤ v.ctx))).map (·.var) := by
  induction rcs generalizing r k with
  | nil => cases dec_zero h; simp [dense, cLookup]
  | cons c t ih =>
    cases k with
    | zero =>
      cases r with
      | nil => simp [cLookup]
      | cons v r' =>
        have := h.1
        simp only [List.length_cons] at this
        simp [cLookup, Option.filter]; omega
    | succ k =>
      simp only [List.length_cons, Nat.add_le_add_iff_right] at hk
      cases r with
      | nil => simpa [dense, cLookup] using ih [] k trivial hk
      | cons v r' =>
        simp only [List.length_cons, dec_cons] at h
        by_cases hv : v.ctx = t.length
        · simp [dense, hv, cLookup, Option.filter]
        · have hd : Dec t.length (v :: r') := ⟨by omega, h.2⟩
          have := ih (v :: r') k hd hk
          simp only [dense, if_neg hv, List.take_succ_cons, cLookup, this, List.length_cons]
          simp only [List.head?_cons, Option.filter]
          have e : t.length + 1 - (k + 1) = t.length - k := by omega
          simp only [e]

theorem cLookup_dense (rcs : List Context) (r : List VIC) (h : Dec rcs.length r) :
    cLookup (dense rcs r) = r.head?.map (·.var) := by
  have := cLookup_dense_take rcs r rcs.length h (Nat.le_refl _)
  rw [← dense_length rcs r, List.take_length] at this
  rw [this]
  cases r <;> simp [Option.filter]

/-! ### scopes -/

def volK : List Context → Nat
  | [] => 0
  | c :: t => if c.isRegular then 0 else volK t + 1

theorem volPrefix_eq (X : SSet) : volPrefix X = volK (X.map (·.kind)) := by
  induction X with
  | nil => rfl
  | cons c X ih => simp [volPrefix, volK, ih]

theorem volK_lt (rcs : List Context) (h : ∃ c ∈ rcs, c.isRegular = true) : volK rcs < rcs.length := by
  induction rcs with
  | nil => obtain ⟨c, hc, _⟩ := h; cases hc
  | cons c t ih =>
    simp only [volK]
    by_cases hc : c.isRegular = true
    · simp [hc]
    · simp only [hc, List.length_cons]
      obtain ⟨d, hd, hr⟩ := h
      have : d ∈ t := by
        cases hd with
        | head => exact absurd hr hc
        | tail _ h => exact h
      have := ih ⟨d, this, hr⟩
      simp; omega

theorem findIdx_volK (rcs : List Context) (h : volK rcs < rcs.length) :
    rcs.findIdx? Context.isRegular = some (volK rcs) := by
  induction rcs with
  | nil => simp at h
  | cons c t ih =>
    simp only [List.findIdx?_cons, volK]
    by_cases hc : c.isRegular = true
    · simp [hc]
    · simp only [hc, volK, List.length_cons] at h ⊢
      have := ih (by simpa using h)
      simp [this]

theorem Norm.volK_lt {s : VariableSet} (h : Norm s) : volK s.contexts.reverse < s.contexts.length := by
  have := Variable.volK_lt s.contexts.reverse (by
    obtain ⟨ps, t, ht⟩ := h.base
    exact ⟨.regular ps, by simp [ht], rfl⟩)
  simpa using this

theorem topRegular_eq {s : VariableSet} (h : Norm s) :
    topRegular s.contexts = s.contexts.length - 1 - volK s.contexts.reverse := by
  have hl := h.volK_lt
  unfold topRegular rposition
  rw [findIdx_volK _ (by simpa using hl)]
  simp

theorem volPrefix_abs (s : VariableSet) : volPrefix (abs s) = volK s.contexts.reverse := by
  rw [volPrefix_eq, abs_kinds]

/-- a scope as a context index (Rust) and as a number of contexts from the top (Spec) -/
theorem index_depth {s : VariableSet} (h : Norm s) (scope : Scope) :
    scopeDepth scope (abs s) ≤ s.contexts.length ∧
    indexOfContext scope s.contexts = s.contexts.length - scopeDepth scope (abs s) := by
  have hl := h.volK_lt
  have ht := topRegular_eq h
  cases scope <;> simp only [scopeDepth, indexOfContext, abs_length, volPrefix_abs] <;> omega

/-! ### get_or_new, Global and Local -/

def cLower (toBase : Bool) : Col → Option Variable → Col
  | [], _ => []
  | (k, o) :: t, carried =>
    if k.isRegular then
      match o with
      | some v => (k, some (carried.getD v)) :: t
      | none =>
        if !toBase || t.isEmpty then (k, some (carried.getD {})) :: t
        else (k, none) :: cLower toBase t carried
    else
      match o with
      | some v => (k, none) :: cLower toBase t (some (carried.getD v))
      | none => (k, none) :: cLower toBase t carried

theorem col_set (c : SCtx) (n m : Name) (v : Option Variable) :
    (c.set n v).vars m = if m = n then v else c.vars m := rfl

theorem lower_col (n : Name) (tb : Bool) (X : SSet) (carried : Option Variable) (m : Name) :
    col (lower n tb X carried) m = if m = n then cLower tb (col X n) carried else col X m := by
  induction X generalizing carried with
  | nil => simp [lower, cLower]
  | cons c X ih =>
    have hemp : (col X n).isEmpty = X.isEmpty := by cases X <;> rfl
    by_cases hm : m = n
    · subst hm
      simp only [lower, col_cons, cLower, if_true]
      by_cases hr : c.kind.isRegular = true <;> cases hv : c.vars m <;>
        simp [hr, hv, hemp, SCtx.set, ih] <;> split <;> simp_all
    · simp only [lower, col_cons, if_neg hm]
      by_cases hr : c.kind.isRegular = true <;> cases hv : c.vars n <;>
        simp [hr, hv, SCtx.set, hm, ih] <;> split <;> simp_all

@[simp] theorem dense_isEmpty (t : List Context) (r : List VIC) : (dense t r).isEmpty = t.isEmpty := by
  cases t with
  | nil => rfl
  | cons c t => cases r <;> simp [dense] <;> split <;> simp

theorem lowerLoop_dec (cs : List Context) (target k : Nat) (r : List VIC) (carried : Option Variable)
    (h : Dec k r) (ht : target < k) : Dec k (lowerLoop cs target r carried) := by
  induction r generalizing carried k with
  | nil => simp [lowerLoop, ht]
  | cons v r ih =>
    simp only [lowerLoop]
    split
    · simp_all
    · split
      · exact ih _ _ (dec_mono h.2 (Nat.le_of_lt h.1)) ht
      · exact h

theorem isVolatileAt_append (t : List Context) (c : Context) (pre : List Context) :
    isVolatileAt (t.reverse ++ c :: pre) t.length = !c.isRegular := by
  unfold isVolatileAt
  rw [List.getElem?_append_right (by simp)]
  cases c <;> simp [Context.isRegular]

/-- the walk of `get_or_new(Global | Local)` down the per-name stack is the documented walk down
    the contexts -/
theorem cLower_dense (cs : List Context) (tb : Bool) (target : Nat) (rcs : List Context) (r : List VIC)
    (carried : Option Variable) (pre : List Context) (hcs : cs = rcs.reverse ++ pre)
    (hd : Dec rcs.length r)
    (htb : tb = true → target = 0 ∧ ∀ c, rcs.getLast? = some c → c.isRegular = true)
    (hloc : tb = false → target + volK rcs + 1 = rcs.length) :
    cLower tb (dense rcs r) carried = dense rcs (lowerLoop cs target r carried) := by
  induction rcs generalizing r carried pre with
  | nil =>
    cases dec_zero hd
    simp [dense, cLower]
  | cons c t ih =>
    have hcs' : cs = t.reverse ++ (c :: pre) := by simp [hcs]
    have hvol : isVolatileAt cs t.length = !c.isRegular := by rw [hcs']; exact isVolatileAt_append t c pre
    -- facts about the target
    have htgt_le : target ≤ t.length := by
      cases tb with
      | true => have := (htb rfl).1; omega
      | false => have := hloc rfl; simp only [List.length_cons] at this; omega
    have htgt_reg : c.isRegular = true → tb = false → target = t.length := by
      intro hc hb; have := hloc hb; simp only [volK, hc, List.length_cons, if_true] at this; omega
    have htgt_vol : c.isRegular = false → target < t.length := by
      intro hc
      cases tb with
      | true =>
        have h0 := (htb rfl).1
        cases t with
        | nil => have := (htb rfl).2 c (by simp); simp_all
        | cons d t => simp; omega
      | false => have := hloc rfl; simp only [volK, hc, List.length_cons] at this; simp at this; omega
    have ih' : ∀ (r : List VIC) (carried : Option Variable), Dec t.length r → (c.isRegular = true → tb = true ∧ t ≠ []) →
        cLower tb (dense t r) carried = dense t (lowerLoop cs target r carried) := by
      intro r carried hr hreg
      apply ih r carried (c :: pre) hcs' hr
      · intro hb
        refine ⟨(htb hb).1, ?_⟩
        intro d hd
        apply (htb hb).2 d
        cases t with
        | nil => simp at hd
        | cons e t => simpa using hd
      · intro hb
        have := hloc hb
        by_cases hc : c.isRegular = true
        · have := (hreg hc).1; simp_all
        · simp only [volK, hc, List.length_cons] at this; simp at this; omega
    cases r with
    | nil =>
      by_cases hc : c.isRegular = true
      · by_cases hstop : (!tb || t.isEmpty) = true
        · have ht : target = t.length := by
            cases tb with
            | false => exact htgt_reg hc rfl
            | true =>
              simp at hstop
              have := (htb rfl).1; simp [hstop, this]
          simp only [dense, cLower, hc, if_true, dense_isEmpty, hstop, lowerLoop, ht]
        · have hb : tb = true := by cases tb <;> simp_all
          have hne : t ≠ [] := by intro e; simp [e] at hstop
          have ht0 : target = 0 := (htb hb).1
          have hlen : 0 < t.length := List.length_pos_iff.mpr hne
          have hneq : ¬ target = t.length := by omega
          have := ih' [] carried trivial (fun _ => ⟨hb, hne⟩)
          simp only [lowerLoop] at this
          simp only [dense, cLower, hc, if_true, dense_isEmpty, if_neg hstop, lowerLoop, this, if_neg hneq]
      · have hc' : c.isRegular = false := by simpa using hc
        have hlt := htgt_vol hc'
        have hneq : ¬ target = t.length := by omega
        have := ih' [] carried trivial (fun h => absurd h hc)
        simp only [lowerLoop] at this
        simp only [dense, cLower, hc', lowerLoop, this, if_neg hneq]
        simp
    | cons v r' =>
      simp only [List.length_cons, dec_cons] at hd
      by_cases hv : v.ctx = t.length
      · have hnlt : ¬ v.ctx < target := by omega
        by_cases hc : c.isRegular = true
        · have hnv : isVolatileAt cs v.ctx = false := by rw [hv, hvol]; simp [hc]
          simp only [dense, hv, if_true, cLower, hc, lowerLoop]
          rw [← hv]
          simp only [if_neg hnlt, hnv]
          simp [dense, hv]
        · have hc' : c.isRegular = false := by simpa using hc
          have hlt := htgt_vol hc'
          have hyv : isVolatileAt cs v.ctx = true := by rw [hv, hvol]; simp [hc']
          have hr' : Dec t.length r' := hv ▸ hd.2
          have := ih' r' (some (carried.getD v.var)) hr' (fun h => absurd h hc)
          simp only [dense, hv, if_true, cLower, hc', lowerLoop, this]
          rw [← hv]
          simp only [if_neg hnlt, hyv, if_true]
          rw [dense_of_dec c t _ (lowerLoop_dec cs target t.length r' _ hr' hlt)]
          simp
      · have hvlt : v.ctx < t.length := by omega
        have hr : Dec t.length (v :: r') := ⟨hvlt, hd.2⟩
        by_cases hc : c.isRegular = true
        · by_cases hstop : (!tb || t.isEmpty) = true
          · have hb : tb = false := by
              cases tb with
              | false => rfl
              | true => simp at hstop; simp [hstop] at hvlt
            have ht := htgt_reg hc hb
            have hlt' : v.ctx < target := by omega
            simp only [dense, if_neg hv, cLower, hc, if_true, dense_isEmpty, hstop, lowerLoop, if_pos hlt']
            simp [dense, ht, hv]
          · have hb : tb = true := by cases tb <;> simp_all
            have hne : t ≠ [] := by intro e; simp [e] at hstop
            have ht0 : target = 0 := (htb hb).1
            have := ih' (v :: r') carried hr (fun _ => ⟨hb, hne⟩)
            simp only [dense, if_neg hv, cLower, hc, if_true, dense_isEmpty, if_neg hstop, this]
            rw [dense_of_dec c t _ (lowerLoop_dec cs target t.length _ _ hr (by omega))]
        · have hc' : c.isRegular = false := by simpa using hc
          have hlt := htgt_vol hc'
          have := ih' (v :: r') carried hr (fun h => absurd h hc)
          simp only [dense, if_neg hv, cLower, hc', this]
          rw [dense_of_dec c t _ (lowerLoop_dec cs target t.length _ _ hr hlt)]
          simp

end YashModel.Variable
