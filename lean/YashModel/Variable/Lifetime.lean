/-
  C16 — helper lemmas, part 8: lifetime of temporary assignments, locals and positional parameters
  (commands compiled by `Exec.lean`), proved on the Spec and carried to the Rust model by refinement.
-/
import YashModel.Variable.RoSteps
import YashModel.Variable.Exec
import YashModel.Variable.Script
namespace YashModel.Variable

theorem SSet.run_append (X : SSet) (a b : List Op) : SSet.run X (a ++ b) = SSet.run (SSet.run X a) b := by
  induction a generalizing X with
  | nil => rfl
  | cons op a ih => simp only [List.cons_append, SSet.run, ih]

theorem run_abs_from {s : VariableSet} (h : Norm s) (ops : List Op) :
    abs (s.run ops) = SSet.run (abs s) ops ∧ Norm (s.run ops) := by
  induction ops generalizing s with
  | nil => exact ⟨rfl, h⟩
  | cons op ops ih =>
    simp only [VariableSet.run, SSet.run]
    rw [← (step_abs h op).1]
    exact ih (step_abs h op).2.2

/-! ### operations that only touch the top context -/

/-- what happens inside a volatile context set up for a command: `Volatile`-scope accesses -/
def isTopVolOp : Op → Bool
  | .getOrNew _ .volatile | .assign _ .volatile _ _ | .export _ .volatile _ | .readonly _ .volatile _
  | .quirk _ .volatile _ => true
  | _ => false

/-- what `typeset` (local), `unset` of a local and `set --` do inside a function: `Local`-scope
    accesses and the positional parameters -/
def isTopRegOp : Op → Bool
  | .getOrNew _ .loc | .assign _ .loc _ _ | .export _ .loc _ | .readonly _ .loc _ | .unset _ .loc
  | .setParams _ | .quirk _ .loc _ => true
  | _ => false

theorem getOrNew_vol_top (c : SCtx) (t : SSet) (n : Name) (hc : c.kind.isRegular = false) :
    ∃ c' v, SSet.getOrNew (c :: t) n .volatile = some (c' :: t) ∧ c'.kind = c.kind ∧ c'.vars n = some v := by
  simp only [SSet.getOrNew, hc]
  cases hv : c.vars n with
  | some v => exact ⟨c, v, by simp, rfl, hv⟩
  | none => exact ⟨c.set n (some ((lookup t n).getD {})), (lookup t n).getD {}, by simp, rfl, by simp [SCtx.set]⟩

theorem modifyVisible_top (c : SCtx) (t : SSet) (n : Name) (f : Variable → Variable) (v : Variable)
    (hv : c.vars n = some v) : modifyVisible n f (c :: t) = c.set n (some (f v)) :: t := by
  simp [modifyVisible, hv]

theorem step_topVol (c : SCtx) (t : SSet) (hc : c.kind.isRegular = false) (op : Op) (h : isTopVolOp op = true) :
    ∃ c', (SSet.step (c :: t) op).1 = c' :: t ∧ c'.kind.isRegular = false := by
  cases op with
  | getOrNew n sc =>
    cases sc <;> simp [isTopVolOp] at h
    obtain ⟨c', v, hg, hk, _⟩ := getOrNew_vol_top c t n hc
    exact ⟨c', by simp [SSet.step, hg], by rw [hk]; exact hc⟩
  | assign n sc v loc =>
    cases sc <;> simp [isTopVolOp] at h
    obtain ⟨c', w, hg, hk, hw⟩ := getOrNew_vol_top c t n hc
    exact ⟨c'.set n (some (w.assign v loc)), by simp only [SSet.step, hg, modifyVisible_top c' t n _ w hw], by show c'.kind.isRegular = _; rw [hk, hc]⟩
  | «export» n sc b =>
    cases sc <;> simp [isTopVolOp] at h
    obtain ⟨c', w, hg, hk, hw⟩ := getOrNew_vol_top c t n hc
    exact ⟨c'.set n (some (w.setExport b)), by simp only [SSet.step, hg, modifyVisible_top c' t n _ w hw], by show c'.kind.isRegular = _; rw [hk, hc]⟩
  | readonly n sc loc =>
    cases sc <;> simp [isTopVolOp] at h
    obtain ⟨c', w, hg, hk, hw⟩ := getOrNew_vol_top c t n hc
    exact ⟨c'.set n (some (w.makeReadOnly loc)), by simp only [SSet.step, hg, modifyVisible_top c' t n _ w hw], by show c'.kind.isRegular = _; rw [hk, hc]⟩
  | quirk n sc q =>
    cases sc <;> simp [isTopVolOp] at h
    obtain ⟨c', w, hg, hk, hw⟩ := getOrNew_vol_top c t n hc
    exact ⟨c'.set n (some (w.setQuirk q)), by simp only [SSet.step, hg, modifyVisible_top c' t n _ w hw], by show c'.kind.isRegular = _; rw [hk, hc]⟩
  | push _ => simp [isTopVolOp] at h
  | pop => simp [isTopVolOp] at h
  | unset _ _ => simp [isTopVolOp] at h
  | setParams _ => simp [isTopVolOp] at h

theorem run_topVol (c : SCtx) (t : SSet) (hc : c.kind.isRegular = false) (ops : List Op)
    (h : ∀ op ∈ ops, isTopVolOp op = true) :
    ∃ c', SSet.run (c :: t) ops = c' :: t ∧ c'.kind.isRegular = false := by
  induction ops generalizing c with
  | nil => exact ⟨c, rfl, hc⟩
  | cons op ops ih =>
    obtain ⟨c1, h1, hk1⟩ := step_topVol c t hc op (h op (by simp))
    simp only [SSet.run, h1]
    exact ih c1 hk1 (fun o ho => h o (by simp [ho]))

theorem getOrNew_loc_top (c : SCtx) (t : SSet) (n : Name) (hc : c.kind.isRegular = true) :
    ∃ c' v, SSet.getOrNew (c :: t) n .loc = some (c' :: t) ∧ c'.kind = c.kind ∧ c'.vars n = some v := by
  simp only [SSet.getOrNew, lower, hc, if_true]
  cases hv : c.vars n with
  | some v => exact ⟨c.set n (some v), v, by simp, rfl, by simp [SCtx.set]⟩
  | none => exact ⟨c.set n (some {}), {}, by simp, rfl, by simp [SCtx.set]⟩

theorem step_topReg (c : SCtx) (t : SSet) (hc : c.kind.isRegular = true) (op : Op) (h : isTopRegOp op = true) :
    ∃ c', (SSet.step (c :: t) op).1 = c' :: t ∧ c'.kind.isRegular = true := by
  cases op with
  | getOrNew n sc =>
    cases sc <;> simp [isTopRegOp] at h
    obtain ⟨c', v, hg, hk, _⟩ := getOrNew_loc_top c t n hc
    exact ⟨c', by simp [SSet.step, hg], by rw [hk]; exact hc⟩
  | assign n sc v loc =>
    cases sc <;> simp [isTopRegOp] at h
    obtain ⟨c', w, hg, hk, hw⟩ := getOrNew_loc_top c t n hc
    exact ⟨c'.set n (some (w.assign v loc)), by simp only [SSet.step, hg, modifyVisible_top c' t n _ w hw], by show c'.kind.isRegular = _; rw [hk, hc]⟩
  | «export» n sc b =>
    cases sc <;> simp [isTopRegOp] at h
    obtain ⟨c', w, hg, hk, hw⟩ := getOrNew_loc_top c t n hc
    exact ⟨c'.set n (some (w.setExport b)), by simp only [SSet.step, hg, modifyVisible_top c' t n _ w hw], by show c'.kind.isRegular = _; rw [hk, hc]⟩
  | readonly n sc loc =>
    cases sc <;> simp [isTopRegOp] at h
    obtain ⟨c', w, hg, hk, hw⟩ := getOrNew_loc_top c t n hc
    exact ⟨c'.set n (some (w.makeReadOnly loc)), by simp only [SSet.step, hg, modifyVisible_top c' t n _ w hw], by show c'.kind.isRegular = _; rw [hk, hc]⟩
  | quirk n sc q =>
    cases sc <;> simp [isTopRegOp] at h
    obtain ⟨c', w, hg, hk, hw⟩ := getOrNew_loc_top c t n hc
    exact ⟨c'.set n (some (w.setQuirk q)), by simp only [SSet.step, hg, modifyVisible_top c' t n _ w hw], by show c'.kind.isRegular = _; rw [hk, hc]⟩
  | unset n sc =>
    cases sc <;> simp [isTopRegOp] at h
    simp only [SSet.step, SSet.unset, scopeDepth, volPrefix, hc, if_true, Nat.zero_add, firstReadOnly]
    cases hv : c.vars n with
    | none => exact ⟨c.set n none, by simp [firstReadOnly, eraseTop], by simp [SCtx.set, hc]⟩
    | some v =>
      by_cases hro : v.isReadOnly = true
      · simp only [hro, if_true]
        unfold Variable.isReadOnly at hro
        cases hl : v.readOnly with
        | none => simp [hl] at hro
        | some l => exact ⟨c, by simp, hc⟩
      · simp only [hro]
        exact ⟨c.set n none, by simp [firstReadOnly, eraseTop], by simp [SCtx.set, hc]⟩
  | setParams ps => exact ⟨{ c with kind := .regular ps }, by simp [SSet.step, setParams, hc], rfl⟩
  | push _ => simp [isTopRegOp] at h
  | pop => simp [isTopRegOp] at h

theorem run_topReg (c : SCtx) (t : SSet) (hc : c.kind.isRegular = true) (ops : List Op)
    (h : ∀ op ∈ ops, isTopRegOp op = true) :
    ∃ c', SSet.run (c :: t) ops = c' :: t ∧ c'.kind.isRegular = true := by
  induction ops generalizing c with
  | nil => exact ⟨c, rfl, hc⟩
  | cons op ops ih =>
    obtain ⟨c1, h1, hk1⟩ := step_topReg c t hc op (h op (by simp))
    simp only [SSet.run, h1]
    exact ih c1 hk1 (fun o ho => h o (by simp [ho]))

theorem tempOps_topVol (as : List (Name × Value)) : ∀ op ∈ tempOps as, isTopVolOp op = true := by
  intro op hop
  simp only [tempOps, List.mem_flatMap] at hop
  obtain ⟨⟨n, v⟩, _, hm⟩ := hop
  simp at hm
  rcases hm with rfl | rfl <;> rfl

/-! ### commands on the Spec -/

theorem pop_cons (c : SCtx) (X : SSet) (h : X ≠ []) : SSet.pop (c :: X) = X := by
  cases X with
  | nil => exact absurd rfl h
  | cons b t => rfl

theorem spec_regularCmd (X : SSet) (hX : X ≠ []) (as : List (Name × Value)) (body : List Op)
    (hb : ∀ op ∈ body, isTopVolOp op = true) : SSet.run X (regularCmd as body) = X := by
  obtain ⟨c', h1, _⟩ := run_topVol ⟨.volatile, fun _ => none⟩ X rfl (tempOps as ++ body) (by
    intro op hop
    rcases List.mem_append.mp hop with h | h
    · exact tempOps_topVol as op h
    · exact hb op h)
  have : regularCmd as body = Op.push .volatile :: ((tempOps as ++ body) ++ [Op.pop]) := by
    simp [regularCmd]
  rw [this]
  simp only [SSet.run]
  rw [SSet.run_append]
  show SSet.run (SSet.run (⟨.volatile, fun _ => none⟩ :: X) (tempOps as ++ body)) [Op.pop] = X
  rw [h1]
  show SSet.pop (c' :: X) = X
  exact pop_cons _ _ hX

theorem spec_functionCmd (X : SSet) (hX : X ≠ []) (as : List (Name × Value)) (ps : List String)
    (body : List Op) (hb : ∀ op ∈ body, isTopRegOp op = true) :
    SSet.run X (functionCmd as ps body) = X := by
  obtain ⟨cV, h1, _⟩ := run_topVol ⟨.volatile, fun _ => none⟩ X rfl (tempOps as) (tempOps_topVol as)
  obtain ⟨cR, h2, _⟩ := run_topReg ⟨.regular ps, fun _ => none⟩ (cV :: X) rfl body hb
  have : functionCmd as ps body =
      Op.push .volatile :: (tempOps as ++ (Op.push (.regular ps) :: (body ++ [Op.pop, Op.pop]))) := by
    simp [functionCmd]
  rw [this]
  simp only [SSet.run]
  rw [SSet.run_append]
  show SSet.run (SSet.run (⟨.volatile, fun _ => none⟩ :: X) (tempOps as))
    (Op.push (.regular ps) :: (body ++ [Op.pop, Op.pop])) = X
  rw [h1]
  simp only [SSet.run]
  rw [SSet.run_append]
  show SSet.run (SSet.run (⟨.regular ps, fun _ => none⟩ :: cV :: X) body) [Op.pop, Op.pop] = X
  rw [h2]
  show SSet.pop (SSet.pop (cR :: cV :: X)) = X
  exact pop_cons _ _ hX

/-- the base context is regular -/
def BaseReg (X : SSet) : Prop := ∃ c, X.getLast? = some c ∧ c.kind.isRegular = true

theorem lookup_modifyVisible (n : Name) (f : Variable → Variable) (X : SSet) :
    lookup (modifyVisible n f X) n = (lookup X n).map f := by
  induction X with
  | nil => rfl
  | cons c X ih => cases hv : c.vars n <;> simp [modifyVisible, lookup, hv, ih, SCtx.set]

theorem lookup_lower_some (n : Name) (X : SSet) (hB : BaseReg X) (carried : Option Variable) :
    ∃ w, lookup (lower n true X carried) n = some w := by
  induction X generalizing carried with
  | nil => obtain ⟨c, hc, _⟩ := hB; simp at hc
  | cons c t ih =>
    have hBt : t ≠ [] → BaseReg t := by
      intro hne
      obtain ⟨d, hd, hr⟩ := hB
      cases t with
      | nil => exact absurd rfl hne
      | cons e u => exact ⟨d, by simpa [List.getLast?_cons_cons] using hd, hr⟩
    by_cases hc : c.kind.isRegular = true
    · cases hv : c.vars n with
      | some v => exact ⟨carried.getD v, by simp [lower, hc, hv, lookup, SCtx.set]⟩
      | none =>
        by_cases ht : t.isEmpty = true
        · exact ⟨carried.getD {}, by simp [lower, hc, hv, ht, lookup, SCtx.set]⟩
        · have hne : t ≠ [] := by intro e; simp [e] at ht
          obtain ⟨w, hw⟩ := ih (hBt hne) carried
          exact ⟨w, by simp [lower, hc, hv, ht, lookup, hw]⟩
    · have hne : t ≠ [] := by
        intro e; subst e
        obtain ⟨d, hd, hr⟩ := hB
        simp at hd; subst hd; exact hc hr
      cases hv : c.vars n with
      | some v =>
        obtain ⟨w, hw⟩ := ih (hBt hne) (some (carried.getD v))
        exact ⟨w, by simp [lower, hc, hv, lookup, hw, SCtx.set]⟩
      | none =>
        obtain ⟨w, hw⟩ := ih (hBt hne) carried
        exact ⟨w, by simp [lower, hc, hv, lookup, hw]⟩

theorem assign_value (w : Variable) (v : Value) (loc : Option Nat) :
    (w.assign v loc).isReadOnly = false → (w.assign v loc).value = some v := by
  unfold Variable.assign
  split
  · rename_i h; intro h'; rw [h] at h'; cases h'
  · intro _; rfl

/-- an assignment before a special built-in (or alone) is visible afterwards -/
theorem spec_special_persists (X : SSet) (hB : BaseReg X) (n : Name) (v : Value) (loc : Option Nat) :
    ∃ u, lookup (X.step (.assign n .global v loc)).1 n = some u ∧
      (u.isReadOnly = false → u.value = some v) := by
  obtain ⟨w, hw⟩ := lookup_lower_some n X hB none
  refine ⟨w.assign v loc, ?_, assign_value w v loc⟩
  simp [SSet.step, SSet.getOrNew, lookup_modifyVisible, hw]

/-- a global assignment inside a function body is visible after the function returns -/
theorem spec_function_global_persists (X : SSet) (hB : BaseReg X) (as : List (Name × Value))
    (ps : List String) (n : Name) (v : Value) (loc : Option Nat) :
    ∃ u, lookup (SSet.run X (functionCmd as ps [.assign n .global v loc])) n = some u ∧
      (u.isReadOnly = false → u.value = some v) := by
  obtain ⟨cV, h1, hk⟩ := run_topVol ⟨.volatile, fun _ => none⟩ X rfl (tempOps as) (tempOps_topVol as)
  have : functionCmd as ps [.assign n .global v loc] =
      Op.push .volatile :: (tempOps as ++ [Op.push (.regular ps), .assign n .global v loc, Op.pop, Op.pop]) := by
    simp [functionCmd]
  rw [this]
  simp only [SSet.run]
  rw [SSet.run_append]
  show ∃ u, lookup (SSet.run (SSet.run (⟨.volatile, fun _ => none⟩ :: X) (tempOps as))
    [Op.push (.regular ps), .assign n .global v loc, Op.pop, Op.pop]) n = some u ∧ _
  rw [h1]
  have hr : (Context.regular ps).isRegular = true := rfl
  -- the walk of `get_or_new(Global)` passes the function's context and empties the volatile one
  have hlow : ∃ cV2 carried, lower n true (⟨.regular ps, fun _ => none⟩ :: cV :: X) none
      = ⟨.regular ps, fun _ => none⟩ :: cV2 :: lower n true X carried ∧ cV2.vars n = none := by
    cases hv : cV.vars n with
    | some w => exact ⟨cV.set n none, some w, by simp [lower, hr, hk, hv], by simp [SCtx.set]⟩
    | none => exact ⟨cV, none, by simp [lower, hr, hk, hv], hv⟩
  obtain ⟨cV2, carried, hl, hn2⟩ := hlow
  obtain ⟨w, hw⟩ := lookup_lower_some n X hB carried
  have hY : lookup (modifyVisible n (·.assign v loc) (lower n true X carried)) n = some (w.assign v loc) := by
    rw [lookup_modifyVisible, hw]; rfl
  have hne : modifyVisible n (·.assign v loc) (lower n true X carried) ≠ [] := by
    intro e; rw [e] at hY; cases hY
  have hstep : (SSet.step (⟨.regular ps, fun _ => none⟩ :: cV :: X) (.assign n .global v loc)).1
      = ⟨.regular ps, fun _ => none⟩ :: cV2 :: modifyVisible n (·.assign v loc) (lower n true X carried) := by
    simp only [SSet.step, SSet.getOrNew, hl]
    simp [modifyVisible, hn2]
  refine ⟨w.assign v loc, ?_, assign_value w v loc⟩
  show lookup (SSet.pop (SSet.pop
    (SSet.step (⟨.regular ps, fun _ => none⟩ :: cV :: X) (.assign n .global v loc)).1)) n = _
  rw [hstep]
  show lookup (SSet.pop (cV2 :: modifyVisible n (·.assign v loc) (lower n true X carried))) n = _
  rw [pop_cons _ _ hne]
  exact hY

theorem baseReg_abs {s : VariableSet} (h : Norm s) : BaseReg (abs s) := by
  obtain ⟨ps, t, ht⟩ := h.base
  have hk := abs_kinds s
  have : ((abs s).map (·.kind)).getLast? = some (.regular ps) := by rw [hk, ht]; simp
  rw [List.getLast?_map] at this
  cases hl : (abs s).getLast? with
  | none => simp [hl] at this
  | some c =>
    simp only [hl, Option.map_some, Option.some.injEq] at this
    exact ⟨c, hl, by rw [this]; rfl⟩

theorem abs_ne_nil {s : VariableSet} (h : Norm s) : abs s ≠ [] := by
  intro e
  have := abs_length s
  rw [e] at this
  have := h.pos
  simp at *; omega

/-! ### the `typeset` option family never touches a read-only variable -/

/-- normalised and with the read-only invariant -/
def Good (s : VariableSet) : Prop := Norm s ∧ ShadowInv s

theorem step_good {s : VariableSet} (h : Good s) (op : Op) : Good (s.step op).1 :=
  ⟨(step_abs h.1 op).2.2, step_shadow h.1 h.2 op⟩

theorem runOps_keeps (ops : List Op) (s : VariableSet) (h : Good s) (hp : ∀ op ∈ ops, op ≠ Op.pop) :
    KeepsAll s (runOps ifaceM s ops).1 ∧ Good (runOps ifaceM s ops).1 := by
  induction ops generalizing s with
  | nil => exact ⟨keepsAll_refl s, h⟩
  | cons op t ih =>
    have hk := step_keeps h.1 h.2 op (hp op (by simp))
    have hg := step_good h op
    have hstep : ifaceM.step s op = s.step op := rfl
    simp only [runOps, hstep]
    cases hr : s.step op with
    | mk s' r =>
      rw [hr] at hk hg
      cases r with
      | readOnly l => exact ⟨hk, hg⟩
      | done => have := ih s' hg (fun o ho => hp o (by simp [ho])); exact ⟨keepsAll_trans hk this.1, this.2⟩
      | noVolatile => have := ih s' hg (fun o ho => hp o (by simp [ho])); exact ⟨keepsAll_trans hk this.1, this.2⟩
      | assigned a b => have := ih s' hg (fun o ho => hp o (by simp [ho])); exact ⟨keepsAll_trans hk this.1, this.2⟩
      | unset a => have := ih s' hg (fun o ho => hp o (by simp [ho])); exact ⟨keepsAll_trans hk this.1, this.2⟩

theorem applyAttrs_keeps (n : Name) (sc : Scope) (attrs : List String) (s : VariableSet) (h : Good s) :
    KeepsAll s (applyAttrs ifaceM n sc attrs s) ∧ Good (applyAttrs ifaceM n sc attrs s) := by
  induction attrs generalizing s with
  | nil => exact ⟨keepsAll_refl s, h⟩
  | cons a rest ih =>
    have hstep : ∀ op, ifaceM.step s op = s.step op := fun _ => rfl
    have one : ∀ op : Op, op ≠ Op.pop →
        KeepsAll s (applyAttrs ifaceM n sc rest (s.step op).1) ∧ Good (applyAttrs ifaceM n sc rest (s.step op).1) := by
      intro op hop
      have := ih (s.step op).1 (step_good h op)
      exact ⟨keepsAll_trans (step_keeps h.1 h.2 op hop) this.1, this.2⟩
    simp only [applyAttrs, hstep]
    split
    · exact one _ (by simp)
    · split
      · split
        · exact ⟨keepsAll_refl s, h⟩
        · exact ih s h
      · split
        · exact one _ (by simp)
        · split
          · exact one _ (by simp)
          · exact ih s h

theorem typesetField_keeps (sc : Scope) (attrs : List String) (s : VariableSet) (t : String) (h : Good s) :
    KeepsAll s (typesetField ifaceM sc attrs s t) ∧ Good (typesetField ifaceM sc attrs s t) := by
  have hops : ∀ op ∈ operandOps sc t, op ≠ Op.pop := by
    intro op hop
    unfold operandOps at hop
    split at hop <;> simp at hop <;> subst hop <;> simp
  have h1 := runOps_keeps (operandOps sc t) s h hops
  unfold typesetField
  cases hr : runOps ifaceM s (operandOps sc t) with
  | mk s1 b =>
    rw [hr] at h1
    cases b with
    | true => exact h1
    | false =>
      have h2 := applyAttrs_keeps (operandName t) sc attrs s1 h1.2
      exact ⟨keepsAll_trans h1.1 h2.1, h2.2⟩

end YashModel.Variable
