/-
  C16 — helper lemmas of the extension round: the frame rule for function calls with *arbitrary*
  bodies (on the Spec).  Whatever a function body does — accesses in any scope, nested contexts,
  `set --` — every variable whose name the body never names at `Global` scope is, in every context
  that existed before the call, what it was.  Property theorems are in `Theorems.lean`.
-/
import YashModel.Variable.Quirks
import YashModel.Variable.Builtins
namespace YashModel.Variable

/-! ### two stacks of maps that agree on a class of names -/

/-- same kinds (hence positional parameters) context by context, same variables for the names in `P` -/
def Agree (P : Name → Prop) : SSet → SSet → Prop
  | [], [] => True
  | c :: X, d :: Y => c.kind = d.kind ∧ (∀ n, P n → c.vars n = d.vars n) ∧ Agree P X Y
  | [], _ :: _ => False
  | _ :: _, [] => False

theorem agree_refl (P : Name → Prop) (X : SSet) : Agree P X X := by
  induction X with
  | nil => trivial
  | cons c X ih => exact ⟨rfl, fun _ _ => rfl, ih⟩

theorem agree_trans {P : Name → Prop} {X Y Z : SSet} (h1 : Agree P X Y) (h2 : Agree P Y Z) : Agree P X Z := by
  induction X generalizing Y Z with
  | nil => cases Y <;> cases Z <;> simp_all [Agree]
  | cons c X ih =>
    cases Y with
    | nil => exact h1.elim
    | cons d Y =>
      cases Z with
      | nil => exact h2.elim
      | cons e Z =>
        exact ⟨h1.1.trans h2.1, fun n hn => (h1.2.1 n hn).trans (h2.2.1 n hn), ih h1.2.2 h2.2.2⟩

theorem agree_mono {P Q : Name → Prop} (hpq : ∀ n, Q n → P n) {X Y : SSet} (h : Agree P X Y) : Agree Q X Y := by
  induction X generalizing Y with
  | nil => cases Y <;> simp_all [Agree]
  | cons c X ih =>
    cases Y with
    | nil => exact h.elim
    | cons d Y => exact ⟨h.1, fun n hn => h.2.1 n (hpq n hn), ih h.2.2⟩

theorem agree_append_split {P : Name → Prop} (T L : SSet) {Y : SSet} (h : Agree P (T ++ L) Y) :
    ∃ T' L', Y = T' ++ L' ∧ Agree P T T' ∧ Agree P L L' := by
  induction T generalizing Y with
  | nil => exact ⟨[], Y, rfl, trivial, h⟩
  | cons c T ih =>
    cases Y with
    | nil => exact h.elim
    | cons d Y =>
      obtain ⟨T', L', rfl, h1, h2⟩ := ih h.2.2
      exact ⟨d :: T', L', rfl, ⟨h.1, h.2.1, h1⟩, h2⟩

theorem agree_kinds {P : Name → Prop} {X Y : SSet} (h : Agree P X Y) : Y.map (·.kind) = X.map (·.kind) := by
  induction X generalizing Y with
  | nil => cases Y <;> simp_all [Agree]
  | cons c X ih =>
    cases Y with
    | nil => exact h.elim
    | cons d Y => simp only [List.map_cons, List.cons.injEq]; exact ⟨h.1.symm, ih h.2.2⟩

theorem agree_lookup {P : Name → Prop} {X Y : SSet} (h : Agree P X Y) (n : Name) (hn : P n) :
    lookup Y n = lookup X n := by
  induction X generalizing Y with
  | nil => cases Y <;> simp_all [Agree]
  | cons c X ih =>
    cases Y with
    | nil => exact h.elim
    | cons d Y => simp only [lookup, ← h.2.1 n hn, ih h.2.2]

theorem agree_take {P : Name → Prop} {X Y : SSet} (h : Agree P X Y) (k : Nat) : Agree P (X.take k) (Y.take k) := by
  induction X generalizing Y k with
  | nil => cases Y <;> simp_all [Agree]
  | cons c X ih =>
    cases Y with
    | nil => exact h.elim
    | cons d Y =>
      cases k with
      | zero => trivial
      | succ k => exact ⟨h.1, h.2.1, ih h.2.2 k⟩

theorem agree_pop {P : Name → Prop} {X Y : SSet} (h : Agree P X Y) : Agree P X.pop Y.pop := by
  cases X with
  | nil => cases Y <;> simp_all [Agree, SSet.pop]
  | cons c X =>
    cases Y with
    | nil => exact h.elim
    | cons d Y =>
      cases X with
      | nil => cases Y <;> simp_all [Agree, SSet.pop]
      | cons c2 X =>
        cases Y with
        | nil => exact h.2.2.elim
        | cons d2 Y => exact h.2.2

theorem volPrefix_kinds {X Y : SSet} (h : Y.map (·.kind) = X.map (·.kind)) : volPrefix Y = volPrefix X := by
  induction X generalizing Y with
  | nil => cases Y <;> simp_all
  | cons c X ih =>
    cases Y with
    | nil => simp at h
    | cons d Y =>
      simp only [List.map_cons, List.cons.injEq] at h
      simp only [volPrefix, h.1, ih h.2]

theorem scopeDepth_kinds {X Y : SSet} (h : Y.map (·.kind) = X.map (·.kind)) (sc : Scope) :
    scopeDepth sc Y = scopeDepth sc X := by
  have hl : Y.length = X.length := by simpa using congrArg List.length h
  cases sc <;> simp [scopeDepth, volPrefix_kinds h, hl]

theorem positionalParams_kinds {X Y : SSet} (h : Y.map (·.kind) = X.map (·.kind)) :
    Y.positionalParams = X.positionalParams := by
  unfold SSet.positionalParams
  congr 1
  induction X generalizing Y with
  | nil => cases Y <;> simp_all
  | cons c X ih =>
    cases Y with
    | nil => simp at h
    | cons d Y =>
      simp only [List.map_cons, List.cons.injEq] at h
      simp only [List.findSome?_cons, h.1, ih h.2]

/-! ### an operation on `m` changes nothing but `m`'s column -/

theorem agree_cons {P : Name → Prop} {c d : SCtx} {X Y : SSet} (hk : c.kind = d.kind)
    (hv : ∀ n, P n → c.vars n = d.vars n) (ht : Agree P X Y) : Agree P (c :: X) (d :: Y) := ⟨hk, hv, ht⟩

theorem set_vars_ne (c : SCtx) (m : Name) (v : Option Variable) (n : Name) (h : n ≠ m) :
    (c.set m v).vars n = c.vars n := by simp [SCtx.set, h]

theorem lower_agree (m : Name) (tb : Bool) (X : SSet) (c : Option Variable) :
    Agree (· ≠ m) X (lower m tb X c) := by
  induction X generalizing c with
  | nil => trivial
  | cons d X ih =>
    simp only [lower]
    split
    · split
      · exact agree_cons rfl (fun n hn => (set_vars_ne d m _ n hn).symm) (agree_refl _ _)
      · split
        · exact agree_cons rfl (fun n hn => (set_vars_ne d m _ n hn).symm) (agree_refl _ _)
        · exact agree_cons rfl (fun _ _ => rfl) (ih c)
    · split
      · exact agree_cons rfl (fun n hn => (set_vars_ne d m _ n hn).symm) (ih _)
      · exact agree_cons rfl (fun _ _ => rfl) (ih c)

theorem modifyVisible_agree (m : Name) (f : Variable → Variable) (X : SSet) :
    Agree (· ≠ m) X (modifyVisible m f X) := by
  induction X with
  | nil => trivial
  | cons d X ih =>
    simp only [modifyVisible]
    split
    · exact agree_cons rfl (fun n hn => (set_vars_ne d m _ n hn).symm) (agree_refl _ _)
    · exact agree_cons rfl (fun _ _ => rfl) ih

theorem eraseTop_agree (m : Name) (k : Nat) (X : SSet) : Agree (· ≠ m) X (eraseTop m k X) := by
  induction X generalizing k with
  | nil => cases k <;> trivial
  | cons d X ih =>
    cases k with
    | zero => exact agree_refl _ _
    | succ k => exact agree_cons rfl (fun n hn => (set_vars_ne d m _ n hn).symm) (ih k)

theorem getOrNew_agree {X X1 : SSet} {m : Name} {sc : Scope} (h : X.getOrNew m sc = some X1) :
    Agree (· ≠ m) X X1 := by
  unfold SSet.getOrNew at h
  cases sc with
  | global => simp only [Option.some.injEq] at h; subst h; exact lower_agree _ _ _ _
  | loc => simp only [Option.some.injEq] at h; subst h; exact lower_agree _ _ _ _
  | volatile =>
    cases X with
    | nil => simp at h
    | cons c t =>
      simp only at h
      split at h
      · cases h
      · split at h
        · simp only [Option.some.injEq] at h; subst h; exact agree_refl _ _
        · simp only [Option.some.injEq] at h; subst h
          exact agree_cons rfl (fun n hn => (set_vars_ne c m _ n hn).symm) (agree_refl _ _)

theorem stepM_agree (X : SSet) (m : Name) (sc : Scope) (f : Variable → Variable) (r : SSet → Res) :
    Agree (· ≠ m) X (match X.getOrNew m sc with
      | none => (X, Res.noVolatile)
      | some X1 => (modifyVisible m f X1, r X1)).1 := by
  cases hg : X.getOrNew m sc with
  | none => exact agree_refl _ _
  | some X1 => exact agree_trans (getOrNew_agree hg) (modifyVisible_agree m f X1)

theorem step_agree_name (X : SSet) (op : Op) (m : Name) (hm : op.name? = some m) :
    Agree (· ≠ m) X (X.step op).1 := by
  cases op with
  | push _ => cases hm
  | pop => cases hm
  | setParams _ => cases hm
  | getOrNew k sc =>
    simp only [Op.name?, Option.some.injEq] at hm; subst hm
    simp only [SSet.step]
    cases hg : X.getOrNew k sc with
    | none => exact agree_refl _ _
    | some X1 => exact getOrNew_agree hg
  | assign k sc v loc =>
    simp only [Op.name?, Option.some.injEq] at hm; subst hm
    exact stepM_agree X k sc (·.assign v loc) (fun X1 => assignRes ((lookup X1 k).getD {}))
  | «export» k sc b =>
    simp only [Op.name?, Option.some.injEq] at hm; subst hm
    exact stepM_agree X k sc (·.setExport b) (fun _ => .done)
  | readonly k sc loc =>
    simp only [Op.name?, Option.some.injEq] at hm; subst hm
    exact stepM_agree X k sc (·.makeReadOnly loc) (fun _ => .done)
  | quirk k sc q =>
    simp only [Op.name?, Option.some.injEq] at hm; subst hm
    exact stepM_agree X k sc (·.setQuirk q) (fun _ => .done)
  | unset k sc =>
    simp only [Op.name?, Option.some.injEq] at hm; subst hm
    simp only [SSet.step, SSet.unset]
    cases firstReadOnly k (scopeDepth sc X) X with
    | some l => exact agree_refl _ _
    | none => exact eraseTop_agree _ _ _

/-! ### `Local`- and `Volatile`-scope operations stay above the topmost regular context -/

/-- the segment contains a regular context -/
def hasReg (T : SSet) : Bool := T.any (·.kind.isRegular)

theorem volPrefix_append (T L : SSet) (h : hasReg T = true) :
    volPrefix (T ++ L) = volPrefix T ∧ volPrefix T < T.length := by
  induction T with
  | nil => simp [hasReg] at h
  | cons c T ih =>
    by_cases hc : c.kind.isRegular = true
    · simp [volPrefix, hc]
    · have hT : hasReg T = true := by simpa [hasReg, hc] using h
      obtain ⟨h1, h2⟩ := ih hT
      refine ⟨?_, ?_⟩
      · simp [volPrefix, hc, h1]
      · simp [volPrefix, hc]; omega

theorem lower_false_append (n : Name) (T L : SSet) (c : Option Variable) (h : hasReg T = true) :
    lower n false (T ++ L) c = lower n false T c ++ L := by
  induction T generalizing c with
  | nil => simp [hasReg] at h
  | cons d T ih =>
    by_cases hd : d.kind.isRegular = true
    · simp only [List.cons_append, lower, hd, if_true, Bool.not_false, Bool.true_or]
      cases d.vars n <;> rfl
    · have hT : hasReg T = true := by simpa [hasReg, hd] using h
      simp only [List.cons_append, lower, hd]
      cases d.vars n <;> simp [ih _ hT]

theorem lookup_lower_false_some (n : Name) (T : SSet) (c : Option Variable) (h : hasReg T = true) :
    (lookup (lower n false T c) n).isSome = true := by
  induction T generalizing c with
  | nil => simp [hasReg] at h
  | cons d T ih =>
    by_cases hd : d.kind.isRegular = true
    · simp only [lower, hd, if_true, Bool.not_false, Bool.true_or]
      cases d.vars n <;> simp [lookup, SCtx.set]
    · have hT : hasReg T = true := by simpa [hasReg, hd] using h
      simp only [lower, hd]
      cases hv : d.vars n with
      | none => simp only [Bool.false_eq_true, if_false, lookup, hv]; exact ih _ hT
      | some v => simp only [Bool.false_eq_true, if_false, lookup, SCtx.set, if_true]; exact ih _ hT

theorem modifyVisible_append (n : Name) (f : Variable → Variable) (T L : SSet) (h : (lookup T n).isSome = true) :
    modifyVisible n f (T ++ L) = modifyVisible n f T ++ L := by
  induction T with
  | nil => simp [lookup] at h
  | cons d T ih =>
    simp only [List.cons_append, modifyVisible]
    cases hv : d.vars n with
    | some v => rfl
    | none =>
      simp only [lookup, hv] at h
      simp [ih h]

theorem eraseTop_append (n : Name) (k : Nat) (T L : SSet) (hk : k ≤ T.length) :
    eraseTop n k (T ++ L) = eraseTop n k T ++ L := by
  induction T generalizing k with
  | nil => have : k = 0 := by simpa using hk
           subst this; cases L <;> rfl
  | cons d T ih =>
    cases k with
    | zero => rfl
    | succ k => simp only [List.cons_append, eraseTop, ih k (by simpa using hk)]

theorem eraseTop_kinds (n : Name) (k : Nat) (X : SSet) : (eraseTop n k X).map (·.kind) = X.map (·.kind) := by
  induction X generalizing k with
  | nil => cases k <;> rfl
  | cons d X ih => cases k <;> simp [eraseTop, SCtx.set, ih]

theorem setParams_append (ps : List String) (T L : SSet) (h : hasReg T = true) :
    setParams ps (T ++ L) = setParams ps T ++ L := by
  induction T with
  | nil => simp [hasReg] at h
  | cons d T ih =>
    by_cases hd : d.kind.isRegular = true
    · simp [setParams, hd]
    · have hT : hasReg T = true := by simpa [hasReg, hd] using h
      simp [setParams, hd, ih hT]

theorem setParams_regs (ps : List String) (T : SSet) :
    (setParams ps T).map (·.kind.isRegular) = T.map (·.kind.isRegular) := by
  induction T with
  | nil => rfl
  | cons d T ih =>
    by_cases hd : d.kind.isRegular = true
    · simp only [setParams, hd, if_true, List.map_cons]
      rfl
    · simp [setParams, hd, ih]

theorem regs_of_kinds {X Y : SSet} (h : Y.map (·.kind) = X.map (·.kind)) :
    Y.map (·.kind.isRegular) = X.map (·.kind.isRegular) := by
  have := congrArg (List.map Context.isRegular) h
  simpa [List.map_map, Function.comp_def] using this

/-- name operations at `Local` / `Volatile` scope, and `set --` -/
def isUpperOp : Op → Bool
  | .getOrNew _ sc | .assign _ sc _ _ | .export _ sc _ | .readonly _ sc _ | .unset _ sc | .quirk _ sc _ =>
    sc != .global
  | .setParams _ => true
  | _ => false

/-- `get_or_new` at `Local` / `Volatile` scope only touches the segment above (and including) the
    topmost regular context, and leaves the name defined there -/
theorem getOrNew_upper (T L : SSet) (h : hasReg T = true) (n : Name) (sc : Scope) (hsc : sc ≠ .global) :
    (T ++ L).getOrNew n sc = none ∨
    ∃ T1, (T ++ L).getOrNew n sc = some (T1 ++ L) ∧ T1.map (·.kind) = T.map (·.kind) ∧
      (lookup T1 n).isSome = true := by
  cases sc with
  | global => exact absurd rfl hsc
  | loc =>
    right
    exact ⟨lower n false T none, by simp [SSet.getOrNew, lower_false_append n T L none h], lower_kinds _ _ _ _,
      lookup_lower_false_some n T none h⟩
  | volatile =>
    cases T with
    | nil => simp [hasReg] at h
    | cons c T =>
      simp only [List.cons_append, SSet.getOrNew]
      by_cases hc : c.kind.isRegular = true
      · left; simp [hc]
      · right
        simp only [hc, Bool.false_eq_true, if_false]
        cases hv : c.vars n with
        | some v => exact ⟨c :: T, rfl, rfl, by simp [lookup, hv]⟩
        | none =>
          exact ⟨c.set n (some ((lookup (T ++ L) n).getD {})) :: T, rfl, by simp [SCtx.set], by simp [lookup, SCtx.set]⟩

theorem stepM_upper (T L : SSet) (h : hasReg T = true) (n : Name) (sc : Scope) (hsc : sc ≠ .global)
    (f : Variable → Variable) (r : SSet → Res) :
    ∃ T', (match (T ++ L).getOrNew n sc with
      | none => (T ++ L, Res.noVolatile)
      | some X1 => (modifyVisible n f X1, r X1)).1 = T' ++ L ∧
      T'.map (·.kind.isRegular) = T.map (·.kind.isRegular) := by
  rcases getOrNew_upper T L h n sc hsc with hg | ⟨T1, hg, hk, hl⟩
  · rw [hg]; exact ⟨T, rfl, rfl⟩
  · rw [hg]
    refine ⟨modifyVisible n f T1, modifyVisible_append n f T1 L hl, ?_⟩
    exact regs_of_kinds ((modifyVisible_kinds n f T1).trans hk)

theorem step_upper (T L : SSet) (h : hasReg T = true) (op : Op) (hop : isUpperOp op = true) :
    ∃ T', ((T ++ L).step op).1 = T' ++ L ∧ T'.map (·.kind.isRegular) = T.map (·.kind.isRegular) := by
  cases op with
  | push _ => simp [isUpperOp] at hop
  | pop => simp [isUpperOp] at hop
  | setParams ps => exact ⟨setParams ps T, by simp [SSet.step, setParams_append ps T L h], setParams_regs ps T⟩
  | getOrNew n sc =>
    have hsc : sc ≠ .global := by intro e; subst e; simp [isUpperOp] at hop
    simp only [SSet.step]
    rcases getOrNew_upper T L h n sc hsc with hg | ⟨T1, hg, hk, _⟩
    · rw [hg]; exact ⟨T, rfl, rfl⟩
    · rw [hg]; exact ⟨T1, rfl, regs_of_kinds hk⟩
  | assign n sc v loc =>
    have hsc : sc ≠ .global := by intro e; subst e; simp [isUpperOp] at hop
    exact stepM_upper T L h n sc hsc (·.assign v loc) (fun X1 => assignRes ((lookup X1 n).getD {}))
  | «export» n sc b =>
    have hsc : sc ≠ .global := by intro e; subst e; simp [isUpperOp] at hop
    exact stepM_upper T L h n sc hsc (·.setExport b) (fun _ => .done)
  | readonly n sc loc =>
    have hsc : sc ≠ .global := by intro e; subst e; simp [isUpperOp] at hop
    exact stepM_upper T L h n sc hsc (·.makeReadOnly loc) (fun _ => .done)
  | quirk n sc q =>
    have hsc : sc ≠ .global := by intro e; subst e; simp [isUpperOp] at hop
    exact stepM_upper T L h n sc hsc (·.setQuirk q) (fun _ => .done)
  | unset n sc =>
    have hsc : sc ≠ .global := by intro e; subst e; simp [isUpperOp] at hop
    obtain ⟨hv1, hv2⟩ := volPrefix_append T L h
    have hk : scopeDepth sc (T ++ L) ≤ T.length := by
      cases sc with
      | global => exact absurd rfl hsc
      | loc => simp only [scopeDepth, hv1]; omega
      | volatile => simp only [scopeDepth, hv1]; omega
    simp only [SSet.step, SSet.unset]
    cases firstReadOnly n (scopeDepth sc (T ++ L)) (T ++ L) with
    | some l => exact ⟨T, rfl, rfl⟩
    | none =>
      exact ⟨eraseTop n (scopeDepth sc (T ++ L)) T, eraseTop_append n _ T L hk,
        regs_of_kinds (eraseTop_kinds n _ T)⟩

/-! ### the frame rule for a balanced body -/

/-- the name an operation accesses at `Global` scope -/
def Op.globalName? : Op → Option Name
  | .getOrNew n .global | .assign n .global _ _ | .export n .global _ | .readonly n .global _
  | .unset n .global | .quirk n .global _ => some n
  | _ => none

/-- every context the operations push is popped again, none of the outer ones is (what the RAII
    guards of `push_context` guarantee), starting `d` contexts deep -/
def balanced : Nat → List Op → Bool
  | d, [] => d == 0
  | d, .push _ :: r => balanced (d + 1) r
  | 0, .pop :: _ => false
  | d + 1, .pop :: r => balanced d r
  | d, _ :: r => balanced d r

theorem op_classify (op : Op) :
    (∃ c, op = .push c) ∨ op = .pop ∨ isUpperOp op = true ∨
      ∃ m, op.globalName? = some m ∧ op.name? = some m := by
  cases op with
  | push c => exact Or.inl ⟨c, rfl⟩
  | pop => exact Or.inr (Or.inl rfl)
  | setParams _ => exact Or.inr (Or.inr (Or.inl rfl))
  | getOrNew n sc => cases sc <;> simp [isUpperOp, Op.globalName?, Op.name?]
  | assign n sc _ _ => cases sc <;> simp [isUpperOp, Op.globalName?, Op.name?]
  | «export» n sc _ => cases sc <;> simp [isUpperOp, Op.globalName?, Op.name?]
  | readonly n sc _ => cases sc <;> simp [isUpperOp, Op.globalName?, Op.name?]
  | unset n sc => cases sc <;> simp [isUpperOp, Op.globalName?, Op.name?]
  | quirk n sc _ => cases sc <;> simp [isUpperOp, Op.globalName?, Op.name?]

theorem hasReg_of_get (T : SSet) (d : Nat) (h : (T.map (·.kind.isRegular))[d]? = some true) : hasReg T = true := by
  simp only [List.getElem?_map, Option.map_eq_some_iff] at h
  obtain ⟨c, hc, hr⟩ := h
  simp only [hasReg, List.any_eq_true]
  exact ⟨c, List.mem_of_getElem? hc, hr⟩

/-- the body runs in `T ++ L`, where `T` (its `d + 1` topmost contexts) ends in the function's own
    regular context: afterwards `T` is back to one regular context and `L` agrees with what it was
    on every name the body has not accessed at `Global` scope -/
theorem run_frame (N : Name → Prop) (ops : List Op) (d : Nat) (T L : SSet) (hlen : T.length = d + 1)
    (hreg : (T.map (·.kind.isRegular))[d]? = some true) (hbal : balanced d ops = true)
    (hops : ∀ op ∈ ops, ∀ m, op.globalName? = some m → ¬ N m) :
    ∃ F' L', SSet.run (T ++ L) ops = F' :: L' ∧ F'.kind.isRegular = true ∧ Agree N L L' := by
  induction ops generalizing d T L with
  | nil =>
    have hd : d = 0 := by simpa [balanced] using hbal
    subst hd
    cases T with
    | nil => simp at hlen
    | cons F T =>
      have : T = [] := by simpa using hlen
      subst this
      exact ⟨F, L, rfl, by simpa using hreg, agree_refl _ _⟩
  | cons op ops ih =>
    have hops' : ∀ o ∈ ops, ∀ m, o.globalName? = some m → ¬ N m := fun o ho => hops o (by simp [ho])
    rcases op_classify op with ⟨c, rfl⟩ | rfl | hup | ⟨m, hg, hm⟩
    · -- push
      simp only [SSet.run, SSet.step, SSet.push]
      have := ih (d + 1) (⟨c, fun _ => none⟩ :: T) L (by simp [hlen]) (by simpa using hreg)
        (by simpa [balanced] using hbal) hops'
      simpa using this
    · -- pop
      cases d with
      | zero => simp [balanced] at hbal
      | succ d =>
        cases T with
        | nil => simp at hlen
        | cons c T =>
          have hT : T.length = d + 1 := by simpa using hlen
          cases T with
          | nil => simp at hT
          | cons c2 T =>
            simp only [SSet.run, SSet.step, List.cons_append, SSet.pop]
            exact ih d (c2 :: T) L hT (by simpa using hreg) (by simpa [balanced] using hbal) hops'
    · -- an operation at Local / Volatile scope, or `set --`: only `T` changes
      obtain ⟨T', h1, h2⟩ := step_upper T L (hasReg_of_get T d hreg) op hup
      have hb : balanced d ops = true := by
        cases op <;> first | (simp [isUpperOp] at hup; done) | simpa [balanced] using hbal
      simp only [SSet.run, h1]
      exact ih d T' L (by have := congrArg List.length h2; simpa [hlen] using this) (by rw [h2]; exact hreg) hb hops'
    · -- an operation at Global scope on a name outside `N`: only that name's column changes
      have hNm : ¬ N m := hops op (by simp) m hg
      obtain ⟨T', L1, h1, hT, hL⟩ := agree_append_split T L (step_agree_name (T ++ L) op m hm)
      have hb : balanced d ops = true := by
        cases op <;> first | (simp [Op.name?] at hm; done) | simpa [balanced] using hbal
      have h2 : T'.map (·.kind.isRegular) = T.map (·.kind.isRegular) := regs_of_kinds (agree_kinds hT)
      simp only [SSet.run, h1]
      obtain ⟨F', L', hr, hF, hA⟩ := ih d T' L1 (by have := congrArg List.length h2; simpa [hlen] using this)
        (by rw [h2]; exact hreg) hb hops'
      exact ⟨F', L', hr, hF, agree_trans (agree_mono (fun n hn (e : n = m) => hNm (e ▸ hn)) hL) hA⟩

/-- ★ (Spec) a function call with an arbitrary balanced body: the stack of maps afterwards agrees
    with the one before on every name the body has not accessed at `Global` scope — in every
    context, with the same kinds and positional parameters -/
theorem spec_function_frame (X : SSet) (hX : X ≠ []) (as : List (Name × Value)) (ps : List String)
    (body : List Op) (N : Name → Prop) (hbal : balanced 0 body = true)
    (hops : ∀ op ∈ body, ∀ m, op.globalName? = some m → ¬ N m) :
    Agree N X (SSet.run X (functionCmd as ps body)) := by
  obtain ⟨cV, hin, _, _⟩ := spec_enter_function X as ps
  have hsplit : functionCmd as ps body = ([Op.push .volatile] ++ tempOps as ++ [Op.push (.regular ps)]) ++
      (body ++ [Op.pop, Op.pop]) := by simp [functionCmd]
  rw [hsplit, SSet.run_append, hin, SSet.run_append]
  obtain ⟨F', L', hr, _, hA⟩ := run_frame N body 0 [⟨.regular ps, fun _ => none⟩] (cV :: X) rfl rfl hbal hops
  have hr' : SSet.run (⟨.regular ps, fun _ => none⟩ :: cV :: X) body = F' :: L' := hr
  rw [hr']
  cases L' with
  | nil => exact hA.elim
  | cons cV' X' =>
    have hXX : Agree N X X' := hA.2.2
    have hne : X' ≠ [] := by
      intro e; subst e
      cases X with
      | nil => exact hX rfl
      | cons _ _ => exact hXX.elim
    simp only [SSet.run, SSet.step]
    rw [pop_cons F' (cV' :: X') (by simp), pop_cons cV' X' hne]
    exact hXX

/-- popping any number of contexts keeps two stacks in agreement -/
theorem agree_run_pops {P : Name → Prop} {X Y : SSet} (h : Agree P X Y) (k : Nat) :
    Agree P (SSet.run X (List.replicate k Op.pop)) (SSet.run Y (List.replicate k Op.pop)) := by
  induction k generalizing X Y with
  | zero => exact h
  | succ k ih => simp only [List.replicate_succ, SSet.run, SSet.step]; exact ih (agree_pop h)

/-! ### the Spec's `get_or_new` walk (`lower`), declaratively -/

/-- `Global`: the variable handed out is the one that was visible (it may have been carried down
    from a volatile context), or a fresh default one if there was none -/
theorem lookup_lower_global (n : Name) (X : SSet) (hB : BaseReg X) (c : Option Variable) :
    lookup (lower n true X c) n = some (c.getD ((lookup X n).getD {})) := by
  induction X generalizing c with
  | nil => obtain ⟨d, hd, _⟩ := hB; simp at hd
  | cons d t ih =>
    have hBt : t ≠ [] → BaseReg t := by
      intro hne
      obtain ⟨e, he, hr⟩ := hB
      exact ⟨e, by rw [List.getLast?_cons_of_ne_nil hne] at he; exact he, hr⟩
    by_cases hd : d.kind.isRegular = true
    · simp only [lower, hd, if_true]
      cases hv : d.vars n with
      | some v => simp [lookup, SCtx.set, hv]
      | none =>
        by_cases ht : t = []
        · subst ht; simp [lookup, SCtx.set, hv]
        · have : t.isEmpty = false := by cases t <;> simp_all
          simp only [this, Bool.not_true, Bool.or_false, Bool.false_eq_true, if_false, lookup, hv]
          exact ih (hBt ht) c
    · have ht : t ≠ [] := by
        intro e; subst e
        obtain ⟨e, he, hr⟩ := hB
        simp at he; subst he; exact hd hr
      simp only [lower, hd]
      cases hv : d.vars n with
      | some v =>
        simp only [Bool.false_eq_true, if_false, lookup, SCtx.set, if_true, hv]
        rw [ih (hBt ht) _]; rfl
      | none =>
        simp only [Bool.false_eq_true, if_false, lookup, hv]
        exact ih (hBt ht) c

/-- `Local`: the same with "visible" restricted to the topmost regular context and the volatile
    contexts above it -/
theorem lookup_lower_local (n : Name) (X : SSet) (h : hasReg X = true) (c : Option Variable) :
    lookup (lower n false X c) n = some (c.getD ((lookup (X.take (volPrefix X + 1)) n).getD {})) := by
  induction X generalizing c with
  | nil => simp [hasReg] at h
  | cons d t ih =>
    by_cases hd : d.kind.isRegular = true
    · simp only [lower, hd, if_true, Bool.not_false, Bool.true_or, volPrefix]
      cases hv : d.vars n <;> simp [lookup, SCtx.set, hv]
    · have hT : hasReg t = true := by simpa [hasReg, hd] using h
      simp only [lower, hd, volPrefix]
      cases hv : d.vars n with
      | some v =>
        simp only [Bool.false_eq_true, if_false, lookup, SCtx.set, if_true, List.take_succ_cons, hv]
        rw [ih hT _]; rfl
      | none =>
        simp only [Bool.false_eq_true, if_false, lookup, List.take_succ_cons, hv]
        exact ih hT c

end YashModel.Variable
