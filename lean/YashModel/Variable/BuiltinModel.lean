/-
  C16 (wave 3) — the glue of the built-ins that change variables, transcribed:

    yash-builtin/src/typeset/syntax.rs   `interpret` (the loop over the option occurrences, the scope)
    yash-builtin/src/typeset/set_variables.rs  `impl From<Scope>`, `SetVariables::execute`
    yash-builtin/src/export.rs, readonly.rs    `main` (the adjustment of the `SetVariables` command)
    yash-builtin/src/unset/semantics.rs        `unset_variables`

  generically over the state (`Iface` of ScriptBase.lean: the Rust model `VariableSet` and the Spec `SSet`).
  `Script.lean` describes what the statements `T`, `L`, `G`, `E`, `EX`, `R`, `U` of the script leg do in
  its own words; `BuiltinGlue.lean` proves that these descriptions are the functions below, and the
  tables of `Generated/VariableTables.lean` (re-extracted from the sources on every run) are proved to
  be the ones these functions implement.  Not modelled: the `Portable` option (name restrictions),
  functions (`-f`), printing (`-p`: `printLines` of Script.lean), error messages.  Import-free, executable.
-/
import YashModel.Variable.ScriptBase
import YashModel.Generated.VariableTables
namespace YashModel.Variable

/-- `typeset.rs` `VariableAttr` -/
inductive VAttr where
  | readOnly | «export»
  deriving DecidableEq, Repr

/-- `typeset.rs` `Scope` (the built-in's own two-valued scope) -/
inductive TScope where
  | loc | global
  deriving DecidableEq, Repr

/-- set_variables.rs `impl From<Scope> for yash_env::variable::Scope` -/
def TScope.toScope : TScope → Scope
  | .loc => .loc
  | .global => .global

/-- `OptionOccurrence`, reduced to `spec.short` and `state` (`-x` = `On` = true, `+x` = `Off`) -/
structure OptOcc where
  short : Char
  state : Bool
  deriving DecidableEq, Repr

/-- `OptionSpec::attr` of the options of `ALL_OPTIONS` (`READONLY_OPTION`, `EXPORT_OPTION`; `None` else) -/
def specAttr (c : Char) : Option VAttr :=
  if c = 'r' then some .readOnly else if c = 'x' then some .export else none

/-- what the loop of `interpret` has collected -/
structure Interp where
  functions : Bool := false
  global : Bool := false
  print : Bool := false
  attrs : List (VAttr × Bool) := []
  deriving DecidableEq, Repr

/-- what the arm of `match option.spec.short` reached by an option does -/
inductive OptRole where
  | functions | global | print
  | push (a : VAttr) (negated : Bool)
  | unknown
  deriving DecidableEq, Repr

/-- the arms of `match option.spec.short` in `interpret`: `'f'`, `'g'`, `'p'`,
    `'X' => attrs.push((index, Attr::Export, !option.state))`,
    `_ => attrs.push((index, option.spec.attr.unwrap(), option.state))` (`parse` only yields options of
    `ALL_OPTIONS`, and those without an attribute have their own arm, so the `unwrap` cannot fail; an
    option outside the table is `unknown` here) -/
def optionRole (c : Char) : OptRole :=
  if c = 'f' then .functions
  else if c = 'g' then .global
  else if c = 'p' then .print
  else if c = 'X' then .push .export true
  else match specAttr c with
    | some a => .push a false
    | none => .unknown

/-- one round of `for (index, option) in options.iter().enumerate() { match option.spec.short {…} }` -/
def interpretStep (r : Interp) (o : OptOcc) : Interp :=
  match optionRole o.short with
  | .functions => { r with functions := true }
  | .global => { r with global := true }
  | .print => { r with print := true }
  | .push a negated => { r with attrs := r.attrs ++ [(a, o.state != negated)] }
  | .unknown => r

/-- the loop of `interpret` -/
def interpretLoop (os : List OptOcc) : Interp := os.foldl interpretStep {}

/-- `let scope = match global_option_index { Some(_) => Scope::Global, None => Scope::Local }` -/
def interpretScope (r : Interp) : TScope := if r.global then .global else .loc

/-- `typeset.rs` `SetVariables` -/
structure SetVariables where
  variables : List String
  attrs : List (VAttr × Bool)
  scope : TScope

/-- what one arm of `match (attr, state)` in the attribute loop does -/
inductive ArmAction where
  | makeReadOnly | refuseIfReadOnly | exportTrue | exportFalse
  deriving DecidableEq, Repr

/-- the arms of `match (attr, state)` of `SetVariables::execute` -/
def armAction : VAttr → Bool → ArmAction
  | .readOnly, true => .makeReadOnly
  | .readOnly, false => .refuseIfReadOnly
  | .export, true => .exportTrue
  | .export, false => .exportFalse

/-- the attribute loop of `SetVariables::execute` for the variable `n` (`variable` is the reference
    `get_or_create_variable` returned; every operation of the model looks it up again and finds the
    same one).  The flag is `true` when `continue 'field` was taken with an error
    (`UndoReadOnlyVariable`), which skips the remaining attributes. -/
def attrLoop {σ} (I : Iface σ) (n : Name) (sc : Scope) : List (VAttr × Bool) → σ → σ × Bool
  | [], s => (s, false)
  | (a, st) :: r, s =>
    match armAction a st with
    | .makeReadOnly => attrLoop I n sc r (I.step s (.readonly n sc 1)).1
    | .refuseIfReadOnly =>
      if ((I.get s n).map (·.isReadOnly)).getD false then (s, true) else attrLoop I n sc r s
    | .exportTrue => attrLoop I n sc r (I.step s (.export n sc true)).1
    | .exportFalse => attrLoop I n sc r (I.step s (.export n sc false)).1

/-- the body of `'field: for mut field in self.variables` of `SetVariables::execute`: split at the
    first `=`, `get_or_create_variable(name, self.scope.into())`, the assignment (a refusal is an error
    and `continue`s), the attribute loop.  Returns the state and whether an error was pushed. -/
def executeField {σ} (I : Iface σ) (sv : SetVariables) (s : σ) (field : String) : σ × Bool :=
  let sc := sv.scope.toScope
  match splitAssign field with
  | (n, none) => attrLoop I n sc sv.attrs (I.step s (.getOrNew n sc)).1
  | (n, some v) =>
    match I.step s (.assign n sc (.scalar v) none) with
    | (s1, .readOnly _) => (s1, true)
    | (s1, _) => attrLoop I n sc sv.attrs s1

/-- a loop that goes on after an error and counts the errors (`errors.push(…)`) -/
def foldErrors {σ ι} (f : σ → ι → σ × Bool) : List ι → σ × Nat → σ × Nat
  | [], r => r
  | i :: t, (s, e) =>
    match f s i with
    | (s', b) => foldErrors f t (s', e + b.toNat)

/-- `SetVariables::execute`: the final state and the number of errors (`Ok` iff 0) -/
def SetVariables.execute {σ} (I : Iface σ) (sv : SetVariables) (s : σ) : σ × Nat :=
  foldErrors (executeField I sv) sv.variables (s, 0)

/-- `typeset::main` for the set-variables case: `interpret`, then `execute` -/
def typesetMain {σ} (I : Iface σ) (opts : List OptOcc) (operands : List String) (s : σ) : σ × Nat :=
  let r := interpretLoop opts
  SetVariables.execute I ⟨operands, r.attrs, interpretScope r⟩ s

/-- `export::main` / `readonly::main`, arm `Command::SetVariables(sv)`:
    `sv.attrs.push((attr, On)); sv.scope = Global;` then `execute` -/
def declMain {σ} (I : Iface σ) (attr : VAttr) (opts : List OptOcc) (operands : List String) (s : σ) : σ × Nat :=
  let r := interpretLoop opts
  SetVariables.execute I ⟨operands, r.attrs ++ [(attr, true)], .global⟩ s

/-- one round of the loop of `unset_variables`: `env.variables.unset(&name.value, Global)` -/
def unsetVariable {σ} (I : Iface σ) (s : σ) (n : Name) : σ × Bool :=
  match I.step s (.unset n .global) with
  | (s1, .readOnly _) => (s1, true)
  | (s1, _) => (s1, false)

/-- `unset_variables`: every operand is tried, the errors are collected -/
def unsetVariables {σ} (I : Iface σ) (names : List Name) (s : σ) : σ × Nat :=
  foldErrors (unsetVariable I) names (s, 0)

/-! ### reading the generated tables -/

def vattrName : VAttr → String
  | .readOnly => "ReadOnly"
  | .export => "Export"

def tscopeName : TScope → String
  | .loc => "Local"
  | .global => "Global"

def scopeName : Scope → String
  | .global => "Global"
  | .loc => "Local"
  | .volatile => "Volatile"

def OptRole.describe : OptRole → String
  | .functions => "functions"
  | .global => "global"
  | .print => "print"
  | .push a negated => vattrName a ++ (if negated then ":negated" else ":plain")
  | .unknown => "?"

def ArmAction.describe : ArmAction → String
  | .makeReadOnly => "make_read_only"
  | .refuseIfReadOnly => "refuse_if_read_only"
  | .exportTrue => "export_true"
  | .exportFalse => "export_false"

/-- the tables of `Generated/VariableTables.lean` say what the functions of this file do: every
    option of `ALL_OPTIONS` has the role `optionRole` gives it; the scope choice of `interpret` and the
    conversion to `yash_env`'s scope; the arms of the attribute loop; the attribute and scope `export`
    and `readonly` force; the scope `unset_variables` passes; the built-ins that are special (no
    volatile context, assignment errors end the shell) and `typeset` that is not -/
def builtinTablesOk : Bool :=
  Generated.VariableTables.typesetOptions.all (fun (c, r) => (optionRole c).describe == r) &&
  tscopeName (interpretScope { global := true }) == Generated.VariableTables.typesetScopeWithGlobal &&
  tscopeName (interpretScope {}) == Generated.VariableTables.typesetScopeDefault &&
  Generated.VariableTables.typesetScopeMap ==
    [TScope.global, TScope.loc].map (fun t => (tscopeName t, scopeName t.toScope)) &&
  Generated.VariableTables.setVariablesArms ==
    [(VAttr.export, false), (.export, true), (.readOnly, false), (.readOnly, true)].map
      (fun (a, st) => (vattrName a, st, (armAction a st).describe)) &&
  Generated.VariableTables.declBuiltins ==
    [("export", vattrName .export, true, tscopeName .global),
     ("readonly", vattrName .readOnly, true, tscopeName .global)] &&
  Generated.VariableTables.unsetVariablesScope == scopeName .global &&
  -- `for`, `${n=w}`, `$((n=…))`, `read`, `getopts`: the `Global` scope of Script.lean's `write` statements
  Generated.VariableTables.writePathScopes ==
    ["for", "switch_assign", "arith", "read", "getopts"].map (fun k => (k, scopeName .global)) &&
  Generated.VariableTables.builtinTypes ==
    [(":", "Special"), ("export", "Special"), ("readonly", "Special"), ("set", "Special"),
     ("typeset", "Elective"), ("unset", "Special")]

end YashModel.Variable
