/-
  C16 — helper lemmas, part 9: built-in level facts (`readonly`, `unset`, temporary assignments
  before a function call), on the Spec; the property theorems in `Theorems.lean` carry them to the
  Rust model through the refinement.
-/
import YashModel.Variable.Lifetime
namespace YashModel.Variable

/-! ### kinds are never changed by variable operations -/

theorem lower_kinds (n : Name) (tb : Bool) (X : SSet) (c : Option Variable) :
    (lower n tb X c).map (·.kind) = X.map (·.kind) := by
  induction X generalizing c with
  | nil => rfl
  | cons d X ih =>
    simp only [lower]
    split
    · split
      · simp [SCtx.set]
      · split <;> simp [SCtx.set, ih]
    · split <;> simp [SCtx.set, ih]

theorem modifyVisible_kinds (n : Name) (f : Variable → Variable) (X : SSet) :
    (modifyVisible n f X).map (·.kind) = X.map (·.kind) := by
  induction X with
  | nil => rfl
  | cons d X ih => simp only [modifyVisible]; split <;> simp [SCtx.set, ih]

theorem baseReg_of_kinds {X Y : SSet} (h : Y.map (·.kind) = X.map (·.kind)) (hB : BaseReg X) : BaseReg Y := by
  obtain ⟨c, hc, hr⟩ := hB
  have h1 : (X.map (·.kind)).getLast? = some c.kind := by rw [List.getLast?_map, hc]; rfl
  rw [← h, List.getLast?_map] at h1
  cases hl : Y.getLast? with
  | none => simp [hl] at h1
  | some d =>
    simp only [hl, Option.map_some, Option.some.injEq] at h1
    exact ⟨d, hl, by rw [h1]; exact hr⟩

/-! ### a `Global`-scope access from inside a function frame whose own context does not define the
    name: the function's context and the (emptied) volatile context stay on top, the variable lives
    below them -/

structure Frame (n : Name) (cR cV : SCtx) (Y : SSet) : Prop where
  reg : cR.kind.isRegular = true
  noLocal : cR.vars n = none
  vol : cV.kind.isRegular = false
  base : BaseReg Y

theorem frame_getOrNew (n : Name) (cR cV : SCtx) (Y : SSet) (h : Frame n cR cV Y) :
    ∃ cV2 Y2 w, SSet.getOrNew (cR :: cV :: Y) n .global = some (cR :: cV2 :: Y2) ∧
      Frame n cR cV2 Y2 ∧ cV2.vars n = none ∧ lookup Y2 n = some w := by
  have hlow : ∃ cV2 carried, lower n true (cR :: cV :: Y) none = cR :: cV2 :: lower n true Y carried ∧
      cV2.vars n = none ∧ cV2.kind = cV.kind := by
    cases hv : cV.vars n with
    | some w => exact ⟨cV.set n none, some w, by simp [lower, h.reg, h.noLocal, h.vol, hv], by simp [SCtx.set], rfl⟩
    | none => exact ⟨cV, none, by simp [lower, h.reg, h.noLocal, h.vol, hv], hv, rfl⟩
  obtain ⟨cV2, carried, hl, hn2, hk⟩ := hlow
  obtain ⟨w, hw⟩ := lookup_lower_some n Y h.base carried
  refine ⟨cV2, lower n true Y carried, w, by simp [SSet.getOrNew, hl], ?_, hn2, hw⟩
  exact ⟨h.reg, h.noLocal, by rw [hk]; exact h.vol, baseReg_of_kinds (lower_kinds n true Y carried) h.base⟩

/-- `get_or_new(Global)` + a modification, from inside the frame -/
theorem frame_modify (n : Name) (cR cV : SCtx) (Y : SSet) (h : Frame n cR cV Y) (f : Variable → Variable) :
    ∃ cV2 Y2 w, SSet.getOrNew (cR :: cV :: Y) n .global = some (cR :: cV2 :: Y2) ∧
      modifyVisible n f (cR :: cV2 :: Y2) = cR :: cV2 :: modifyVisible n f Y2 ∧
      Frame n cR cV2 (modifyVisible n f Y2) ∧ lookup (modifyVisible n f Y2) n = some (f w) := by
  obtain ⟨cV2, Y2, w, hg, hF, hn2, hw⟩ := frame_getOrNew n cR cV Y h
  refine ⟨cV2, Y2, w, hg, by simp [modifyVisible, h.noLocal, hn2], ?_, by rw [lookup_modifyVisible, hw]; rfl⟩
  exact ⟨hF.reg, hF.noLocal, hF.vol, baseReg_of_kinds (modifyVisible_kinds n f Y2) hF.base⟩

/-- leaving the frame: both contexts are popped -/
theorem frame_pop2 (cR cV : SCtx) (Y : SSet) (hY : Y ≠ []) :
    SSet.run (cR :: cV :: Y) [Op.pop, Op.pop] = Y := by
  show SSet.pop (SSet.pop (cR :: cV :: Y)) = Y
  exact pop_cons _ _ hY

theorem ne_nil_of_lookup {Y : SSet} {n : Name} {u : Variable} (h : lookup Y n = some u) : Y ≠ [] := by
  intro e; rw [e] at h; cases h

/-- the state inside a function called with temporary assignments: `[push V] ++ temps ++ [push R]` -/
theorem spec_enter_function (X : SSet) (as : List (Name × Value)) (ps : List String) :
    ∃ cV, SSet.run X ([Op.push .volatile] ++ tempOps as ++ [Op.push (.regular ps)])
        = ⟨.regular ps, fun _ => none⟩ :: cV :: X ∧ cV.kind.isRegular = false ∧
      SSet.run X ([Op.push .volatile] ++ tempOps as) = cV :: X := by
  obtain ⟨cV, h1, hk⟩ := run_topVol ⟨.volatile, fun _ => none⟩ X rfl (tempOps as) (tempOps_topVol as)
  have h2 : SSet.run X ([Op.push .volatile] ++ tempOps as) = cV :: X := by
    simp only [List.singleton_append, SSet.run]; exact h1
  refine ⟨cV, ?_, hk, h2⟩
  rw [SSet.run_append, h2]; rfl

/-- `readonly n` / `readonly n=v` executed in a function body (whose own context has no local `n`):
    after the function returns the visible `n` is read-only -/
theorem spec_readonly_in_function (X : SSet) (hB : BaseReg X) (as : List (Name × Value)) (ps : List String)
    (n : Name) (first : Op) (loc : Nat)
    (hfirst : first = .getOrNew n .global ∨ ∃ v l, first = .assign n .global v l) :
    ∃ u, lookup (SSet.run X (functionCmd as ps [first, .readonly n .global loc])) n = some u ∧
      u.isReadOnly = true := by
  obtain ⟨cV, hin, hk, _⟩ := spec_enter_function X as ps
  have hcmd : functionCmd as ps [first, .readonly n .global loc] =
      ([Op.push .volatile] ++ tempOps as ++ [Op.push (.regular ps)]) ++
        ([first, .readonly n .global loc] ++ [Op.pop, Op.pop]) := by simp [functionCmd]
  rw [hcmd, SSet.run_append, hin, SSet.run_append]
  have hF : Frame n ⟨.regular ps, fun _ => none⟩ cV X := ⟨rfl, rfl, hk, hB⟩
  -- first operation
  have h1 : ∃ cV1 Y1, (SSet.step (⟨.regular ps, fun _ => none⟩ :: cV :: X) first).1
      = ⟨.regular ps, fun _ => none⟩ :: cV1 :: Y1 ∧ Frame n ⟨.regular ps, fun _ => none⟩ cV1 Y1 := by
    rcases hfirst with rfl | ⟨v, l, rfl⟩
    · obtain ⟨cV2, Y2, w, hg, hF2, _, _⟩ := frame_getOrNew n _ cV X hF
      exact ⟨cV2, Y2, by simp [SSet.step, hg], hF2⟩
    · obtain ⟨cV2, Y2, w, hg, hm, hF2, _⟩ := frame_modify n _ cV X hF (·.assign v l)
      exact ⟨cV2, _, by simp only [SSet.step, hg, hm], hF2⟩
  obtain ⟨cV1, Y1, hs1, hF1⟩ := h1
  obtain ⟨cV2, Y2, w, hg, hm, hF2, hl⟩ := frame_modify n _ cV1 Y1 hF1 (·.makeReadOnly loc)
  have hs2 : (SSet.step (⟨.regular ps, fun _ => none⟩ :: cV1 :: Y1) (.readonly n .global loc)).1
      = ⟨.regular ps, fun _ => none⟩ :: cV2 :: modifyVisible n (·.makeReadOnly loc) Y2 := by
    simp only [SSet.step, hg, hm]
  simp only [SSet.run, hs1, hs2]
  show ∃ u, lookup (SSet.run (_ :: cV2 :: modifyVisible n (·.makeReadOnly loc) Y2) [Op.pop, Op.pop]) n = some u ∧ _
  rw [frame_pop2 _ _ _ (ne_nil_of_lookup hl)]
  exact ⟨_, hl, by simp [Variable.makeReadOnly, Variable.isReadOnly]⟩

/-! ### temporary assignment before a function call -/

theorem step_assign_vol (c : SCtx) (t : SSet) (hc : c.kind.isRegular = false) (n : Name) (v : Value)
    (loc : Option Nat) :
    ∃ w : Variable, (SSet.step (c :: t) (.assign n .volatile v loc)).1 = c.set n (some (w.assign v loc)) :: t := by
  cases hv : c.vars n with
  | some w => exact ⟨w, by simp [SSet.step, SSet.getOrNew, hc, hv, modifyVisible]⟩
  | none =>
    refine ⟨(lookup t n).getD {}, ?_⟩
    simp only [SSet.step, SSet.getOrNew, hc, hv]
    simp [modifyVisible, SCtx.set]
    funext m; split <;> rfl

theorem step_export_vol (c : SCtx) (t : SSet) (hc : c.kind.isRegular = false) (n : Name) (b : Bool)
    (u : Variable) (hu : c.vars n = some u) :
    (SSet.step (c :: t) (.export n .volatile b)).1 = c.set n (some (u.setExport b)) :: t := by
  simp [SSet.step, SSet.getOrNew, hc, hu, modifyVisible]

theorem tempOps_append (a b : List (Name × Value)) : tempOps (a ++ b) = tempOps a ++ tempOps b := by
  simp [tempOps]

/-- inside a function called as `others… n=v f args`, `n` is visible, exported, and has the value `v`
    unless it was read-only -/
theorem spec_temp_visible (X : SSet) (others : List (Name × Value)) (n : Name) (v : Value) (ps : List String) :
    ∃ u, lookup (SSet.run X ([Op.push .volatile] ++ tempOps (others ++ [(n, v)]) ++ [Op.push (.regular ps)])) n
        = some u ∧ u.exported = true ∧ (u.isReadOnly = false → u.value = some v) := by
  obtain ⟨cV, h1, hk⟩ := run_topVol ⟨.volatile, fun _ => none⟩ X rfl (tempOps others) (tempOps_topVol others)
  obtain ⟨w, hs1⟩ := step_assign_vol cV X hk n v none
  have hk2 : (cV.set n (some (w.assign v none))).kind.isRegular = false := hk
  have hs2 := step_export_vol (cV.set n (some (w.assign v none))) X hk2 n true (w.assign v none)
    (by simp [SCtx.set])
  have hrun : SSet.run X ([Op.push .volatile] ++ tempOps (others ++ [(n, v)]) ++ [Op.push (.regular ps)])
      = ⟨.regular ps, fun _ => none⟩ :: ((cV.set n (some (w.assign v none))).set n
          (some ((w.assign v none).setExport true))) :: X := by
    rw [tempOps_append, ← List.append_assoc, SSet.run_append, SSet.run_append]
    have : SSet.run X ([Op.push .volatile] ++ tempOps others) = cV :: X := by
      simp only [List.singleton_append, SSet.run]; exact h1
    rw [this]
    simp only [tempOps, List.flatMap_cons, List.flatMap_nil, List.append_nil, SSet.run, hs1, hs2]
    rfl
  rw [hrun]
  refine ⟨(w.assign v none).setExport true, by simp [lookup, SCtx.set], rfl, ?_⟩
  intro hro
  have : (w.assign v none).isReadOnly = false := hro
  exact assign_value w v none this

theorem mem_takeWhile_of_dec (idx k : Nat) (r : List VIC) (hd : Dec k r) (e : VIC) (he : e ∈ r)
    (hin : idx ≤ e.ctx) : e ∈ r.takeWhile (fun v => decide (idx ≤ v.ctx)) := by
  induction r generalizing k with
  | nil => cases he
  | cons v r ih =>
    rcases List.mem_cons.mp he with rfl | he'
    · simp [List.takeWhile_cons, hin]
    · have hlt := dec_lt hd.2 e he'
      have hv : idx ≤ v.ctx := by omega
      simp only [List.takeWhile_cons, hv, decide_true, if_true, List.mem_cons]
      exact Or.inr (ih _ hd.2 he')

theorem lookup_push (X : SSet) (k : Context) (n : Name) : lookup (X.push k) n = lookup X n := rfl

end YashModel.Variable
