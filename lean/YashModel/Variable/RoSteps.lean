/-
  C16 — helper lemmas, part 7: read-only variables across whole operations.
-/
import YashModel.Variable.ReadOnly
namespace YashModel.Variable

/-- every read-only instance of `s` has a read-only instance with the same value and mark in `s'` -/
def KeepsAll (s s' : VariableSet) : Prop :=
  ∀ n e, e ∈ s.all n → e.var.isReadOnly = true →
    ∃ e' ∈ s'.all n, e'.var.isReadOnly = true ∧ SameRO e'.var e.var

theorem keepsAll_refl (s : VariableSet) : KeepsAll s s := fun _ e he hro => ⟨e, he, hro, rfl, rfl⟩

theorem keepsAll_trans {a b c : VariableSet} (h1 : KeepsAll a b) (h2 : KeepsAll b c) : KeepsAll a c := by
  intro n e he hro
  obtain ⟨e1, he1, hro1, hs1⟩ := h1 n e he hro
  obtain ⟨e2, he2, hro2, hs2⟩ := h2 n e1 he1 hro1
  exact ⟨e2, he2, hro2, hs2.1.trans hs1.1, hs2.2.trans hs1.2⟩

theorem keepsAll_setStack (s : VariableSet) (n : Name) (st' : List VIC)
    (h : ∀ e ∈ (s.all n).reverse, e.var.isReadOnly = true → Keeps st'.reverse e.var) :
    KeepsAll s (s.setStack n st') := by
  intro m e he hro
  simp only [VariableSet.setStack]
  by_cases hm : m = n
  · subst hm
    obtain ⟨e', he', h1, h2⟩ := h e (by simpa using he) hro
    exact ⟨e', by simpa using he', h1, h2⟩
  · simp only [if_neg hm]; exact ⟨e, he, hro, rfl, rfl⟩

theorem shadowInv_setStack {s : VariableSet} (hS : ShadowInv s) (n : Name) (st' : List VIC)
    (h : Shadow s.contexts st'.reverse) : ShadowInv (s.setStack n st') := by
  intro m
  simp only [VariableSet.setStack]
  split
  · exact h
  · exact hS m

/-! ### the target context of `Global` / `Local` is regular -/

theorem volK_regular (rcs : List Context) (h : volK rcs < rcs.length) :
    ∃ c, rcs[volK rcs]? = some c ∧ c.isRegular = true := by
  induction rcs with
  | nil => simp at h
  | cons c t ih =>
    by_cases hc : c.isRegular = true
    · exact ⟨c, by simp [volK, hc], hc⟩
    · simp only [volK, hc, List.length_cons] at h ⊢
      obtain ⟨d, hd, hr⟩ := ih (by simpa using h)
      exact ⟨d, by simpa using hd, hr⟩

theorem isVolatileAt_topRegular {s : VariableSet} (h : Norm s) : isVolatileAt s.contexts (topRegular s.contexts) = false := by
  have hl := h.volK_lt
  obtain ⟨c, hc, hr⟩ := volK_regular s.contexts.reverse (by simpa using hl)
  rw [List.getElem?_reverse (by simpa using hl)] at hc
  unfold isVolatileAt
  rw [topRegular_eq h, hc]
  cases c <;> simp_all [Context.isRegular]

theorem isVolatileAt_zero {s : VariableSet} (h : Norm s) : isVolatileAt s.contexts 0 = false := by
  obtain ⟨ps, t, ht⟩ := h.base
  simp [isVolatileAt, ht]

/-! ### get_or_new -/

theorem getOrNew_ro {s : VariableSet} (h : Norm s) (hS : ShadowInv s) (n : Name) (scope : Scope)
    (s' : VariableSet) (hg : s.getOrNew n scope = some s') : KeepsAll s s' ∧ ShadowInv s' := by
  cases scope with
  | global =>
    simp only [VariableSet.getOrNew, Option.some.injEq] at hg; subst hg
    refine ⟨keepsAll_setStack s n _ ?_, shadowInv_setStack hS n _ ?_⟩
    · intro e he hro; rw [List.reverse_reverse]
      exact lowerLoop_keeps _ _ _ _ (hS n) (fun c hc => by cases hc) e he hro
    · rw [List.reverse_reverse]; exact lowerLoop_shadow _ _ _ _ (isVolatileAt_zero h) (hS n)
  | loc =>
    simp only [VariableSet.getOrNew, Option.some.injEq] at hg; subst hg
    refine ⟨keepsAll_setStack s n _ ?_, shadowInv_setStack hS n _ ?_⟩
    · intro e he hro; rw [List.reverse_reverse]
      exact lowerLoop_keeps _ _ _ _ (hS n) (fun c hc => by cases hc) e he hro
    · rw [List.reverse_reverse]; exact lowerLoop_shadow _ _ _ _ (isVolatileAt_topRegular h) (hS n)
  | volatile =>
    simp only [VariableSet.getOrNew] at hg
    split at hg
    · simp only [Option.some.injEq] at hg; subst hg
      refine ⟨keepsAll_setStack s n _ ?_, shadowInv_setStack hS n _ ?_⟩
      · intro e he hro; rw [List.reverse_reverse]; exact volatileBranch_keeps _ _ e he hro
      · rw [List.reverse_reverse]; exact volatileBranch_shadow _ _ _ (hS n)
    · cases hg

theorem modifyLast_ro {s : VariableSet} (hS : ShadowInv s) (n : Name) (f : Variable → Variable) (hf : Frozen f) :
    KeepsAll s (s.modifyLast n f) ∧ ShadowInv (s.modifyLast n f) := by
  refine ⟨keepsAll_setStack s n _ ?_, shadowInv_setStack hS n _ ?_⟩
  · intro e he hro; rw [List.reverse_reverse]; exact modifyHead_keeps f hf _ e he hro
  · rw [List.reverse_reverse]; exact modifyHead_shadow _ f hf _ (hS n)

theorem stepM_ro {s : VariableSet} (h : Norm s) (hS : ShadowInv s) (n : Name) (sc : Scope)
    (f : Variable → Variable) (hf : Frozen f) (resM : VariableSet → Res) :
    KeepsAll s (stepM s n sc f resM).1 ∧ ShadowInv (stepM s n sc f resM).1 := by
  unfold stepM
  cases hg : s.getOrNew n sc with
  | none => exact ⟨keepsAll_refl s, hS⟩
  | some s1 =>
    obtain ⟨hk, hS1⟩ := getOrNew_ro h hS n sc s1 hg
    obtain ⟨hk2, hS2⟩ := modifyLast_ro hS1 n f hf
    exact ⟨keepsAll_trans hk hk2, hS2⟩

/-! ### unset -/

theorem unset_ro {s : VariableSet} (h : Norm s) (hS : ShadowInv s) (n : Name) (scope : Scope) :
    KeepsAll s (s.unset n scope).1 ∧ ShadowInv (s.unset n scope).1 := by
  obtain ⟨hB, hA⟩ := slice_reverse (s.all n) (indexOfContext scope s.contexts) (h.sorted n)
  simp only [VariableSet.unset, hB]
  cases hf : ((s.all n).reverse.takeWhile (fun v => decide (indexOfContext scope s.contexts ≤ v.ctx))).find?
      (fun v => v.var.isReadOnly) with
  | some vic => exact ⟨keepsAll_refl s, hS⟩
  | none =>
    refine ⟨keepsAll_setStack s n _ ?_, shadowInv_setStack hS n _ ?_⟩
    · intro e he hro
      rw [hA]
      refine ⟨e, ?_, hro, rfl, rfl⟩
      have hsplit := List.takeWhile_append_dropWhile
        (p := fun v : VIC => decide (indexOfContext scope s.contexts ≤ v.ctx)) (l := (s.all n).reverse)
      rw [← hsplit] at he
      rcases List.mem_append.mp he with h1 | h2
      · exact absurd hro (by simpa using List.find?_eq_none.mp hf e h1)
      · exact h2
    · rw [hA]; exact shadow_dropWhile _ (hS n)

/-! ### contexts -/

theorem push_ro {s : VariableSet} (h : Norm s) (hS : ShadowInv s) (c : Context) :
    KeepsAll s (s.pushContext c) ∧ ShadowInv (s.pushContext c) := by
  refine ⟨keepsAll_refl s, fun n => shadow_congr (fun u hu => ?_) (hS n)⟩
  have hu' : u ∈ s.all n := by simpa [VariableSet.pushContext] using hu
  have := h.bounded n u hu'
  simp only [VariableSet.pushContext, isVolatileAt]
  rw [List.getElem?_append_left this]

theorem pop_shadow {s : VariableSet} (h : Norm s) (hS : ShadowInv s) : ShadowInv s.popContext := by
  unfold VariableSet.popContext
  split
  · exact hS
  · rename_i hgt
    intro n
    simp only [popIf_reverse]
    have hd : Dec (s.contexts.length - 1) (popIfR (s.contexts.length - 1) (s.all n).reverse) := by
      apply popIfR_dec
      have : s.contexts.length - 1 + 1 = s.contexts.length := by omega
      rw [this]; exact h.dec n
    have hs : Shadow s.contexts (popIfR (s.contexts.length - 1) (s.all n).reverse) := by
      have := hS n
      cases hr : (s.all n).reverse with
      | nil => trivial
      | cons v r =>
        rw [hr] at this
        simp only [popIfR]
        split
        · exact shadow_tail this
        · exact this
    refine shadow_congr (fun u hu => ?_) hs
    have := dec_lt hd u hu
    simp only [isVolatileAt]
    rw [List.getElem?_dropLast]
    simp [this]

theorem setFirstRegular_isRegular (ps : List String) (rcs : List Context) :
    (setFirstRegular ps rcs).map Context.isRegular = rcs.map Context.isRegular := by
  induction rcs with
  | nil => rfl
  | cons c t ih =>
    simp only [setFirstRegular]
    split
    · rename_i hc; simp only [List.map_cons, hc]; rfl
    · simp [ih]

theorem isVolatileAt_map (cs : List Context) (i : Nat) :
    isVolatileAt cs i = ((cs.map Context.isRegular)[i]? == some false) := by
  unfold isVolatileAt
  rw [List.getElem?_map]
  cases h : cs[i]? with
  | none => rfl
  | some c => cases c <;> simp [Context.isRegular]

theorem setParams_ro {s : VariableSet} (hS : ShadowInv s) (ps : List String) :
    KeepsAll s (s.setPositionalParams ps) ∧ ShadowInv (s.setPositionalParams ps) := by
  refine ⟨keepsAll_refl s, fun n => shadow_congr (fun u _ => ?_) (hS n)⟩
  simp only [VariableSet.setPositionalParams]
  rw [isVolatileAt_map, isVolatileAt_map, List.map_reverse, setFirstRegular_isRegular, ← List.map_reverse,
    List.reverse_reverse]

/-! ### every operation -/

theorem step_shadow {s : VariableSet} (h : Norm s) (hS : ShadowInv s) (op : Op) : ShadowInv (s.step op).1 := by
  cases op with
  | push c => exact (push_ro h hS c).2
  | pop => exact pop_shadow h hS
  | getOrNew n sc =>
    simp only [VariableSet.step]
    cases hg : s.getOrNew n sc with
    | none => exact hS
    | some s1 => exact (getOrNew_ro h hS n sc s1 hg).2
  | assign n sc v loc => exact (stepM_ro h hS n sc _ (frozen_assign v loc) _).2
  | «export» n sc b => exact (stepM_ro h hS n sc _ (frozen_export b) (fun _ => .done)).2
  | readonly n sc loc => exact (stepM_ro h hS n sc _ (frozen_makeReadOnly loc) (fun _ => .done)).2
  | unset n sc =>
    have := (unset_ro h hS n sc).2
    simp only [VariableSet.step]
    cases hm : s.unset n sc with
    | mk s1 r1 => rw [hm] at this; cases r1 <;> exact this
  | setParams ps => exact (setParams_ro hS ps).2
  | quirk n sc q => exact (stepM_ro h hS n sc _ (frozen_setQuirk q) (fun _ => .done)).2

theorem step_keeps {s : VariableSet} (h : Norm s) (hS : ShadowInv s) (op : Op) (hop : op ≠ .pop) :
    KeepsAll s (s.step op).1 := by
  cases op with
  | push c => exact (push_ro h hS c).1
  | pop => exact absurd rfl hop
  | getOrNew n sc =>
    simp only [VariableSet.step]
    cases hg : s.getOrNew n sc with
    | none => exact keepsAll_refl s
    | some s1 => exact (getOrNew_ro h hS n sc s1 hg).1
  | assign n sc v loc => exact (stepM_ro h hS n sc _ (frozen_assign v loc) _).1
  | «export» n sc b => exact (stepM_ro h hS n sc _ (frozen_export b) (fun _ => .done)).1
  | readonly n sc loc => exact (stepM_ro h hS n sc _ (frozen_makeReadOnly loc) (fun _ => .done)).1
  | unset n sc =>
    have := (unset_ro h hS n sc).1
    simp only [VariableSet.step]
    cases hm : s.unset n sc with
    | mk s1 r1 => rw [hm] at this; cases r1 <;> exact this
  | setParams ps => exact (setParams_ro hS ps).1
  | quirk n sc q => exact (stepM_ro h hS n sc _ (frozen_setQuirk q) (fun _ => .done)).1

theorem run_shadow {s : VariableSet} (h : Norm s) (hS : ShadowInv s) (ops : List Op) :
    Norm (s.run ops) ∧ ShadowInv (s.run ops) := by
  induction ops generalizing s with
  | nil => exact ⟨h, hS⟩
  | cons op ops ih => exact ih (step_abs h op).2.2 (step_shadow h hS op)

end YashModel.Variable
