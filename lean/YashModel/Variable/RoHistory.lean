/-
  C16 (wave 3, third pass) — helper lemmas: a read-only instance that lives in a *regular* context
  stays in place — same context index, same value, same read-only location — under every operation
  except the pop of its own context.  (An instance in a volatile context is a copy, `Shadow`; a
  `get_or_new(Global|Local)` may merge it into the regular instance it was copied from, which is what
  `readonly_immutable` describes.)  Property theorems: `Theorems.lean`.
-/
import YashModel.Variable.RoPaths
namespace YashModel.Variable

/-- the stack (read from the top) keeps a read-only instance in the context of `w`, with the value
    and the mark of `w` -/
def KeepsAt (r : List VIC) (w : VIC) : Prop :=
  ∃ e ∈ r, e.ctx = w.ctx ∧ e.var.isReadOnly = true ∧ SameRO e.var w.var

theorem keepsAt_self {r : List VIC} {w : VIC} (hw : w ∈ r) (hro : w.var.isReadOnly = true) : KeepsAt r w :=
  ⟨w, hw, rfl, hro, rfl, rfl⟩

theorem lowerLoop_keepsAt (cs : List Context) (target : Nat) (r : List VIC) (carried : Option Variable)
    (hs : Shadow cs r)
    (hc : ∀ c, carried = some c → ∀ v, r.head? = some v → v.var.isReadOnly = true → SameRO c v.var)
    (w : VIC) (hw : w ∈ r) (hro : w.var.isReadOnly = true) (hreg : isVolatileAt cs w.ctx = false) :
    KeepsAt (lowerLoop cs target r carried) w := by
  induction r generalizing carried with
  | nil => cases hw
  | cons v r ih =>
    simp only [lowerLoop]
    split
    · exact keepsAt_self (List.mem_cons_of_mem _ hw) hro
    · split
      · rename_i hvol
        have hc' : ∀ c, some (carried.getD v.var) = some c → ∀ x, r.head? = some x →
            x.var.isReadOnly = true → SameRO c x.var := by
          intro c hce x hx hxro
          cases r with
          | nil => cases hx
          | cons y rest =>
            simp only [List.head?_cons, Option.some.injEq] at hx; subst hx
            have hvy := hs.1 hvol hxro
            have hvro : v.var.isReadOnly = true := by
              unfold Variable.isReadOnly at hxro ⊢; rw [hvy.2]; exact hxro
            cases carried with
            | none => simp at hce; subst hce; exact hvy
            | some c0 =>
              simp at hce; subst hce
              have := hc c0 rfl v rfl hvro
              exact ⟨this.1.trans hvy.1, this.2.trans hvy.2⟩
        rcases List.mem_cons.mp hw with rfl | hw'
        · rw [hreg] at hvol; cases hvol
        · exact ih _ (shadow_tail hs) hc' hw'
      · rcases List.mem_cons.mp hw with rfl | hw'
        · cases carried with
          | none => exact ⟨⟨w.var, w.ctx⟩, by simp, rfl, hro, rfl, rfl⟩
          | some c0 =>
            have hm := hc c0 rfl w rfl hro
            exact ⟨⟨c0, w.ctx⟩, by simp, rfl, sameRO_ro hm hro, hm⟩
        · exact keepsAt_self (by simp [hw']) hro

theorem volatileBranch_keepsAt (ci : Nat) (r : List VIC) (w : VIC) (hw : w ∈ r) (hro : w.var.isReadOnly = true) :
    KeepsAt (volatileBranch ci r) w := by
  cases r with
  | nil => cases hw
  | cons v r =>
    simp only [volatileBranch]
    split
    · exact keepsAt_self (List.mem_cons_of_mem _ hw) hro
    · exact keepsAt_self hw hro

theorem modifyHead_keepsAt (f : Variable → Variable) (hf : Frozen f) (r : List VIC) (w : VIC) (hw : w ∈ r)
    (hro : w.var.isReadOnly = true) : KeepsAt (modifyHead f r) w := by
  cases r with
  | nil => cases hw
  | cons u r =>
    rcases List.mem_cons.mp hw with rfl | hw'
    · exact ⟨⟨f w.var, w.ctx⟩, by simp [modifyHead], rfl, sameRO_ro (hf _ hro) hro, hf _ hro⟩
    · exact keepsAt_self (by simp [modifyHead, hw']) hro

/-- every read-only instance of `s` in a regular context has, in `s'`, a read-only instance in the
    same context with the same value and mark -/
def KeepsReg (s s' : VariableSet) : Prop :=
  ∀ n e, e ∈ s.all n → e.var.isReadOnly = true → isVolatileAt s.contexts e.ctx = false →
    ∃ e' ∈ s'.all n, e'.ctx = e.ctx ∧ e'.var.isReadOnly = true ∧ SameRO e'.var e.var

theorem keepsReg_refl (s : VariableSet) : KeepsReg s s := fun _ e he hro _ => ⟨e, he, rfl, hro, rfl, rfl⟩

theorem keepsReg_trans {a b c : VariableSet} (hcx : b.contexts = a.contexts) (h1 : KeepsReg a b)
    (h2 : KeepsReg b c) : KeepsReg a c := by
  intro n e he hro hreg
  obtain ⟨e1, he1, hc1, hro1, hs1⟩ := h1 n e he hro hreg
  obtain ⟨e2, he2, hc2, hro2, hs2⟩ := h2 n e1 he1 hro1 (by rw [hcx, hc1]; exact hreg)
  exact ⟨e2, he2, hc2.trans hc1, hro2, hs2.1.trans hs1.1, hs2.2.trans hs1.2⟩

theorem keepsReg_setStack (s : VariableSet) (n : Name) (st' : List VIC)
    (h : ∀ e ∈ (s.all n).reverse, e.var.isReadOnly = true → isVolatileAt s.contexts e.ctx = false →
      KeepsAt st'.reverse e) : KeepsReg s (s.setStack n st') := by
  intro m e he hro hreg
  simp only [VariableSet.setStack]
  by_cases hm : m = n
  · subst hm
    obtain ⟨e', he', h1, h2, h3⟩ := h e (by simpa using he) hro hreg
    exact ⟨e', by simpa using he', h1, h2, h3⟩
  · simp only [if_neg hm]; exact ⟨e, he, rfl, hro, rfl, rfl⟩

theorem getOrNew_contexts {s s1 : VariableSet} {n : Name} {sc : Scope} (hg : s.getOrNew n sc = some s1) :
    s1.contexts = s.contexts := by
  unfold VariableSet.getOrNew at hg
  cases sc with
  | global => simp only [Option.some.injEq] at hg; subst hg; rfl
  | loc => simp only [Option.some.injEq] at hg; subst hg; rfl
  | volatile =>
    simp only at hg
    split at hg
    · simp only [Option.some.injEq] at hg; subst hg; rfl
    · cases hg

theorem getOrNew_keepsReg {s : VariableSet} (hS : ShadowInv s) (n : Name) (scope : Scope)
    (s' : VariableSet) (hg : s.getOrNew n scope = some s') : KeepsReg s s' := by
  cases scope with
  | global =>
    simp only [VariableSet.getOrNew, Option.some.injEq] at hg; subst hg
    refine keepsReg_setStack s n _ ?_
    intro e he hro hreg; rw [List.reverse_reverse]
    exact lowerLoop_keepsAt _ _ _ _ (hS n) (fun c hc => by cases hc) e he hro hreg
  | loc =>
    simp only [VariableSet.getOrNew, Option.some.injEq] at hg; subst hg
    refine keepsReg_setStack s n _ ?_
    intro e he hro hreg; rw [List.reverse_reverse]
    exact lowerLoop_keepsAt _ _ _ _ (hS n) (fun c hc => by cases hc) e he hro hreg
  | volatile =>
    simp only [VariableSet.getOrNew] at hg
    split at hg
    · simp only [Option.some.injEq] at hg; subst hg
      refine keepsReg_setStack s n _ ?_
      intro e he hro _; rw [List.reverse_reverse]; exact volatileBranch_keepsAt _ _ e he hro
    · cases hg

theorem modifyLast_keepsReg (s : VariableSet) (n : Name) (f : Variable → Variable) (hf : Frozen f) :
    KeepsReg s (s.modifyLast n f) := by
  refine keepsReg_setStack s n _ ?_
  intro e he hro _; rw [List.reverse_reverse]; exact modifyHead_keepsAt f hf _ e he hro

theorem stepM_keepsReg {s : VariableSet} (hS : ShadowInv s) (n : Name) (sc : Scope)
    (f : Variable → Variable) (hf : Frozen f) (resM : VariableSet → Res) :
    KeepsReg s (stepM s n sc f resM).1 ∧ (stepM s n sc f resM).1.contexts = s.contexts := by
  unfold stepM
  cases hg : s.getOrNew n sc with
  | none => exact ⟨keepsReg_refl s, rfl⟩
  | some s1 =>
    have hc := getOrNew_contexts hg
    exact ⟨keepsReg_trans hc (getOrNew_keepsReg hS n sc s1 hg) (modifyLast_keepsReg s1 n f hf), hc⟩

theorem unset_keepsReg {s : VariableSet} (h : Norm s) (n : Name) (scope : Scope) :
    KeepsReg s (s.unset n scope).1 ∧ (s.unset n scope).1.contexts = s.contexts := by
  obtain ⟨hB, hA⟩ := slice_reverse (s.all n) (indexOfContext scope s.contexts) (h.sorted n)
  simp only [VariableSet.unset, hB]
  cases hf : ((s.all n).reverse.takeWhile (fun v => decide (indexOfContext scope s.contexts ≤ v.ctx))).find?
      (fun v => v.var.isReadOnly) with
  | some vic => exact ⟨keepsReg_refl s, rfl⟩
  | none =>
    refine ⟨keepsReg_setStack s n _ ?_, rfl⟩
    intro e he hro _
    rw [hA]
    refine keepsAt_self ?_ hro
    have hsplit := List.takeWhile_append_dropWhile
      (p := fun v : VIC => decide (indexOfContext scope s.contexts ≤ v.ctx)) (l := (s.all n).reverse)
    rw [← hsplit] at he
    rcases List.mem_append.mp he with h1 | h2
    · exact absurd hro (by simpa using List.find?_eq_none.mp hf e h1)
    · exact h2

/-- every operation that is neither `push` nor `pop`: read-only instances of regular contexts stay in
    place, and no context changes its kind -/
theorem step_keepsReg {s : VariableSet} (h : Norm s) (hS : ShadowInv s) (op : Op)
    (hpush : ∀ c, op ≠ .push c) (hpop : op ≠ .pop) :
    KeepsReg s (s.step op).1 ∧
    (s.step op).1.contexts.map Context.isRegular = s.contexts.map Context.isRegular := by
  cases op with
  | push c => exact absurd rfl (hpush c)
  | pop => exact absurd rfl hpop
  | getOrNew n sc =>
    simp only [VariableSet.step]
    cases hg : s.getOrNew n sc with
    | none => exact ⟨keepsReg_refl s, rfl⟩
    | some s1 => exact ⟨getOrNew_keepsReg hS n sc s1 hg, by rw [getOrNew_contexts hg]⟩
  | assign n sc v loc =>
    obtain ⟨h1, h2⟩ := stepM_keepsReg hS n sc _ (frozen_assign v loc) (fun s1 => assignRes ((s1.get n).getD {}))
    exact ⟨h1, by rw [show (s.step (.assign n sc v loc)).1.contexts = s.contexts from h2]⟩
  | «export» n sc b =>
    obtain ⟨h1, h2⟩ := stepM_keepsReg hS n sc _ (frozen_export b) (fun _ => .done)
    exact ⟨h1, by rw [show (s.step (.export n sc b)).1.contexts = s.contexts from h2]⟩
  | readonly n sc loc =>
    obtain ⟨h1, h2⟩ := stepM_keepsReg hS n sc _ (frozen_makeReadOnly loc) (fun _ => .done)
    exact ⟨h1, by rw [show (s.step (.readonly n sc loc)).1.contexts = s.contexts from h2]⟩
  | quirk n sc q =>
    obtain ⟨h1, h2⟩ := stepM_keepsReg hS n sc _ (frozen_setQuirk q) (fun _ => .done)
    exact ⟨h1, by rw [show (s.step (.quirk n sc q)).1.contexts = s.contexts from h2]⟩
  | unset n sc =>
    obtain ⟨h1, h2⟩ := unset_keepsReg h n sc
    simp only [VariableSet.step]
    cases hm : s.unset n sc with
    | mk s1 r1 => rw [hm] at h1 h2; cases r1 <;> exact ⟨h1, by rw [show s1.contexts = s.contexts from h2]⟩
  | setParams ps =>
    refine ⟨keepsReg_refl s, ?_⟩
    simp only [VariableSet.step, VariableSet.setPositionalParams]
    rw [List.map_reverse, setFirstRegular_isRegular, ← List.map_reverse, List.reverse_reverse]

/-! ### whole histories -/

/-- the context with index `k` is not popped by the history (`len` = number of contexts at its
    start; popping the base context is not possible) -/
def survives (k : Nat) : Nat → List Op → Bool
  | _, [] => true
  | len, .push _ :: r => survives k (len + 1) r
  | len, .pop :: r => if len ≤ 1 then survives k len r else decide (k < len - 1) && survives k (len - 1) r
  | len, _ :: r => survives k len r

theorem survives_base (len : Nat) (ops : List Op) : survives 0 len ops = true := by
  induction ops generalizing len with
  | nil => rfl
  | cons op r ih =>
    cases op <;> simp only [survives, ih]
    split
    · rfl
    · rename_i h; simp; omega

theorem isVolatileAt_of_kinds {cs cs' : List Context} (h : cs'.map Context.isRegular = cs.map Context.isRegular)
    (k : Nat) : isVolatileAt cs' k = isVolatileAt cs k := by
  rw [isVolatileAt_map, isVolatileAt_map, h]

/-- one induction over the history: a read-only instance in a regular context whose context is not
    popped is, at the end, still there — same context, same value, same read-only location -/
theorem run_keepsReg (ops : List Op) (s : VariableSet) (h : Good s) (n : Name) (e : VIC)
    (he : e ∈ s.all n) (hro : e.var.isReadOnly = true) (hreg : isVolatileAt s.contexts e.ctx = false)
    (hsv : survives e.ctx s.contexts.length ops = true) :
    ∃ e' ∈ (s.run ops).all n, e'.ctx = e.ctx ∧ e'.var.isReadOnly = true ∧ SameRO e'.var e.var ∧
      isVolatileAt (s.run ops).contexts e.ctx = false := by
  induction ops generalizing s e with
  | nil => exact ⟨e, he, rfl, hro, ⟨rfl, rfl⟩, hreg⟩
  | cons op r ih =>
    have hG' := step_good h op
    have hb := h.1.bounded n e he
    simp only [VariableSet.run]
    -- the instance after this step
    have key : ∃ e1 ∈ (s.step op).1.all n, e1.ctx = e.ctx ∧ e1.var.isReadOnly = true ∧ SameRO e1.var e.var ∧
        isVolatileAt (s.step op).1.contexts e.ctx = false ∧
        survives e.ctx (s.step op).1.contexts.length r = true := by
      cases op with
      | push c =>
        refine ⟨e, he, rfl, hro, ⟨rfl, rfl⟩, ?_, ?_⟩
        · simp only [VariableSet.step, VariableSet.pushContext, isVolatileAt]
          rw [List.getElem?_append_left hb]; exact hreg
        · simpa [VariableSet.step, VariableSet.pushContext, survives] using hsv
      | pop =>
        simp only [survives] at hsv
        by_cases hl : s.contexts.length ≤ 1
        · have hp : (s.step .pop).1 = s := by simp [VariableSet.step, VariableSet.popContext, hl]
          rw [hp]
          exact ⟨e, he, rfl, hro, ⟨rfl, rfl⟩, hreg, by simpa [hl] using hsv⟩
        · simp only [hl, if_false, Bool.and_eq_true, decide_eq_true_eq] at hsv
          refine ⟨e, pop_keeps_lower s n e he (by omega), rfl, hro, ⟨rfl, rfl⟩, ?_, ?_⟩
          · simp only [VariableSet.step, VariableSet.popContext, hl, if_false, isVolatileAt]
            rw [List.getElem?_dropLast]
            simp only [hsv.1, if_true]; exact hreg
          · simpa [VariableSet.step, VariableSet.popContext, hl] using hsv.2
      | getOrNew m sc =>
        obtain ⟨hk, hkinds⟩ := step_keepsReg h.1 h.2 (.getOrNew m sc) (fun _ => by simp) (by simp)
        obtain ⟨e1, he1, hc1, hro1, hs1⟩ := hk n e he hro hreg
        have hlen := congrArg List.length hkinds
        simp only [List.length_map] at hlen
        exact ⟨e1, he1, hc1, hro1, hs1, by rw [isVolatileAt_of_kinds hkinds]; exact hreg,
          by rw [hlen]; simpa [survives] using hsv⟩
      | assign m sc v l =>
        obtain ⟨hk, hkinds⟩ := step_keepsReg h.1 h.2 (.assign m sc v l) (fun _ => by simp) (by simp)
        obtain ⟨e1, he1, hc1, hro1, hs1⟩ := hk n e he hro hreg
        have hlen := congrArg List.length hkinds
        simp only [List.length_map] at hlen
        exact ⟨e1, he1, hc1, hro1, hs1, by rw [isVolatileAt_of_kinds hkinds]; exact hreg,
          by rw [hlen]; simpa [survives] using hsv⟩
      | «export» m sc b =>
        obtain ⟨hk, hkinds⟩ := step_keepsReg h.1 h.2 (.export m sc b) (fun _ => by simp) (by simp)
        obtain ⟨e1, he1, hc1, hro1, hs1⟩ := hk n e he hro hreg
        have hlen := congrArg List.length hkinds
        simp only [List.length_map] at hlen
        exact ⟨e1, he1, hc1, hro1, hs1, by rw [isVolatileAt_of_kinds hkinds]; exact hreg,
          by rw [hlen]; simpa [survives] using hsv⟩
      | readonly m sc l =>
        obtain ⟨hk, hkinds⟩ := step_keepsReg h.1 h.2 (.readonly m sc l) (fun _ => by simp) (by simp)
        obtain ⟨e1, he1, hc1, hro1, hs1⟩ := hk n e he hro hreg
        have hlen := congrArg List.length hkinds
        simp only [List.length_map] at hlen
        exact ⟨e1, he1, hc1, hro1, hs1, by rw [isVolatileAt_of_kinds hkinds]; exact hreg,
          by rw [hlen]; simpa [survives] using hsv⟩
      | unset m sc =>
        obtain ⟨hk, hkinds⟩ := step_keepsReg h.1 h.2 (.unset m sc) (fun _ => by simp) (by simp)
        obtain ⟨e1, he1, hc1, hro1, hs1⟩ := hk n e he hro hreg
        have hlen := congrArg List.length hkinds
        simp only [List.length_map] at hlen
        exact ⟨e1, he1, hc1, hro1, hs1, by rw [isVolatileAt_of_kinds hkinds]; exact hreg,
          by rw [hlen]; simpa [survives] using hsv⟩
      | setParams ps =>
        obtain ⟨hk, hkinds⟩ := step_keepsReg h.1 h.2 (.setParams ps) (fun _ => by simp) (by simp)
        obtain ⟨e1, he1, hc1, hro1, hs1⟩ := hk n e he hro hreg
        have hlen := congrArg List.length hkinds
        simp only [List.length_map] at hlen
        exact ⟨e1, he1, hc1, hro1, hs1, by rw [isVolatileAt_of_kinds hkinds]; exact hreg,
          by rw [hlen]; simpa [survives] using hsv⟩
      | quirk m sc q =>
        obtain ⟨hk, hkinds⟩ := step_keepsReg h.1 h.2 (.quirk m sc q) (fun _ => by simp) (by simp)
        obtain ⟨e1, he1, hc1, hro1, hs1⟩ := hk n e he hro hreg
        have hlen := congrArg List.length hkinds
        simp only [List.length_map] at hlen
        exact ⟨e1, he1, hc1, hro1, hs1, by rw [isVolatileAt_of_kinds hkinds]; exact hreg,
          by rw [hlen]; simpa [survives] using hsv⟩
    obtain ⟨e1, he1, hc1, hro1, hs1, hreg1, hsv1⟩ := key
    obtain ⟨e2, he2, hc2, hro2, hs2, hreg2⟩ := ih (s.step op).1 hG' e1 he1 hro1 (by rw [hc1]; exact hreg1)
      (by rw [hc1]; exact hsv1)
    exact ⟨e2, he2, hc2.trans hc1, hro2, ⟨hs2.1.trans hs1.1, hs2.2.trans hs1.2⟩, by rw [← hc1]; exact hreg2⟩

end YashModel.Variable
