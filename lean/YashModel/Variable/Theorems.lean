/-
  C16 — property theorems (and non-vacuity examples) ONLY.  Helper lemmas: `Lemmas.lean`,
  `Columns.lean`, `Ops.lean`, `Refine.lean`, `Steps.lean`, `ReadOnly.lean`, `RoSteps.lean`, `Lifetime.lean`, `Builtins.lean`, `Sim.lean`,
  `Quirks.lean`, `Frame.lean` (extension round), `FrameG.lean`, `BuiltinGlue.lean`, `RoPaths.lean` (wave 3).

  Property text: "For every history of assignments, temporary assignments, function calls and
  returns, local declarations, exports, read-only marks and unsets, looking up a variable returns
  the value from the innermost visible scope: […] locals and a function's positional parameters
  vanish at return while globals assigned inside persist, a read-only variable is never modified or
  unset by any means, and the environment handed to executed programs is exactly the exported
  variables with their current values."

  `VariableSet` (Model.lean) is the transcription of the Rust data structure (one stack per name,
  indexed by context number); `SSet` (Spec.lean) is a plain stack of maps; `abs` transposes the
  former into the latter.  All theorems are for every normalised set / every history, any number of
  contexts and names.
-/
import YashModel.Variable.Prefix
import YashModel.Variable.Observe
import YashModel.Variable.Frame
import YashModel.Variable.FrameG
import YashModel.Variable.BuiltinGlue
import YashModel.Variable.RoPaths
import YashModel.Variable.RoHistory
import YashModel.Variable.TypesetBridge
namespace YashModel.Variable

/-! ### the normal form is an invariant -/

/-- ★ the initial set is normalised -/
theorem norm_init : Norm VariableSet.new :=
  ⟨fun _ => List.Pairwise.nil, fun _ _ h => (by cases h), ⟨[], [], rfl⟩⟩

/-- ★ `norm_preserved`: every operation keeps the per-name context indices strictly increasing and
    below the number of contexts (`assert_normalized` of the Rust tests), and the base regular -/
theorem norm_preserved (s : VariableSet) (op : Op) (h : Norm s) : Norm (s.step op).1 :=
  (step_abs h op).2.2

/-- ★ hence every reachable set is normalised -/
theorem norm_reachable (ops : List Op) : Norm (VariableSet.new.run ops) :=
  (run_abs norm_init ops).2

/-! ### reads -/

/-- ★ `get_refines`: `get` returns the variable of the topmost context that defines the name -/
theorem get_refines (s : VariableSet) (h : Norm s) (n : Name) : s.get n = lookup (abs s) n :=
  get_abs h n

/-- ★ `get_scoped` is the same lookup restricted to the contexts of the scope -/
theorem getScoped_refines (s : VariableSet) (h : Norm s) (n : Name) (scope : Scope) :
    s.getScoped n scope = (abs s).getScoped n scope :=
  getScoped_abs h n scope

/-- ★ `iter_refines`: iteration yields exactly the visible variables defined within the scope
    (for whatever finite set of keys the hash map holds) -/
theorem iter_refines (s : VariableSet) (h : Norm s) (scope : Scope) (names : List Name) :
    s.iter scope names = (abs s).iter scope names := by
  unfold VariableSet.iter SSet.iter
  congr 1
  funext n
  rw [← getScoped_abs h n scope]
  unfold VariableSet.getScoped
  cases (s.all n).getLast? with
  | none => rfl
  | some v => by_cases hv : indexOfContext scope s.contexts ≤ v.ctx <;> simp [Option.filter, hv]

/-- ★ `env_refines`: the environment is computed from the visible variables -/
theorem env_refines (s : VariableSet) (h : Norm s) (names : List Name) :
    s.env names = (abs s).env names := by
  unfold VariableSet.env SSet.env
  congr 1
  funext n
  rw [get_abs h n]

/-- ★ … and it is *exactly* the exported visible variables with their current values: `name=x` is
    in the environment iff the variable visible under `name` (topmost defining context) is
    exported, has a value whose text is `x`, and the pair can be passed at all (no `=` in the name,
    no NUL) -/
theorem env_exact (s : VariableSet) (h : Norm s) (names : List Name) (n : Name) (x : String) :
    (n, x) ∈ s.env names ↔
      n ∈ names ∧ ∃ v, lookup (abs s) n = some v ∧ v.exported = true ∧
        (∃ val, v.value = some val ∧ x = valueString val) ∧
        n.toList.any (· == '=') = false ∧ hasNul n = false ∧ hasNul x = false := by
  rw [env_refines s h]
  unfold SSet.env
  simp only [List.mem_filterMap]
  constructor
  · rintro ⟨m, hm, he⟩
    cases hl : lookup (abs s) m with
    | none => simp [hl] at he
    | some v =>
      simp only [hl, Option.bind_some] at he
      have := envEntry_some he
      obtain ⟨rfl, rest⟩ := this
      exact ⟨hm, v, hl, rest⟩
  · rintro ⟨hn, v, hl, he, ⟨val, hv, hx⟩, h1, h2, h3⟩
    refine ⟨n, hn, ?_⟩
    simp only [hl, Option.bind_some]
    exact envEntry_of he hv hx h1 h2 h3

/-- `get_scalar` reads the visible variable -/
theorem getScalar_refines (s : VariableSet) (h : Norm s) (n : Name) : s.getScalar n = (abs s).getScalar n := by
  unfold VariableSet.getScalar SSet.getScalar; rw [get_abs h n]

/-- `extend_env` (import of the process environment): same abstract state, normal form kept -/
theorem extendEnv_refines (ps : List (Name × String)) (s : VariableSet) (h : Norm s) :
    abs (s.extendEnv ps) = (abs s).extendEnv ps ∧ Norm (s.extendEnv ps) := by
  induction ps generalizing s with
  | nil => exact ⟨rfl, h⟩
  | cons p t ih =>
    obtain ⟨n, v⟩ := p
    have h1 := step_abs h (.assign n .global (.scalar v) none)
    have key : abs (s.extendEnv1 n v) = (abs s).extendEnv1 n v ∧ Norm (s.extendEnv1 n v) := by
      unfold VariableSet.extendEnv1 SSet.extendEnv1
      cases hm : s.step (.assign n .global (.scalar v) none) with
      | mk s1 r =>
        cases hs : (abs s).step (.assign n .global (.scalar v) none) with
        | mk X1 q =>
          rw [hm, hs] at h1
          obtain ⟨e1, e2, hN1⟩ := h1
          simp only at e1 e2 hN1
          subst e2
          have h2 := step_abs hN1 (.export n .global true)
          cases r <;> simp only [] <;> first | exact ⟨e1, hN1⟩ | (rw [← e1]; exact ⟨h2.1, h2.2.2⟩)
    simp only [VariableSet.extendEnv, SSet.extendEnv]
    rw [← key.1]
    exact ih _ key.2

/-- the positional parameters are those of the topmost regular context -/
theorem positionalParams_refines (s : VariableSet) : s.positionalParams = (abs s).positionalParams :=
  positionalParams_abs s

/-! ### updates commute with the abstraction -/

/-- ★ `push_refines` -/
theorem push_refines (s : VariableSet) (h : Norm s) (c : Context) :
    abs (s.pushContext c) = (abs s).push c :=
  (push_abs h c).1

/-- ★ `pop_refines`: popping forgets exactly the variables of the popped context; everything that
    was hidden by them is visible again -/
theorem pop_refines (s : VariableSet) (h : Norm s) : abs s.popContext = (abs s).pop :=
  (pop_abs h).1

/-- ★ `getOrNew_refines` (all three scopes, including the migration of volatile variables to the
    target regular context and the documented panic of `Volatile` without a volatile context) -/
theorem getOrNew_refines (s : VariableSet) (h : Norm s) (n : Name) (scope : Scope) :
    (s.getOrNew n scope).map abs = (abs s).getOrNew n scope :=
  (getOrNew_abs h n scope).1

/-- ★ `assign_refines`: `get_or_new` in any scope followed by assignment (with read-only refusal),
    export or read-only marking, including the value returned to the caller -/
theorem assign_refines (s : VariableSet) (h : Norm s) (n : Name) (scope : Scope) (v : Value) (loc : Option Nat) :
    abs (s.step (.assign n scope v loc)).1 = ((abs s).step (.assign n scope v loc)).1 ∧
    (s.step (.assign n scope v loc)).2 = ((abs s).step (.assign n scope v loc)).2 :=
  ⟨(step_abs h _).1, (step_abs h _).2.1⟩

/-- ★ `unset_refines`, full strength for `Global`, `Local` and `Volatile`: same state, same result
    (the removed variable or the read-only refusal) -/
theorem unset_refines (s : VariableSet) (h : Norm s) (n : Name) (scope : Scope) :
    abs (s.unset n scope).1 = ((abs s).unset n scope).1 ∧
    (s.unset n scope).2 = ((abs s).unset n scope).2 :=
  ⟨(unset_abs h n scope).1, (unset_abs h n scope).2.1⟩

/-- ★ every operation: same abstract state, same result -/
theorem step_refines (s : VariableSet) (h : Norm s) (op : Op) :
    abs (s.step op).1 = ((abs s).step op).1 ∧ (s.step op).2 = ((abs s).step op).2 :=
  ⟨(step_abs h op).1, (step_abs h op).2.1⟩

/-- ★ every history, of any length: the Rust structure and the stack of maps stay in step -/
theorem run_refines (ops : List Op) : abs (VariableSet.new.run ops) = SSet.run SSet.new ops := by
  have h0 : abs VariableSet.new = SSet.new := by
    simp [abs, VariableSet.new, absRev, SSet.new, cellAt]
  rw [← h0]
  have : ∀ (ops : List Op) (s : VariableSet), Norm s → abs (s.run ops) = SSet.run (abs s) ops := by
    intro ops
    induction ops with
    | nil => intro s _; rfl
    | cons op ops ih =>
      intro s hs
      simp only [VariableSet.run, SSet.run]
      rw [ih _ (step_abs hs op).2.2, (step_abs hs op).1]
  exact this ops _ norm_init

/-! ### read-only variables -/

/-- the auxiliary invariant (a volatile variable directly above a read-only instance of the same
    name is a copy of it) holds in every reachable set -/
theorem shadow_reachable (ops : List Op) : ShadowInv (VariableSet.new.run ops) :=
  (run_shadow norm_init (fun _ => trivial) ops).2

/-- ★ `readonly_immutable` (persistence): in every reachable set, for every operation other than
    popping a context, every read-only instance `(name, value)` — visible or hidden — has a read-only
    instance `(name, value)` with the same mark afterwards (it may have moved from a volatile to a
    regular context; nothing else can happen to it) -/
theorem readonly_immutable (ops : List Op) (op : Op) (hop : op ≠ .pop) (n : Name) (e : VIC)
    (he : e ∈ (VariableSet.new.run ops).all n) (hro : e.var.isReadOnly = true) :
    ∃ e' ∈ ((VariableSet.new.run ops).step op).1.all n,
      e'.var.isReadOnly = true ∧ e'.var.value = e.var.value ∧ e'.var.readOnly = e.var.readOnly := by
  obtain ⟨hN, hS⟩ := run_shadow norm_init (fun _ => trivial) ops
  obtain ⟨e', he', h1, h2⟩ := step_keeps hN hS op hop n e he hro
  exact ⟨e', he', h1, h2.1, h2.2⟩

/-- ★ `readonly_immutable` (assignment): when the variable `get_or_new` hands out is read-only, the
    assignment is refused with its location and changes nothing -/
theorem readonly_assign_refused (s s1 : VariableSet) (n : Name) (sc : Scope) (v : Value) (loc : Option Nat)
    (hg : s.getOrNew n sc = some s1) (x : Variable) (l : Nat) (hx : s1.get n = some x)
    (hl : x.readOnly = some l) :
    (s.step (.assign n sc v loc)).2 = .readOnly l ∧
    ∀ m, (s.step (.assign n sc v loc)).1.all m = s1.all m := by
  simp only [VariableSet.step, hg, hx, Option.getD_some]
  refine ⟨by simp [assignRes, hl], fun m => ?_⟩
  simp only [VariableSet.modifyLast, VariableSet.setStack]
  split
  · rename_i hm; subst hm
    simp only [VariableSet.get] at hx
    rw [← List.head?_reverse] at hx
    cases hr : (s1.all m).reverse with
    | nil => simp [hr] at hx
    | cons u r =>
      simp only [hr, List.head?_cons, Option.map_some, Option.some.injEq] at hx
      have hu : u.var.assign v loc = u.var := by simp [Variable.assign, Variable.isReadOnly, hx, hl]
      simp only [modifyHead, hu]
      have : (⟨u.var, u.ctx⟩ : VIC) = u := rfl
      rw [this, ← hr, List.reverse_reverse]
  · rfl

/-- ★ `readonly_immutable` (unset): an `unset` that is refused removes nothing; and (through
    `unset_refines`) it is refused exactly when the Spec finds a read-only variable of the name in
    one of the contexts of the scope -/
theorem readonly_unset_refused (s : VariableSet) (n : Name) (scope : Scope) (l : Nat)
    (h : (s.unset n scope).2 = .readOnly l) : (s.unset n scope).1 = s := by
  simp only [VariableSet.unset] at h ⊢
  cases hf : ((s.all n).drop (partitionPoint (fun vic => decide (vic.ctx < indexOfContext scope s.contexts))
      (s.all n))).reverse.find? (fun vic => vic.var.isReadOnly) with
  | some vic => rfl
  | none => rw [hf] at h; cases h

/-- the Spec side of that: a read-only variable in any context of the scope makes `unset` fail -/
theorem spec_unset_touching_readonly_fails (X : SSet) (n : Name) (k j : Nat) (c : SCtx) (v : Variable)
    (hj : j < k) (hc : X[j]? = some c) (hv : c.vars n = some v) (hro : v.isReadOnly = true) :
    (firstReadOnly n k X).isSome = true := by
  induction X generalizing k j with
  | nil => simp at hc
  | cons d X ih =>
    cases k with
    | zero => omega
    | succ k =>
      cases j with
      | zero =>
        simp only [List.getElem?_cons_zero, Option.some.injEq] at hc; subst hc
        simp only [firstReadOnly, hv, hro, if_true]
        exact hro
      | succ j =>
        simp only [List.getElem?_cons_succ] at hc
        have := ih k j (by omega) hc
        simp only [firstReadOnly]
        cases hd : d.vars n with
        | none => exact this
        | some w =>
          by_cases hw : w.isReadOnly = true
          · simp only [hw, if_true]; exact hw
          · simp only [hw]; exact this

/-- ★ `readonly_immutable` for the whole `typeset` option family (coverage round): whatever the
    scope (`-g` or local), the attribute options (`-r -x -X +x +r`, in any order and number) and
    the operands (`m` or `m=v`, any number), running `typeset` in a reachable set keeps every
    read-only instance with its value and mark; in particular `+r` never cancels read-only-ness
    and a refused `m=v` changes nothing -/
theorem typeset_readonly_immutable (ops : List Op) (sc : Scope) (attrs operands : List String)
    (n : Name) (e : VIC) (he : e ∈ (VariableSet.new.run ops).all n) (hro : e.var.isReadOnly = true) :
    ∃ e' ∈ (operands.foldl (typesetField ifaceM sc attrs) (VariableSet.new.run ops)).all n,
      e'.var.isReadOnly = true ∧ e'.var.value = e.var.value ∧ e'.var.readOnly = e.var.readOnly := by
  have hG : Good (VariableSet.new.run ops) := run_shadow norm_init (fun _ => trivial) ops
  have : ∀ (operands : List String) (s : VariableSet), Good s →
      KeepsAll s (operands.foldl (typesetField ifaceM sc attrs) s) := by
    intro operands
    induction operands with
    | nil => intro s _; exact keepsAll_refl s
    | cons t rest ih =>
      intro s hs
      have h1 := typesetField_keeps sc attrs s t hs
      exact keepsAll_trans h1.1 (ih _ h1.2)
  obtain ⟨e', he', h1, h2⟩ := this operands _ hG n e he hro
  exact ⟨e', he', h1, h2.1, h2.2⟩

/-- `typeset +r -X x` on a read-only exported `x`: `+r` is an error and `-X` is skipped;
    `typeset -X +r x`: unexported, still read-only -/
example : ((applyAttrs ifaceM "x" .global ["+r", "-X"]
      (VariableSet.new.run [.assign "x" .global (.scalar "1") none, .export "x" .global true,
        .readonly "x" .global 7])).get "x")
    = some { value := some (.scalar "1"), exported := true, readOnly := some 7 } := by decide
example : ((applyAttrs ifaceM "x" .global ["-X", "+r"]
      (VariableSet.new.run [.assign "x" .global (.scalar "1") none, .export "x" .global true,
        .readonly "x" .global 7])).get "x")
    = some { value := some (.scalar "1"), exported := false, readOnly := some 7 } := by decide

/-! ### lifetime of temporary assignments, locals and positional parameters (Exec level)

  Commands are compiled to operations by `Exec.lean` (the scope choice of `perform_assignments` and
  the contexts pushed by `execute_builtin` / `execute_function` / `execute_external_utility`). -/

/-- ★ `temporary_assignment_lifetime` (regular built-in, external utility, command not found):
    assignments prefixed to such a command live in a volatile context and do not outlive it —
    whatever the command does through `Volatile`-scope accesses, afterwards the whole variable set
    is what it was before: every variable (visible or hidden), the environment, the positional
    parameters -/
theorem temporary_assignment_lifetime (s : VariableSet) (h : Norm s) (as : List (Name × Value))
    (body : List Op) (hb : ∀ op ∈ body, isTopVolOp op = true) :
    abs (s.run (regularCmd as body)) = abs s ∧
    (∀ n, (s.run (regularCmd as body)).get n = s.get n) ∧
    (∀ names, (s.run (regularCmd as body)).env names = s.env names) := by
  obtain ⟨ha, hN⟩ := run_abs_from h (regularCmd as body)
  have he : abs (s.run (regularCmd as body)) = abs s := by
    rw [ha]; exact spec_regularCmd _ (abs_ne_nil h) as body hb
  exact ⟨he, fun n => by rw [get_abs hN, get_abs h, he],
    fun names => by rw [env_refines _ hN, env_refines _ h, he]⟩

/-- ★ `temporary_assignment_lifetime` (function call): the assignments prefixed to the call, the
    locals declared in the body (`typeset`), local unsets and the function's positional parameters
    (`set --` included) all vanish at return -/
theorem function_call_lifetime (s : VariableSet) (h : Norm s) (as : List (Name × Value))
    (ps : List String) (body : List Op) (hb : ∀ op ∈ body, isTopRegOp op = true) :
    abs (s.run (functionCmd as ps body)) = abs s ∧
    (∀ n, (s.run (functionCmd as ps body)).get n = s.get n) ∧
    (s.run (functionCmd as ps body)).positionalParams = s.positionalParams := by
  obtain ⟨ha, hN⟩ := run_abs_from h (functionCmd as ps body)
  have he : abs (s.run (functionCmd as ps body)) = abs s := by
    rw [ha]; exact spec_functionCmd _ (abs_ne_nil h) as ps body hb
  exact ⟨he, fun n => by rw [get_abs hN, get_abs h, he],
    by rw [positionalParams_abs, positionalParams_abs s, he]⟩

/-- ★ `temporary_assignment_lifetime` (special built-in / assignment-only command): the assignment
    is made at `Global` scope in the current contexts, no context is popped afterwards, and the
    variable is visible with the new value (unless it is read-only, in which case it is unchanged) -/
theorem special_assignment_persists (s : VariableSet) (h : Norm s) (n : Name) (v : Value) (loc : Option Nat) :
    ∃ u, (s.step (.assign n .global v loc)).1.get n = some u ∧
      (u.isReadOnly = false → u.value = some v) := by
  obtain ⟨u, hu, hv⟩ := spec_special_persists (abs s) (baseReg_abs h) n v loc
  refine ⟨u, ?_, hv⟩
  rw [get_abs (step_abs h _).2.2, (step_abs h _).1]; exact hu

/-- ★ `temporary_assignment_lifetime` (globals assigned inside a function persist): a `Global`-scope
    assignment executed in a function body — even to a variable that also has a temporary
    assignment prefixed to the call — is visible with the new value after the function returned -/
theorem function_global_assignment_persists (s : VariableSet) (h : Norm s) (as : List (Name × Value))
    (ps : List String) (n : Name) (v : Value) (loc : Option Nat) :
    ∃ u, (s.run (functionCmd as ps [.assign n .global v loc])).get n = some u ∧
      (u.isReadOnly = false → u.value = some v) := by
  obtain ⟨ha, hN⟩ := run_abs_from h (functionCmd as ps [.assign n .global v loc])
  obtain ⟨u, hu, hv⟩ := spec_function_global_persists (abs s) (baseReg_abs h) as ps n v loc
  exact ⟨u, by rw [get_abs hN, ha]; exact hu, hv⟩

/-! ### end to end: what the driver prints for the model is what it prints for the Spec -/

/-- every component of the observation (results, `get`, `get_scoped`, `get_scalar`, the expansion of
    the visible variable, `iter` per scope, environment, positional parameters) is computed
    identically from the Rust model and from the stack of maps -/
theorem observeT_refines (s : VariableSet) (h : Norm s) (rs : String) (names : List Name) :
    observeMT s rs names = observeST (abs s) rs names := by
  unfold observeMT observeST
  have e1 : s.getScalar = (abs s).getScalar := funext fun n => getScalar_refines s h n
  have e2 : s.get = lookup (abs s) := funext fun n => get_abs h n
  have e3 : s.getScoped = (abs s).getScoped := funext fun n => funext fun sc => getScoped_abs h n sc
  have e4 : (fun sc => s.iter sc names) = fun sc => (abs s).iter sc names :=
    funext fun sc => iter_refines s h sc names
  rw [e1, e2, e3, e4, env_refines s h, positionalParams_abs]

theorem observe_refines (s : VariableSet) (h : Norm s) (r : Res) (names : List Name) :
    observeM s r names = observeS (abs s) r names :=
  observeT_refines s h (showRes r) names

/-- `VariableSet::init`: same abstract state as the same operations on the stack of maps, normal
    form kept -/
theorem init_refines (s : VariableSet) (h : Norm s) : abs s.init = (abs s).init ∧ Norm s.init :=
  run_abs_from h theInitOps

/-- the observations made while the guards still alive at the end of a case are dropped -/
theorem unwind_trace_refines (names : List Name) (k : Nat) (s : VariableSet) (h : Norm s) :
    (unwindGo names k s (abs s)).1 = (unwindGo names k s (abs s)).2 := by
  induction k generalizing s with
  | zero => rfl
  | succ k ih =>
    have h1 := step_abs h .pop
    simp only [unwindGo]
    rw [← h1.1, ← observeT_refines _ h1.2.2, ih _ h1.2.2]

/-- ★ end to end, API leg: for every history of the case language (any length, any names;
    operations, `extend_env`, `init`, `expand` at any location, and the final unwinding of the
    contexts) the driver's model column and Spec column are the same text — so `impl = model` on a
    case is `impl = stack of maps` on that case -/
theorem history_trace_refines (names : List Name) (items : List Item) :
    (historyGo names VariableSet.new SSet.new items [] []).1 =
    (historyGo names VariableSet.new SSet.new items [] []).2 := by
  have h0 : abs VariableSet.new = SSet.new := by simp [abs, VariableSet.new, absRev, SSet.new, cellAt]
  have : ∀ (items : List Item) (s : VariableSet) (acc : List String), Norm s →
      (historyGo names s (abs s) items acc acc).1 = (historyGo names s (abs s) items acc acc).2 := by
    intro items
    induction items with
    | nil =>
      intro s acc hs
      simp only [historyGo]
      rw [unwind_trace_refines names _ s hs]
    | cons it rest ih =>
      intro s acc hs
      cases it with
      | op op =>
        have h1 := step_abs hs op
        simp only [historyGo]
        rw [← h1.1, ← h1.2.1, ← observe_refines _ h1.2.2]
        exact ih _ _ h1.2.2
      | ee n v =>
        have h1 := extendEnv_refines [(n, v)] s hs
        simp only [VariableSet.extendEnv, SSet.extendEnv] at h1
        simp only [historyGo]
        rw [← h1.1, ← observe_refines _ h1.2]
        exact ih _ _ h1.2
      | init =>
        have h1 := init_refines s hs
        simp only [historyGo]
        rw [← h1.1, ← observe_refines _ h1.2]
        exact ih _ _ h1.2
      | xp n l =>
        simp only [historyGo]
        rw [← observeT_refines _ hs, get_abs hs n]
        exact ih _ _ hs
  rw [← h0]
  exact this items _ _ norm_init

/-- the Rust model and the Spec, as the script interpreter sees them, are in simulation -/
theorem simM : Sim (fun (s : VariableSet) (X : SSet) => Norm s ∧ abs s = X) ifaceM ifaceS where
  step := by
    rintro s X op ⟨hN, rfl⟩
    exact ⟨⟨(step_abs hN op).2.2, (step_abs hN op).1⟩, (step_abs hN op).2.1⟩
  get := by rintro s X n ⟨hN, rfl⟩; exact get_abs hN n
  getIn := by rintro s X n sc ⟨hN, rfl⟩; exact getScoped_abs hN n sc
  env := by rintro s X ns ⟨hN, rfl⟩; exact env_refines s hN ns
  params := by rintro s X ⟨_, rfl⟩; exact positionalParams_abs s

/-- ★ end to end, script leg: for every program of the statement language (any functions, any
    nesting, any fuel) the interpreter prints the same lines and ends the same way on the Rust
    model as on the stack of maps, and the final states correspond -/
theorem script_trace_refines (funs : List (String × List Stmt)) (fuel : Nat) (stmts : List Stmt) :
    (execStmts ifaceM funs fuel VariableSet.new stmts []).2 = (execStmts ifaceS funs fuel SSet.new stmts []).2 ∧
    abs (execStmts ifaceM funs fuel VariableSet.new stmts []).1 = (execStmts ifaceS funs fuel SSet.new stmts []).1 := by
  have h0 : abs VariableSet.new = SSet.new := by simp [abs, VariableSet.new, absRev, SSet.new, cellAt]
  have := execStmts_sim simM funs fuel VariableSet.new SSet.new stmts [] ⟨norm_init, h0⟩
  exact ⟨this.2, this.1.2⟩

/-! ### the Spec's own functions meet their declarative description -/

/-- `lookup` is "the topmost context that defines the name": it returns `v` iff some context holds
    `v` for the name and no context above it defines the name -/
theorem lookup_spec (X : SSet) (n : Name) (v : Variable) :
    lookup X n = some v ↔
      ∃ (i : Nat) (c : SCtx), X[i]? = some c ∧ c.vars n = some v ∧
        ∀ (j : Nat) (d : SCtx), j < i → X[j]? = some d → d.vars n = none := by
  induction X with
  | nil => simp [lookup]
  | cons c X ih =>
    simp only [lookup]
    cases hc : c.vars n with
    | some w =>
      constructor
      · intro h; cases h
        exact ⟨0, c, rfl, hc, fun j d hj => by omega⟩
      · rintro ⟨i, d, hi, hv, hab⟩
        cases i with
        | zero => simp at hi; subst hi; rw [hc] at hv; exact hv
        | succ i => have := hab 0 c (by omega) rfl; rw [hc] at this; cases this
    | none =>
      rw [ih]
      constructor
      · rintro ⟨i, d, hi, hv, hab⟩
        refine ⟨i + 1, d, by simpa using hi, hv, ?_⟩
        intro j e hj he
        cases j with
        | zero => simp at he; subst he; exact hc
        | succ j => exact hab j e (by omega) (by simpa using he)
      · rintro ⟨i, d, hi, hv, hab⟩
        cases i with
        | zero => simp at hi; subst hi; rw [hc] at hv; cases hv
        | succ i =>
          exact ⟨i, d, by simpa using hi, hv, fun j e hj he => hab (j + 1) e (by omega) (by simpa using he)⟩

/-- `eraseTop n k` removes the name from exactly the first `k` contexts and nothing else -/
theorem eraseTop_spec (n : Name) (k : Nat) (X : SSet) (i : Nat) (c : SCtx) (hi : X[i]? = some c) :
    ∃ d, (eraseTop n k X)[i]? = some d ∧ d.kind = c.kind ∧
      ∀ m, d.vars m = if m = n ∧ i < k then none else c.vars m := by
  induction X generalizing k i with
  | nil => simp at hi
  | cons e X ih =>
    cases k with
    | zero => exact ⟨c, by simpa [eraseTop] using hi, rfl, fun m => by simp⟩
    | succ k =>
      cases i with
      | zero =>
        simp at hi; subst hi
        exact ⟨e.set n none, by simp [eraseTop], rfl, fun m => by by_cases hm : m = n <;> simp [SCtx.set, hm]⟩
      | succ i =>
        obtain ⟨d, hd, hk, hv⟩ := ih k i (by simpa using hi)
        exact ⟨d, by simpa [eraseTop] using hd, hk, fun m => by rw [hv m]; simp⟩

/-- ★ a local declared in a function (`typeset NAME`, i.e. `get_or_new(NAME, Local)`) is a fresh
    variable — no value, not exported, not read-only — whatever temporary assignments the call
    carried and whatever the outer contexts hold; the temporary variable stays where it is and is
    visible again once the local's context is popped.  (The round-1 seeded change re-homed the
    temporary into the local.) -/
theorem local_declaration_is_fresh (s : VariableSet) (h : Norm s) (as : List (Name × Value))
    (ps : List String) (n : Name) :
    let inside := s.run (enterFunction as ps)
    (inside.step (.getOrNew n .loc)).1.get n = some {} ∧
    ((inside.step (.getOrNew n .loc)).1.step .pop).1.get n = (inside.step .pop).1.get n := by
  intro inside
  obtain ⟨ha, hN⟩ := run_abs_from h (enterFunction as ps)
  obtain ⟨cV, hin, hk, _⟩ := spec_enter_function (abs s) as ps
  have habs : abs inside = ⟨.regular ps, fun _ => none⟩ :: cV :: abs s := by rw [ha]; exact hin
  have h1 := step_abs hN (.getOrNew n .loc)
  have hne : abs s ≠ [] := abs_ne_nil h
  have hstep : ((abs inside).step (.getOrNew n .loc)).1
      = (⟨.regular ps, fun _ => none⟩ : SCtx).set n (some {}) :: cV :: abs s := by
    rw [habs]; simp [SSet.step, SSet.getOrNew, lower, Context.isRegular]
  refine ⟨?_, ?_⟩
  · rw [get_abs h1.2.2, h1.1, hstep]; simp [lookup, SCtx.set]
  · have h2 := step_abs h1.2.2 .pop
    have h3 := step_abs hN .pop
    rw [get_abs h2.2.2, h2.1, h1.1, hstep, get_abs h3.2.2, h3.1, habs]
    rfl

/-! ### built-in level clauses (the three seeded regressions of the evaluation rounds) -/

/-- ★ `readonly_builtin_is_global`: `readonly NAME` / `readonly NAME=VALUE` executed in a function
    body (called with any temporary assignments and arguments, from any normalised set — i.e. at any
    nesting depth) acts at `Global` scope: after the function has returned, the variable visible
    under NAME is read-only.  (With `Local` scope — the seeded change — the mark would be put on a
    fresh local and vanish with it.) -/
theorem readonly_builtin_is_global (s : VariableSet) (h : Norm s) (as : List (Name × Value))
    (ps : List String) (n : Name) (ov : Option Value) (loc : Nat) :
    ∃ u, (s.run (functionCmd as ps (readonlyOps n ov loc))).get n = some u ∧ u.isReadOnly = true := by
  obtain ⟨ha, hN⟩ := run_abs_from h (functionCmd as ps (readonlyOps n ov loc))
  have : ∃ first, readonlyOps n ov loc = [first, .readonly n .global loc] ∧
      (first = .getOrNew n .global ∨ ∃ v l, first = .assign n .global v l) := by
    cases ov with
    | none => exact ⟨_, rfl, Or.inl rfl⟩
    | some v => exact ⟨_, rfl, Or.inr ⟨v, none, rfl⟩⟩
  obtain ⟨first, hops, hfirst⟩ := this
  obtain ⟨u, hu, hro⟩ := spec_readonly_in_function (abs s) (baseReg_abs h) as ps n first loc hfirst
  exact ⟨u, by rw [get_abs hN, ha, hops]; exact hu, hro⟩

theorem pops_keep_nil (s : VariableSet) (n : Name) (hs : s.all n = []) (k : Nat) :
    ((s.run (List.replicate k Op.pop)).all n) = [] := by
  induction k generalizing s with
  | zero => exact hs
  | succ k ih =>
    simp only [List.replicate_succ, VariableSet.run]
    apply ih
    simp only [VariableSet.step, VariableSet.popContext]
    split
    · exact hs
    · simp [hs, popIf]

/-- ★ `unset_builtin_removes_all_visible`: when `unset NAME` (`Global` scope, as the built-in uses)
    succeeds, no context holds NAME any more — whichever contexts defined it (temporary, local,
    outer locals, global): NAME is not found now, nor after returning from any number of enclosing
    functions / commands -/
theorem unset_builtin_removes_all_visible (s : VariableSet) (n : Name) (old : Option Variable)
    (h : (s.step (.unset n .global)).2 = .unset old) (k : Nat) :
    (s.step (.unset n .global)).1.all n = [] ∧
    (((s.step (.unset n .global)).1.run (List.replicate k Op.pop)).get n) = none := by
  have hnil : (s.step (.unset n .global)).1.all n = [] := by
    have hp : partitionPoint (fun vic : VIC => decide (vic.ctx < indexOfContext .global s.contexts)) (s.all n) = 0 := by
      unfold partitionPoint; cases s.all n <;> simp [indexOfContext]
    simp only [VariableSet.step, VariableSet.unset, hp, List.drop_zero, List.take_zero] at h ⊢
    cases hf : (s.all n).reverse.find? (fun vic => vic.var.isReadOnly) with
    | some vic => rw [hf] at h; cases h
    | none => simp [VariableSet.setStack]
  refine ⟨hnil, ?_⟩
  have := pops_keep_nil _ n hnil k
  simp [VariableSet.get, this]

/-- ★ `unset` (any scope) is refused as soon as one instance within the scope is read-only, and then
    changes nothing (the model-level form of `spec_unset_touching_readonly_fails`) -/
theorem unset_touching_readonly_refused (s : VariableSet) (h : Norm s) (n : Name) (scope : Scope) (e : VIC)
    (he : e ∈ s.all n) (hin : indexOfContext scope s.contexts ≤ e.ctx) (hro : e.var.isReadOnly = true) :
    ∃ l, s.unset n scope = (s, .readOnly l) := by
  obtain ⟨hB, _⟩ := slice_reverse (s.all n) (indexOfContext scope s.contexts) (h.sorted n)
  have hmem : e ∈ (s.all n).reverse.takeWhile (fun v => decide (indexOfContext scope s.contexts ≤ v.ctx)) :=
    mem_takeWhile_of_dec _ _ _ (h.dec n) e (by simpa using he) hin
  simp only [VariableSet.unset, hB]
  cases hf : ((s.all n).reverse.takeWhile (fun v => decide (indexOfContext scope s.contexts ≤ v.ctx))).find?
      (fun v => v.var.isReadOnly) with
  | some vic => exact ⟨_, rfl⟩
  | none => exact absurd hro (by simpa using List.find?_eq_none.mp hf e hmem)

/-- ★ `temporary_assignment_scope`: for a call `others… NAME=VALUE f args…` from any normalised set,
    inside the function (1) NAME is visible, exported, and has VALUE unless it was read-only;
    (2) it is in the environment of every command the function runs (a further volatile context on
    top does not hide it); and (3), by `function_call_lifetime`, it is gone after the return even if
    the body declares a local of the same name (`get_or_new(Local)` does not touch the volatile
    context *below* the function's regular context — the round-1 seeded change) -/
theorem temporary_assignment_scope (s : VariableSet) (h : Norm s) (others : List (Name × Value))
    (n : Name) (v : Value) (ps : List String) :
    let inside := s.run (enterFunction (others ++ [(n, v)]) ps)
    (∃ u, inside.get n = some u ∧ u.exported = true ∧ (u.isReadOnly = false → u.value = some v)) ∧
    (∀ names, n ∈ names → (∀ u, inside.get n = some u → u.isReadOnly = false) →
      n.toList.any (· == '=') = false → hasNul n = false → hasNul (valueString v) = false →
      (n, valueString v) ∈ (inside.pushContext .volatile).env names) ∧
    (s.run (functionCmd (others ++ [(n, v)]) ps [.getOrNew n .loc])).get n = s.get n := by
  intro inside
  obtain ⟨ha, hN⟩ := run_abs_from h (enterFunction (others ++ [(n, v)]) ps)
  obtain ⟨u, hu, hx, hv⟩ := spec_temp_visible (abs s) others n v ps
  have hget : inside.get n = some u := by rw [get_abs hN, ha]; exact hu
  refine ⟨⟨u, hget, hx, hv⟩, ?_, ?_⟩
  · intro names hn hnro h1 h2 h3
    have hNp := (push_abs hN .volatile).2
    rw [env_exact _ hNp]
    refine ⟨hn, u, ?_, hx, ⟨v, hv (hnro u hget), rfl⟩, h1, h2, h3⟩
    rw [(push_abs hN .volatile).1, lookup_push, ← get_abs hN]; exact hget
  · exact (function_call_lifetime s h _ ps [.getOrNew n .loc] (by intro op hop; simp at hop; subst hop; rfl)).2.1 n

/-- non-vacuity: inside the command the temporary assignment *is* visible and exported; after a
    regular command it is gone, after a special one it stays; a function's local and positional
    parameters vanish while its global assignment stays (and, having passed through the exported
    temporary variable, stays exported) -/
def lt0 : VariableSet := VariableSet.new.run [.assign "x" .global (.scalar "1") none]

example : (lt0.run ([Op.push .volatile] ++ tempOps [("x", .scalar "T")])).env ["x"] = [("x", "T")] := by decide
example : (lt0.run (regularCmd [("x", .scalar "T")] [])).get "x" = some { value := some (.scalar "1") } := by decide
example : ((lt0.run (specialCmd [("x", .scalar "T")] [])).get "x").map (·.value) = some (some (.scalar "T")) := by
  decide
example : (lt0.run (functionCmd [("x", .scalar "T")] ["a"]
    [.assign "y" .loc (.scalar "5") none, .setParams ["b", "c"]])).get "y" = none := by decide
example : (lt0.run (functionCmd [("x", .scalar "T")] ["a"] [.assign "x" .global (.scalar "3") none])).get "x"
    = some { value := some (.scalar "3"), exported := true } := by decide

example : ((lt0.run (enterFunction [("x", .scalar "T")] ["a"])).step (.getOrNew "x" .loc)).1.get "x" = some {} := by
  decide
example : (((lt0.run (enterFunction [("x", .scalar "T")] ["a"])).step (.getOrNew "x" .loc)).1.step .pop).1.get "x"
    = some { value := some (.scalar "T"), exported := true } := by decide

/-- non-vacuity of the built-in level clauses: `f() { readonly x; }`, `f() { unset x; }` and a
    temporary `x=T` seen from inside `f` -/
example : ((lt0.run (functionCmd [] [] (readonlyOps "x" none 7))).get "x")
    = some { value := some (.scalar "1"), readOnly := some 7 } := by decide
example : ((lt0.run (functionCmd [("x", .scalar "T")] [] [.getOrNew "x" .loc, .unset "x" .global])).get "x") = none := by
  decide
example : ((lt0.run (enterFunction [("x", .scalar "T")] ["a"])).env ["x"]) = [("x", "T")] := by decide
example : ((lt0.run (functionCmd [("x", .scalar "T")] ["a"] [.getOrNew "x" .loc])).get "x")
    = some { value := some (.scalar "1") } := by decide


/-! ### the assignments of one command prefix are performed left to right -/

/-- ★ `prefix_left_to_right`: the value of assignment i+1 of a prefix is expanded in the state the
    assignments 1…i have produced (and the first refusal ends the prefix) — for every state
    implementation, scope and export flag -/
theorem prefix_left_to_right {σ : Type} (I : Iface σ) (sc : Scope) (ex : Bool) (s : σ)
    (as : List (Name × AVal)) (n : Name) (e : AVal) :
    runAssigns I sc ex s (as ++ [(n, e)]) =
      match runAssigns I sc ex s as with
      | (s', true) => (s', true)
      | (s', false) => runOps I s' (assignOps sc ex n (evalA I s' e)) := by
  induction as generalizing s with
  | nil =>
    simp only [List.nil_append, runAssigns]
    cases runOps I s (assignOps sc ex n (evalA I s e)) with
    | mk s' b => cases b <;> rfl
  | cons p rest ih =>
    obtain ⟨m, f⟩ := p
    simp only [List.cons_append, runAssigns]
    cases runOps I s (assignOps sc ex m (evalA I s f)) with
    | mk s' b =>
      cases b
      · exact ih s'
      · rfl

theorem valueOfVar_scalar (u : Variable) (x : String) (h : u.value = some (.scalar x)) :
    valueOfVar (some u) = .scalar x := by
  cases u with
  | mk value la exp ro qk => simp only at h; subst h; rfl

/-- ★ `prefix_sees_earlier_assignment`: in `a=X b=$a cmd` the lookup of `$a` is answered by the
    `a=X` just assigned — `b` ends up with the value `X` — both for a command-less command or special
    built-in (`Global` scope) and for a regular built-in / function / external (`Volatile` scope with
    export, in the command's volatile context).  An "expand all values first, then assign"
    implementation (the round-4 seeded change) gives `b` the old value of `a` and contradicts this. -/
theorem prefix_sees_earlier_assignment (s : VariableSet) (h : Norm s) (sc : Scope) (ex : Bool)
    (hsc : sc = .global ∨ (sc = .volatile ∧ TopVol s)) (a b : Name) (x : String) (s2 : VariableSet)
    (hrun : runAssigns ifaceM sc ex s [(a, .lit (.scalar x)), (b, .ref a)] = (s2, false)) :
    ∃ u, s2.get b = some u ∧ u.value = some (.scalar x) := by
  have key : ∀ (s : VariableSet), Norm s → (sc = .global ∨ (sc = .volatile ∧ TopVol s)) → ∀ (n : Name) (v : Value),
      Norm (runOps ifaceM s (assignOps sc ex n v)).1 ∧
      (sc = .global ∨ (sc = .volatile ∧ TopVol (runOps ifaceM s (assignOps sc ex n v)).1)) ∧
      ((runOps ifaceM s (assignOps sc ex n v)).2 = false →
        ∃ u, (runOps ifaceM s (assignOps sc ex n v)).1.get n = some u ∧ u.value = some v) := by
    intro s hs hc n v
    rcases hc with rfl | ⟨rfl, ht⟩
    · have := assignOps_value_global hs ex n v
      exact ⟨this.1, Or.inl rfl, this.2⟩
    · have := assignOps_value_volatile hs ht ex n v
      exact ⟨this.1, Or.inr ⟨rfl, this.2.1⟩, this.2.2⟩
  simp only [runAssigns, evalA] at hrun
  obtain ⟨hN1, hc1, hv1⟩ := key s h hsc a (.scalar x)
  cases h1 : runOps ifaceM s (assignOps sc ex a (.scalar x)) with
  | mk s1 b1 =>
    rw [h1] at hrun hN1 hc1 hv1
    cases b1 with
    | true => simp at hrun
    | false =>
      simp only at hrun hN1 hc1 hv1
      obtain ⟨u, hu, huv⟩ := hv1 trivial
      have hev : valueOfVar (ifaceM.get s1 a) = .scalar x := by
        show valueOfVar (s1.get a) = _
        rw [hu]; exact valueOfVar_scalar u x huv
      rw [hev] at hrun
      obtain ⟨_, _, hv2⟩ := key s1 hN1 hc1 b (.scalar x)
      cases h2 : runOps ifaceM s1 (assignOps sc ex b (.scalar x)) with
      | mk s3 b3 =>
        rw [h2] at hrun hv2
        cases b3 with
        | true => simp at hrun
        | false =>
          simp only [Prod.mk.injEq, and_true] at hrun
          subst hrun
          exact hv2 rfl

/-- ★ `temporary_assignment_lifetime` for prefixes whose values refer to variables (`a=1 b=$a cmd`):
    whatever the prefix — references to earlier assignments included, refused half-way or not —
    the set is what it was before once the command's volatile context is popped -/
theorem temporary_prefix_lifetime (s : VariableSet) (h : Norm s) (temps : List (Name × AVal)) :
    abs ((runAssigns ifaceM .volatile true (s.step (.push .volatile)).1 temps).1.step .pop).1 = abs s ∧
    ∀ n, ((runAssigns ifaceM .volatile true (s.step (.push .volatile)).1 temps).1.step .pop).1.get n = s.get n := by
  have hp := push_abs h .volatile
  obtain ⟨hN, c, hc, hk⟩ := runAssigns_volatile_tail (abs s) true temps (s.step (.push .volatile)).1 hp.2
    ⟨⟨.volatile, fun _ => none⟩, hp.1, rfl⟩
  have hpop := pop_abs hN
  have he : abs ((runAssigns ifaceM .volatile true (s.step (.push .volatile)).1 temps).1.step .pop).1 = abs s := by
    show abs (VariableSet.popContext _) = _
    rw [hpop.1, hc]; exact pop_cons _ _ (abs_ne_nil h)
  have hNp : Norm ((runAssigns ifaceM .volatile true (s.step (.push .volatile)).1 temps).1.step .pop).1 := hpop.2
  exact ⟨he, fun n => by rw [get_abs hNp, get_abs h, he]⟩

/-- non-vacuity: `a=1; a=2 b=$a cmd` — inside the command `b` is 2 (not the outer 1), exported -/
example : ((runAssigns ifaceM .volatile true (lt0.step (.push .volatile)).1
      [("x", .lit (.scalar "2")), ("y", .ref "x")]).1.env ["x", "y"]) = [("x", "2"), ("y", "2")] := by decide
example : ((runAssigns ifaceM .global false lt0 [("x", .lit (.scalar "2")), ("y", .ref "x")]).1.get "y")
    = some { value := some (.scalar "2") } := by decide


/-! ### extension round: tables of the code, `init`, the `LINENO` quirk, the frame rule -/

open YashModel.Generated in
/-- the operations `VariableSet.init` runs are exactly those the tables extracted from `fn init`
    describe (scope of the loop, name / scope / quirk of the `set_quirk` call) -/
theorem init_tables_match : initOpsOfTables = some theInitOps := by rfl

open YashModel.Generated in
/-- the `VARIABLES` table of `fn init` (re-extracted from /repo on every run) is the list of
    initial values POSIX prescribes, and the variable that gets the line-number quirk is `LINENO` -/
theorem init_table_is_posix :
    VariableTables.initVariables = posixInitialValues ∧
    VariableTables.initQuirkName = posixLineNumberVariable := by decide

open YashModel.Generated in
theorem initNames_nodup :
    (VariableTables.initVariables.map (·.1) ++ [VariableTables.initQuirkName]).Nodup := by decide

/-- ★ `init_spec`: after `VariableSet::init` on any normalised set (1) every variable POSIX gives an
    initial value has it, unless it was read-only ("ignores any assignment errors"); (2) the stack of
    every other name, and the contexts, are untouched; (3) started with only the base context (as the
    shell does), `LINENO` is a single instance in the base context carrying the line-number quirk -/
theorem init_spec (s : VariableSet) (h : Norm s) :
    (∀ n v, (n, v) ∈ posixInitialValues →
      ∃ u, s.init.get n = some u ∧ (u.isReadOnly = false → u.value = some (.scalar v))) ∧
    (∀ n, n ∉ initNames → s.init.all n = s.all n) ∧
    s.init.contexts = s.contexts ∧
    (s.contexts.length = 1 →
      ∃ u, s.init.all posixLineNumberVariable = [⟨u, 0⟩] ∧ u.quirk = some .lineNumber) := by
  refine ⟨?_, ?_, ?_, ?_⟩
  · intro n v hin
    rw [← init_table_is_posix.1] at hin
    exact initOps_values _ _ initNames_nodup s h n v hin
  · intro n hn
    exact (initOps_frame _ _ s n hn).1
  · exact initOps_contexts _ _ s
  · intro h1
    rw [← init_table_is_posix.2]
    exact initOps_lineno _ _ s h h1

/-- ★ `lineno_expands_to_line`: start the shell's variable set (`init` on a set with only the base
    context), then run *any* history that does not name `LINENO` — other variables in any scope,
    function calls, temporary assignments, `set --`: expanding `$LINENO` at a location yields the
    decimal line number of that location -/
theorem lineno_expands_to_line (s : VariableSet) (h : Norm s) (h1 : s.contexts.length = 1) (ops : List Op)
    (hops : ∀ op ∈ ops, op.name? ≠ some posixLineNumberVariable) (loc : Loc) :
    ((s.init.run ops).get posixLineNumberVariable).map (·.expand loc) =
      some (.scalar (toString loc.line)) := by
  have h0 : LinenoOK s.init posixLineNumberVariable := by
    have := initOps_lineno YashModel.Generated.VariableTables.initVariables
      YashModel.Generated.VariableTables.initQuirkName s h h1
    rw [init_table_is_posix.2] at this
    exact this
  obtain ⟨u, hu, hq⟩ := linenoOK_run ops _ _ h0 hops
  simp [VariableSet.get, hu, Variable.expand, hq]

/-- ★ which line that is: for a variable with the line-number quirk, expanded at the position that
    follows the text `pre` in a code whose first line has number `start` — directly or through any
    chain of alias substitutions — the result is `start` plus the number of newlines in `pre`,
    whatever value the variable holds -/
theorem expand_line_spec (v : Variable) (hq : v.quirk = some .lineNumber) (start : Nat) (pre post : List Char)
    (segs : List (Nat × String × Nat)) :
    v.expand ((Loc.plain start (String.ofList (pre ++ post)) pre.length).wrap segs) =
      .scalar (toString (start + (pre.filter (· == '\n')).length)) := by
  simp only [Variable.expand, hq, line_wrap, Loc.line, lineNumber_append]

/-- … and a variable without a quirk expands to its value (unset → `Unset`) -/
theorem expand_plain (v : Variable) (hq : v.quirk = none) (loc : Loc) :
    v.expand loc = Expansion.ofValue v.value := by
  simp [Variable.expand, hq]

/-- non-vacuity and the interplay of the quirk with scoping, as the code has it: after `init`
    `$LINENO` at (line 3, after two newlines) is `5`; `LINENO=7` keeps the quirk (the `TODO Apply quirk`
    of `assign_impl`): the expansion is still the line number while an exported `LINENO` passes `7`
    to programs; a temporary assignment clones the quirk into the volatile context; `typeset LINENO`
    in a function declares a fresh local without quirk and without value; `unset LINENO` removes it -/
example : ((VariableSet.new.init.get "LINENO").map (·.expand obsLoc)) = some (.scalar "5") := by decide
example : (VariableSet.new.init.get "IFS") = some { value := some (.scalar " \t\n") } := by decide
example : (((VariableSet.new.init.run [.assign "LINENO" .global (.scalar "7") none,
      .export "LINENO" .global true]).get "LINENO").map (·.expand obsLoc)) = some (.scalar "5") := by decide
example : ((VariableSet.new.init.run [.assign "LINENO" .global (.scalar "7") none,
      .export "LINENO" .global true]).env ["LINENO"]) = [("LINENO", "7")] := by decide
example : (((VariableSet.new.init.run [.push .volatile, .assign "LINENO" .volatile (.scalar "7") none]).get
      "LINENO").map (·.quirk)) = some (some .lineNumber) := by decide
example : (((VariableSet.new.init.run (enterFunction [] [] ++ [.getOrNew "LINENO" .loc])).get
      "LINENO").map (·.expand obsLoc)) = some .unset := by decide
example : ((VariableSet.new.init.run [.unset "LINENO" .global]).get "LINENO") = none := by decide
example : ∀ op ∈ [Op.assign "x" .global (.scalar "1") none, .push .volatile, .pop], op.name? ≠ some "LINENO" := by
  decide

/-- ★ audit of the totalised definitions: in a normalised set none of the defaults that stand in for
    a Rust panic is ever taken — `index_of_topmost_regular_context` finds a regular context (the
    `.expect`), so do `positional_params`; every context index stored in a stack is in range (the
    indexing `self.contexts[var.context_index]` of `get_or_new_impl`); and the variable `get_or_new`
    hands out exists (`stack.last_mut().unwrap()`), so `assignRes`'s default variable is never used -/
theorem defaults_unreachable (s : VariableSet) (h : Norm s) :
    (rposition Context.isRegular s.contexts).isSome = true ∧
    (∃ ps, (s.contexts.reverse.findSome? fun c => match c with
      | .regular ps => some ps
      | .volatile => none) = some ps) ∧
    (∀ n v, v ∈ s.all n → (s.contexts[v.ctx]?).isSome = true) ∧
    (∀ n sc s1, s.getOrNew n sc = some s1 → (s1.get n).isSome = true) := by
  obtain ⟨ps, t, hc⟩ := h.base
  refine ⟨?_, ?_, ?_, ?_⟩
  · rw [hc]; exact rposition_isSome_of_head _ _ _ rfl
  · have : ∃ ps, ((abs s).findSome? fun c => match c.kind with
        | .regular ps => some ps
        | .volatile => none) = some ps := by
      obtain ⟨c, hl, hr⟩ := baseReg_abs h
      have hmem : c ∈ abs s := List.mem_of_getLast? hl
      cases hf : (abs s).findSome? fun c => match c.kind with
        | .regular ps => some ps
        | .volatile => none with
      | some ps => exact ⟨ps, rfl⟩
      | none =>
        have := List.findSome?_eq_none_iff.mp hf c hmem
        cases hk : c.kind with
        | regular qs => simp [hk] at this
        | volatile => simp [hk, Context.isRegular] at hr
    obtain ⟨qs, hq⟩ := this
    refine ⟨qs, ?_⟩
    rw [← hq]
    have hk := abs_kinds s
    rw [← hk, List.findSome?_map]
    rfl
  · intro n v hv
    have := h.bounded n v hv
    simp [this]
  · intro n sc s1 hg
    exact getOrNew_get_isSome hg

theorem tempOps_flatMap (as : List (Name × Value)) :
    as.flatMap (fun p => assignOps .volatile true p.1 p.2) = tempOps as := by
  induction as with
  | nil => rfl
  | cons p as ih => obtain ⟨n, v⟩ := p; simp_all [tempOps, assignOps, List.flatMap_cons]

theorem globalOps_flatMap (as : List (Name × Value)) :
    as.flatMap (fun p => assignOps .global false p.1 p.2) = globalOps as := by
  induction as with
  | nil => rfl
  | cons p as ih => obtain ⟨n, v⟩ := p; simp_all [globalOps, assignOps, List.flatMap_cons]

/-- ★ `exec_tables_match`: the command table re-extracted on every run from yash-semantics
    (`perform_assignments`: `export → Volatile`, else `Global`; `execute_builtin`: special → no
    context, `export = false`, any other type → volatile context, `export = true`;
    `execute_function` / `execute_external_utility`: volatile context, `true`;
    `execute_absent_target`: no context, `false`) yields exactly the compilation of `Exec.lean`
    over which the lifetime theorems are stated -/
theorem exec_tables_match (as : List (Name × Value)) (ps : List String) (body : List Op) :
    (∀ k ∈ ["execute_builtin_special", "execute_absent_target"], ∃ pre post,
      prefixOfKind k as = some pre ∧ popsOfKind k = some post ∧ pre ++ body ++ post = specialCmd as body) ∧
    (∀ k ∈ ["execute_builtin_other", "execute_external_utility"], ∃ pre post,
      prefixOfKind k as = some pre ∧ popsOfKind k = some post ∧ pre ++ body ++ post = regularCmd as body) ∧
    (∃ pre post, prefixOfKind "execute_function" as = some pre ∧ popsOfKind "execute_function" = some post ∧
      pre ++ [Op.push (.regular ps)] ++ body ++ [Op.pop] ++ post = functionCmd as ps body) := by
  have hs : ∀ k ∈ ["execute_builtin_special", "execute_absent_target"],
      prefixOfKind k as = some ([] ++ as.flatMap (fun p => assignOps .global false p.1 p.2)) ∧
      popsOfKind k = some [] := by
    intro k hk
    simp only [List.mem_cons, List.not_mem_nil, or_false] at hk
    rcases hk with rfl | rfl <;> exact ⟨rfl, rfl⟩
  have hr : ∀ k ∈ ["execute_builtin_other", "execute_external_utility", "execute_function"],
      prefixOfKind k as = some ([Op.push .volatile] ++ as.flatMap (fun p => assignOps .volatile true p.1 p.2)) ∧
      popsOfKind k = some [Op.pop] := by
    intro k hk
    simp only [List.mem_cons, List.not_mem_nil, or_false] at hk
    rcases hk with rfl | rfl | rfl <;> exact ⟨rfl, rfl⟩
  refine ⟨?_, ?_, ?_⟩
  · intro k hk
    obtain ⟨h1, h2⟩ := hs k hk
    exact ⟨_, _, h1, h2, by simp [globalOps_flatMap, specialCmd]⟩
  · intro k hk
    obtain ⟨h1, h2⟩ := hr k (by
      simp only [List.mem_cons, List.not_mem_nil, or_false] at hk ⊢
      rcases hk with rfl | rfl <;> simp)
    exact ⟨_, _, h1, h2, by simp [tempOps_flatMap, regularCmd]⟩
  · obtain ⟨h1, h2⟩ := hr "execute_function" (by simp)
    exact ⟨_, _, h1, h2, by simp [tempOps_flatMap, functionCmd]⟩

/-- ★ `function_call_frame` (closes "bodies are classified syntactically"): a function call with
    *any* body — accesses in every scope mixed at will, nested commands and function calls (any
    pushes, as long as every pushed context is popped again, which the RAII guards guarantee),
    `set --`, refused operations — and any temporary assignments and arguments, from any normalised
    set.  For every name the body never accesses at `Global` scope (a semantic condition on the
    body, not a syntactic class of bodies): after the call the variable is what it was — the visible
    one, the one each scope sees, its environment entry, and every hidden instance (whatever is
    visible after returning from any number of enclosing contexts); the contexts and all positional
    parameters are what they were.  Temporaries and locals of such names vanish at return. -/
theorem function_call_frame (s : VariableSet) (h : Norm s) (as : List (Name × Value)) (ps : List String)
    (body : List Op) (hbal : balanced 0 body = true) (N : Name → Prop)
    (hN : ∀ op ∈ body, ∀ m, op.globalName? = some m → ¬ N m) :
    (∀ n, N n → (s.run (functionCmd as ps body)).get n = s.get n ∧
      (∀ sc, (s.run (functionCmd as ps body)).getScoped n sc = s.getScoped n sc) ∧
      (s.run (functionCmd as ps body)).env [n] = s.env [n] ∧
      ∀ k, ((s.run (functionCmd as ps body)).run (List.replicate k Op.pop)).get n =
        (s.run (List.replicate k Op.pop)).get n) ∧
    (s.run (functionCmd as ps body)).contexts = s.contexts ∧
    (s.run (functionCmd as ps body)).positionalParams = s.positionalParams := by
  obtain ⟨ha, hN'⟩ := run_abs_from h (functionCmd as ps body)
  have hA : Agree N (abs s) (abs (s.run (functionCmd as ps body))) := by
    rw [ha]; exact spec_function_frame (abs s) (abs_ne_nil h) as ps body N hbal hN
  have hk := agree_kinds hA
  refine ⟨fun n hn => ⟨?_, ?_, ?_, ?_⟩, ?_, ?_⟩
  · rw [get_abs hN', get_abs h]; exact agree_lookup hA n hn
  · intro sc
    rw [getScoped_abs hN', getScoped_abs h]
    unfold SSet.getScoped
    rw [scopeDepth_kinds hk sc]
    exact agree_lookup (agree_take hA _) n hn
  · rw [env_refines _ hN', env_refines _ h]
    simp only [SSet.env, List.filterMap_cons, List.filterMap_nil]
    rw [agree_lookup hA n hn]
  · intro k
    obtain ⟨ha1, hN1⟩ := run_abs_from hN' (List.replicate k Op.pop)
    obtain ⟨ha2, hN2⟩ := run_abs_from h (List.replicate k Op.pop)
    rw [get_abs hN1, get_abs hN2, ha1, ha2]
    exact agree_lookup (agree_run_pops hA k) n hn
  · have h1 := abs_kinds (s.run (functionCmd as ps body))
    have h2 := abs_kinds s
    rw [hk, h2] at h1
    have := congrArg List.reverse h1
    simpa using this.symm
  · rw [positionalParams_abs, positionalParams_abs s]; exact positionalParams_kinds hk


/-- ★ `getOrNew_spec`: the Spec's `get_or_new` walk (`lower`), declaratively, for `Global` and `Local`:
    (1) the variable handed out is exactly the one that was visible within the scope — wherever it
    was, a volatile context included — or a fresh default one if there was none; (2) no other name is
    touched in any context and no context changes kind (so positional parameters stay); with
    `getOrNew_refines` the same holds for the Rust structure's `get_or_new_impl` loop -/
theorem getOrNew_spec (X : SSet) (hB : BaseReg X) (n : Name) :
    lookup (lower n true X none) n = some ((lookup X n).getD {}) ∧
    lookup (lower n false X none) n = some ((X.getScoped n .loc).getD {}) ∧
    (∀ tb, Agree (· ≠ n) X (lower n tb X none)) := by
  have hR : hasReg X = true := by
    obtain ⟨c, hc, hr⟩ := hB
    simp only [hasReg, List.any_eq_true]
    exact ⟨c, List.mem_of_getLast? hc, hr⟩
  exact ⟨lookup_lower_global n X hB none, lookup_lower_local n X hR none, fun tb => lower_agree n tb X none⟩

/-- non-vacuity: a temporary `x=T` above a function's regular context above a global `x=1`:
    `Global` hands out the temporary (carried down), `Local` a fresh local -/
example : lookup (lower "x" true (SSet.run SSet.new
      (Op.assign "x" .global (.scalar "1") none :: enterFunction [("x", .scalar "T")] [])) none) "x"
    = some { value := some (.scalar "T"), exported := true } := by decide
example : lookup (lower "x" false (SSet.run SSet.new
      (Op.assign "x" .global (.scalar "1") none :: enterFunction [("x", .scalar "T")] [])) none) "x"
    = some {} := by decide

/-- non-vacuity: `x=T f a` with `f() { typeset y=5; z=9; x=3 cmd; set -- b; unset -v y; }` — the body
    mixes Local, Global and Volatile accesses and a nested command; `x` and `y` are never accessed at
    Global scope, `z` is -/
def mixedBody : List Op :=
  [.assign "y" .loc (.scalar "5") none, .assign "z" .global (.scalar "9") none,
   .push .volatile, .assign "x" .volatile (.scalar "3") none, .export "x" .volatile true, .pop,
   .setParams ["b"], .unset "y" .loc]

example : balanced 0 mixedBody = true := by decide
example : ∀ op ∈ mixedBody, ∀ m, op.globalName? = some m → ¬ (fun n => n = "x" ∨ n = "y") m := by decide
example : (lt0.run (functionCmd [("x", .scalar "T")] ["a"] mixedBody)).get "x" = lt0.get "x" := by decide
example : ((lt0.run (functionCmd [("x", .scalar "T")] ["a"] mixedBody)).get "z").map (·.value)
    = some (some (.scalar "9")) := by decide

/-! ### wave 3: the frame rule for every kind of command -/

/-- ★ `regular_command_frame` (closes the open item "regular commands with arbitrary bodies"):
    a regular built-in, an external utility or a command that is not found, with *any* temporary
    assignments and *any* body admissible for the names `N` (`frameOK N false []`: every context the
    body pushes is popped again; no operation of the body reaches below the command's volatile
    context for a name of `N` — that is, outside a regular context pushed by the body itself, no
    access at `Global` or `Local` scope and no `unset` at `Volatile` scope names it — and `set --`
    happens only inside such a regular context), from any normalised set.  For every name of `N` —
    **whether or not it is among the temporary assignments** — the variable is afterwards what it was:
    the visible one, the one each scope sees, its environment entry and every hidden instance; the
    contexts and all positional parameters are what they were.  The condition is sharp: see the
    examples below (`x=T typeset x` keeps `T`: `get_or_new(Local)` carries the temporary down). -/
theorem regular_command_frame (s : VariableSet) (h : Norm s) (as : List (Name × Value))
    (body : List Op) (N : Name → Prop) (hok : frameOK N false [] body) :
    (∀ n, N n → (s.run (regularCmd as body)).get n = s.get n ∧
      (∀ sc, (s.run (regularCmd as body)).getScoped n sc = s.getScoped n sc) ∧
      (s.run (regularCmd as body)).env [n] = s.env [n] ∧
      ∀ k, ((s.run (regularCmd as body)).run (List.replicate k Op.pop)).get n =
        (s.run (List.replicate k Op.pop)).get n) ∧
    (s.run (regularCmd as body)).contexts = s.contexts ∧
    (s.run (regularCmd as body)).positionalParams = s.positionalParams :=
  agree_transfer s h _ N (spec_regular_frame (abs s) (abs_ne_nil h) as body N hok)

/-- ★ `command_frame`: one statement for both kinds of commands that set up a context
    (`base = true`: function call with arguments `ps`; `base = false`: regular built-in / external /
    not found), under the one admissibility condition `frameOK N base []`.  For `base = true` the
    condition is implied by the hypotheses of `function_call_frame` (`frameOK_of_balanced`), so this
    theorem contains that one. -/
theorem command_frame (s : VariableSet) (h : Norm s) (as : List (Name × Value)) (ps : List String)
    (base : Bool) (body : List Op) (N : Name → Prop) (hok : frameOK N base [] body) :
    let cmd := if base then functionCmd as ps body else regularCmd as body
    (∀ n, N n → (s.run cmd).get n = s.get n ∧
      (∀ sc, (s.run cmd).getScoped n sc = s.getScoped n sc) ∧
      (s.run cmd).env [n] = s.env [n] ∧
      ∀ k, ((s.run cmd).run (List.replicate k Op.pop)).get n = (s.run (List.replicate k Op.pop)).get n) ∧
    (s.run cmd).contexts = s.contexts ∧ (s.run cmd).positionalParams = s.positionalParams := by
  cases base with
  | true => exact agree_transfer s h _ N (spec_function_frameG (abs s) (abs_ne_nil h) as ps body N hok)
  | false => exact agree_transfer s h _ N (spec_regular_frame (abs s) (abs_ne_nil h) as body N hok)

/-- ★ `temporary_never_outlives_unless_lowered`: the clause of the statement for one name, in the
    form a user reads it: `n=v cmd` where the running command (whatever it is and does otherwise, to
    other names in any scope, nested commands and function calls included) names `n` only through
    `Volatile`-scope accesses or inside function calls it makes: afterwards `n` is exactly what it was
    before — value, attributes, or absence. -/
theorem temporary_never_outlives_unless_lowered (s : VariableSet) (h : Norm s) (n : Name) (v : Value)
    (others : List (Name × Value)) (body : List Op) (hok : frameOK (· = n) false [] body) :
    (s.run (regularCmd (others ++ [(n, v)]) body)).get n = s.get n ∧
    (s.run (regularCmd (others ++ [(n, v)]) body)).env [n] = s.env [n] :=
  let r := (regular_command_frame s h (others ++ [(n, v)]) body (· = n) hok).1 n rfl
  ⟨r.1, r.2.2.1⟩

/-- non-vacuity: `x=T cmd` whose body declares a local `y` (`Local` scope reaches the context below:
    `y` is not in `N`), assigns the global `z`, exports the temporary again, runs a nested function
    call that has a local `x`, unsets it and does `set --` there -/
def regBody : List Op :=
  [.assign "y" .loc (.scalar "5") none, .assign "z" .global (.scalar "9") none,
   .export "x" .volatile false,
   .push .volatile, .push (.regular ["a"]), .assign "x" .loc (.scalar "3") none, .unset "x" .loc,
   .setParams ["b"], .pop, .pop]

example : frameOK (· = "x") false [] regBody := by
  simp [frameOK, regBody, nextStack, Op.escName, Op.escParams, Context.isRegular]
example : (lt0.run (regularCmd [("x", .scalar "T")] regBody)).get "x" = lt0.get "x" := by decide
example : ((lt0.run (regularCmd [("x", .scalar "T")] regBody)).get "y").map (·.value)
    = some (some (.scalar "5")) := by decide

/-- the condition is sharp: each kind of access it excludes does change what is below.
    `x=T typeset x` (a `Local`-scope access from the command's volatile context carries the temporary
    down — the real shell prints `T` for `x=1; x=T typeset -g x; echo $x`), `x=T unset x` at `Volatile`
    scope with a volatile context below, `set --` outside a regular context of the body -/
example : (lt0.run (regularCmd [("x", .scalar "T")] [.getOrNew "x" .loc])).get "x"
    = some { value := some (.scalar "T"), exported := true } := by decide
example : ((lt0.run [.push .volatile, .assign "x" .volatile (.scalar "V") none]).run
      (regularCmd [] [.unset "x" .volatile])).get "x" = some { value := some (.scalar "1") } := by decide
example : (lt0.run (regularCmd [] [.setParams ["b"]])).positionalParams = ["b"] := by decide
example : ¬ frameOK (· = "x") false [] [.getOrNew "x" .loc] := by simp [frameOK, Op.escName]


/-- ★ `global_access_keeps_temporary`: the other side of `regular_command_frame`, for the case it
    excludes.  `n=v cmd` where the regular built-in itself accesses `n` at `Global` scope
    (`n=v typeset -g n`; `read`, `getopts`, `cd` assign this way too): `get_or_new(Global)` takes the
    temporary variable out of the command's volatile context and lowers it, so after the command `n`
    is visible with the temporary value `v` (unless it was read-only) and stays exported.  The real
    shell prints `T` for `x=1; x=T typeset -g x; echo $x`; the script leg generates the family (`TP`). -/
theorem global_access_keeps_temporary (s : VariableSet) (h : Norm s) (n : Name) (v : Value) :
    ∃ u, (s.run (regularCmd [(n, v)] [.getOrNew n .global])).get n = some u ∧ u.exported = true ∧
      (u.isReadOnly = false → u.value = some v) := by
  obtain ⟨ha, hN'⟩ := run_abs_from h (regularCmd [(n, v)] [.getOrNew n .global])
  obtain ⟨w, hw⟩ := spec_global_access_carries_temporary (abs s) (baseReg_abs h) n v
  refine ⟨(w.assign v none).setExport true, by rw [get_abs hN', ha]; exact hw, rfl, ?_⟩
  intro hro
  exact assign_value w v none hro

example : ((lt0.run (regularCmd [("x", .scalar "T")] [.getOrNew "x" .global])).get "x")
    = some { value := some (.scalar "T"), exported := true } := by decide

/-! ### wave 3: the built-ins' glue (typeset / export / readonly / unset) is inside the model -/

/-- ★ `builtin_tables_match`: the tables re-extracted from yash-builtin on every run — role of every
    option of `ALL_OPTIONS` in `interpret`, its scope choice, `From<Scope>`, the arms of the attribute
    loop of `SetVariables::execute`, the attribute and scope `export`/`readonly` force, the scope of
    `unset_variables`, the types of the built-ins — are exactly what `BuiltinModel.lean` implements
    (a genuinely finite table: `decide`) -/
theorem builtin_tables_match : builtinTablesOk = true := by decide

/-- the built-in a statement kind of the script language runs -/
def builtinOfStmt : String → Option String
  | "S" => some ":" | "E" | "EX" => some "export" | "R" => some "readonly" | "U" | "UV" => some "unset"
  | "SP" => some "set" | "T" | "L" | "G" => some "typeset" | _ => none

def Action.isSpecial : Action → Bool
  | .special _ _ | .decl _ _ _ | .unsetv _ => true
  | _ => false

/-- ★ `script_builtin_kinds_match`: a statement of the script language is interpreted as a special
    built-in (assignments at `Global` scope, no volatile context, a refusal ends the shell) exactly
    when `BUILTINS` of yash-builtin gives its built-in the type `Special`; `typeset` (`Elective`) is
    interpreted with the volatile context of `execute_builtin`'s other branch -/
theorem script_builtin_kinds_match :
    ["S", "E", "EX", "R", "U", "UV", "SP", "T", "L", "G"].all (fun k =>
      match builtinOfStmt k with
      | none => false
      | some b => (stmtAction ⟨k, ["x"], ["x"]⟩).isSpecial ==
          (Generated.VariableTables.builtinTypes.lookup b == some "Special")) = true := by decide

/-- ★ `script_typeset_is_execute`: the statements `T`, `L`, `G`, `TP` of the script language run the
    transcribed built-in (`typesetMain` = `interpret` + `SetVariables::execute`) on the option
    occurrences their option strings stand for; and the earlier description of `typeset` in
    `Script.lean` (`typesetField` over option strings, which the theorems `typeset_readonly_immutable`
    etc. are about) is that same function: attributes in option order, `-X` = export off, scope from
    `-g`, split at `=`, `get_or_create_variable` in the converted scope, assignment whose refusal skips
    the attributes, `+r` on a read-only variable an error that skips the rest — for every option
    sequence over -g -r -x -X +x +r, every operand list, on the Rust model and on the Spec alike -/
theorem script_typeset_is_execute {σ} (I : Iface σ) (hI : NoRefusal I) (occs : List OptOcc)
    (hfam : ∀ o ∈ occs, o ∈ typesetFamily) (operands : List String) (s : σ) :
    stmtAction ⟨"T", occs.map optString, operands⟩ = .typeset [] occs operands ∧
    (if (occs.map optString).contains "-g" then Scope.global else Scope.loc)
      = (interpretScope (interpretLoop occs)).toScope ∧
    operands.foldl (typesetField I (interpretScope (interpretLoop occs)).toScope (occs.map optString)) s
      = (typesetMain I occs operands s).1 := by
  refine ⟨?_, typeset_scope_eq occs hfam, ?_⟩
  · simp only [stmtAction]; rw [optOccOf_optString occs hfam]
  · simp only [typesetMain, SetVariables.execute, foldErrors_fst]
    congr 1
    funext s t
    exact typesetField_eq_executeField I hI _ occs hfam operands s t

/-- `L m…` is `typeset m…`, `G m…` is `typeset -g m…` -/
example : stmtAction ⟨"L", ["x=1"], []⟩ = .typeset [] [] ["x=1"] := rfl
example : stmtAction ⟨"G", ["x=1"], []⟩ = .typeset [] [⟨'g', true⟩] ["x=1"] := rfl
example : NoRefusal ifaceM ∧ NoRefusal ifaceS := ⟨noRefusal_M, noRefusal_S⟩
/-- non-vacuity (the operand text is split with `String.splitOn`, which the kernel does not unfold, so
    the examples start after the split): `typeset -x +r -r x` in a function where `x` is a read-only
    global — the local `x` is new, `+r` passes, `-r` marks it -/
example : ((attrLoop ifaceM "x" .loc (interpretLoop [⟨'x', true⟩, ⟨'r', false⟩, ⟨'r', true⟩]).attrs
    ((VariableSet.new.run [.assign "x" .global (.scalar "1") none, .readonly "x" .global 3,
      .push (.regular []), .assign "x" .loc (.scalar "2") none]))).1.get "x")
    = some { value := some (.scalar "2"), exported := true, readOnly := some 1 } := by decide
/-- … and `typeset -g +r -x x`: `+r` on the read-only variable itself is the error that skips `-x` -/
example : (attrLoop ifaceM "x" (interpretScope (interpretLoop [⟨'g', true⟩, ⟨'r', false⟩, ⟨'x', true⟩])).toScope
    (interpretLoop [⟨'g', true⟩, ⟨'r', false⟩, ⟨'x', true⟩]).attrs
    (VariableSet.new.run [.assign "x" .global (.scalar "1") none, .readonly "x" .global 3])).2 = true := by decide
example : (interpretLoop [⟨'X', true⟩, ⟨'g', true⟩, ⟨'x', false⟩, ⟨'r', true⟩]).attrs
    = [(.export, false), (.export, false), (.readOnly, true)] := by decide

/-- ★ `script_declaration_is_execute`: `export m…` / `readonly m…` (statements `E`, `EX`, `R`:
    `Exec.exportOps` / `Exec.readonlyOps` run until the first refusal, which ends the shell) against
    the transcribed `export::main` / `readonly::main` (`interpret`, push `(Export|ReadOnly, On)`, scope
    `Global`, `SetVariables::execute`, which goes on after an error and reports them all): the script
    is aborted exactly when the built-in reports an error, and otherwise both end in the same state -/
theorem script_declaration_is_execute {σ} (I : Iface σ) (hI : NoRefusal I) (operands : List String) (s : σ) :
    (((runOps I s (operands.flatMap fun t => exportOps (operandOf t).1 (operandOf t).2)).2 = true ↔
        0 < (declMain I .export [] operands s).2) ∧
      ((declMain I .export [] operands s).2 = 0 →
        runOps I s (operands.flatMap fun t => exportOps (operandOf t).1 (operandOf t).2)
          = ((declMain I .export [] operands s).1, false))) ∧
    (((runOps I s (operands.flatMap fun t => readonlyOps (operandOf t).1 (operandOf t).2 1)).2 = true ↔
        0 < (declMain I .readOnly [] operands s).2) ∧
      ((declMain I .readOnly [] operands s).2 = 0 →
        runOps I s (operands.flatMap fun t => readonlyOps (operandOf t).1 (operandOf t).2 1)
          = ((declMain I .readOnly [] operands s).1, false))) :=
  ⟨runOps_flatMap_fold I _ _ (fun s t => (declField_eq I hI operands s t).1) operands s 0,
   runOps_flatMap_fold I _ _ (fun s t => (declField_eq I hI operands s t).2) operands s 0⟩

/-- ★ `script_unset_is_unset_variables`: `unset m…` (statements `U`, `UV`: `Exec.unsetOps`, stopped at
    the first refusal) against the transcribed `unset_variables` (every operand at `Global` scope, the
    loop goes on and collects the errors): aborted exactly when an error is reported, same state
    otherwise -/
theorem script_unset_is_unset_variables {σ} (I : Iface σ) (names : List Name) (s : σ) :
    ((runOps I s (unsetOps names)).2 = true ↔ 0 < (unsetVariables I names s).2) ∧
    ((unsetVariables I names s).2 = 0 → runOps I s (unsetOps names) = ((unsetVariables I names s).1, false)) := by
  have h : unsetOps names = names.flatMap (fun n => [Op.unset n .global]) := by
    unfold unsetOps; induction names <;> simp_all
  rw [h]
  exact runOps_flatMap_fold I _ _ (unsetField_eq I) names s 0

/-- non-vacuity: `unset x y` where `x` is read-only: the script stops at `x`, the built-in reports one
    error and has gone on to `y` -/
def roX : VariableSet :=
  VariableSet.new.run [.assign "x" .global (.scalar "0") none, .readonly "x" .global 3,
    .assign "y" .global (.scalar "1") none]
example : (unsetVariables ifaceM ["x", "y"] roX).2 = 1 := by decide
example : (unsetVariables ifaceM ["x", "y"] roX).1.get "y" = none := by decide
example : (runOps ifaceM roX (unsetOps ["x", "y"])).2 = true ∧
    ((runOps ifaceM roX (unsetOps ["x", "y"])).1.get "y").isSome = true := by decide
example : (unsetVariables ifaceM ["y"] roX).2 = 0 := by decide

/-! ### wave 3 (second half): a read-only variable is never modified or unset, on every path -/

/-- ★ `entry_points_freeze_readonly` (`Variable` / `VariableRefMut`): every mutating method applied to
    a read-only variable — `assign` leaves the *whole* variable as it is (value, last assignment
    location, attributes, quirk); `make_read_only` again leaves it as it is (the first location
    stays); `export` changes nothing but the export flag; `set_quirk` nothing but the quirk -/
theorem entry_points_freeze_readonly (u : Variable) (hro : u.isReadOnly = true) :
    (∀ v l, u.assign v l = u) ∧ (∀ l, u.makeReadOnly l = u) ∧
    (∀ b, (u.setExport b).value = u.value ∧ (u.setExport b).readOnly = u.readOnly ∧
      (u.setExport b).lastAssigned = u.lastAssigned ∧ (u.setExport b).quirk = u.quirk) ∧
    (∀ q, (u.setQuirk q).value = u.value ∧ (u.setQuirk q).readOnly = u.readOnly ∧
      (u.setQuirk q).lastAssigned = u.lastAssigned ∧ (u.setQuirk q).exported = u.exported) := by
  refine ⟨fun v l => by simp [Variable.assign, hro], fun l => ?_, fun b => ⟨rfl, rfl, rfl, rfl⟩,
    fun q => ⟨rfl, rfl, rfl, rfl⟩⟩
  cases hr : u.readOnly with
  | none => simp [Variable.isReadOnly, hr] at hro
  | some k => cases u; simp_all [Variable.makeReadOnly]

/-- ★ `readonly_kept_on_every_path`: in every reachable set, every path that writes variables keeps
    every read-only instance — visible or hidden — with its value and mark (`KeepsAll s s'`: for every
    name and every read-only instance of it in `s` there is a read-only instance in `s'` with the same
    value and read-only location), **also when the path goes on after a refusal**:
    `export`/`readonly` (`declMain`: all operands, with or without values), `unset` (`unset_variables`),
    `typeset` with any options and operands (`typesetMain`, incl. `+r`), `read`/`getopts` (`readAssign`
    over any targets), any sequence of operations other than `pop` stopped at its first refusal
    (assignment-only commands, prefix assignments of every command kind, `for`, `$((x=…))`, `${x=…}`),
    and the multi-step entry points of `VariableSet`: `extend_env`, `init` -/
theorem readonly_kept_on_every_path (ops : List Op) :
    let s := VariableSet.new.run ops
    (∀ attr occs operands, KeepsAll s (declMain ifaceM attr occs operands s).1) ∧
    (∀ names, KeepsAll s (unsetVariables ifaceM names s).1) ∧
    (∀ occs operands, KeepsAll s (typesetMain ifaceM occs operands s).1) ∧
    (∀ targets, KeepsAll s (foldErrors (readAssign ifaceM) targets (s, 0)).1) ∧
    (∀ ops', (∀ op ∈ ops', op ≠ Op.pop) → KeepsAll s (runOps ifaceM s ops').1 ∧ KeepsAll s (s.run ops')) ∧
    (∀ vars, KeepsAll s (s.extendEnv vars)) ∧
    KeepsAll s s.init := by
  intro s
  have hG : Good s := run_shadow norm_init (fun _ => trivial) ops
  refine ⟨fun attr occs operands => (execute_keeps _ s hG).1, fun names => ?_, fun occs operands => (execute_keeps _ s hG).1,
    fun targets => ?_, fun ops' hp => ⟨(runOps_keeps ops' s hG hp).1, (run_keepsAll ops' s hG hp).1⟩,
    fun vars => (extendEnv_keeps vars s hG).1, ?_⟩
  · exact (foldErrors_keeps _ (fun s n hs => unsetVariable_keeps s n hs) names s 0 hG).1
  · exact (foldErrors_keeps _ (fun s x hs => readAssign_keeps s x hs) targets s 0 hG).1
  · refine (run_keepsAll theInitOps s hG ?_).1
    intro op hop
    simp only [theInitOps, initOps, List.mem_append, List.mem_map, List.mem_singleton] at hop
    rcases hop with ⟨p, _, rfl⟩ | rfl <;> simp

/-- ★ `pop_removes_only_its_context`: the one operation `readonly_immutable` excludes.  Popping a
    context keeps every instance — read-only or not — of every lower context; so with
    `readonly_immutable` a read-only instance can disappear in one way only: its own context ends -/
theorem pop_removes_only_its_context (s : VariableSet) (n : Name) (e : VIC) (he : e ∈ s.all n)
    (hc : e.ctx + 1 < s.contexts.length) : e ∈ (s.step .pop).1.all n :=
  pop_keeps_lower s n e he hc

/-- non-vacuity: `readonly x=1 y=2` on a read-only `x`: refused, goes on, `y` is marked, `x` untouched
    (the operand texts are split by `String.splitOn`, not unfolded by the kernel: the example starts
    after the split, with `attrLoop` / `readAssign`) -/
example : (foldErrors (readAssign ifaceM) [("x", .scalar "a"), ("y", .scalar "b")] (roX, 0)).2 = 1 ∧
    ((foldErrors (readAssign ifaceM) [("x", .scalar "a"), ("y", .scalar "b")] (roX, 0)).1.get "x").map (·.value)
      = some (some (.scalar "0")) ∧
    ((foldErrors (readAssign ifaceM) [("x", .scalar "a"), ("y", .scalar "b")] (roX, 0)).1.get "y").map (·.value)
      = some (some (.scalar "b")) := by decide

/-! ### non-vacuity: a set with a hidden global, a local and a temporary variable -/

def exOps : List Op :=
  [.assign "x" .global (.scalar "1") none, .export "x" .global true, .push (.regular ["a"]),
   .assign "x" .loc (.scalar "2") none, .push .volatile, .assign "x" .volatile (.scalar "3") none]

example : (VariableSet.new.run exOps).get "x" = some { value := some (.scalar "3") } := by decide
example : ((VariableSet.new.run exOps).all "x").map (·.ctx) = [0, 1, 2] := by decide
example : ((VariableSet.new.run exOps).popContext.popContext).get "x"
    = some { value := some (.scalar "1"), exported := true } := by decide
example : (VariableSet.new.run exOps).env ["x"] = [] := by decide
example : ((VariableSet.new.run exOps).popContext.popContext).env ["x"] = [("x", "1")] := by decide

/-- a read-only global, copied into a volatile context, exported there, then lowered back -/
def roOps : List Op :=
  [.assign "x" .global (.scalar "1") none, .readonly "x" .global 7, .push .volatile,
   .export "x" .volatile true]

example : ((VariableSet.new.run roOps).all "x").map (fun e => (e.ctx, e.var.isReadOnly)) = [(0, true), (1, true)] := by
  decide
example : (((VariableSet.new.run roOps).step (.assign "x" .global (.scalar "2") none)).2) = .readOnly 7 := by decide
example : (((VariableSet.new.run roOps).step (.assign "x" .global (.scalar "2") none)).1.get "x")
    = some { value := some (.scalar "1"), exported := true, readOnly := some 7 } := by decide
example : ((VariableSet.new.run roOps).unset "x" .global).2 = .readOnly 7 := by decide

/-- ★ `readonly_instance_lifetime` — the single all-histories statement (one induction over the
    operation list, `run_keepsReg`).  Take any reachable set, any read-only instance `e` of any name in
    a *regular* context of it (base context, a function's context), visible or hidden, and any history
    over the whole operation alphabet (push regular/volatile, pop, get-or-create in each scope followed
    by assign / export / make read-only / set quirk, unset in each scope, `set --`):
    (1) if the history does not pop the context that holds `e` (`survives`, a function of the pushes
    and pops only), then at the end there is a read-only instance of the name **in that same context**
    with the same value and the same read-only location — it was never modified, removed or moved;
    (2) the exception is exact: the pop of the context that holds it does remove it (nothing of that
    context is left).  (A read-only instance in a *volatile* context is a copy of the one below it and
    may be merged back into it by `get_or_new`: `readonly_immutable`.) -/
theorem readonly_instance_lifetime (ops0 ops : List Op) (n : Name) (e : VIC)
    (he : e ∈ (VariableSet.new.run ops0).all n) (hro : e.var.isReadOnly = true)
    (hreg : isVolatileAt (VariableSet.new.run ops0).contexts e.ctx = false) :
    (survives e.ctx (VariableSet.new.run ops0).contexts.length ops = true →
      ∃ e' ∈ ((VariableSet.new.run ops0).run ops).all n,
        e'.ctx = e.ctx ∧ e'.var.isReadOnly = true ∧ e'.var.value = e.var.value ∧ e'.var.readOnly = e.var.readOnly) ∧
    ((VariableSet.new.run ops0).contexts.length = e.ctx + 1 → 0 < e.ctx →
      ∀ e' ∈ ((VariableSet.new.run ops0).step .pop).1.all n, e'.ctx < e.ctx) := by
  have hG : Good (VariableSet.new.run ops0) := run_shadow norm_init (fun _ => trivial) ops0
  constructor
  · intro hsv
    obtain ⟨e', he', h1, h2, h3, _⟩ := run_keepsReg ops _ hG n e he hro hreg hsv
    exact ⟨e', he', h1, h2, h3.1, h3.2⟩
  · intro hlen hpos e' he'
    have hN := (step_abs hG.1 Op.pop).2.2
    have hb := hN.bounded n e' he'
    have hl : ((VariableSet.new.run ops0).step .pop).1.contexts.length = e.ctx := by
      simp only [VariableSet.step, VariableSet.popContext]
      rw [if_neg (by omega)]
      simp [hlen]
    omega

/-- ★ `readonly_global_survives_every_history`: a read-only variable in the base context survives
    **every** history — whatever is pushed, popped, assigned, exported, unset, declared in whatever
    scope afterwards, the base context still holds a read-only instance of the name with the same
    value and the same read-only location -/
theorem readonly_global_survives_every_history (ops0 ops : List Op) (n : Name) (e : VIC)
    (he : e ∈ (VariableSet.new.run ops0).all n) (hro : e.var.isReadOnly = true) (h0 : e.ctx = 0) :
    ∃ e' ∈ ((VariableSet.new.run ops0).run ops).all n,
      e'.ctx = 0 ∧ e'.var.isReadOnly = true ∧ e'.var.value = e.var.value ∧ e'.var.readOnly = e.var.readOnly := by
  have hG : Good (VariableSet.new.run ops0) := run_shadow norm_init (fun _ => trivial) ops0
  have hreg : isVolatileAt (VariableSet.new.run ops0).contexts e.ctx = false := by
    rw [h0]; exact isVolatileAt_zero hG.1
  obtain ⟨e', he', h1, h2, h3⟩ :=
    (readonly_instance_lifetime ops0 ops n e he hro hreg).1 (by rw [h0]; exact survives_base _ _)
  exact ⟨e', he', h1.trans h0, h2, h3⟩

/-- non-vacuity: `readonly x=1` at top level, then a function call with a temporary `x`, a local `x`,
    an attempt to assign, unset and re-declare it, a nested command, and the returns -/
example : ∃ e' ∈ ((VariableSet.new.run [.assign "x" .global (.scalar "1") none, .readonly "x" .global 7]).run
      (functionCmd [("x", .scalar "T")] ["a"]
        [.assign "x" .loc (.scalar "2") none, .assign "x" .global (.scalar "3") none, .unset "x" .global,
         .push .volatile, .export "x" .volatile true, .readonly "x" .loc 9, .pop])).all "x",
    e'.ctx = 0 ∧ e'.var.value = some (.scalar "1") ∧ e'.var.readOnly = some 7 := by decide

/-- ★ `lookup_over_histories`: "looking up a variable returns the value from the innermost visible
    scope", over whole histories: after every history of the operation alphabet from the initial set,
    `get` (and `get_scoped` in every scope) of the Rust structure is the lookup — topmost context that
    defines the name — in the stack of maps the same history builds -/
theorem lookup_over_histories (ops : List Op) (n : Name) :
    (VariableSet.new.run ops).get n = lookup (SSet.run SSet.new ops) n ∧
    ∀ sc, (VariableSet.new.run ops).getScoped n sc = (SSet.run SSet.new ops).getScoped n sc := by
  have h0 : abs VariableSet.new = SSet.new := by simp [abs, VariableSet.new, absRev, SSet.new, cellAt]
  obtain ⟨ha, hN⟩ := run_abs_from norm_init ops
  rw [h0] at ha
  exact ⟨by rw [get_abs hN, ha], fun sc => by rw [getScoped_abs hN, ha]⟩

/-- ★ `cd_getopts_tables_match`: the variable writes of `cd` (OLDPWD then PWD, `Global` scope, both always
    attempted, exit status of a refusal) and of `getopts` (option variable, OPTARG assigned or unset,
    OPTIND, `Global` scope, in that order) as extracted from cd.rs, cd/assign.rs and getopts/report.rs
    on every run are what the transcriptions `cdAssign` / `cdStatus` / `getoptsReportOps` do -/
theorem cd_getopts_tables_match : cdGetoptsTablesOk = true := by decide

/-- ★ `cd_getopts_keep_readonly`: in every reachable set `cd` and `getopts` keep every read-only
    instance (value and mark); when `PWD` (`OLDPWD`) is read-only `cd` still writes the other one and
    reports the error; `getopts` stops at the first refused variable -/
theorem cd_getopts_keep_readonly (ops : List Op) :
    let s := VariableSet.new.run ops
    (∀ newPwd, KeepsAll s (cdAssign ifaceM s newPwd).1) ∧
    (∀ name value optarg optind, KeepsAll s (runOps ifaceM s (getoptsReportOps name value optarg optind)).1) := by
  intro s
  have hG : Good s := run_shadow norm_init (fun _ => trivial) ops
  refine ⟨fun newPwd => (foldErrors_keeps _ (fun s p hs => ?_) _ s 0 hG).1, fun name value optarg optind => ?_⟩
  · unfold cdSetVariable
    have hstep : ∀ s op, ifaceM.step s op = s.step op := fun _ _ => rfl
    simp only [hstep]
    have h1 := step_keepsAll hs (.assign p.1 .global (.scalar p.2) none) (by simp)
    cases hr : s.step (.assign p.1 .global (.scalar p.2) none) with
    | mk s1 r =>
      rw [hr] at h1
      have h2 := step_keepsAll h1.2 (.export p.1 .global true) (by simp)
      cases r <;> first | exact h1 | exact ⟨keepsAll_trans h1.1 h2.1, h2.2⟩
  · refine (runOps_keeps _ s hG ?_).1
    intro op hop
    simp only [getoptsReportOps, List.mem_cons, List.not_mem_nil, or_false] at hop
    rcases hop with rfl | rfl | rfl
    · simp
    · cases optarg <;> simp
    · simp

/-- non-vacuity: `cd /` with a read-only `PWD=0`: one error, `OLDPWD` is still written (and exported) -/
example : (cdAssign ifaceM (VariableSet.new.run [.assign "PWD" .global (.scalar "0") none, .readonly "PWD" .global 1]) "/").2 = 1 ∧
    ((cdAssign ifaceM (VariableSet.new.run [.assign "PWD" .global (.scalar "0") none, .readonly "PWD" .global 1]) "/").1.get "OLDPWD")
      = some { value := some (.scalar "0"), exported := true } := by decide

/-- ★ `c20_parse_feeds_builtin_model`: the connection to C20's transcription of typeset's own `parse` and
    `interpret` (`YashModel.Args.Typeset`, theorem `typeset_parse_is_read_of_canonical` there says what
    `parse` yields for every spelling — clusters `-gx`, long options, `+x`).  Whenever C20's `parse` yields
    occurrences `os` of the set-variable options (`-g -r -x -X`, any number, any order, any spelling) and
    operands: (1) C20's `run` (parse + interpret, `portable` off) is the command `SetVariables` with the
    attribute list and the scope flag of its scan; (2) that attribute list and flag are exactly what
    `BuiltinModel.interpretLoop` computes from the same occurrences; hence (3) `typesetMain` — what the
    statements `T`/`L`/`G`/`TP` run and what `script_typeset_is_execute`, `readonly_kept_on_every_path`
    speak about — is `SetVariables::execute` on precisely the record C20's `interpret` hands over. -/
theorem c20_parse_feeds_builtin_model (specs : List Args.Typeset.TSpec) (ln : Bool) (args : List Args.Typeset.Str)
    (os : List Args.Typeset.Occ) (operands : List Args.Typeset.Str)
    (hp : Args.Typeset.parse specs ln args = .ok (os, operands)) (hos : ∀ o ∈ os, SetSpec o.spec)
    (hne : operands ≠ []) :
    Args.Typeset.run specs ln false args
      = .cmd (.setVariables operands ((Args.Typeset.scan os).attrs.map (fun e => (e.2.1, e.2.2)))
          (Args.Typeset.scan os).global.isSome) ∧
    (interpretLoop (os.map occOf)).attrs = (Args.Typeset.scan os).attrs.map (fun e => (attrOf e.2.1, e.2.2)) ∧
    (interpretLoop (os.map occOf)).global = (Args.Typeset.scan os).global.isSome ∧
    ∀ {σ} (I : Iface σ) (s : σ), typesetMain I (os.map occOf) (operands.map String.ofList) s
      = SetVariables.execute I ⟨operands.map String.ofList,
          (Args.Typeset.scan os).attrs.map (fun e => (attrOf e.2.1, e.2.2)),
          if (Args.Typeset.scan os).global.isSome then .global else .loc⟩ s := by
  obtain ⟨h1, h2, h3, h4, h5⟩ := scanFrom_interpret os hos {} {} 0 rfl rfl rfl rfl rfl
  have hne' : operands.isEmpty = false := by cases operands <;> simp_all
  refine ⟨?_, h4, h5, ?_⟩
  · have e1 : (Args.Typeset.scan os).foreign = none := h3
    have e2 : (Args.Typeset.scan os).print = none := h2
    have e3 : (Args.Typeset.scan os).functions = none := h1
    simp [Args.Typeset.run, hp, Args.Typeset.interpret, e1, e2, e3, hne']
  · intro σ I s
    have a4 : (interpretLoop (os.map occOf)).attrs = _ := h4
    have a5 : (interpretLoop (os.map occOf)).global = _ := h5
    simp only [typesetMain, interpretScope, a4, a5]
    rfl

/-- non-vacuity: the occurrences C20's parser yields for `-gx +r -X` -/
example : ∀ o ∈ [(⟨⟨'g', ['g'], none⟩, true⟩ : Args.Typeset.Occ), ⟨⟨'x', ['e'], some .export⟩, true⟩,
    ⟨⟨'r', ['r'], some .readOnly⟩, false⟩, ⟨⟨'X', ['u'], none⟩, true⟩], SetSpec o.spec := by
  intro o ho; simp at ho; rcases ho with rfl | rfl | rfl | rfl <;> simp [SetSpec]

/-- ★ `portable_off_is_execute`: the `Portable`-aware field step of `SetVariables::execute`
    (`executeFieldP`: non-portable names refused before anything is created; for PWD / OLDPWD / OPTIND /
    OPTARG / LINENO — the generated `nonPortableReadonlyNames`, tied in `cd_getopts_tables_match` — the
    attribute loop is cut where it would make the variable read-only) is `executeField` when the option
    is off, so everything proved about `executeField` is about the built-in as the shell normally runs
    it; with the option on, a portable name other than those five is processed as before -/
theorem portable_off_is_execute {σ} (I : Iface σ) (sv : SetVariables) (s : σ) (field : String) :
    executeFieldP I sv false s field = executeField I sv s field ∧
    (isPortableName (splitAssign field).1 = true → nonPortableReadonly.contains (splitAssign field).1 = false →
      executeFieldP I sv true s field = executeField I sv s field) := by
  constructor
  · simp [executeFieldP]
  · intro h1 h2
    unfold executeFieldP
    simp only [h1, h2, Bool.not_true, Bool.and_false, Bool.false_eq_true, if_false]

example : isPortableName "o" = true ∧ isPortableName "1a" = false ∧ isPortableName "" = false ∧
    isPortableName "a_1" = true ∧ isPortableName "a-b" = false := by decide

/-- ★ `nested_calls_params`: "a function's positional parameters vanish at return", for nested calls
    of any depth.  (1) Whatever the set a call starts in — hence at every nesting depth — the body
    sees exactly the call's own arguments.  (2) After a chain of nested calls (`nestCalls`: each level
    has its temporaries, its arguments and any balanced operations before and after the inner call,
    `set --` at any level included) the positional parameters and the contexts are those before the
    outermost call. -/
theorem nested_calls_params (s : VariableSet) (h : Norm s) :
    (∀ as ps, (s.run (enterFunction as ps)).positionalParams = ps) ∧
    (∀ levels : List (List (Name × Value) × List String × List Op × List Op),
      (∀ l ∈ levels, balanced 0 l.2.2.1 = true ∧ balanced 0 l.2.2.2 = true) →
      (s.run (nestCalls levels)).positionalParams = s.positionalParams ∧
      (s.run (nestCalls levels)).contexts = s.contexts) := by
  constructor
  · intro as ps
    obtain ⟨ha, _⟩ := run_abs_from h (enterFunction as ps)
    obtain ⟨cV, hin, _, _⟩ := spec_enter_function (abs s) as ps
    rw [positionalParams_abs, ha]
    show (SSet.run (abs s) ([Op.push .volatile] ++ tempOps as ++ [Op.push (.regular ps)])).positionalParams = ps
    rw [hin]; rfl
  · intro levels hl
    cases levels with
    | nil => exact ⟨rfl, rfl⟩
    | cons l rest =>
      obtain ⟨as, ps, pre, post⟩ := l
      have hb : balanced 0 (pre ++ nestCalls rest ++ post) = true := by
        have h1 := hl _ (List.mem_cons_self)
        have h2 := balanced_nestCalls rest (fun l hm => hl l (List.mem_cons_of_mem _ hm))
        exact balanced_append0 _ _ (balanced_append0 _ _ h1.1 h2) h1.2
      have := function_call_frame s h as ps (pre ++ nestCalls rest ++ post) hb (fun _ => False)
        (fun _ _ _ _ hf => hf)
      exact ⟨this.2.2, this.2.1⟩

/-- non-vacuity: `f a` calls `set -- q` and `g b c` (which does `set --` itself) and then `set -- r` -/
example : (lt0.run (nestCalls [([], ["a"], [.setParams ["q"]], [.setParams ["r"]]),
    ([("x", .scalar "T")], ["b", "c"], [.setParams []], [])])).positionalParams = [] := by decide
example : (lt0.run (enterFunction [] ["a"] ++ [.setParams ["q"]] ++ enterFunction [("x", .scalar "T")] ["b", "c"])).positionalParams
    = ["b", "c"] := by decide

/-- ★ `env_ignores_hidden_instances`: the environment is built from the innermost visible view only.
    When the visible variable of a name is not exported (a function's local shadowing an exported
    global, say) the name has **no** entry, whatever exported instances are hidden below; with
    `env_exact` (iff for the visible variable) and `temporary_assignment_scope` (2) (a temporary is
    exported for the command's duration) this is the whole clause -/
theorem env_ignores_hidden_instances (s : VariableSet) (names : List Name) (n : Name) (u : Variable)
    (hv : s.get n = some u) (hx : u.exported = false) : ∀ x, (n, x) ∉ s.env names := by
  intro x hmem
  simp only [VariableSet.env, List.mem_filterMap] at hmem
  obtain ⟨m, _, hm⟩ := hmem
  cases hg : s.get m with
  | none => simp [hg] at hm
  | some w =>
    simp only [hg, Option.bind_some] at hm
    have hmn : m = n := (envEntry_name m w (n, x) hm).symm
    subst hmn
    rw [hv] at hg
    cases hg
    simp [envEntry, hx] at hm

/-- non-vacuity: `exOps` — exported global `x=1`, a function's local `x=2`, a temporary `x=3` -/
example : ∀ v, ("x", v) ∉ ((VariableSet.new.run exOps).popContext).env ["x"] :=
  env_ignores_hidden_instances _ _ "x" { value := some (.scalar "2") } (by decide) rfl

/-- ★ `getOrNew_idempotent`: `SetVariables::execute` (and `perform_assignment`) call `get_or_new` once
    and then assign / export / mark through the returned reference, while every operation of the model
    looks the variable up again.  Both are the same: on every normalised set a second
    `get_or_new(name, scope)` succeeds and returns **the very same set** — the same per-name stacks
    (representation, not only the abstract state) and the same contexts; in particular also the same
    stack of maps (second clause, proved independently on the Spec: `spec_getOrNew_idem`) -/
theorem getOrNew_idempotent (s s1 : VariableSet) (h : Norm s) (n : Name) (sc : Scope)
    (h1 : s.getOrNew n sc = some s1) :
    s1.getOrNew n sc = some s1 ∧ (abs s1).getOrNew n sc = some (abs s1) := by
  refine ⟨getOrNew_idem_repr s s1 h n sc h1, ?_⟩
  have ha : (abs s).getOrNew n sc = some (abs s1) := by
    rw [← (getOrNew_abs h n sc).1, h1]; rfl
  exact spec_getOrNew_idem _ _ n sc ha

example : ∃ s1, (VariableSet.new.run exOps).getOrNew "x" .global = some s1 ∧
    (s1.getOrNew "x" .global).map (·.all "x") = some (s1.all "x") := ⟨_, rfl, by decide⟩

end YashModel.Variable
