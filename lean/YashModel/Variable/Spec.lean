/-
  C16 — Spec: the scoping rules of the module documentation of `yash-env/src/variable.rs` on the
  obvious data structure: a stack of contexts (top first), each a finite map from names to
  variables.  "Variables in a context hide those with the same name in lower contexts": lookup is
  the first (= topmost) context that defines the name.  Import-free, executable.
-/
import YashModel.Variable.Model
namespace YashModel.Variable

/-- one context: its kind (with positional parameters) and its own map -/
structure SCtx where
  kind : Context
  vars : Name → Option Variable

/-- the stack of contexts, top first; the last element is the base context -/
abbrev SSet := List SCtx

def SCtx.set (c : SCtx) (n : Name) (v : Option Variable) : SCtx :=
  { c with vars := fun m => if m = n then v else c.vars m }

def SSet.new : SSet := [⟨.regular [], fun _ => none⟩]

/-- the visible variable: the topmost context defining the name -/
def lookup : SSet → Name → Option Variable
  | [], _ => none
  | c :: t, n =>
    match c.vars n with
    | some v => some v
    | none => lookup t n

def SSet.push (X : SSet) (k : Context) : SSet := ⟨k, fun _ => none⟩ :: X

/-- popping forgets the top context with everything defined in it (the base context stays) -/
def SSet.pop : SSet → SSet
  | _ :: b :: t => b :: t
  | X => X

/-- number of volatile contexts above the topmost regular context -/
def volPrefix : SSet → Nat
  | [] => 0
  | c :: t => if c.kind.isRegular then 0 else volPrefix t + 1

/-- how many contexts, counted from the top, a scope covers: `Global` all of them, `Local` the
    topmost regular context and the volatile ones above it, `Volatile` only the latter -/
def scopeDepth (scope : Scope) (X : SSet) : Nat :=
  match scope with
  | .global => X.length
  | .loc => volPrefix X + 1
  | .volatile => volPrefix X

/-- `get_scoped`: the visible variable, if it is defined within the scope -/
def SSet.getScoped (X : SSet) (n : Name) (scope : Scope) : Option Variable :=
  lookup (X.take (scopeDepth scope X)) n

/-- `get_or_new` for `Global` (`toBase = true`) and `Local` (`toBase = false`), as documented:
    going down from the top, a variable found in a volatile context is taken out of it (the topmost
    one found is the one that is kept, `carried`); the first regular context that defines the name
    receives the carried variable, if any, in place of its own and the walk ends; if none does, the
    target context (the base context resp. the topmost regular context) gets the carried variable
    or a fresh default one. -/
def lower (n : Name) (toBase : Bool) : SSet → Option Variable → SSet
  | [], _ => []
  | c :: t, carried =>
    if c.kind.isRegular then
      match c.vars n with
      | some v => c.set n (some (carried.getD v)) :: t
      | none =>
        if !toBase || t.isEmpty then c.set n (some (carried.getD {})) :: t
        else c :: lower n toBase t carried
    else
      match c.vars n with
      | some v => c.set n none :: lower n toBase t (some (carried.getD v))
      | none => c :: lower n toBase t carried

/-- `get_or_new`; `Volatile` needs a volatile top context (`none` otherwise) and copies the visible
    variable (or a default one) into it unless the top context already defines the name -/
def SSet.getOrNew (X : SSet) (n : Name) (scope : Scope) : Option SSet :=
  match scope with
  | .global => some (lower n true X none)
  | .loc => some (lower n false X none)
  | .volatile =>
    match X with
    | [] => none
    | c :: t =>
      if c.kind.isRegular then none
      else match c.vars n with
        | some _ => some (c :: t)
        | none => some (c.set n (some ((lookup t n).getD {})) :: t)

/-- change the visible variable in place -/
def modifyVisible (n : Name) (f : Variable → Variable) : SSet → SSet
  | [] => []
  | c :: t =>
    match c.vars n with
    | some v => c.set n (some (f v)) :: t
    | none => c :: modifyVisible n f t

/-- the topmost read-only variable of the name within the first `k` contexts -/
def firstReadOnly (n : Name) : Nat → SSet → Option Nat
  | 0, _ => none
  | _, [] => none
  | k+1, c :: t =>
    match c.vars n with
    | some v => if v.isReadOnly then v.readOnly else firstReadOnly n k t
    | none => firstReadOnly n k t

/-- remove the name from the first `k` contexts -/
def eraseTop (n : Name) : Nat → SSet → SSet
  | 0, X => X
  | _, [] => []
  | k+1, c :: t => c.set n none :: eraseTop n k t

/-- `unset`: fails without removing anything if any variable of the name within the scope is
    read-only; otherwise removes them all and returns the topmost one -/
def SSet.unset (X : SSet) (n : Name) (scope : Scope) : SSet × UnsetResult :=
  let k := scopeDepth scope X
  match firstReadOnly n k X with
  | some l => (X, .readOnly l)
  | none => (eraseTop n k X, .ok (lookup (X.take k) n))

/-- `iter`: the visible variables defined within the scope -/
def SSet.iter (X : SSet) (scope : Scope) (names : List Name) : List (Name × Variable) :=
  names.filterMap fun n => (X.getScoped n scope).map (fun v => (n, v))

/-- the environment: every exported visible variable that has a value, as `name=value` -/
def SSet.env (X : SSet) (names : List Name) : List (Name × String) :=
  names.filterMap fun n => (lookup X n).bind (envEntry n)

/-- positional parameters: those of the topmost regular context -/
def SSet.positionalParams (X : SSet) : List String :=
  (X.findSome? fun c => match c.kind with
    | .regular ps => some ps
    | .volatile => none).getD []

def setParams (ps : List String) : SSet → SSet
  | [] => []
  | c :: t => if c.kind.isRegular then { c with kind := .regular ps } :: t else c :: setParams ps t

def SSet.step (X : SSet) : Op → SSet × Res
  | .push c => (X.push c, .done)
  | .pop => (X.pop, .done)
  | .getOrNew n sc =>
    match X.getOrNew n sc with
    | none => (X, .noVolatile)
    | some X1 => (X1, .done)
  | .assign n sc v loc =>
    match X.getOrNew n sc with
    | none => (X, .noVolatile)
    | some X1 => (modifyVisible n (·.assign v loc) X1, assignRes ((lookup X1 n).getD {}))
  | .export n sc b =>
    match X.getOrNew n sc with
    | none => (X, .noVolatile)
    | some X1 => (modifyVisible n (·.setExport b) X1, .done)
  | .readonly n sc loc =>
    match X.getOrNew n sc with
    | none => (X, .noVolatile)
    | some X1 => (modifyVisible n (·.makeReadOnly loc) X1, .done)
  | .unset n sc =>
    match X.unset n sc with
    | (X1, .ok old) => (X1, .unset old)
    | (X1, .readOnly l) => (X1, .readOnly l)
  | .setParams ps => (setParams ps X, .done)
  | .quirk n sc q =>
    match X.getOrNew n sc with
    | none => (X, .noVolatile)
    | some X1 => (modifyVisible n (·.setQuirk q) X1, .done)

def SSet.getScalar (X : SSet) (n : Name) : Option String := scalarOf (lookup X n)

/-- importing one environment variable: assign at `Global` scope, export unless refused -/
def SSet.extendEnv1 (X : SSet) (n : Name) (v : String) : SSet :=
  match X.step (.assign n .global (.scalar v) none) with
  | (X1, .readOnly _) => X1
  | (X1, _) => (X1.step (.export n .global true)).1

def SSet.extendEnv (X : SSet) : List (Name × String) → SSet
  | [] => X
  | (n, v) :: t => (X.extendEnv1 n v).extendEnv t

/-- POSIX XCU 2.5.3 "Shell Variables": IFS is set to `<space><tab><newline>` when the shell is invoked,
    OPTIND is initialised to 1, the defaults of PS1, PS2 and PS4 are `"$ "`, `"> "` and `"+ "` -/
def posixInitialValues : List (Name × String) :=
  [("IFS", " \t\n"), ("OPTIND", "1"), ("PS1", "$ "), ("PS2", "> "), ("PS4", "+ ")]

/-- POSIX: "LINENO — set by the shell to a decimal number representing the current sequential line
    number (numbered starting with 1) within a script or function before it executes each command" -/
def posixLineNumberVariable : Name := "LINENO"

def SSet.run (X : SSet) : List Op → SSet
  | [] => X
  | op :: ops => SSet.run (X.step op).1 ops

end YashModel.Variable
