/-
  C16 — helper lemmas, part 10: the script interpreter (`Script.lean`) run on two state
  implementations related by a simulation prints the same lines.
-/
import YashModel.Variable.Builtins
namespace YashModel.Variable

structure Sim {σ τ : Type} (R : σ → τ → Prop) (I : Iface σ) (J : Iface τ) : Prop where
  step : ∀ s t op, R s t → R (I.step s op).1 (J.step t op).1 ∧ (I.step s op).2 = (J.step t op).2
  get : ∀ s t n, R s t → I.get s n = J.get t n
  getIn : ∀ s t n sc, R s t → I.getIn s n sc = J.getIn t n sc
  env : ∀ s t ns, R s t → I.env s ns = J.env t ns
  params : ∀ s t, R s t → I.params s = J.params t

variable {σ τ : Type} {R : σ → τ → Prop} {I : Iface σ} {J : Iface τ}

theorem runOps_sim (h : Sim R I J) (ops : List Op) (s : σ) (t : τ) (hR : R s t) :
    R (runOps I s ops).1 (runOps J t ops).1 ∧ (runOps I s ops).2 = (runOps J t ops).2 := by
  induction ops generalizing s t with
  | nil => exact ⟨hR, rfl⟩
  | cons op ops ih =>
    have hs := h.step s t op hR
    simp only [runOps]
    cases hI : I.step s op with
    | mk s' r =>
      cases hJ : J.step t op with
      | mk t' q =>
        rw [hI, hJ] at hs
        obtain ⟨hr, he⟩ := hs
        simp only at hr he
        subst he
        cases r <;> first | exact ⟨hr, rfl⟩ | exact ih s' t' hr

theorem runAssigns_sim (h : Sim R I J) (sc : Scope) (ex : Bool) (as : List (Name × AVal)) (s : σ) (t : τ)
    (hR : R s t) :
    R (runAssigns I sc ex s as).1 (runAssigns J sc ex t as).1 ∧
    (runAssigns I sc ex s as).2 = (runAssigns J sc ex t as).2 := by
  induction as generalizing s t with
  | nil => exact ⟨hR, rfl⟩
  | cons p rest ih =>
    obtain ⟨n, e⟩ := p
    have he : evalA I s e = evalA J t e := by cases e <;> simp [evalA, h.get s t _ hR]
    simp only [runAssigns, he]
    obtain ⟨hr, hb⟩ := runOps_sim h (assignOps sc ex n (evalA J t e)) s t hR
    cases hI : runOps I s (assignOps sc ex n (evalA J t e)) with
    | mk s1 b =>
      cases hJ : runOps J t (assignOps sc ex n (evalA J t e)) with
      | mk t1 c =>
        rw [hI, hJ] at hr hb
        simp only at hr hb
        subst hb
        cases b
        · exact ih s1 t1 hr
        · exact ⟨hr, rfl⟩

theorem expOf_sim (h : Sim R I J) (s : σ) (t : τ) (hR : R s t) : expOf I s = expOf J t := by
  simp only [expOf, h.get s t _ hR, h.params s t hR]

theorem vline_sim (h : Sim R I J) (e : String) (s : σ) (t : τ) (hR : R s t) : vline I e s = vline J e t := by
  simp only [vline, showState, h.get s t _ hR, h.params s t hR]

theorem applyAttrs_sim (h : Sim R I J) (n : Name) (sc : Scope) (attrs : List String) (s : σ) (t : τ) (hR : R s t) :
    R (applyAttrs I n sc attrs s) (applyAttrs J n sc attrs t) := by
  induction attrs generalizing s t with
  | nil => exact hR
  | cons a rest ih =>
    simp only [applyAttrs, h.get s t n hR]
    split
    · exact ih _ _ (h.step s t _ hR).1
    · split
      · split
        · exact hR
        · exact ih _ _ hR
      · split
        · exact ih _ _ (h.step s t _ hR).1
        · split
          · exact ih _ _ (h.step s t _ hR).1
          · exact ih _ _ hR

theorem typesetField_sim (h : Sim R I J) (sc : Scope) (attrs : List String) (x : String) (s : σ) (t : τ)
    (hR : R s t) : R (typesetField I sc attrs s x) (typesetField J sc attrs t x) := by
  obtain ⟨hr, hb⟩ := runOps_sim h (operandOps sc x) s t hR
  unfold typesetField
  cases hI : runOps I s (operandOps sc x) with
  | mk s1 b =>
    cases hJ : runOps J t (operandOps sc x) with
    | mk t1 c =>
      rw [hI, hJ] at hr hb
      simp only at hr hb
      subst hb
      cases b
      · exact applyAttrs_sim h _ sc attrs s1 t1 hr
      · exact hr

theorem typesetFold_sim (h : Sim R I J) (sc : Scope) (attrs operands : List String) (s : σ) (t : τ)
    (hR : R s t) :
    R (operands.foldl (typesetField I sc attrs) s) (operands.foldl (typesetField J sc attrs) t) := by
  induction operands generalizing s t with
  | nil => exact hR
  | cons x rest ih => exact ih _ _ (typesetField_sim h sc attrs x s t hR)

/-! ### wave 3: the transcribed built-in glue on two related states -/

theorem foldErrors_sim {ι : Type} (f : σ → ι → σ × Bool) (g : τ → ι → τ × Bool)
    (hfg : ∀ s t i, R s t → R (f s i).1 (g t i).1 ∧ (f s i).2 = (g t i).2) (items : List ι) (s : σ) (t : τ)
    (e : Nat) (hR : R s t) :
    R (foldErrors f items (s, e)).1 (foldErrors g items (t, e)).1 ∧
    (foldErrors f items (s, e)).2 = (foldErrors g items (t, e)).2 := by
  induction items generalizing s t e with
  | nil => exact ⟨hR, rfl⟩
  | cons i rest ih =>
    simp only [foldErrors]
    obtain ⟨hr, hb⟩ := hfg s t i hR
    cases hI : f s i with
    | mk s1 b =>
      cases hJ : g t i with
      | mk t1 c =>
        rw [hI, hJ] at hr hb
        simp only at hr hb
        subst hb
        exact ih s1 t1 _ hr

theorem attrLoop_sim (h : Sim R I J) (n : Name) (sc : Scope) (attrs : List (VAttr × Bool)) (s : σ) (t : τ)
    (hR : R s t) :
    R (attrLoop I n sc attrs s).1 (attrLoop J n sc attrs t).1 ∧
    (attrLoop I n sc attrs s).2 = (attrLoop J n sc attrs t).2 := by
  induction attrs generalizing s t with
  | nil => exact ⟨hR, rfl⟩
  | cons a rest ih =>
    obtain ⟨a, st⟩ := a
    simp only [attrLoop, h.get s t n hR]
    cases armAction a st with
    | makeReadOnly => exact ih _ _ (h.step s t _ hR).1
    | refuseIfReadOnly =>
      simp only []
      split
      · exact ⟨hR, rfl⟩
      · exact ih _ _ hR
    | exportTrue => exact ih _ _ (h.step s t _ hR).1
    | exportFalse => exact ih _ _ (h.step s t _ hR).1

theorem step_case_sim (h : Sim R I J) (op : Op) (s : σ) (t : τ) (hR : R s t) :
    ∃ s1 t1 r, I.step s op = (s1, r) ∧ J.step t op = (t1, r) ∧ R s1 t1 := by
  have hs := h.step s t op hR
  cases hI : I.step s op with
  | mk s1 r =>
    cases hJ : J.step t op with
    | mk t1 q =>
      rw [hI, hJ] at hs
      obtain ⟨hr, he⟩ := hs
      simp only at hr he
      subst he
      exact ⟨s1, t1, r, rfl, rfl, hr⟩

theorem executeField_sim (h : Sim R I J) (sv : SetVariables) (s : σ) (t : τ) (x : String) (hR : R s t) :
    R (executeField I sv s x).1 (executeField J sv t x).1 ∧
    (executeField I sv s x).2 = (executeField J sv t x).2 := by
  unfold executeField
  rcases splitAssign x with ⟨n, ov⟩
  cases ov with
  | none => exact attrLoop_sim h n _ sv.attrs _ _ (h.step s t _ hR).1
  | some v =>
    obtain ⟨s1, t1, r, hI, hJ, hr⟩ := step_case_sim h (.assign n sv.scope.toScope (.scalar v) none) s t hR
    simp only [hI, hJ]
    cases r <;> first | exact ⟨hr, rfl⟩ | exact attrLoop_sim h n _ sv.attrs s1 t1 hr

theorem execute_sim (h : Sim R I J) (sv : SetVariables) (s : σ) (t : τ) (hR : R s t) :
    R (sv.execute I s).1 (sv.execute J t).1 ∧ (sv.execute I s).2 = (sv.execute J t).2 :=
  foldErrors_sim _ _ (fun s t x hr => executeField_sim h sv s t x hr) sv.variables s t 0 hR

theorem typesetMain_sim (h : Sim R I J) (occs : List OptOcc) (operands : List String) (s : σ) (t : τ) (hR : R s t) :
    R (typesetMain I occs operands s).1 (typesetMain J occs operands t).1 ∧
    (typesetMain I occs operands s).2 = (typesetMain J occs operands t).2 :=
  execute_sim h _ s t hR

theorem readAssign_sim (h : Sim R I J) (s : σ) (t : τ) (x : Name × Value) (hR : R s t) :
    R (readAssign I s x).1 (readAssign J t x).1 ∧ (readAssign I s x).2 = (readAssign J t x).2 := by
  unfold readAssign
  obtain ⟨s1, t1, r, hI, hJ, hr⟩ := step_case_sim h (.assign x.1 .global x.2 none) s t hR
  simp only [hI, hJ]
  cases r <;> exact ⟨hr, rfl⟩

theorem unsetVariable_sim (h : Sim R I J) (s : σ) (t : τ) (n : Name) (hR : R s t) :
    R (unsetVariable I s n).1 (unsetVariable J t n).1 ∧ (unsetVariable I s n).2 = (unsetVariable J t n).2 := by
  unfold unsetVariable
  obtain ⟨s1, t1, r, hI, hJ, hr⟩ := step_case_sim h (.unset n .global) s t hR
  simp only [hI, hJ]
  cases r <;> exact ⟨hr, rfl⟩

theorem unwindAll_sim (h : Sim R I J) (s : σ) (t : τ) (hR : R s t) : R (unwindAll I s) (unwindAll J t) := by
  unfold unwindAll
  generalize List.replicate 8 Op.pop = ops
  induction ops generalizing s t with
  | nil => exact hR
  | cons op ops ih => exact ih _ _ (h.step s t op hR).1

theorem endLine_sim (h : Sim R I J) (s : σ) (t : τ) (st : Status) (hR : R s t) : endLine I s st = endLine J t st := by
  have hu := unwindAll_sim h s t hR
  simp only [endLine, showState, h.get _ _ _ hu, h.params _ _ hu]

theorem printLines_sim (h : Sim R I J) (b : String) (opts names : List String) (s : σ) (t : τ) (hR : R s t) :
    printLines I s b opts names = printLines J t b opts names := by
  simp only [printLines, h.getIn s t _ _ hR]

theorem execStmts_sim (h : Sim R I J) (funs : List (String × List Stmt)) :
    ∀ (fuel : Nat) (s : σ) (t : τ) (stmts : List Stmt) (out : List String), R s t →
      R (execStmts I funs fuel s stmts out).1 (execStmts J funs fuel t stmts out).1 ∧
      (execStmts I funs fuel s stmts out).2 = (execStmts J funs fuel t stmts out).2 := by
  intro fuel
  induction fuel with
  | zero =>
    intro s t stmts out hR
    cases stmts <;> exact ⟨hR, rfl⟩
  | succ fuel ih =>
    intro s t stmts out hR
    cases stmts with
    | nil => exact ⟨hR, rfl⟩
    | cons st rest =>
      simp only [execStmts]
      -- the common continuation
      have fin : ∀ (s' : σ) (t' : τ) (o : List String), R s' t' →
          R (execStmts I funs fuel s' rest (vline I (expOf I s') s' :: o)).1
            (execStmts J funs fuel t' rest (vline J (expOf J t') t' :: o)).1 ∧
          (execStmts I funs fuel s' rest (vline I (expOf I s') s' :: o)).2 =
            (execStmts J funs fuel t' rest (vline J (expOf J t') t' :: o)).2 := by
        intro s' t' o hr
        rw [expOf_sim h s' t' hr, vline_sim h _ s' t' hr]
        exact ih s' t' rest _ hr
      cases hact : stmtAction st with
      | special as ops =>
        obtain ⟨hr0, hb0⟩ := runAssigns_sim h .global false as s t hR
        simp only []
        cases hI0 : runAssigns I .global false s as with
        | mk s0 b0 =>
          cases hJ0 : runAssigns J .global false t as with
          | mk t0 c0 =>
            rw [hI0, hJ0] at hr0 hb0
            simp only at hr0 hb0
            subst hb0
            cases b0
            · simp only []
              obtain ⟨hr, hb⟩ := runOps_sim h ops s0 t0 hr0
              cases hI : runOps I s0 ops with
              | mk s1 b =>
                cases hJ : runOps J t0 ops with
                | mk t1 c =>
                  rw [hI, hJ] at hr hb
                  simp only at hr hb
                  subst hb
                  cases b
                  · exact fin s1 t1 _ hr
                  · exact ⟨hr, rfl⟩
            · exact ⟨hr0, rfl⟩
      | ret => simp only []; exact ⟨hR, trivial⟩
      | bad => simp only []; exact ⟨hR, trivial⟩
      | decl as attr operands =>
        obtain ⟨hr0, hb0⟩ := runAssigns_sim h .global false as s t hR
        simp only []
        cases hI0 : runAssigns I .global false s as with
        | mk s0 b0 =>
          cases hJ0 : runAssigns J .global false t as with
          | mk t0 c0 =>
            rw [hI0, hJ0] at hr0 hb0
            simp only at hr0 hb0
            subst hb0
            cases b0
            · simp only []
              obtain ⟨hr, hb⟩ := execute_sim h ⟨operands, (interpretLoop []).attrs ++ [(attr, true)], .global⟩ s0 t0 hr0
              simp only [declMain]
              cases hI : SetVariables.execute I ⟨operands, (interpretLoop []).attrs ++ [(attr, true)], .global⟩ s0 with
              | mk s1 e =>
                cases hJ : SetVariables.execute J ⟨operands, (interpretLoop []).attrs ++ [(attr, true)], .global⟩ t0 with
                | mk t1 e' =>
                  rw [hI, hJ] at hr hb
                  simp only at hr hb
                  subst hb
                  cases e
                  · exact fin s1 t1 _ hr
                  · exact ⟨hr, rfl⟩
            · exact ⟨hr0, rfl⟩
      | unsetv names =>
        obtain ⟨hr, hb⟩ := foldErrors_sim _ _ (fun s t x hr => unsetVariable_sim h s t x hr) names s t 0 hR
        simp only [unsetVariables]
        cases hI : foldErrors (unsetVariable I) names (s, 0) with
        | mk s1 e =>
          cases hJ : foldErrors (unsetVariable J) names (t, 0) with
          | mk t1 e' =>
            rw [hI, hJ] at hr hb
            simp only at hr hb
            subst hb
            cases e
            · exact fin s1 t1 _ hr
            · exact ⟨hr, rfl⟩
      | write kind targets =>
        simp only []
        split
        · obtain ⟨hr, hb⟩ := foldErrors_sim _ _ (fun s t x hr => readAssign_sim h s t x hr) targets s t 0 hR
          cases hI : foldErrors (readAssign I) targets (s, 0) with
          | mk s1 e =>
            cases hJ : foldErrors (readAssign J) targets (t, 0) with
            | mk t1 e' =>
              rw [hI, hJ] at hr hb
              simp only at hr hb
              subst hb
              exact fin s1 t1 _ hr
        · simp only [h.get s t _ hR]
          generalize (if kind = "def" then targets.filter (fun x => ((J.get t x.1).bind (·.value)).isNone) else targets) = tg
          obtain ⟨hr, hb⟩ := runOps_sim h (tg.map fun x => Op.assign x.1 .global x.2 none) s t hR
          cases hI : runOps I s (tg.map fun x => Op.assign x.1 .global x.2 none) with
          | mk s1 b =>
            cases hJ : runOps J t (tg.map fun x => Op.assign x.1 .global x.2 none) with
            | mk t1 c =>
              rw [hI, hJ] at hr hb
              simp only at hr hb
              subst hb
              cases b
              · exact fin s1 t1 _ hr
              · exact ⟨hr, rfl⟩
      | typeset temps occs operands =>
        obtain ⟨hr, hb⟩ := runAssigns_sim h .volatile true temps _ _ (h.step s t (.push .volatile) hR).1
        simp only []
        cases hI : runAssigns I .volatile true (I.step s (.push .volatile)).1 temps with
        | mk s1 b =>
          cases hJ : runAssigns J .volatile true (J.step t (.push .volatile)).1 temps with
          | mk t1 c =>
            rw [hI, hJ] at hr hb
            simp only at hr hb
            subst hb
            cases b
            · obtain ⟨hr2, hb2⟩ := typesetMain_sim h occs operands s1 t1 hr
              simp only []
              rw [hb2]
              exact fin _ _ _ (h.step _ _ _ hr2).1
            · exact ⟨hr, rfl⟩
      | print b opts names =>
        simp only [h.getIn s t _ _ hR]
        split
        · exact ⟨hR, rfl⟩
        · have hs1 : R (if b = "t" then (I.step s (.push .volatile)).1 else s)
              (if b = "t" then (J.step t (.push .volatile)).1 else t) := by
            split
            · exact (h.step s t _ hR).1
            · exact hR
          rw [printLines_sim h b opts names _ _ hs1]
          exact fin s t _ hR
      | regular kind temps =>
        obtain ⟨hr, hb⟩ := runAssigns_sim h .volatile true temps _ _ (h.step s t (.push .volatile) hR).1
        simp only []
        cases hI : runAssigns I .volatile true (I.step s (.push .volatile)).1 temps with
        | mk s1 b =>
          cases hJ : runAssigns J .volatile true (J.step t (.push .volatile)).1 temps with
          | mk t1 c =>
            rw [hI, hJ] at hr hb
            simp only at hr hb
            subst hb
            cases b
            · simp only []
              rw [expOf_sim h s t hR, vline_sim h _ s1 t1 hr, h.env s1 t1 _ hr]
              exact fin _ _ _ (h.step s1 t1 _ hr).1
            · exact ⟨hr, rfl⟩
      | call f temps args =>
        simp only []
        cases funs.lookup f with
        | none => exact ⟨hR, rfl⟩
        | some body =>
          obtain ⟨hr, hb⟩ := runAssigns_sim h .volatile true temps _ _ (h.step s t (.push .volatile) hR).1
          simp only []
          cases hI : runAssigns I .volatile true (I.step s (.push .volatile)).1 temps with
          | mk s1 b =>
            cases hJ : runAssigns J .volatile true (J.step t (.push .volatile)).1 temps with
            | mk t1 c =>
              rw [hI, hJ] at hr hb
              simp only at hr hb
              subst hb
              cases b
              · simp only []
                have hin := ih (I.step s1 (.push (.regular args))).1 (J.step t1 (.push (.regular args))).1 body
                  (s!"@{st.kind}" :: out) (h.step s1 t1 _ hr).1
                cases hbI : execStmts I funs fuel (I.step s1 (.push (.regular args))).1 body (s!"@{st.kind}" :: out) with
                | mk s3 p =>
                  cases hbJ : execStmts J funs fuel (J.step t1 (.push (.regular args))).1 body (s!"@{st.kind}" :: out) with
                  | mk t3 q =>
                    rw [hbI, hbJ] at hin
                    obtain ⟨hr3, hpq⟩ := hin
                    simp only at hr3 hpq
                    subst hpq
                    obtain ⟨o, stt⟩ := p
                    cases stt
                    · exact fin _ _ _ (h.step _ _ _ (h.step s3 t3 _ hr3).1).1
                    · exact ⟨hr3, rfl⟩
                    · exact fin _ _ _ (h.step _ _ _ (h.step s3 t3 _ hr3).1).1
              · exact ⟨hr, rfl⟩

end YashModel.Variable
