/-
  C16 (wave 3) — helper lemmas: what `Script.lean` says the statements `T`/`L`/`G`, `E`/`EX`, `R`, `U` do
  is what the transcribed built-in glue of `BuiltinModel.lean` does.  Property theorems: `Theorems.lean`.
-/
import YashModel.Variable.BuiltinModel
import YashModel.Variable.Sim
namespace YashModel.Variable

/-- the operations that go through `get_or_new` and then change an attribute are never refused -/
structure NoRefusal {σ} (I : Iface σ) : Prop where
  getOrNew : ∀ s n sc l, (I.step s (.getOrNew n sc)).2 ≠ .readOnly l
  «export» : ∀ s n sc b l, (I.step s (.export n sc b)).2 ≠ .readOnly l
  readonly : ∀ s n sc k l, (I.step s (.readonly n sc k)).2 ≠ .readOnly l

theorem noRefusal_M : NoRefusal ifaceM := by
  refine ⟨?_, ?_, ?_⟩ <;> intros <;> simp only [ifaceM, VariableSet.step] <;> split <;> simp

theorem noRefusal_S : NoRefusal ifaceS := by
  refine ⟨?_, ?_, ?_⟩ <;> intros <;> simp only [ifaceS, SSet.step] <;> split <;> simp

theorem runOps_append {σ} (I : Iface σ) (a b : List Op) (s : σ) :
    runOps I s (a ++ b) = match runOps I s a with
      | (s', true) => (s', true)
      | (s', false) => runOps I s' b := by
  induction a generalizing s with
  | nil => simp [runOps]
  | cons op a ih =>
    simp only [List.cons_append, runOps]
    rcases h : I.step s op with ⟨s1, r⟩
    cases r <;> simp [ih]

theorem runOps_one {σ} (I : Iface σ) (op : Op) (s : σ) (h : ∀ l, (I.step s op).2 ≠ .readOnly l) :
    runOps I s [op] = ((I.step s op).1, false) := by
  rcases hs : I.step s op with ⟨s1, r⟩
  rw [hs] at h
  cases r <;> simp_all [runOps]

theorem runOps_cons_ok {σ} (I : Iface σ) (op : Op) (t : List Op) (s : σ)
    (h : ∀ l, (I.step s op).2 ≠ .readOnly l) : runOps I s (op :: t) = runOps I (I.step s op).1 t := by
  rcases hs : I.step s op with ⟨s1, r⟩
  rw [hs] at h
  cases r <;> simp_all [runOps]

/-! ### a loop that stops at the first refusal vs. a loop that goes on and counts -/

theorem foldErrors_ge {σ ι} (f : σ → ι → σ × Bool) (items : List ι) (s : σ) (e : Nat) :
    e ≤ (foldErrors f items (s, e)).2 := by
  induction items generalizing s e with
  | nil => exact Nat.le_refl _
  | cons i t ih =>
    simp only [foldErrors]
    exact Nat.le_trans (Nat.le_add_right _ _) (ih _ _)

/-- if running the operations of one item is what `f` does for it, then the stop-at-first-refusal
    run over all items is refused exactly when the go-on-and-count loop counts an error, and without
    an error both end in the same state -/
theorem runOps_flatMap_fold {σ ι} (I : Iface σ) (ops : ι → List Op) (f : σ → ι → σ × Bool)
    (hitem : ∀ s i, runOps I s (ops i) = f s i) (items : List ι) (s : σ) (e : Nat) :
    ((runOps I s (items.flatMap ops)).2 = true ↔ e < (foldErrors f items (s, e)).2) ∧
    ((foldErrors f items (s, e)).2 = e → runOps I s (items.flatMap ops) = ((foldErrors f items (s, e)).1, false)) := by
  induction items generalizing s e with
  | nil => simp [runOps, foldErrors]
  | cons i t ih =>
    simp only [List.flatMap_cons, runOps_append, hitem, foldErrors]
    rcases hf : f s i with ⟨s1, b⟩
    cases b with
    | true =>
      have hge := foldErrors_ge f t s1 (e + 1)
      simp only [Bool.toNat_true]
      exact ⟨⟨fun _ => by omega, fun _ => trivial⟩, fun h => by omega⟩
    | false => simpa using ih s1 e

/-! ### options -/

/-- how the harness writes an option occurrence -/
def optString (o : OptOcc) : String := (if o.state then "-" else "+") ++ String.singleton o.short

/-- the option occurrences of the `typeset` family the script leg generates: -g -r -x -X +x +r -/
def typesetFamily : List OptOcc :=
  [⟨'g', true⟩, ⟨'r', true⟩, ⟨'x', true⟩, ⟨'X', true⟩, ⟨'x', false⟩, ⟨'r', false⟩]

theorem interpret_foldl_attrs (os : List OptOcc) (r : Interp) :
    (os.foldl interpretStep r).attrs = r.attrs ++ (os.foldl interpretStep {}).attrs ∧
    (os.foldl interpretStep r).global = (r.global || (os.foldl interpretStep {}).global) := by
  induction os generalizing r with
  | nil => simp
  | cons o os ih =>
    simp only [List.foldl_cons]
    rw [(ih (interpretStep r o)).1, (ih (interpretStep {} o)).1, (ih (interpretStep r o)).2,
      (ih (interpretStep {} o)).2]
    unfold interpretStep
    cases optionRole o.short <;> simp

theorem interpretLoop_cons (o : OptOcc) (os : List OptOcc) :
    (interpretLoop (o :: os)).attrs = (interpretStep {} o).attrs ++ (interpretLoop os).attrs ∧
    (interpretLoop (o :: os)).global = ((interpretStep {} o).global || (interpretLoop os).global) := by
  simp only [interpretLoop, List.foldl_cons]
  exact interpret_foldl_attrs os _

/-- Script.lean's `applyAttrs` over the option strings = the attribute loop of
    `SetVariables::execute` over the attributes `interpret` collects -/
theorem applyAttrs_eq_attrLoop {σ} (I : Iface σ) (n : Name) (sc : Scope) (occs : List OptOcc)
    (hfam : ∀ o ∈ occs, o ∈ typesetFamily) (s : σ) :
    applyAttrs I n sc (occs.map optString) s = (attrLoop I n sc (interpretLoop occs).attrs s).1 := by
  induction occs generalizing s with
  | nil => rfl
  | cons o occs ih =>
    have hfam' : ∀ o ∈ occs, o ∈ typesetFamily := fun o' h => hfam o' (by simp [h])
    rw [(interpretLoop_cons o occs).1]
    have ho := hfam o (by simp)
    simp only [typesetFamily, List.mem_cons, List.not_mem_nil, or_false] at ho
    rcases ho with rfl | rfl | rfl | rfl | rfl | rfl
    · exact ih hfam' s
    · exact ih hfam' _
    · exact ih hfam' _
    · exact ih hfam' _
    · exact ih hfam' _
    · show (if ((I.get s n).map (·.isReadOnly)).getD false then s else _) = _
      show _ = (if ((I.get s n).map (·.isReadOnly)).getD false then (s, true) else _).1
      split
      · rfl
      · exact ih hfam' s

/-- the scope `Script.lean` derives from the option strings is the one `interpret` derives -/
theorem typeset_scope_eq (occs : List OptOcc) (hfam : ∀ o ∈ occs, o ∈ typesetFamily) :
    (if (occs.map optString).contains "-g" then Scope.global else Scope.loc)
      = (interpretScope (interpretLoop occs)).toScope := by
  induction occs with
  | nil => rfl
  | cons o occs ih =>
    have hfam' : ∀ o ∈ occs, o ∈ typesetFamily := fun o' h => hfam o' (by simp [h])
    have ih := ih hfam'
    have ho := hfam o (by simp)
    simp only [typesetFamily, List.mem_cons, List.not_mem_nil, or_false] at ho
    simp only [interpretScope, (interpretLoop_cons o occs).2] at ih ⊢
    rcases ho with rfl | rfl | rfl | rfl | rfl | rfl
    · rfl
    all_goals
      simp only [List.map_cons, List.contains_cons] at ih ⊢
      exact ih

theorem optOccOf_optString (occs : List OptOcc) (hfam : ∀ o ∈ occs, o ∈ typesetFamily) :
    (occs.map optString).filterMap optOccOf = occs := by
  induction occs with
  | nil => rfl
  | cons o occs ih =>
    have hfam' : ∀ o ∈ occs, o ∈ typesetFamily := fun o' h => hfam o' (by simp [h])
    have ho := hfam o (by simp)
    simp only [typesetFamily, List.mem_cons, List.not_mem_nil, or_false] at ho
    have h1 : optOccOf (optString o) = some o := by
      rcases ho with rfl | rfl | rfl | rfl | rfl | rfl <;> decide
    simp only [List.map_cons, List.filterMap_cons, h1, ih hfam']

/-! ### one operand -/

theorem typesetField_eq_executeField {σ} (I : Iface σ) (hI : NoRefusal I) (tsc : TScope) (occs : List OptOcc)
    (hfam : ∀ o ∈ occs, o ∈ typesetFamily) (operands : List String) (s : σ) (t : String) :
    typesetField I tsc.toScope (occs.map optString) s t
      = (executeField I ⟨operands, (interpretLoop occs).attrs, tsc⟩ s t).1 := by
  unfold typesetField executeField operandOps operandName
  rcases hsp : splitAssign t with ⟨n, ov⟩
  cases ov with
  | none =>
    simp only [runOps_one I _ s (hI.getOrNew s n _)]
    exact applyAttrs_eq_attrLoop I n _ occs hfam _
  | some v =>
    simp only [runOps]
    rcases hs : I.step s (.assign n tsc.toScope (.scalar v) none) with ⟨s1, r⟩
    cases r <;> first | rfl | exact applyAttrs_eq_attrLoop I n _ occs hfam _

theorem foldErrors_fst {σ ι} (f : σ → ι → σ × Bool) (items : List ι) (s : σ) (e : Nat) :
    (foldErrors f items (s, e)).1 = items.foldl (fun s i => (f s i).1) s := by
  induction items generalizing s e with
  | nil => rfl
  | cons i t ih => simp only [foldErrors, List.foldl_cons]; exact ih _ _

theorem declField_eq {σ} (I : Iface σ) (hI : NoRefusal I) (operands : List String) (s : σ) (t : String) :
    runOps I s (exportOps (operandOf t).1 (operandOf t).2)
      = executeField I ⟨operands, [(.export, true)], .global⟩ s t ∧
    runOps I s (readonlyOps (operandOf t).1 (operandOf t).2 1)
      = executeField I ⟨operands, [(.readOnly, true)], .global⟩ s t := by
  unfold operandOf executeField
  rcases hsp : splitAssign t with ⟨n, ov⟩
  cases ov with
  | none =>
    simp only [Option.map_none, exportOps, readonlyOps, TScope.toScope, attrLoop, armAction]
    rw [runOps_cons_ok I _ _ s (hI.getOrNew s n _), runOps_cons_ok I _ _ s (hI.getOrNew s n _),
      runOps_one I _ _ (hI.export _ n _ _), runOps_one I _ _ (hI.readonly _ n _ _)]
    exact ⟨rfl, rfl⟩
  | some v =>
    simp only [Option.map_some, exportOps, readonlyOps, TScope.toScope, attrLoop, armAction, runOps]
    rcases hs : I.step s (.assign n .global (.scalar v) none) with ⟨s1, r⟩
    constructor
    · cases r <;> simp only [] <;> first | rfl | exact runOps_one I _ _ (hI.export _ n _ _)
    · cases r <;> simp only [] <;> first | rfl | exact runOps_one I _ _ (hI.readonly _ n _ _)

theorem unsetField_eq {σ} (I : Iface σ) (s : σ) (n : Name) :
    runOps I s [Op.unset n .global] = unsetVariable I s n := by
  simp only [runOps, unsetVariable]
  rcases hs : I.step s (.unset n .global) with ⟨s1, r⟩
  cases r <;> rfl

end YashModel.Variable
