/-
  C16 (wave 3, third pass) — the bridge to C20's model of typeset's own argument parser
  (`lean/YashModel/Args/Typeset.lean`: `parse`, `interpret`, `run`, `exportAdjust`, `readonlyAdjust`):
  what C20's `parse` + `interpret` produce for a set-variables invocation is what `BuiltinModel.lean`
  consumes.  Property theorem: `Theorems.lean`.
-/
import YashModel.Variable.BuiltinGlue
import YashModel.Args.Typeset
namespace YashModel.Variable
open YashModel.Args

def attrOf : Typeset.Attr → VAttr
  | .readOnly => .readOnly
  | .export => .export

/-- C20's `OptionOccurrence` (spec + state) as the occurrence `BuiltinModel.lean` reads (short + state) -/
def occOf (o : Typeset.Occ) : OptOcc := ⟨o.spec.short, o.state⟩

/-- the spec is one of the options of `ALL_OPTIONS` that a set-variables invocation can carry
    (`-g -r -x -X`), with the attribute `ALL_OPTIONS` gives it -/
def SetSpec (sp : Typeset.TSpec) : Prop :=
  (sp.short = 'g' ∧ sp.attr = none) ∨ (sp.short = 'r' ∧ sp.attr = some .readOnly) ∨
  (sp.short = 'x' ∧ sp.attr = some .export) ∨ (sp.short = 'X' ∧ sp.attr = none)

/-- the loop of C20's `interpret` (`scanFrom`) and the loop of `BuiltinModel.interpretLoop` walk in
    lock-step -/
theorem scanFrom_interpret (os : List Typeset.Occ) (hos : ∀ o ∈ os, SetSpec o.spec) (sc : Typeset.Scan) (r : Interp)
    (i : Nat) (h1 : sc.functions = none) (h2 : sc.print = none) (h3 : sc.foreign = none)
    (h4 : r.attrs = sc.attrs.map (fun e => (attrOf e.2.1, e.2.2))) (h5 : r.global = sc.global.isSome) :
    (Typeset.scanFrom sc i os).functions = none ∧ (Typeset.scanFrom sc i os).print = none ∧
    (Typeset.scanFrom sc i os).foreign = none ∧
    ((os.map occOf).foldl interpretStep r).attrs
      = (Typeset.scanFrom sc i os).attrs.map (fun e => (attrOf e.2.1, e.2.2)) ∧
    ((os.map occOf).foldl interpretStep r).global = (Typeset.scanFrom sc i os).global.isSome := by
  induction os generalizing sc r i with
  | nil => exact ⟨h1, h2, h3, h4, h5⟩
  | cons o os ih =>
    have ho := hos o (by simp)
    have hos' : ∀ o ∈ os, SetSpec o.spec := fun o' h => hos o' (by simp [h])
    simp only [Typeset.scanFrom, List.map_cons, List.foldl_cons]
    rcases ho with ⟨hs, ha⟩ | ⟨hs, ha⟩ | ⟨hs, ha⟩ | ⟨hs, ha⟩
    · apply ih hos'
      · simp [Typeset.scanStep, hs, h1]
      · simp [Typeset.scanStep, hs, h2]
      · simp [Typeset.scanStep, hs, h3]
      · simp [Typeset.scanStep, hs, interpretStep, optionRole, occOf, h4]
      · simp [Typeset.scanStep, hs, interpretStep, optionRole, occOf]
    · apply ih hos'
      · simp [Typeset.scanStep, hs, ha, h1]
      · simp [Typeset.scanStep, hs, ha, h2]
      · simp [Typeset.scanStep, hs, ha, h3]
      · simp [Typeset.scanStep, hs, ha, interpretStep, optionRole, specAttr, occOf, h4, attrOf]
      · simp [Typeset.scanStep, hs, ha, interpretStep, optionRole, specAttr, occOf, h5]
    · apply ih hos'
      · simp [Typeset.scanStep, hs, ha, h1]
      · simp [Typeset.scanStep, hs, ha, h2]
      · simp [Typeset.scanStep, hs, ha, h3]
      · simp [Typeset.scanStep, hs, ha, interpretStep, optionRole, specAttr, occOf, h4, attrOf]
      · simp [Typeset.scanStep, hs, ha, interpretStep, optionRole, specAttr, occOf, h5]
    · apply ih hos'
      · simp [Typeset.scanStep, hs, h1]
      · simp [Typeset.scanStep, hs, h2]
      · simp [Typeset.scanStep, hs, h3]
      · simp [Typeset.scanStep, hs, interpretStep, optionRole, occOf, h4, attrOf]
      · simp [Typeset.scanStep, hs, interpretStep, optionRole, occOf, h5]

end YashModel.Variable
