/-
  C16 — helper lemmas, part 6: read-only variables.

  `get_or_new(Global | Local)` may *overwrite* a regular instance with the variable it took out of a
  volatile context above it.  That this never changes a read-only variable needs an invariant
  (`Shadow`): a variable in a volatile context that sits directly above a read-only instance of the
  same name is a copy of it (same value, same read-only mark) — it was cloned from it by
  `get_or_new(Volatile)` and could not be assigned afterwards.
-/
import YashModel.Variable.Steps
namespace YashModel.Variable

/-- same value and same read-only mark -/
def SameRO (a b : Variable) : Prop := a.value = b.value ∧ a.readOnly = b.readOnly

/-- on a stack read from the top -/
def Shadow (cs : List Context) : List VIC → Prop
  | u :: w :: rest =>
    (isVolatileAt cs u.ctx = true → w.var.isReadOnly = true → SameRO u.var w.var) ∧ Shadow cs (w :: rest)
  | _ => True

def ShadowInv (s : VariableSet) : Prop := ∀ n, Shadow s.contexts (s.all n).reverse

/-- the stack keeps a read-only instance with this value and mark -/
def Keeps (r : List VIC) (w : Variable) : Prop :=
  ∃ e ∈ r, e.var.isReadOnly = true ∧ SameRO e.var w

theorem shadow_tail {cs : List Context} {u : VIC} {r : List VIC} (h : Shadow cs (u :: r)) : Shadow cs r := by
  cases r with
  | nil => trivial
  | cons w rest => exact h.2

theorem shadow_congr {cs cs' : List Context} {r : List VIC}
    (hc : ∀ u ∈ r, isVolatileAt cs' u.ctx = isVolatileAt cs u.ctx) (h : Shadow cs r) : Shadow cs' r := by
  induction r with
  | nil => trivial
  | cons u r ih =>
    cases r with
    | nil => trivial
    | cons w rest =>
      refine ⟨?_, ih (fun x hx => hc x (by simp [hx])) h.2⟩
      rw [hc u (by simp)]; exact h.1

theorem shadow_dropWhile {cs : List Context} (p : VIC → Bool) {r : List VIC} (h : Shadow cs r) :
    Shadow cs (r.dropWhile p) := by
  induction r with
  | nil => trivial
  | cons u r ih =>
    simp only [List.dropWhile_cons]
    split
    · exact ih (shadow_tail h)
    · exact h

/-! ### get_or_new, Global and Local -/

theorem lowerLoop_carried (cs : List Context) (target : Nat) (r : List VIC) (c : Variable) :
    ∃ e ∈ lowerLoop cs target r (some c), e.var = c := by
  induction r generalizing c with
  | nil => exact ⟨⟨c, target⟩, by simp [lowerLoop], rfl⟩
  | cons v r ih =>
    simp only [lowerLoop]
    split
    · exact ⟨⟨c, target⟩, by simp, rfl⟩
    · split
      · simpa using ih c
      · exact ⟨⟨c, v.ctx⟩, by simp, rfl⟩

theorem lowerLoop_keeps (cs : List Context) (target : Nat) (r : List VIC) (carried : Option Variable)
    (hs : Shadow cs r)
    (hc : ∀ c, carried = some c → ∀ v, r.head? = some v → v.var.isReadOnly = true → SameRO c v.var)
    (w : VIC) (hw : w ∈ r) (hro : w.var.isReadOnly = true) :
    Keeps (lowerLoop cs target r carried) w.var := by
  induction r generalizing carried with
  | nil => cases hw
  | cons v r ih =>
    simp only [lowerLoop]
    split
    · exact ⟨w, List.mem_cons_of_mem _ hw, hro, rfl, rfl⟩
    · split
      · rename_i hvol
        -- `v` is taken out of its volatile context
        have hc' : ∀ c, some (carried.getD v.var) = some c → ∀ x, r.head? = some x →
            x.var.isReadOnly = true → SameRO c x.var := by
          intro c hce x hx hxro
          cases r with
          | nil => cases hx
          | cons y rest =>
            simp only [List.head?_cons, Option.some.injEq] at hx; subst hx
            have hvy := hs.1 hvol hxro
            have hvro : v.var.isReadOnly = true := by
              unfold Variable.isReadOnly at hxro ⊢; rw [hvy.2]; exact hxro
            cases carried with
            | none => simp at hce; subst hce; exact hvy
            | some c0 =>
              simp at hce; subst hce
              have := hc c0 rfl v rfl hvro
              exact ⟨this.1.trans hvy.1, this.2.trans hvy.2⟩
        rcases List.mem_cons.mp hw with rfl | hw'
        · -- the popped instance itself: the carried variable is put back and matches it
          cases carried with
          | none =>
            obtain ⟨e, he, hev⟩ := lowerLoop_carried cs target r w.var
            exact ⟨e, by simpa using he, by rw [hev]; exact hro, by rw [hev]; exact ⟨rfl, rfl⟩⟩
          | some c0 =>
            have hm := hc c0 rfl w rfl hro
            obtain ⟨e, he, hev⟩ := lowerLoop_carried cs target r c0
            refine ⟨e, by simpa using he, ?_, by rw [hev]; exact hm⟩
            rw [hev]; unfold Variable.isReadOnly at hro ⊢; rw [hm.2]; exact hro
        · exact ih _ (shadow_tail hs) hc' hw'
      · -- a regular instance: overwritten by the carried variable, if any
        rcases List.mem_cons.mp hw with rfl | hw'
        · cases carried with
          | none => exact ⟨⟨w.var, w.ctx⟩, by simp, hro, rfl, rfl⟩
          | some c0 =>
            have hm := hc c0 rfl w rfl hro
            refine ⟨⟨c0, w.ctx⟩, by simp, ?_, hm⟩
            show c0.isReadOnly = true
            unfold Variable.isReadOnly at hro ⊢; rw [hm.2]; exact hro
        · exact ⟨w, by simp [hw'], hro, rfl, rfl⟩

theorem lowerLoop_shadow (cs : List Context) (target : Nat) (r : List VIC) (carried : Option Variable)
    (ht : isVolatileAt cs target = false) (hs : Shadow cs r) : Shadow cs (lowerLoop cs target r carried) := by
  induction r generalizing carried with
  | nil => trivial
  | cons v r ih =>
    simp only [lowerLoop]
    split
    · exact ⟨fun h => by simp [ht] at h, hs⟩
    · split
      · exact ih _ (shadow_tail hs)
      · rename_i hnv
        cases r with
        | nil => trivial
        | cons y rest => exact ⟨fun h => by simp [h] at hnv, hs.2⟩

/-! ### modifications that respect read-only variables -/

/-- `f` leaves the value and the mark of a read-only variable alone -/
def Frozen (f : Variable → Variable) : Prop := ∀ u, u.isReadOnly = true → SameRO (f u) u

theorem frozen_assign (v : Value) (l : Option Nat) : Frozen (·.assign v l) := by
  intro u hu; simp [Variable.assign, hu, SameRO]

theorem frozen_export (b : Bool) : Frozen (·.setExport b) := by
  intro u _; simp [Variable.setExport, SameRO]

theorem frozen_setQuirk (q : Option Quirk) : Frozen (·.setQuirk q) := by
  intro u _; simp [Variable.setQuirk, SameRO]

theorem frozen_makeReadOnly (l : Nat) : Frozen (·.makeReadOnly l) := by
  intro u hu
  unfold Variable.isReadOnly at hu
  cases h : u.readOnly with
  | none => simp [h] at hu
  | some x => simp [Variable.makeReadOnly, SameRO, h]

theorem sameRO_ro {a b : Variable} (h : SameRO a b) (hb : b.isReadOnly = true) : a.isReadOnly = true := by
  unfold Variable.isReadOnly at hb ⊢; rw [h.2]; exact hb

theorem modifyHead_keeps (f : Variable → Variable) (hf : Frozen f) (r : List VIC) (w : VIC) (hw : w ∈ r)
    (hro : w.var.isReadOnly = true) : Keeps (modifyHead f r) w.var := by
  cases r with
  | nil => cases hw
  | cons u r =>
    rcases List.mem_cons.mp hw with rfl | hw'
    · exact ⟨⟨f w.var, w.ctx⟩, by simp [modifyHead], sameRO_ro (hf _ hro) hro, hf _ hro⟩
    · exact ⟨w, by simp [modifyHead, hw'], hro, rfl, rfl⟩

theorem modifyHead_shadow (cs : List Context) (f : Variable → Variable) (hf : Frozen f) (r : List VIC)
    (hs : Shadow cs r) : Shadow cs (modifyHead f r) := by
  cases r with
  | nil => trivial
  | cons u r =>
    cases r with
    | nil => trivial
    | cons w rest =>
      refine ⟨fun hv hw => ?_, hs.2⟩
      have huw := hs.1 hv hw
      have := hf u.var (sameRO_ro huw hw)
      exact ⟨this.1.trans huw.1, this.2.trans huw.2⟩

/-! ### get_or_new, Volatile -/

theorem volatileBranch_shadow (cs : List Context) (ci : Nat) (r : List VIC) (hs : Shadow cs r) :
    Shadow cs (volatileBranch ci r) := by
  cases r with
  | nil => trivial
  | cons v r =>
    simp only [volatileBranch]
    split
    · exact ⟨fun _ _ => ⟨rfl, rfl⟩, hs⟩
    · exact hs

theorem volatileBranch_keeps (ci : Nat) (r : List VIC) (w : VIC) (hw : w ∈ r) (hro : w.var.isReadOnly = true) :
    Keeps (volatileBranch ci r) w.var := by
  cases r with
  | nil => cases hw
  | cons v r =>
    simp only [volatileBranch]
    split
    · exact ⟨w, List.mem_cons_of_mem _ hw, hro, rfl, rfl⟩
    · exact ⟨w, hw, hro, rfl, rfl⟩

end YashModel.Variable
