/-
  C16 (wave 3, second half) — helper lemmas: every path of the language and every built-in that writes
  variables keeps every read-only instance (value and mark), also when it goes on after a refusal.
  Property theorems: `Theorems.lean`.
-/
import YashModel.Variable.BuiltinGlue
namespace YashModel.Variable

theorem step_keepsAll {s : VariableSet} (h : Good s) (op : Op) (hop : op ≠ .pop) :
    KeepsAll s (s.step op).1 ∧ Good (s.step op).1 :=
  ⟨fun n e he hro => step_keeps h.1 h.2 op hop n e he hro, step_good h op⟩

theorem run_keepsAll (ops : List Op) (s : VariableSet) (h : Good s) (hp : ∀ op ∈ ops, op ≠ Op.pop) :
    KeepsAll s (s.run ops) ∧ Good (s.run ops) := by
  induction ops generalizing s with
  | nil => exact ⟨keepsAll_refl s, h⟩
  | cons op t ih =>
    obtain ⟨h1, h2⟩ := step_keepsAll h op (hp op (by simp))
    obtain ⟨h3, h4⟩ := ih (s.step op).1 h2 (fun o ho => hp o (by simp [ho]))
    exact ⟨keepsAll_trans h1 h3, h4⟩

theorem foldErrors_keeps {ι : Type} (f : VariableSet → ι → VariableSet × Bool)
    (hf : ∀ s i, Good s → KeepsAll s (f s i).1 ∧ Good (f s i).1) (items : List ι) (s : VariableSet) (e : Nat)
    (h : Good s) : KeepsAll s (foldErrors f items (s, e)).1 ∧ Good (foldErrors f items (s, e)).1 := by
  induction items generalizing s e with
  | nil => exact ⟨keepsAll_refl s, h⟩
  | cons i t ih =>
    simp only [foldErrors]
    obtain ⟨h1, h2⟩ := hf s i h
    cases hr : f s i with
    | mk s1 b =>
      rw [hr] at h1 h2
      obtain ⟨h3, h4⟩ := ih s1 _ h2
      exact ⟨keepsAll_trans h1 h3, h4⟩

theorem attrLoop_keeps (n : Name) (sc : Scope) (attrs : List (VAttr × Bool)) (s : VariableSet) (h : Good s) :
    KeepsAll s (attrLoop ifaceM n sc attrs s).1 ∧ Good (attrLoop ifaceM n sc attrs s).1 := by
  induction attrs generalizing s with
  | nil => exact ⟨keepsAll_refl s, h⟩
  | cons a rest ih =>
    obtain ⟨a, st⟩ := a
    have one : ∀ op : Op, op ≠ Op.pop →
        KeepsAll s (attrLoop ifaceM n sc rest (s.step op).1).1 ∧ Good (attrLoop ifaceM n sc rest (s.step op).1).1 := by
      intro op hop
      obtain ⟨h1, h2⟩ := step_keepsAll h op hop
      obtain ⟨h3, h4⟩ := ih (s.step op).1 h2
      exact ⟨keepsAll_trans h1 h3, h4⟩
    have hstep : ∀ op, ifaceM.step s op = s.step op := fun _ => rfl
    simp only [attrLoop, hstep]
    cases armAction a st with
    | makeReadOnly => exact one _ (by simp)
    | refuseIfReadOnly =>
      simp only []
      split
      · exact ⟨keepsAll_refl s, h⟩
      · exact ih s h
    | exportTrue => exact one _ (by simp)
    | exportFalse => exact one _ (by simp)

theorem executeField_keeps (sv : SetVariables) (s : VariableSet) (x : String) (h : Good s) :
    KeepsAll s (executeField ifaceM sv s x).1 ∧ Good (executeField ifaceM sv s x).1 := by
  unfold executeField
  rcases splitAssign x with ⟨n, ov⟩
  have hstep : ∀ op, ifaceM.step s op = s.step op := fun _ => rfl
  cases ov with
  | none =>
    simp only [hstep]
    obtain ⟨h1, h2⟩ := step_keepsAll h (.getOrNew n sv.scope.toScope) (by simp)
    obtain ⟨h3, h4⟩ := attrLoop_keeps n sv.scope.toScope sv.attrs _ h2
    exact ⟨keepsAll_trans h1 h3, h4⟩
  | some v =>
    simp only [hstep]
    obtain ⟨h1, h2⟩ := step_keepsAll h (.assign n sv.scope.toScope (.scalar v) none) (by simp)
    cases hr : s.step (.assign n sv.scope.toScope (.scalar v) none) with
    | mk s1 r =>
      rw [hr] at h1 h2
      cases r <;> first
        | exact ⟨h1, h2⟩
        | (obtain ⟨h3, h4⟩ := attrLoop_keeps n sv.scope.toScope sv.attrs s1 h2
           exact ⟨keepsAll_trans h1 h3, h4⟩)

theorem execute_keeps (sv : SetVariables) (s : VariableSet) (h : Good s) :
    KeepsAll s (sv.execute ifaceM s).1 ∧ Good (sv.execute ifaceM s).1 :=
  foldErrors_keeps _ (fun s x hs => executeField_keeps sv s x hs) sv.variables s 0 h

theorem oneStep_keeps (op : Op) (hop : op ≠ .pop) (s : VariableSet) (h : Good s)
    (f : VariableSet × Res → VariableSet × Bool) (hf : ∀ p, (f p).1 = p.1) :
    KeepsAll s (f (s.step op)).1 ∧ Good (f (s.step op)).1 := by
  rw [hf]; exact step_keepsAll h op hop

theorem unsetVariable_keeps (s : VariableSet) (n : Name) (h : Good s) :
    KeepsAll s (unsetVariable ifaceM s n).1 ∧ Good (unsetVariable ifaceM s n).1 := by
  have h1 := step_keepsAll h (.unset n .global) (by simp)
  unfold unsetVariable
  have hstep : ifaceM.step s (.unset n .global) = s.step (.unset n .global) := rfl
  rw [hstep]
  cases hr : s.step (.unset n .global) with
  | mk s1 r => rw [hr] at h1; cases r <;> exact h1

theorem readAssign_keeps (s : VariableSet) (x : Name × Value) (h : Good s) :
    KeepsAll s (readAssign ifaceM s x).1 ∧ Good (readAssign ifaceM s x).1 := by
  have h1 := step_keepsAll h (.assign x.1 .global x.2 none) (by simp)
  unfold readAssign
  have hstep : ifaceM.step s (.assign x.1 .global x.2 none) = s.step (.assign x.1 .global x.2 none) := rfl
  rw [hstep]
  cases hr : s.step (.assign x.1 .global x.2 none) with
  | mk s1 r => rw [hr] at h1; cases r <;> exact h1

theorem eq_dropLast_append_of_getLast? {α} (l : List α) (v : α) (hl : l.getLast? = some v) :
    l = l.dropLast ++ [v] := by
  induction l with
  | nil => simp at hl
  | cons a t ih =>
    cases t with
    | nil => simp at hl; simp [hl]
    | cons b t' =>
      have h2 : (b :: t').getLast? = some v := by simpa [List.getLast?_cons_cons] using hl
      have := ih h2
      simp only [List.dropLast_cons_cons, List.cons_append]
      rw [← this]

theorem extendEnv_keeps (vars : List (Name × String)) (s : VariableSet) (h : Good s) :
    KeepsAll s (s.extendEnv vars) ∧ Good (s.extendEnv vars) := by
  induction vars generalizing s with
  | nil => exact ⟨keepsAll_refl s, h⟩
  | cons p t ih =>
    obtain ⟨n, v⟩ := p
    have h1 : KeepsAll s (s.extendEnv1 n v) ∧ Good (s.extendEnv1 n v) := by
      unfold VariableSet.extendEnv1
      have ha := step_keepsAll h (.assign n .global (.scalar v) none) (by simp)
      cases hr : s.step (.assign n .global (.scalar v) none) with
      | mk s1 r =>
        rw [hr] at ha
        have hb := step_keepsAll ha.2 (.export n .global true) (by simp)
        cases r <;> first | exact ha | exact ⟨keepsAll_trans ha.1 hb.1, hb.2⟩
    obtain ⟨h3, h4⟩ := ih (s.extendEnv1 n v) h1.2
    exact ⟨keepsAll_trans h1.1 h3, h4⟩

/-- popping a context removes only instances of that context -/
theorem mem_dropLast_of_ne_getLast {α} (l : List α) (e v : α) (he : e ∈ l) (hl : l.getLast? = some v)
    (hne : e ≠ v) : e ∈ l.dropLast := by
  rw [eq_dropLast_append_of_getLast? l v hl] at he
  rcases List.mem_append.mp he with h | h
  · exact h
  · simp at h; exact absurd h hne

theorem pop_keeps_lower (s : VariableSet) (n : Name) (e : VIC) (he : e ∈ s.all n)
    (hc : e.ctx + 1 < s.contexts.length) : e ∈ s.popContext.all n := by
  unfold VariableSet.popContext
  split
  · exact he
  · simp only [popIf]
    cases hl : (s.all n).getLast? with
    | none => exact he
    | some v =>
      simp only []
      split
      · rename_i hv
        exact mem_dropLast_of_ne_getLast _ e v he hl (by intro heq; subst heq; omega)
      · exact he

/-- an environment entry carries the name it was made for -/
theorem envEntry_name (m : Name) (w : Variable) (p : Name × String) (h : envEntry m w = some p) : p.1 = m := by
  unfold envEntry at h
  split at h
  · cases h
  · cases hv : w.value with
    | none => simp [hv] at h
    | some val =>
      cases val with
      | scalar x => simp only [hv] at h; split at h <;> simp at h; rw [← h]
      | array xs => simp only [hv] at h; split at h <;> simp at h; rw [← h]
/-! ### `get_or_new` is idempotent on the representation -/

theorem lowerLoop_idem (cs : List Context) (target : Nat) (hreg : isVolatileAt cs target = false)
    (l : List VIC) (r : Option Variable) :
    lowerLoop cs target (lowerLoop cs target l r) none = lowerLoop cs target l r := by
  induction l generalizing r with
  | nil => simp [lowerLoop, hreg]
  | cons v rest ih =>
    by_cases h1 : v.ctx < target
    · simp [lowerLoop, h1, hreg]
    · by_cases h2 : isVolatileAt cs v.ctx = true
      · simp only [lowerLoop, h1, h2, if_true, if_false]; exact ih _
      · simp [lowerLoop, h1, h2]

theorem volatileBranch_idem (ci : Nat) (l : List VIC) :
    volatileBranch ci (volatileBranch ci l) = volatileBranch ci l := by
  cases l with
  | nil => simp [volatileBranch]
  | cons v rest =>
    by_cases h : v.ctx = ci <;> simp [volatileBranch, h]

theorem setStack_setStack (s : VariableSet) (n : Name) (a b : List VIC) :
    (s.setStack n a).setStack n b = s.setStack n b := by
  simp only [VariableSet.setStack]
  congr 1
  funext m
  split <;> rfl

theorem setStack_all_self (s : VariableSet) (n : Name) (a : List VIC) : (s.setStack n a).all n = a := by
  simp [VariableSet.setStack]

/-- on the representation: a second `get_or_new(name, scope)` returns the very same set -/
theorem getOrNew_idem_repr (s s1 : VariableSet) (h : Norm s) (n : Name) (sc : Scope)
    (h1 : s.getOrNew n sc = some s1) : s1.getOrNew n sc = some s1 := by
  unfold VariableSet.getOrNew at h1
  cases sc with
  | global =>
    simp only [Option.some.injEq] at h1; subst h1
    simp only [VariableSet.getOrNew, setStack_all_self, List.reverse_reverse, Option.some.injEq]
    have hc : (s.setStack n (lowerLoop s.contexts 0 (s.all n).reverse none).reverse).contexts = s.contexts := rfl
    rw [hc, lowerLoop_idem _ _ (isVolatileAt_zero h), setStack_setStack]
  | loc =>
    simp only [Option.some.injEq] at h1; subst h1
    simp only [VariableSet.getOrNew, setStack_all_self, List.reverse_reverse, Option.some.injEq]
    have hc : (s.setStack n (lowerLoop s.contexts (topRegular s.contexts) (s.all n).reverse none).reverse).contexts
        = s.contexts := rfl
    rw [hc, lowerLoop_idem _ _ (isVolatileAt_topRegular h), setStack_setStack]
  | volatile =>
    simp only at h1
    split at h1
    · rename_i hv
      simp only [Option.some.injEq] at h1; subst h1
      have hc : (s.setStack n (volatileBranch (s.contexts.length - 1) (s.all n).reverse).reverse).contexts
          = s.contexts := rfl
      simp only [VariableSet.getOrNew, hc, hv, if_true, setStack_all_self, List.reverse_reverse,
        volatileBranch_idem, setStack_setStack]
    · cases h1

end YashModel.Variable
