/-
  C16 — helper lemmas, part 3: modification through the returned reference, `get_or_new(Volatile)`,
  `unset`, push and pop, on columns.
-/
import YashModel.Variable.Columns
namespace YashModel.Variable

/-! ### modification of the visible variable -/

def cModify (f : Variable → Variable) : Col → Col
  | [] => []
  | (k, some v) :: t => (k, some (f v)) :: t
  | (k, none) :: t => (k, none) :: cModify f t

theorem modifyVisible_col (n : Name) (f : Variable → Variable) (X : SSet) (m : Name) :
    col (modifyVisible n f X) m = if m = n then cModify f (col X n) else col X m := by
  induction X with
  | nil => simp [modifyVisible, cModify]
  | cons c X ih =>
    by_cases hm : m = n
    · subst hm
      cases hv : c.vars m <;> simp [modifyVisible, cModify, hv, ih, SCtx.set]
    · cases hv : c.vars n <;> simp [modifyVisible, hv, ih, hm, SCtx.set]

theorem cModify_dense (f : Variable → Variable) (rcs : List Context) (r : List VIC) :
    cModify f (dense rcs r) = dense rcs (modifyHead f r) := by
  induction rcs generalizing r with
  | nil => simp [dense, cModify]
  | cons c t ih =>
    cases r with
    | nil => simpa [dense, cModify, modifyHead] using ih []
    | cons v r' =>
      by_cases hv : v.ctx = t.length
      · simp [dense, hv, cModify, modifyHead]
      · have := ih (v :: r')
        simp only [modifyHead] at this
        simp [dense, hv, cModify, modifyHead, this]

theorem modifyHead_dec (f : Variable → Variable) {k : Nat} {r : List VIC} (h : Dec k r) :
    Dec k (modifyHead f r) := by
  cases r with
  | nil => trivial
  | cons v r => exact h

/-! ### get_or_new, Volatile -/

def cVol : Col → Col
  | [] => []
  | (k, some v) :: t => (k, some v) :: t
  | (k, none) :: t => (k, some ((cLookup t).getD {})) :: t

theorem cVol_dense (c : Context) (t : List Context) (r : List VIC) (h : Dec (t.length + 1) r) :
    cVol (dense (c :: t) r) = dense (c :: t) (volatileBranch t.length r) := by
  cases r with
  | nil =>
    have := cLookup_dense t [] trivial
    simp [dense, cVol, volatileBranch, this]
  | cons v r' =>
    by_cases hv : v.ctx = t.length
    · simp [dense, hv, cVol, volatileBranch]
    · have hd : Dec t.length (v :: r') := ⟨by have := h.1; omega, h.2⟩
      have := cLookup_dense t (v :: r') hd
      simp [dense, hv, cVol, volatileBranch, this]

theorem volatileBranch_dec (k : Nat) (r : List VIC) (h : Dec (k + 1) r) : Dec (k + 1) (volatileBranch k r) := by
  cases r with
  | nil => simp [volatileBranch]
  | cons v r' =>
    simp only [volatileBranch]
    split
    · have := h.1
      show k < k + 1 ∧ v.ctx < k ∧ Dec v.ctx r'
      exact ⟨by omega, by omega, h.2⟩
    · exact h

/-! ### unset -/

def cFirstRO : Nat → Col → Option Nat
  | 0, _ => none
  | _, [] => none
  | k+1, (_, some v) :: t => if v.isReadOnly then v.readOnly else cFirstRO k t
  | k+1, (_, none) :: t => cFirstRO k t

def cErase : Nat → Col → Col
  | 0, X => X
  | _, [] => []
  | k+1, (c, _) :: t => (c, none) :: cErase k t

theorem firstReadOnly_col (n : Name) (k : Nat) (X : SSet) : firstReadOnly n k X = cFirstRO k (col X n) := by
  induction X generalizing k with
  | nil => cases k <;> simp [firstReadOnly, cFirstRO]
  | cons c X ih =>
    cases k with
    | zero => simp [firstReadOnly, cFirstRO]
    | succ k => cases hv : c.vars n <;> simp [firstReadOnly, cFirstRO, hv, ih]

theorem eraseTop_col (n : Name) (k : Nat) (X : SSet) (m : Name) :
    col (eraseTop n k X) m = if m = n then cErase k (col X n) else col X m := by
  induction X generalizing k with
  | nil => cases k <;> simp [eraseTop, cErase]
  | cons c X ih =>
    cases k with
    | zero => by_cases hm : m = n <;> simp [eraseTop, cErase, hm]
    | succ k =>
      by_cases hm : m = n
      · subst hm; simp [eraseTop, cErase, ih, SCtx.set]
      · simp [eraseTop, ih, hm, SCtx.set]

theorem cErase_dense (rcs : List Context) (r : List VIC) (k : Nat) (h : Dec rcs.length r) (hk : k ≤ rcs.length) :
    cErase k (dense rcs r) = dense rcs (r.dropWhile (fun v => decide (rcs.length - k ≤ v.ctx))) := by
  induction rcs generalizing r k with
  | nil => cases dec_zero h; cases k <;> simp [dense, cErase]
  | cons c t ih =>
    cases k with
    | zero =>
      cases r with
      | nil => simp [cErase]
      | cons v r' =>
        have := h.1
        have hf : ¬ (t.length + 1 ≤ v.ctx) := by simp at this; omega
        simp [cErase, List.dropWhile_cons, hf]
    | succ k =>
      simp only [List.length_cons, Nat.add_le_add_iff_right] at hk
      have e : t.length + 1 - (k + 1) = t.length - k := by omega
      cases r with
      | nil => simpa [dense, cErase] using ih [] k trivial hk
      | cons v r' =>
        simp only [List.length_cons, dec_cons] at h
        by_cases hv : v.ctx = t.length
        · have hr' : Dec t.length r' := hv ▸ h.2
          have ht : decide (t.length - k ≤ v.ctx) = true := by simp; omega
          simp only [dense, hv, if_true, cErase, List.length_cons, e, List.dropWhile_cons]
          rw [← hv] at ht ⊢
          simp only [ht, if_true]
          rw [hv, ih r' k hr' hk, dense_of_dec c t _ (dec_dropWhile _ hr')]
        · have hd : Dec t.length (v :: r') := ⟨by omega, h.2⟩
          simp only [dense, if_neg hv, cErase, List.length_cons, e]
          rw [ih (v :: r') k hd hk, dense_of_dec c t _ (dec_dropWhile _ hd)]

theorem cFirstRO_dense (rcs : List Context) (r : List VIC) (k : Nat) (h : Dec rcs.length r) (hk : k ≤ rcs.length) :
    cFirstRO k (dense rcs r) =
      ((r.takeWhile (fun v => decide (rcs.length - k ≤ v.ctx))).find? (fun v => v.var.isReadOnly)).bind (·.var.readOnly) := by
  induction rcs generalizing r k with
  | nil => cases dec_zero h; cases k <;> simp [dense, cFirstRO]
  | cons c t ih =>
    cases k with
    | zero =>
      cases r with
      | nil => simp [cFirstRO]
      | cons v r' =>
        have := h.1
        have hf : ¬ (t.length + 1 ≤ v.ctx) := by simp at this; omega
        simp [cFirstRO, List.takeWhile_cons, hf]
    | succ k =>
      simp only [List.length_cons, Nat.add_le_add_iff_right] at hk
      have e : t.length + 1 - (k + 1) = t.length - k := by omega
      cases r with
      | nil => simpa [dense, cFirstRO] using ih [] k trivial hk
      | cons v r' =>
        simp only [List.length_cons, dec_cons] at h
        by_cases hv : v.ctx = t.length
        · have hr' : Dec t.length r' := hv ▸ h.2
          have ht : decide (t.length - k ≤ v.ctx) = true := by simp; omega
          simp only [dense, hv, if_true, cFirstRO, List.length_cons, e, List.takeWhile_cons]
          rw [← hv] at ht ⊢
          simp only [ht, if_true, List.find?_cons]
          rw [hv, ih r' k hr' hk]
          cases hro : v.var.isReadOnly <;> simp
        · have hd : Dec t.length (v :: r') := ⟨by omega, h.2⟩
          simp only [dense, if_neg hv, cFirstRO, List.length_cons, e]
          rw [ih (v :: r') k hd hk]

/-! the Rust side of `unset`: slicing the sorted stack at `partition_point` -/

theorem takeWhile_snoc_neg {α} (q : α → Bool) (l : List α) (v : α) (h : q v = false) :
    (l ++ [v]).takeWhile q = l.takeWhile q := by
  induction l with
  | nil => simp [List.takeWhile, h]
  | cons a l ih => simp only [List.cons_append, List.takeWhile_cons, ih]

theorem dropWhile_snoc_neg {α} (q : α → Bool) (l : List α) (v : α) (h : q v = false) :
    (l ++ [v]).dropWhile q = l.dropWhile q ++ [v] := by
  induction l with
  | nil => simp [List.dropWhile, h]
  | cons a l ih =>
    simp only [List.cons_append, List.dropWhile_cons, ih]
    split <;> simp

theorem takeWhile_all {α} (q : α → Bool) (l : List α) (h : ∀ x ∈ l, q x = true) : l.takeWhile q = l := by
  induction l with
  | nil => rfl
  | cons a l ih =>
    simp only [List.takeWhile_cons, h a (by simp), if_true]
    rw [ih (fun x hx => h x (by simp [hx]))]

theorem dropWhile_all {α} (q : α → Bool) (l : List α) (h : ∀ x ∈ l, q x = true) : l.dropWhile q = [] := by
  induction l with
  | nil => rfl
  | cons a l ih =>
    simp only [List.dropWhile_cons, h a (by simp), if_true]
    exact ih (fun x hx => h x (by simp [hx]))

theorem slice_reverse (st : List VIC) (idx : Nat) (h : st.Pairwise (fun a b => a.ctx < b.ctx)) :
    (st.drop (partitionPoint (fun v => decide (v.ctx < idx)) st)).reverse
        = st.reverse.takeWhile (fun v => decide (idx ≤ v.ctx)) ∧
    (st.take (partitionPoint (fun v => decide (v.ctx < idx)) st)).reverse
        = st.reverse.dropWhile (fun v => decide (idx ≤ v.ctx)) := by
  induction st with
  | nil => simp [partitionPoint]
  | cons v t ih =>
    rw [List.pairwise_cons] at h
    by_cases hv : v.ctx < idx
    · have hq : decide (idx ≤ v.ctx) = false := by simp; omega
      have ih := ih h.2
      simp only [partitionPoint] at ih ⊢
      simp only [List.takeWhile_cons, hv, decide_true, if_true, List.length_cons, List.drop_succ_cons,
        List.take_succ_cons, List.reverse_cons]
      rw [takeWhile_snoc_neg (fun v : VIC => decide (idx ≤ v.ctx)) _ _ hq,
        dropWhile_snoc_neg (fun v : VIC => decide (idx ≤ v.ctx)) _ _ hq, ih.1, ih.2]
      exact ⟨rfl, rfl⟩
    · have hall : ∀ x ∈ (v :: t).reverse, (fun v : VIC => decide (idx ≤ v.ctx)) x = true := by
        intro x hx
        simp only [List.mem_reverse, List.mem_cons] at hx
        rcases hx with rfl | hx
        · simp; omega
        · have := h.1 x hx; simp; omega
      simp only [partitionPoint, List.takeWhile_cons, hv, decide_false, List.length_nil, List.drop_zero,
        List.take_zero]
      rw [takeWhile_all _ _ hall, dropWhile_all _ _ hall]
      simp

/-! ### pop -/

def popIfR (k : Nat) : List VIC → List VIC
  | [] => []
  | v :: r => if k ≤ v.ctx then r else v :: r

theorem popIf_reverse (k : Nat) (st : List VIC) : (popIf k st).reverse = popIfR k st.reverse := by
  unfold popIf
  rw [← List.head?_reverse]
  cases h : st.reverse with
  | nil =>
    have : st = [] := by simpa using h
    simp [this, popIfR]
  | cons v r =>
    simp only [List.head?_cons, popIfR]
    split
    · have : st.dropLast.reverse = st.reverse.tail := by simp
      rw [this, h]; rfl
    · exact h

theorem dense_tail (c : Context) (t : List Context) (r : List VIC) (h : Dec (t.length + 1) r) :
    (dense (c :: t) r).tail = dense t (popIfR t.length r) := by
  cases r with
  | nil => simp [dense, popIfR]
  | cons v r' =>
    have := h.1
    by_cases hv : v.ctx = t.length
    · simp [dense, hv, popIfR]
    · have : ¬ t.length ≤ v.ctx := by omega
      simp [dense, hv, popIfR, this]

theorem popIfR_dec (k : Nat) (r : List VIC) (h : Dec (k + 1) r) : Dec k (popIfR k r) := by
  cases r with
  | nil => trivial
  | cons v r' =>
    simp only [popIfR]
    split
    · have := h.1
      have : v.ctx = k := by omega
      exact this ▸ h.2
    · exact ⟨by omega, h.2⟩

end YashModel.Variable
