/-
  C16 — Exec-level model on top of `VariableSet`: which scope a simple command's assignments get and
  which contexts surround the command (yash-semantics/src/command/simple_command.rs
  `perform_assignments`: `export = true → Scope::Volatile`, else `Scope::Global`;
  simple_command/builtin.rs `execute_builtin`: `Special → (env, export = false)`, else
  `(env.push_context(Context::Volatile), export = true)`; simple_command/function.rs
  `execute_function` + `execute_function_body`: volatile context, assignments, regular context with
  the positional parameters, body, both guards dropped; simple_command/external.rs: volatile
  context, assignments, (fork + exec), guard dropped; simple_command/absent.rs: `export = false`).
  A command is compiled to the operations of `Model.lean`.  Import-free, executable.
-/
import YashModel.Variable.Model
namespace YashModel.Variable

/-- `assign::perform_assignment` with `scope = Volatile, export = true`:
    `get_or_create_variable`, `assign`, `export(true)` -/
def tempOps (as : List (Name × Value)) : List Op :=
  as.flatMap fun (n, v) => [Op.assign n .volatile v none, Op.export n .volatile true]

/-- `perform_assignment` with `scope = Global, export = false` -/
def globalOps (as : List (Name × Value)) : List Op :=
  as.map fun (n, v) => Op.assign n .global v none

/-- the value of one assignment of a command's prefix: a literal, or `$n` (a parameter expansion of
    another variable; in an assignment there is no field splitting) -/
inductive AVal where
  | lit (v : Value)
  | ref (n : Name)

/-- what `$n` expands to as an assignment value: the scalar itself, the elements of an array joined
    by a space, the empty string for an unset or valueless variable -/
def valueOfVar : Option Variable → Value
  | some { value := some (.scalar x), .. } => .scalar x
  | some { value := some (.array xs), .. } => .scalar (" ".intercalate xs)
  | _ => .scalar ""

/-- `assign::perform_assignment` for one already expanded value: `get_or_create_variable(n, scope)`,
    `assign`, and `export(true)` when `export` is set -/
def assignOps (sc : Scope) (ex : Bool) (n : Name) (v : Value) : List Op :=
  Op.assign n sc v none :: (if ex then [Op.export n sc true] else [])

/-- a command without a command name, or a special built-in: assignments at `Global` scope in the
    current contexts, then whatever the built-in does (`body`) -/
def specialCmd (as : List (Name × Value)) (body : List Op) : List Op := globalOps as ++ body

/-- a regular built-in, an external utility or a command that is not found: the assignments live in
    a volatile context that is popped when the command ends (`body` = what the built-in does) -/
def regularCmd (as : List (Name × Value)) (body : List Op) : List Op :=
  [Op.push .volatile] ++ tempOps as ++ body ++ [Op.pop]

/-- a function call: volatile context with the assignments, regular context with the positional
    parameters, the body, both contexts popped -/
def functionCmd (as : List (Name × Value)) (params : List String) (body : List Op) : List Op :=
  [Op.push .volatile] ++ tempOps as ++ [Op.push (.regular params)] ++ body ++ [Op.pop, Op.pop]

/-- the `readonly` built-in (`yash-builtin/src/readonly.rs`: `sv.scope = Global`, attribute
    `ReadOnly`) for one operand `n` or `n=v`: `get_or_create_variable(n, Global)`, `assign`,
    `make_read_only` -/
def readonlyOps (n : Name) (ov : Option Value) (loc : Nat) : List Op :=
  match ov with
  | none => [Op.getOrNew n .global, Op.readonly n .global loc]
  | some v => [Op.assign n .global v none, Op.readonly n .global loc]

/-- the `export` built-in (`yash-builtin/src/export.rs`: `sv.scope = Global`, attribute `Export`)
    for one operand `n` or `n=v` -/
def exportOps (n : Name) (ov : Option Value) : List Op :=
  match ov with
  | none => [Op.getOrNew n .global, Op.export n .global true]
  | some v => [Op.assign n .global v none, Op.export n .global true]

/-- the `unset` built-in for variables (`yash-builtin/src/unset/semantics.rs` `unset_variables`:
    `env.variables.unset(name, Global)` for every operand) -/
def unsetOps (names : List Name) : List Op := names.map fun n => Op.unset n .global

/-- what a function called as `as… f ps…` starts its body in -/
def enterFunction (as : List (Name × Value)) (ps : List String) : List Op :=
  [Op.push .volatile] ++ tempOps as ++ [Op.push (.regular ps)]

end YashModel.Variable
