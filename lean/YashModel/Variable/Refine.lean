/-
  C16 — helper lemmas, part 4: each operation of the Rust model, on a normalised set, commutes with
  the abstraction function and keeps the set normalised.
-/
import YashModel.Variable.Ops
namespace YashModel.Variable

theorem Norm.pos {s : VariableSet} (h : Norm s) : 0 < s.contexts.length := by
  obtain ⟨ps, t, ht⟩ := h.base; simp [ht]

theorem Norm.decR {s : VariableSet} (h : Norm s) (n : Name) : Dec s.contexts.reverse.length (s.all n).reverse := by
  simpa using h.dec n

theorem Norm.lastRegular {s : VariableSet} (h : Norm s) :
    ∀ c, s.contexts.reverse.getLast? = some c → c.isRegular = true := by
  obtain ⟨ps, t, ht⟩ := h.base
  intro c hc
  simp [ht] at hc
  subst hc; rfl

theorem norm_setStack {s : VariableSet} (h : Norm s) (n : Name) (st' : List VIC)
    (hd : Dec s.contexts.length st'.reverse) : Norm (s.setStack n st') := by
  apply norm_of_dec
  · intro m
    simp only [VariableSet.setStack]
    split
    · exact hd
    · exact h.dec m
  · exact h.base

/-! ### reads -/

theorem get_abs {s : VariableSet} (h : Norm s) (n : Name) : s.get n = lookup (abs s) n := by
  rw [lookup_col, col_abs h, cLookup_dense _ _ (h.decR n)]
  simp [VariableSet.get, List.head?_reverse]

theorem getScoped_abs {s : VariableSet} (h : Norm s) (n : Name) (scope : Scope) :
    s.getScoped n scope = (abs s).getScoped n scope := by
  obtain ⟨hk, hi⟩ := index_depth h scope
  unfold SSet.getScoped VariableSet.getScoped
  rw [lookup_col, col_take, col_abs h, cLookup_dense_take _ _ _ (h.decR n) (by simpa using hk)]
  simp [hi, List.head?_reverse]

/-! ### get_or_new -/

theorem getOrNew_lower_abs {s : VariableSet} (h : Norm s) (n : Name) (tb : Bool) (target : Nat)
    (htb : tb = true → target = 0) (hloc : tb = false → target = topRegular s.contexts) :
    abs (s.setStack n (lowerLoop s.contexts target (s.all n).reverse none).reverse) = lower n tb (abs s) none ∧
    Norm (s.setStack n (lowerLoop s.contexts target (s.all n).reverse none).reverse) := by
  have hl := h.volK_lt
  have htr := topRegular_eq h
  have htl : target < s.contexts.length := by
    cases tb with
    | true => have := htb rfl; have := h.pos; omega
    | false => have := hloc rfl; omega
  have hd : Dec s.contexts.length (lowerLoop s.contexts target (s.all n).reverse none).reverse.reverse := by
    rw [List.reverse_reverse]
    exact lowerLoop_dec _ _ _ _ _ (h.dec n) htl
  refine ⟨abs_setStack h n _ _ hd ?_, norm_setStack h n _ hd⟩
  intro m
  rw [lower_col, col_abs h n, List.reverse_reverse]
  split
  · rw [cLower_dense s.contexts tb target s.contexts.reverse (s.all n).reverse none [] (by simp) (h.decR n)]
    · intro hb; exact ⟨htb hb, h.lastRegular⟩
    · intro hb; have := hloc hb; simp only [List.length_reverse]; omega
  · rfl

theorem getOrNew_vol_col (c : SCtx) (t : SSet) (n : Name) (hc : c.kind.isRegular = false) :
    ∃ Y, SSet.getOrNew (c :: t) n .volatile = some Y ∧
      ∀ m, col Y m = if m = n then cVol (col (c :: t) n) else col (c :: t) m := by
  simp only [SSet.getOrNew, hc]
  cases hv : c.vars n with
  | some v =>
    refine ⟨c :: t, by simp, ?_⟩
    intro m; split
    · rename_i hm; subst hm; simp [cVol, hv]
    · rfl
  | none =>
    refine ⟨c.set n (some ((lookup t n).getD {})) :: t, by simp, ?_⟩
    intro m
    by_cases hm : m = n
    · subst hm; simp [cVol, hv, SCtx.set, lookup_col]
    · simp [hm, SCtx.set]

theorem getOrNew_abs {s : VariableSet} (h : Norm s) (n : Name) (scope : Scope) :
    (s.getOrNew n scope).map abs = (abs s).getOrNew n scope ∧
    ∀ s', s.getOrNew n scope = some s' → Norm s' := by
  cases scope with
  | global =>
    have := getOrNew_lower_abs h n true 0 (fun _ => rfl) (fun h => by cases h)
    simp only [VariableSet.getOrNew, SSet.getOrNew, Option.map_some, this.1, true_and]
    intro s' hs; cases hs; exact this.2
  | loc =>
    have := getOrNew_lower_abs h n false (topRegular s.contexts) (fun h => by cases h) (fun _ => rfl)
    simp only [VariableSet.getOrNew, SSet.getOrNew, Option.map_some, this.1, true_and]
    intro s' hs; cases hs; exact this.2
  | volatile =>
    cases hr : s.contexts.reverse with
    | nil => have := h.pos; have : s.contexts = [] := by simpa using hr
             simp_all
    | cons c t =>
      have hlen : s.contexts.length = t.length + 1 := by
        have := congrArg List.length hr; simpa using this
      have habs : abs s = ⟨c, fun m => cellAt (s.all m) t.length⟩ :: absRev s.all t := by
        unfold abs; rw [hr]; rfl
      have hcs : s.contexts = t.reverse ++ [c] := by
        have := congrArg List.reverse hr; simpa using this
      have hvol : isVolatileAt s.contexts (s.contexts.length - 1) = !c.isRegular := by
        rw [hlen, hcs]; exact isVolatileAt_append t c []
      by_cases hc : c.isRegular = true
      · simp [VariableSet.getOrNew, hvol, hc, habs, SSet.getOrNew]
      · have hc' : c.isRegular = false := by simpa using hc
        obtain ⟨Y, hY, hcol⟩ := getOrNew_vol_col ⟨c, fun m => cellAt (s.all m) t.length⟩ (absRev s.all t) n hc'
        have hd0 : Dec (t.length + 1) (s.all n).reverse := hlen ▸ h.dec n
        have hd : Dec s.contexts.length (volatileBranch (s.contexts.length - 1) (s.all n).reverse).reverse.reverse := by
          rw [List.reverse_reverse, hlen]
          exact volatileBranch_dec _ _ hd0
        simp only [VariableSet.getOrNew, hvol, hc', Bool.not_false, if_true, Option.map_some, habs, hY]
        refine ⟨congrArg some (abs_setStack h n _ _ hd ?_), ?_⟩
        · intro m
          rw [hcol m, ← habs, col_abs h n, List.reverse_reverse, hr, hlen]
          split
          · exact cVol_dense c t _ hd0
          · rw [col_abs h m, hr]
        · intro s' hs; cases hs; exact norm_setStack h n _ hd

/-! ### modification through the returned reference -/

theorem modifyLast_abs {s : VariableSet} (h : Norm s) (n : Name) (f : Variable → Variable) :
    abs (s.modifyLast n f) = modifyVisible n f (abs s) ∧ Norm (s.modifyLast n f) := by
  have hd : Dec s.contexts.length (modifyHead f (s.all n).reverse).reverse.reverse := by
    rw [List.reverse_reverse]; exact modifyHead_dec f (h.dec n)
  refine ⟨abs_setStack h n _ _ hd ?_, norm_setStack h n _ hd⟩
  intro m
  rw [modifyVisible_col, col_abs h n, List.reverse_reverse, cModify_dense]

/-! ### unset -/

theorem unset_abs {s : VariableSet} (h : Norm s) (n : Name) (scope : Scope) :
    abs (s.unset n scope).1 = ((abs s).unset n scope).1 ∧
    (s.unset n scope).2 = ((abs s).unset n scope).2 ∧ Norm (s.unset n scope).1 := by
  obtain ⟨hk, hi⟩ := index_depth h scope
  obtain ⟨hB, hA⟩ := slice_reverse (s.all n) (indexOfContext scope s.contexts) (h.sorted n)
  have hk' : scopeDepth scope (abs s) ≤ s.contexts.reverse.length := by simpa using hk
  have hro := cFirstRO_dense _ _ _ (h.decR n) hk'
  simp only [List.length_reverse, ← hi] at hro
  simp only [VariableSet.unset, SSet.unset, firstReadOnly_col, col_abs h n, hro, hB]
  cases hf : ((s.all n).reverse.takeWhile (fun v => decide (indexOfContext scope s.contexts ≤ v.ctx))).find?
      (fun v => v.var.isReadOnly) with
  | some vic =>
    have hvro : vic.var.isReadOnly = true := by simpa using List.find?_some hf
    unfold Variable.isReadOnly at hvro
    cases hl : vic.var.readOnly with
    | none => simp [hl] at hvro
    | some l => simp [hl, h]
  | none =>
    have hd : Dec s.contexts.length ((s.all n).take (partitionPoint (fun v => decide (v.ctx < indexOfContext scope s.contexts)) (s.all n))).reverse := by
      rw [hA]; exact dec_dropWhile _ (h.dec n)
    simp only [Option.bind_none]
    refine ⟨abs_setStack h n _ _ hd ?_, ?_, norm_setStack h n _ hd⟩
    · intro m
      rw [eraseTop_col, col_abs h n, hA, cErase_dense _ _ _ (h.decR n) hk']
      simp only [List.length_reverse, ← hi]
    · rw [lookup_col, col_take, col_abs h n, cLookup_dense_take _ _ _ (h.decR n) hk']
      simp only [List.length_reverse, ← hi, ← List.head?_reverse, hB, List.head?_takeWhile]

/-! ### push and pop -/

theorem push_abs {s : VariableSet} (h : Norm s) (c : Context) :
    abs (s.pushContext c) = (abs s).push c ∧ Norm (s.pushContext c) := by
  have hN : Norm (s.pushContext c) := by
    apply norm_of_dec
    · intro n; simp only [VariableSet.pushContext, List.length_append, List.length_singleton]
      exact dec_mono (h.dec n) (Nat.le_succ _)
    · obtain ⟨ps, t, ht⟩ := h.base
      exact ⟨ps, t ++ [c], by simp [VariableSet.pushContext, ht]⟩
  refine ⟨sset_ext fun m => ?_, hN⟩
  rw [col_abs hN]
  simp only [VariableSet.pushContext, List.reverse_append, List.reverse_cons, List.reverse_nil,
    List.nil_append, List.cons_append, SSet.push, col_cons]
  rw [dense_of_dec c _ _ (h.decR m), col_abs h]

theorem pop_col (X : SSet) (m : Name) (h : 2 ≤ X.length) : col X.pop m = (col X m).tail := by
  match X, h with
  | _ :: _ :: _, _ => rfl

theorem pop_abs {s : VariableSet} (h : Norm s) :
    abs s.popContext = (abs s).pop ∧ Norm s.popContext := by
  unfold VariableSet.popContext
  split
  · rename_i hle
    refine ⟨?_, h⟩
    have := abs_length s
    match habs : abs s, this with
    | [], _ => rfl
    | [_], _ => rfl
    | _ :: _ :: _, hl => simp at hl; omega
  · rename_i hgt
    cases hr : s.contexts.reverse with
    | nil => have : s.contexts = [] := by simpa using hr
             simp [this] at hgt
    | cons c t =>
      have hlen : s.contexts.length = t.length + 1 := by
        have := congrArg List.length hr; simpa using this
      have hrev' : s.contexts.dropLast.reverse = t := by
        have : s.contexts.dropLast.reverse = s.contexts.reverse.tail := by simp
        rw [this, hr]; rfl
      have hN : Norm { all := fun n => popIf (s.contexts.length - 1) (s.all n), contexts := s.contexts.dropLast } := by
        apply norm_of_dec
        · intro n
          simp only [List.length_dropLast, popIf_reverse, hlen, Nat.add_sub_cancel]
          exact popIfR_dec _ _ (hlen ▸ h.dec n)
        · obtain ⟨ps, u, hu⟩ := h.base
          cases u with
          | nil => simp [hu] at hgt
          | cons d u => exact ⟨ps, (d :: u).dropLast, by simp [hu]⟩
      refine ⟨sset_ext fun m => ?_, hN⟩
      rw [col_abs hN, pop_col _ _ (by rw [abs_length]; omega), col_abs h]
      simp only [hrev', popIf_reverse, hr, hlen, Nat.add_sub_cancel]
      rw [dense_tail c t _ (hlen ▸ h.dec m)]

/-! ### positional parameters -/

def cSetP (ps : List String) : Col → Col
  | [] => []
  | (k, o) :: t => if k.isRegular then (.regular ps, o) :: t else (k, o) :: cSetP ps t

theorem setParams_col (ps : List String) (X : SSet) (m : Name) : col (setParams ps X) m = cSetP ps (col X m) := by
  induction X with
  | nil => rfl
  | cons c X ih => simp only [setParams, col_cons, cSetP]; split <;> simp [ih]

theorem setFirstRegular_length (ps : List String) (rcs : List Context) :
    (setFirstRegular ps rcs).length = rcs.length := by
  induction rcs with
  | nil => rfl
  | cons c t ih => simp only [setFirstRegular]; split <;> simp [ih]

theorem dense_setFirstRegular (ps : List String) (rcs : List Context) (r : List VIC) :
    dense (setFirstRegular ps rcs) r = cSetP ps (dense rcs r) := by
  induction rcs generalizing r with
  | nil => rfl
  | cons c t ih =>
    by_cases hc : c.isRegular = true
    · cases r with
      | nil => simp [setFirstRegular, hc, dense, cSetP]
      | cons v r' => simp only [setFirstRegular, hc, if_true, dense]; split <;> simp [cSetP, hc]
    · cases r with
      | nil => simp [setFirstRegular, hc, dense, cSetP, ih]
      | cons v r' =>
        by_cases hv : v.ctx = t.length
        · simp [setFirstRegular, hc, dense, setFirstRegular_length, hv, cSetP, ih]
        · simp [setFirstRegular, hc, dense, setFirstRegular_length, hv, cSetP, ih]

theorem setFirstRegular_last (ps : List String) (rcs : List Context)
    (h : ∃ c, rcs.getLast? = some c ∧ c.isRegular = true) :
    ∃ c, (setFirstRegular ps rcs).getLast? = some c ∧ c.isRegular = true := by
  induction rcs with
  | nil => simpa using h
  | cons c t ih =>
    simp only [setFirstRegular]
    split
    · cases t with
      | nil => exact ⟨_, rfl, rfl⟩
      | cons d t => simpa [List.getLast?_cons_cons] using h
    · rename_i hc
      cases t with
      | nil => obtain ⟨d, hd, hr⟩ := h; simp at hd; subst hd; exact absurd hr hc
      | cons d t =>
        have := ih (by simpa [List.getLast?_cons_cons] using h)
        cases hs : setFirstRegular ps (d :: t) with
        | nil => have := setFirstRegular_length ps (d :: t); simp [hs] at this
        | cons e u => rw [hs] at this; simpa [List.getLast?_cons_cons] using this

theorem setParams_abs {s : VariableSet} (h : Norm s) (ps : List String) :
    abs (s.setPositionalParams ps) = setParams ps (abs s) ∧ Norm (s.setPositionalParams ps) := by
  have hlen : (s.setPositionalParams ps).contexts.length = s.contexts.length := by
    simp [VariableSet.setPositionalParams, setFirstRegular_length]
  have hN : Norm (s.setPositionalParams ps) := by
    apply norm_of_dec
    · intro n; rw [hlen]; exact h.dec n
    · obtain ⟨c, hc, hr⟩ := setFirstRegular_last ps s.contexts.reverse (by
        obtain ⟨qs, t, ht⟩ := h.base
        exact ⟨.regular qs, by simp [ht], rfl⟩)
      simp only [VariableSet.setPositionalParams]
      cases hrev : (setFirstRegular ps s.contexts.reverse).reverse with
      | nil =>
        have : setFirstRegular ps s.contexts.reverse = [] := by simpa using hrev
        simp [this] at hc
      | cons d u =>
        have : setFirstRegular ps s.contexts.reverse = u.reverse ++ [d] := by
          have := congrArg List.reverse hrev; simpa using this
        rw [this] at hc
        simp at hc; subst hc
        cases d with
        | regular qs => exact ⟨qs, u, rfl⟩
        | volatile => cases hr
  refine ⟨sset_ext fun m => ?_, hN⟩
  rw [col_abs hN, setParams_col, col_abs h]
  simp only [VariableSet.setPositionalParams, List.reverse_reverse]
  exact dense_setFirstRegular ps _ _

theorem positionalParams_abs (s : VariableSet) : s.positionalParams = (abs s).positionalParams := by
  unfold VariableSet.positionalParams SSet.positionalParams abs
  generalize s.contexts.reverse = rcs
  congr 1
  induction rcs with
  | nil => rfl
  | cons c t ih => cases c <;> simp [absRev, List.findSome?_cons, ih]

end YashModel.Variable
