/-
  C16 — helper lemmas of wave 3: the frame rule for *every* kind of command with an arbitrary body.
  `Frame.lean` proved it for function calls (the command's own context is regular, so only
  `Global`-scope accesses reach below it).  A regular built-in, an external utility and a command
  that is not found run in a *volatile* context: a `Local`-scope access, an `unset` at `Volatile`
  scope and `set --` reach below it as well (unless the body is inside a regular context it pushed
  itself), and `get_or_new(Local)` even carries the temporary variable down with it.  `frameOK` is
  the exact admissibility condition; `run_frameG` is the induction over the body, for both kinds of
  commands.  Also here: the Spec side of `global_access_keeps_temporary` (the case the condition excludes) and
  the idempotence of the Spec's `get_or_new` walk.  Property theorems are in `Theorems.lean`.
-/
import YashModel.Variable.Frame
namespace YashModel.Variable

/-- the name whose instances *below* the contexts of the running command an operation may reach.
    `inReg` = a regular context lies among the contexts pushed since the command began (including the
    command's own one).  `Global` scope always reaches down; `Local` scope and an `unset` at
    `Volatile` scope do unless a regular context shields what is below; `get_or_new(Volatile)` only
    ever writes the top context. -/
def Op.escName (inReg : Bool) : Op → Option Name
  | .getOrNew n sc | .assign n sc _ _ | .export n sc _ | .readonly n sc _ | .quirk n sc _ =>
    match sc with
    | .global => some n
    | .loc => if inReg then none else some n
    | .volatile => none
  | .unset n sc =>
    match sc with
    | .global => some n
    | _ => if inReg then none else some n
  | _ => none

/-- `set --` changes the positional parameters of a context below the command's own contexts -/
def Op.escParams (inReg : Bool) : Op → Bool
  | .setParams _ => !inReg
  | _ => false

/-- the kinds (`true` = regular) of the contexts pushed by the body so far, top first -/
def nextStack (st : List Bool) : Op → Option (List Bool)
  | .push c => some (c.isRegular :: st)
  | .pop => match st with
    | [] => none
    | _ :: st' => some st'
  | _ => some st

/-- a body is balanced (every context it pushes is popped again, none of the outer ones is), never
    does `set --` outside a regular context of its own, and no operation of it reaches below the
    command's contexts for a name in `N`.  `base` = the command's own bottom context is regular (a
    function call) or volatile (a regular built-in, an external utility, a command not found). -/
def frameOK (N : Name → Prop) (base : Bool) : List Bool → List Op → Prop
  | st, [] => st = []
  | st, op :: r =>
    op.escParams (base || st.any id) = false ∧
    (∀ m, op.escName (base || st.any id) = some m → ¬ N m) ∧
    match nextStack st op with
    | none => False
    | some st' => frameOK N base st' r

theorem hasReg_of_regs (T : SSet) (st : List Bool) (base : Bool)
    (hT : T.map (·.kind.isRegular) = st ++ [base]) : hasReg T = (base || st.any id) := by
  have : hasReg T = (T.map (·.kind.isRegular)).any id := by simp [hasReg, List.any_map, Function.comp_def]
  rw [this, hT]; simp [Bool.or_comm]

/-- `get_or_new(Volatile)` writes the top context only -/
theorem getOrNew_volTop (c : SCtx) (X : SSet) (n : Name) :
    SSet.getOrNew (c :: X) n .volatile = none ∨
    ∃ c1 v, SSet.getOrNew (c :: X) n .volatile = some (c1 :: X) ∧ c1.kind = c.kind ∧ c1.vars n = some v := by
  simp only [SSet.getOrNew]
  by_cases hc : c.kind.isRegular = true
  · left; simp [hc]
  · right
    simp only [hc, Bool.false_eq_true, if_false]
    cases hv : c.vars n with
    | some v => exact ⟨c, v, rfl, rfl, hv⟩
    | none => exact ⟨c.set n (some ((lookup X n).getD {})), (lookup X n).getD {}, rfl, rfl, by simp [SCtx.set]⟩

theorem stepM_volTop (c : SCtx) (X : SSet) (n : Name) (f : Variable → Variable) (r : SSet → Res) :
    ∃ c', (match SSet.getOrNew (c :: X) n .volatile with
      | none => (c :: X, Res.noVolatile)
      | some X1 => (modifyVisible n f X1, r X1)).1 = c' :: X ∧ c'.kind = c.kind := by
  rcases getOrNew_volTop c X n with hg | ⟨c1, v, hg, hk, hv⟩
  · rw [hg]; exact ⟨c, rfl, rfl⟩
  · rw [hg]; exact ⟨c1.set n (some (f v)), by simp [modifyVisible, hv], hk⟩

/-- a named operation at `Volatile` scope other than `unset` -/
def isVolWrite : Op → Bool
  | .getOrNew _ .volatile | .assign _ .volatile _ _ | .export _ .volatile _ | .readonly _ .volatile _
  | .quirk _ .volatile _ => true
  | _ => false

theorem step_volTop (c : SCtx) (X : SSet) (op : Op) (hop : isVolWrite op = true) :
    ∃ c', (SSet.step (c :: X) op).1 = c' :: X ∧ c'.kind = c.kind := by
  cases op with
  | push _ => simp [isVolWrite] at hop
  | pop => simp [isVolWrite] at hop
  | setParams _ => simp [isVolWrite] at hop
  | unset _ _ => simp [isVolWrite] at hop
  | getOrNew n sc =>
    cases sc <;> first | (simp [isVolWrite] at hop; done) | skip
    simp only [SSet.step]
    rcases getOrNew_volTop c X n with hg | ⟨c1, v, hg, hk, _⟩
    · rw [hg]; exact ⟨c, rfl, rfl⟩
    · rw [hg]; exact ⟨c1, rfl, hk⟩
  | assign n sc v loc =>
    cases sc <;> first | (simp [isVolWrite] at hop; done) | skip
    exact stepM_volTop c X n (·.assign v loc) (fun X1 => assignRes ((lookup X1 n).getD {}))
  | «export» n sc b =>
    cases sc <;> first | (simp [isVolWrite] at hop; done) | skip
    exact stepM_volTop c X n (·.setExport b) (fun _ => .done)
  | readonly n sc loc =>
    cases sc <;> first | (simp [isVolWrite] at hop; done) | skip
    exact stepM_volTop c X n (·.makeReadOnly loc) (fun _ => .done)
  | quirk n sc q =>
    cases sc <;> first | (simp [isVolWrite] at hop; done) | skip
    exact stepM_volTop c X n (·.setQuirk q) (fun _ => .done)

/-- how a named operation on a name of `N` can be admissible: it writes the top context only, or a
    regular context of the command shields what is below -/
theorem named_classify (op : Op) (m : Name) (hm : op.name? = some m) (inReg : Bool)
    (hesc : op.escName inReg ≠ some m) :
    isVolWrite op = true ∨ (inReg = true ∧ isUpperOp op = true) := by
  cases op with
  | push _ => cases hm
  | pop => cases hm
  | setParams _ => cases hm
  | getOrNew n sc => cases sc <;> cases inReg <;> simp_all [Op.name?, Op.escName, isVolWrite, isUpperOp]
  | assign n sc _ _ => cases sc <;> cases inReg <;> simp_all [Op.name?, Op.escName, isVolWrite, isUpperOp]
  | «export» n sc _ => cases sc <;> cases inReg <;> simp_all [Op.name?, Op.escName, isVolWrite, isUpperOp]
  | readonly n sc _ => cases sc <;> cases inReg <;> simp_all [Op.name?, Op.escName, isVolWrite, isUpperOp]
  | quirk n sc _ => cases sc <;> cases inReg <;> simp_all [Op.name?, Op.escName, isVolWrite, isUpperOp]
  | unset n sc => cases sc <;> cases inReg <;> simp_all [Op.name?, Op.escName, isVolWrite, isUpperOp]

theorem nextStack_named (st : List Bool) (op : Op) (m : Name) (hm : op.name? = some m) :
    nextStack st op = some st := by
  cases op <;> first | (cases hm; done) | rfl

/-- the general frame rule: the body runs in `T ++ L`, `T` = the command's own context (regular for a
    function call, volatile otherwise) and whatever the body has pushed on it; afterwards `T` is back to
    one context of that kind and `L` agrees with what it was on every name of `N` -/
theorem run_frameG (N : Name → Prop) (base : Bool) (ops : List Op) (st : List Bool) (T L : SSet)
    (hT : T.map (·.kind.isRegular) = st ++ [base]) (hok : frameOK N base st ops) :
    ∃ F' L', SSet.run (T ++ L) ops = F' :: L' ∧ F'.kind.isRegular = base ∧ Agree N L L' := by
  induction ops generalizing st T L with
  | nil =>
    have hst : st = [] := hok
    subst hst
    cases T with
    | nil => simp at hT
    | cons F T =>
      have hT' : F.kind.isRegular = base ∧ T = [] := by simpa using hT
      obtain ⟨hF, rfl⟩ := hT'
      exact ⟨F, L, rfl, hF, agree_refl _ _⟩
  | cons op ops ih =>
    obtain ⟨hpar, hesc, hnext⟩ := hok
    have hR := hasReg_of_regs T st base hT
    by_cases hname : ∃ m, op.name? = some m
    · obtain ⟨m, hm⟩ := hname
      rw [nextStack_named st op m hm] at hnext
      by_cases hNm : N m
      · -- a name of `N`: the operation stays inside `T`
        have hne : op.escName (base || st.any id) ≠ some m := fun e => hesc m e hNm
        rcases named_classify op m hm _ hne with hv | ⟨hin, hup⟩
        · cases T with
          | nil => simp at hT
          | cons c T =>
            obtain ⟨c', h1, hk⟩ := step_volTop c (T ++ L) op hv
            simp only [SSet.run, List.cons_append, h1]
            exact ih st (c' :: T) L (by simpa [hk] using hT) hnext
        · obtain ⟨T', h1, h2⟩ := step_upper T L (by rw [hR]; exact hin) op hup
          simp only [SSet.run, h1]
          exact ih st T' L (by rw [h2]; exact hT) hnext
      · -- any operation on a name outside `N`: only that name's column changes
        obtain ⟨T', L1, h1, hTT, hL⟩ := agree_append_split T L (step_agree_name (T ++ L) op m hm)
        have h2 : T'.map (·.kind.isRegular) = T.map (·.kind.isRegular) := regs_of_kinds (agree_kinds hTT)
        simp only [SSet.run, h1]
        obtain ⟨F', L', hr, hF, hA⟩ := ih st T' L1 (by rw [h2]; exact hT) hnext
        exact ⟨F', L', hr, hF, agree_trans (agree_mono (fun n hn (e : n = m) => hNm (e ▸ hn)) hL) hA⟩
    · cases op with
      | push c =>
        simp only [SSet.run, SSet.step, SSet.push]
        have := ih (c.isRegular :: st) (⟨c, fun _ => none⟩ :: T) L (by simp [hT]) hnext
        simpa using this
      | pop =>
        cases st with
        | nil => exact hnext.elim
        | cons b st' =>
          cases T with
          | nil => simp at hT
          | cons c T =>
            cases T with
            | nil => simp at hT
            | cons c2 T =>
              simp only [SSet.run, SSet.step, List.cons_append, SSet.pop]
              exact ih st' (c2 :: T) L (by simp at hT; simpa using hT.2) hnext
      | setParams ps =>
        have hin : (base || st.any id) = true := by
          cases hb : (base || st.any id) with
          | true => rfl
          | false => rw [hb] at hpar; simp [Op.escParams] at hpar
        obtain ⟨T', h1, h2⟩ := step_upper T L (by rw [hR]; exact hin) (.setParams ps) rfl
        simp only [SSet.run, h1]
        exact ih st T' L (by rw [h2]; exact hT) hnext
      | getOrNew n _ => exact absurd ⟨n, rfl⟩ hname
      | assign n _ _ _ => exact absurd ⟨n, rfl⟩ hname
      | «export» n _ _ => exact absurd ⟨n, rfl⟩ hname
      | readonly n _ _ => exact absurd ⟨n, rfl⟩ hname
      | unset n _ => exact absurd ⟨n, rfl⟩ hname
      | quirk n _ _ => exact absurd ⟨n, rfl⟩ hname

/-- the hypotheses of `function_call_frame` (extension round) are the instance `base = true` -/
theorem frameOK_of_balanced (N : Name → Prop) (ops : List Op) (st : List Bool)
    (hbal : balanced st.length ops = true)
    (hops : ∀ op ∈ ops, ∀ m, op.globalName? = some m → ¬ N m) : frameOK N true st ops := by
  induction ops generalizing st with
  | nil => simpa [balanced, frameOK] using hbal
  | cons op ops ih =>
    have hops' : ∀ o ∈ ops, ∀ m, o.globalName? = some m → ¬ N m := fun o ho => hops o (by simp [ho])
    have hesc : ∀ m, op.escName true = some m → op.globalName? = some m := by
      intro m
      cases op with
      | push _ => simp [Op.escName]
      | pop => simp [Op.escName]
      | setParams _ => simp [Op.escName]
      | getOrNew n sc => cases sc <;> simp [Op.escName, Op.globalName?]
      | assign n sc _ _ => cases sc <;> simp [Op.escName, Op.globalName?]
      | «export» n sc _ => cases sc <;> simp [Op.escName, Op.globalName?]
      | readonly n sc _ => cases sc <;> simp [Op.escName, Op.globalName?]
      | quirk n sc _ => cases sc <;> simp [Op.escName, Op.globalName?]
      | unset n sc => cases sc <;> simp [Op.escName, Op.globalName?]
    refine ⟨by cases op <;> simp [Op.escParams], fun m hm => hops op (by simp) m (hesc m (by simpa using hm)), ?_⟩
    cases op with
    | push c => exact ih (c.isRegular :: st) (by simpa [balanced] using hbal) hops'
    | pop =>
      cases st with
      | nil => simp [balanced] at hbal
      | cons b st' => exact ih st' (by simpa [balanced] using hbal) hops'
    | setParams _ => exact ih st (by simpa [balanced] using hbal) hops'
    | getOrNew _ _ => exact ih st (by simpa [balanced] using hbal) hops'
    | assign _ _ _ _ => exact ih st (by simpa [balanced] using hbal) hops'
    | «export» _ _ _ => exact ih st (by simpa [balanced] using hbal) hops'
    | readonly _ _ _ => exact ih st (by simpa [balanced] using hbal) hops'
    | quirk _ _ _ => exact ih st (by simpa [balanced] using hbal) hops'
    | unset _ _ => exact ih st (by simpa [balanced] using hbal) hops'

/-- ★ (Spec) a regular built-in / external utility / command not found with any temporary
    assignments and an arbitrary admissible body: the stack of maps afterwards agrees with the one
    before on every name of `N`, in every context, with the same kinds and positional parameters -/
theorem spec_regular_frame (X : SSet) (hX : X ≠ []) (as : List (Name × Value)) (body : List Op)
    (N : Name → Prop) (hok : frameOK N false [] body) :
    Agree N X (SSet.run X (regularCmd as body)) := by
  obtain ⟨cV, h1, hk⟩ := run_topVol ⟨.volatile, fun _ => none⟩ X rfl (tempOps as) (tempOps_topVol as)
  have h2 : SSet.run X ([Op.push .volatile] ++ tempOps as) = cV :: X := by
    simp only [List.singleton_append, SSet.run]; exact h1
  have hsplit : regularCmd as body = ([Op.push .volatile] ++ tempOps as) ++ (body ++ [Op.pop]) := by
    simp [regularCmd]
  rw [hsplit, SSet.run_append, h2, SSet.run_append]
  obtain ⟨F', L', hr, _, hA⟩ := run_frameG N false body [] [cV] X (by simp [hk]) hok
  have hr' : SSet.run (cV :: X) body = F' :: L' := hr
  rw [hr']
  have hne : L' ≠ [] := by
    intro e; subst e
    cases X with
    | nil => exact hX rfl
    | cons _ _ => exact hA.elim
  simp only [SSet.run, SSet.step]
  rw [pop_cons F' L' hne]
  exact hA

/-- ★ (Spec) the same for a function call, under the weaker condition `frameOK N true []` (equal to
    the condition of `spec_function_frame`, see `frameOK_of_balanced`) -/
theorem spec_function_frameG (X : SSet) (hX : X ≠ []) (as : List (Name × Value)) (ps : List String)
    (body : List Op) (N : Name → Prop) (hok : frameOK N true [] body) :
    Agree N X (SSet.run X (functionCmd as ps body)) := by
  obtain ⟨cV, hin, _, _⟩ := spec_enter_function X as ps
  have hsplit : functionCmd as ps body = ([Op.push .volatile] ++ tempOps as ++ [Op.push (.regular ps)]) ++
      (body ++ [Op.pop, Op.pop]) := by simp [functionCmd]
  rw [hsplit, SSet.run_append, hin, SSet.run_append]
  obtain ⟨F', L', hr, _, hA⟩ := run_frameG N true body [] [⟨.regular ps, fun _ => none⟩] (cV :: X) rfl hok
  have hr' : SSet.run (⟨.regular ps, fun _ => none⟩ :: cV :: X) body = F' :: L' := hr
  rw [hr']
  cases L' with
  | nil => exact hA.elim
  | cons cV' X' =>
    have hXX : Agree N X X' := hA.2.2
    have hne : X' ≠ [] := by
      intro e; subst e
      cases X with
      | nil => exact hX rfl
      | cons _ _ => exact hXX.elim
    simp only [SSet.run, SSet.step]
    rw [pop_cons F' (cV' :: X') (by simp), pop_cons cV' X' hne]
    exact hXX

/-- what agreement of the abstract states means for the Rust structure: for the names of `N` the
    visible variable, what each scope sees, the environment entry and every hidden instance are the
    same; contexts and positional parameters are the same -/
theorem agree_transfer (s : VariableSet) (h : Norm s) (ops : List Op) (N : Name → Prop)
    (hA : Agree N (abs s) (SSet.run (abs s) ops)) :
    (∀ n, N n → (s.run ops).get n = s.get n ∧
      (∀ sc, (s.run ops).getScoped n sc = s.getScoped n sc) ∧
      (s.run ops).env [n] = s.env [n] ∧
      ∀ k, ((s.run ops).run (List.replicate k Op.pop)).get n = (s.run (List.replicate k Op.pop)).get n) ∧
    (s.run ops).contexts = s.contexts ∧
    (s.run ops).positionalParams = s.positionalParams := by
  obtain ⟨ha, hN'⟩ := run_abs_from h ops
  rw [← ha] at hA
  have hk := agree_kinds hA
  refine ⟨fun n hn => ⟨?_, ?_, ?_, ?_⟩, ?_, ?_⟩
  · rw [get_abs hN', get_abs h]; exact agree_lookup hA n hn
  · intro sc
    rw [getScoped_abs hN', getScoped_abs h]
    unfold SSet.getScoped
    rw [scopeDepth_kinds hk sc]
    exact agree_lookup (agree_take hA _) n hn
  · unfold VariableSet.env
    simp only [List.filterMap_cons, List.filterMap_nil]
    rw [get_abs hN', get_abs h, agree_lookup hA n hn]
  · intro k
    obtain ⟨ha1, hN1⟩ := run_abs_from hN' (List.replicate k Op.pop)
    obtain ⟨ha2, hN2⟩ := run_abs_from h (List.replicate k Op.pop)
    rw [get_abs hN1, get_abs hN2, ha1, ha2]
    exact agree_lookup (agree_run_pops hA k) n hn
  · have h1 := abs_kinds (s.run ops)
    have h2 := abs_kinds s
    rw [hk, h2] at h1
    have := congrArg List.reverse h1
    simpa using this.symm
  · rw [positionalParams_abs, positionalParams_abs s]; exact positionalParams_kinds hk

/-- (Spec) `n=v typeset -g n`: the `Global`-scope access of the built-in takes the temporary variable
    out of the command's volatile context and puts it into the regular context that defines `n` (or
    the base context), so after the command `n` is the temporary one -/
theorem spec_global_access_carries_temporary (X : SSet) (hB : BaseReg X) (n : Name) (v : Value) :
    ∃ w : Variable, lookup (SSet.run X (regularCmd [(n, v)] [.getOrNew n .global])) n
      = some ((w.assign v none).setExport true) := by
  have hX : X ≠ [] := by
    obtain ⟨c, hc, _⟩ := hB
    intro e; subst e; simp at hc
  let cV : SCtx := ⟨.volatile, fun _ => none⟩
  obtain ⟨w, hs1⟩ := step_assign_vol cV X rfl n v none
  have hs2 := step_export_vol (cV.set n (some (w.assign v none))) X rfl n true (w.assign v none)
    (by simp [SCtx.set])
  refine ⟨w, ?_⟩
  have hrun : SSet.run X (regularCmd [(n, v)] [.getOrNew n .global]) =
      SSet.pop ((SSet.step (((cV.set n (some (w.assign v none))).set n
        (some ((w.assign v none).setExport true))) :: X) (.getOrNew n .global)).1) := by
    simp only [regularCmd, tempOps, List.flatMap_cons, List.flatMap_nil, List.append_nil,
      List.cons_append, List.nil_append, SSet.run]
    have h0 : (SSet.step X (.push .volatile)).1 = cV :: X := rfl
    rw [h0, hs1, hs2]
    rfl
  rw [hrun]
  have hlow : (SSet.step (((cV.set n (some (w.assign v none))).set n
        (some ((w.assign v none).setExport true))) :: X) (.getOrNew n .global)).1
      = (((cV.set n (some (w.assign v none))).set n (some ((w.assign v none).setExport true))).set n none)
        :: lower n true X (some ((w.assign v none).setExport true)) := by
    simp [SSet.step, SSet.getOrNew, lower, SCtx.set, cV, Context.isRegular]
  rw [hlow, pop_cons _ _ (by
    intro e
    have := congrArg (List.map (·.kind)) e
    rw [lower_kinds] at this
    simp at this
    exact hX this)]
  rw [lookup_lower_global n X hB]
  rfl

/-! ### `get_or_new` is idempotent -/

theorem set_set_same (c : SCtx) (n : Name) (v w : Option Variable) : (c.set n v).set n w = c.set n w := by
  simp only [SCtx.set]; congr 1; funext m; split <;> rfl

theorem lower_isEmpty (n : Name) (tb : Bool) (X : SSet) (c : Option Variable) :
    (lower n tb X c).isEmpty = X.isEmpty := by
  have := congrArg List.length (lower_kinds n tb X c)
  simp only [List.length_map] at this
  cases X <;> cases h : lower n tb _ c <;> simp_all

/-- the Spec's `get_or_new` walk is idempotent: a second walk finds the variable where the first one
    left it and changes nothing -/
theorem lower_idem (n : Name) (tb : Bool) (X : SSet) (c : Option Variable) :
    lower n tb (lower n tb X c) none = lower n tb X c := by
  induction X generalizing c with
  | nil => rfl
  | cons d t ih =>
    by_cases hd : d.kind.isRegular = true
    · cases hv : d.vars n with
      | some v =>
        have h1 : lower n tb (d :: t) c = d.set n (some (c.getD v)) :: t := by simp [lower, hd, hv]
        rw [h1]
        have hk : (d.set n (some (c.getD v))).kind.isRegular = true := hd
        have hv2 : (d.set n (some (c.getD v))).vars n = some (c.getD v) := by simp [SCtx.set]
        simp only [lower, hk, hv2, if_true, Option.getD_none, set_set_same]
      | none =>
        by_cases hb : (!tb || t.isEmpty) = true
        · have h1 : lower n tb (d :: t) c = d.set n (some (c.getD {})) :: t := by simp [lower, hd, hv, hb]
          rw [h1]
          have hk : (d.set n (some (c.getD {}))).kind.isRegular = true := hd
          have hv2 : (d.set n (some (c.getD {}))).vars n = some (c.getD {}) := by simp [SCtx.set]
          simp only [lower, hk, hv2, if_true, Option.getD_none, set_set_same]
        · have h1 : lower n tb (d :: t) c = d :: lower n tb t c := by simp [lower, hd, hv, hb]
          rw [h1]
          have hb' : (!tb || (lower n tb t c).isEmpty) = false := by
            rw [lower_isEmpty]; simpa using hb
          simp only [lower, hd, hv, hb', if_true, ih c]
          simp
    · cases hv : d.vars n with
      | some v =>
        have h1 : lower n tb (d :: t) c = d.set n none :: lower n tb t (some (c.getD v)) := by
          simp [lower, hd, hv]
        rw [h1]
        have hk : (d.set n none).kind.isRegular = false := by
          show d.kind.isRegular = false
          simpa using hd
        have hv' : (d.set n none).vars n = none := by simp [SCtx.set]
        simp only [lower, hk, hv', ih]
        simp
      | none =>
        have h1 : lower n tb (d :: t) c = d :: lower n tb t c := by simp [lower, hd, hv]
        rw [h1]
        simp only [lower, hd, hv, ih]
        simp

/-- (Spec) `get_or_new` twice is `get_or_new` once, in every scope -/
theorem spec_getOrNew_idem (X X1 : SSet) (n : Name) (sc : Scope) (h : X.getOrNew n sc = some X1) :
    X1.getOrNew n sc = some X1 := by
  cases sc with
  | global =>
    simp only [SSet.getOrNew, Option.some.injEq] at h ⊢; subst h; exact lower_idem n true X none
  | loc =>
    simp only [SSet.getOrNew, Option.some.injEq] at h ⊢; subst h; exact lower_idem n false X none
  | volatile =>
    cases X with
    | nil => simp [SSet.getOrNew] at h
    | cons c t =>
      simp only [SSet.getOrNew] at h
      by_cases hc : c.kind.isRegular = true
      · simp [hc] at h
      · simp only [hc, Bool.false_eq_true, if_false] at h
        cases hv : c.vars n with
        | some v =>
          simp only [hv, Option.some.injEq] at h; subst h
          simp [SSet.getOrNew, hc, hv]
        | none =>
          simp only [hv, Option.some.injEq] at h; subst h
          have hc' : c.kind.isRegular = false := by simpa using hc
          simp [SSet.getOrNew, SCtx.set, hc']

/-! ### nested function calls -/

theorem balanced_append (a b : List Op) (k d : Nat) (h : balanced k a = true) :
    balanced (d + k) (a ++ b) = balanced d b := by
  induction a generalizing k with
  | nil =>
    have : k = 0 := by simpa [balanced] using h
    subst this; rfl
  | cons op a ih =>
    cases op with
    | push c => simpa [balanced, Nat.add_assoc] using ih (k + 1) (by simpa [balanced] using h)
    | pop =>
      cases k with
      | zero => simp [balanced] at h
      | succ k =>
        have := ih k (by simpa [balanced] using h)
        simpa [balanced, ← Nat.add_assoc] using this
    | getOrNew _ _ => simpa [balanced] using ih k (by simpa [balanced] using h)
    | assign _ _ _ _ => simpa [balanced] using ih k (by simpa [balanced] using h)
    | «export» _ _ _ => simpa [balanced] using ih k (by simpa [balanced] using h)
    | readonly _ _ _ => simpa [balanced] using ih k (by simpa [balanced] using h)
    | unset _ _ => simpa [balanced] using ih k (by simpa [balanced] using h)
    | setParams _ => simpa [balanced] using ih k (by simpa [balanced] using h)
    | quirk _ _ _ => simpa [balanced] using ih k (by simpa [balanced] using h)

theorem balanced_append0 (a b : List Op) (ha : balanced 0 a = true) (hb : balanced 0 b = true) :
    balanced 0 (a ++ b) = true := by
  have := balanced_append a b 0 0 ha
  simpa [hb] using this

theorem balanced_tempOps (as : List (Name × Value)) (d : Nat) (r : List Op) :
    balanced d (tempOps as ++ r) = balanced d r := by
  induction as with
  | nil => rfl
  | cons p t ih =>
    obtain ⟨n, v⟩ := p
    simpa [tempOps, balanced] using ih

theorem balanced_functionCmd (as : List (Name × Value)) (ps : List String) (body : List Op)
    (hb : balanced 0 body = true) : balanced 0 (functionCmd as ps body) = true := by
  have h2 : balanced 2 (body ++ [Op.pop, Op.pop]) = true := by
    have := balanced_append body [Op.pop, Op.pop] 0 2 hb
    simpa [balanced] using this
  have h1 : functionCmd as ps body
      = Op.push .volatile :: (tempOps as ++ (Op.push (.regular ps) :: (body ++ [Op.pop, Op.pop]))) := by
    simp [functionCmd]
  rw [h1]
  show balanced 1 (tempOps as ++ _) = true
  rw [balanced_tempOps]
  exact h2

/-- nested function calls: level `i` = (temporaries, arguments, what the body does before and after
    calling level `i + 1`) -/
def nestCalls : List (List (Name × Value) × List String × List Op × List Op) → List Op
  | [] => []
  | (as, ps, pre, post) :: rest => functionCmd as ps (pre ++ nestCalls rest ++ post)

theorem balanced_nestCalls (levels : List (List (Name × Value) × List String × List Op × List Op))
    (h : ∀ l ∈ levels, balanced 0 l.2.2.1 = true ∧ balanced 0 l.2.2.2 = true) :
    balanced 0 (nestCalls levels) = true := by
  induction levels with
  | nil => rfl
  | cons l rest ih =>
    obtain ⟨as, ps, pre, post⟩ := l
    have hl := h _ (List.mem_cons_self)
    have hr := ih (fun l hl => h l (List.mem_cons_of_mem _ hl))
    exact balanced_functionCmd as ps _
      (balanced_append0 _ _ (balanced_append0 _ _ hl.1 hr) hl.2)

end YashModel.Variable
