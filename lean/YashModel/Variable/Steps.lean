/-
  C16 — helper lemmas, part 5: whole operations (`step`) and histories; `envEntry`.
-/
import YashModel.Variable.Refine
namespace YashModel.Variable

/-- `get_or_new` followed by a modification through the reference -/
def stepM (s : VariableSet) (n : Name) (sc : Scope) (f : Variable → Variable) (resM : VariableSet → Res) :
    VariableSet × Res :=
  match s.getOrNew n sc with
  | none => (s, Res.noVolatile)
  | some s1 => (s1.modifyLast n f, resM s1)

def stepS (X : SSet) (n : Name) (sc : Scope) (f : Variable → Variable) (resS : SSet → Res) : SSet × Res :=
  match X.getOrNew n sc with
  | none => (X, Res.noVolatile)
  | some X1 => (modifyVisible n f X1, resS X1)

theorem getOrNew_modify_abs {s : VariableSet} (h : Norm s) (n : Name) (sc : Scope) (f : Variable → Variable)
    (resM : VariableSet → Res) (resS : SSet → Res) (hres : ∀ s1, Norm s1 → resM s1 = resS (abs s1)) :
    abs (stepM s n sc f resM).1 = (stepS (abs s) n sc f resS).1 ∧
    (stepM s n sc f resM).2 = (stepS (abs s) n sc f resS).2 ∧ Norm (stepM s n sc f resM).1 := by
  obtain ⟨he, hn⟩ := getOrNew_abs h n sc
  unfold stepM stepS
  cases hg : s.getOrNew n sc with
  | none =>
    rw [hg] at he
    simp only [Option.map_none] at he
    rw [← he]
    exact ⟨rfl, rfl, h⟩
  | some s1 =>
    rw [hg] at he
    simp only [Option.map_some] at he
    have hN1 := hn s1 hg
    rw [← he]
    exact ⟨(modifyLast_abs hN1 n f).1, hres s1 hN1, (modifyLast_abs hN1 n f).2⟩

theorem step_abs {s : VariableSet} (h : Norm s) (op : Op) :
    abs (s.step op).1 = ((abs s).step op).1 ∧ (s.step op).2 = ((abs s).step op).2 ∧ Norm (s.step op).1 := by
  cases op with
  | push c => exact ⟨(push_abs h c).1, rfl, (push_abs h c).2⟩
  | pop => exact ⟨(pop_abs h).1, rfl, (pop_abs h).2⟩
  | getOrNew n sc =>
    obtain ⟨he, hn⟩ := getOrNew_abs h n sc
    simp only [VariableSet.step, SSet.step]
    cases hg : s.getOrNew n sc with
    | none =>
      rw [hg] at he; simp only [Option.map_none] at he
      rw [← he]; exact ⟨rfl, rfl, h⟩
    | some s1 =>
      rw [hg] at he; simp only [Option.map_some] at he
      rw [← he]; exact ⟨rfl, rfl, hn s1 hg⟩
  | assign n sc v loc =>
    exact getOrNew_modify_abs h n sc (·.assign v loc) (fun s1 => assignRes ((s1.get n).getD {}))
      (fun X1 => assignRes ((lookup X1 n).getD {})) (fun s1 h1 => by rw [get_abs h1])
  | «export» n sc b =>
    exact getOrNew_modify_abs h n sc (·.setExport b) (fun _ => .done) (fun _ => .done) (fun _ _ => rfl)
  | readonly n sc loc =>
    exact getOrNew_modify_abs h n sc (·.makeReadOnly loc) (fun _ => .done) (fun _ => .done) (fun _ _ => rfl)
  | unset n sc =>
    obtain ⟨h1, h2, h3⟩ := unset_abs h n sc
    simp only [VariableSet.step, SSet.step]
    cases hm : s.unset n sc with
    | mk s1 r1 =>
      cases hs : (abs s).unset n sc with
      | mk X1 q1 =>
        rw [hm, hs] at h1 h2
        rw [hm] at h3
        simp only at h1 h2 h3
        subst h2
        cases r1 <;> exact ⟨h1, rfl, h3⟩
  | setParams ps => exact ⟨(setParams_abs h ps).1, rfl, (setParams_abs h ps).2⟩
  | quirk n sc q =>
    exact getOrNew_modify_abs h n sc (·.setQuirk q) (fun _ => .done) (fun _ => .done) (fun _ _ => rfl)

theorem run_abs {s : VariableSet} (h : Norm s) (ops : List Op) : True ∧ Norm (s.run ops) := by
  refine ⟨trivial, ?_⟩
  induction ops generalizing s with
  | nil => exact h
  | cons op ops ih => exact ih (step_abs h op).2.2

/-! ### environment entries -/

/-- text of a value in the environment (arrays joined with `:`) -/
def valueString : Value → String
  | .scalar x => x
  | .array xs => joinColon xs

theorem envEntry_of {n : Name} {v : Variable} {val : Value} {x : String} (he : v.exported = true)
    (hv : v.value = some val) (hx : x = valueString val) (h1 : n.toList.any (· == '=') = false)
    (h2 : hasNul n = false) (h3 : hasNul x = false) : envEntry n v = some (n, x) := by
  subst hx
  cases val <;> simp_all [envEntry, valueString] <;> exact fun hm => h1 _ hm rfl

theorem envEntry_some {n : Name} {v : Variable} {p : Name × String} (h : envEntry n v = some p) :
    n = p.1 ∧ v.exported = true ∧ (∃ val, v.value = some val ∧ p.2 = valueString val) ∧
      n.toList.any (· == '=') = false ∧ hasNul n = false ∧ hasNul p.2 = false := by
  unfold envEntry at h
  split at h
  · cases h
  · rename_i hc
    simp only [Bool.or_eq_true, Bool.not_eq_true', not_or, Bool.not_eq_false, Bool.not_eq_true] at hc
    cases hv : v.value with
    | none => simp [hv] at h
    | some val =>
      cases val with
      | scalar x =>
        simp only [hv] at h
        split at h
        · cases h
        · rename_i hn
          simp only [Bool.or_eq_true, not_or, Bool.not_eq_true] at hn
          cases h
          exact ⟨rfl, hc.1, ⟨_, rfl, rfl⟩, hc.2, hn.1, hn.2⟩
      | array xs =>
        simp only [hv] at h
        split at h
        · cases h
        · rename_i hn
          simp only [Bool.or_eq_true, not_or, Bool.not_eq_true] at hn
          cases h
          exact ⟨rfl, hc.1, ⟨_, rfl, rfl⟩, hc.2, hn.1, hn.2⟩

end YashModel.Variable
