/-
  C16 — script-level leg: a small statement language (rendered to shell text by the harness and run
  through the whole shell) interpreted on top of `Exec.lean`, generically over the state (the Rust
  model `VariableSet` and the Spec `SSet`).  Statements, one observation line per statement:

    A n=v…            assignment-only command           S n=v…          `n=v… :` (special built-in)
    P n=v…            `n=v… vprobe` (regular built-in)   N n=v…          `n=v… nosuchcmd`
    X n=v…            `n=v… /bin/ext` (external)          C f n=v… -- a…  function call
    E n=v… -- m|m=v…  `n=v… export m…`                    EX m|m=v        `export m`
    R m|m=v           `readonly m`                        L m|m=v         `typeset m`
    G m|m=v           `typeset -g m`                      U m… / UV m…    `unset m…` / `unset -v m…`
    T opts -- m|m=v…  `typeset opts m…` (opts among -g -r -x -X +x +r, in order)
    FOR m -- v…       `for m in v…; do :; done`          AR m -- k…   `: $((m=k))`…
    DEF m -- v        `: ${m=v}`                          RD m… -- w…  `read m… <<E` (one word per variable)
    GO m              `OPTIND=1; getopts a m -a`          UF m         `unset -f m` (functions: no variable changes)
    TP n=v… opts -- m|m=v…  `n=v… typeset opts m…` (wave 3: temporary assignments before the regular
                      built-in; `get_or_new(Local|Global)` carries a temporary variable of the
                      operand's name down into the regular context, so its value outlives the command)
    D b opts -- m…    `typeset -p opts m…` (b = t), `export -p m…` (e), `readonly -p m…` (r)
    RET               `return 3` (inside a function body)
    SP a…             `set -- a…`

  A refused assignment (prefix, `for`, `$((m=k))`, `${m=v}`) ends the non-interactive shell with exit
  status 2 (line `x2`); `export`/`readonly`/`unset` process every operand, then fail with exit status 1,
  which ends the shell too (`x1`); `typeset`, `read`, `getopts` go on and report their status (`r0`/`r1`/`r2`).
  After an abort the last line shows the variables the shell is left with.  Import-free, executable, total (fuel).
-/
import YashModel.Variable.BuiltinModel
namespace YashModel.Variable

structure Stmt where
  kind : String
  pre : List String
  post : List String

def scriptNames : List Name := ["x", "y", "z"]

/-- runs operations until one is refused because of a read-only variable -/
def runOps {σ} (I : Iface σ) (s : σ) : List Op → σ × Bool
  | [] => (s, false)
  | op :: t =>
    match I.step s op with
    | (s', .readOnly _) => (s', true)
    | (s', _) => runOps I s' t

/-! ### the variable writes of `cd` and `getopts` (third pass of wave 3) -/

/-- `cd/assign.rs` `set_variable`: `get_or_create_variable(name, Global)`, `assign`; a refusal is
    reported (`handle_assign_error`, exit status `EXIT_STATUS_ASSIGN_ERROR`) and the variable is left
    alone; otherwise `export(true)` -/
def cdSetVariable {σ} (I : Iface σ) (s : σ) (p : Name × String) : σ × Bool :=
  match I.step s (.assign p.1 .global (.scalar p.2) none) with
  | (s1, .readOnly _) => (s1, true)
  | (s1, _) => ((I.step s1 (.export p.1 .global true)).1, false)

/-- the names `cd` writes, in the order `cd.rs` `main` writes them: `set_oldpwd(pwd)` then
    `set_pwd(new_pwd)` -/
def cdOldpwdName : Name := "OLDPWD"
def cdPwdName : Name := "PWD"

/-- `cd.rs` `main` after the `chdir`: `pwd = get_scalar(PWD).unwrap_or_default()` (read before anything
    is written), `set_oldpwd(pwd)`, `set_pwd(new_pwd)` — both are always attempted,
    `result1.max(result2).max(result3)`: the state and the number of refused assignments -/
def cdAssign {σ} (I : Iface σ) (s : σ) (newPwd : String) : σ × Nat :=
  let pwd := (scalarOf (I.get s cdPwdName)).getD ""
  foldErrors (cdSetVariable I) [(cdOldpwdName, pwd), (cdPwdName, newPwd)] (s, 0)

/-- `EXIT_STATUS_ASSIGN_ERROR` of cd.rs (extracted: `cdAssignErrorStatus`) -/
def cdStatus (errors : Nat) : Nat := if errors = 0 then 0 else 1

/-- `getopts/report.rs` `Result::report`, the part that writes variables: the option variable, then
    `OPTARG` (assigned when the option has an argument, unset otherwise), then `OPTIND`; every step
    ends in `?`, so the first refusal stops the rest (`runOps`).  All at `Global` scope. -/
def getoptsReportOps (name : Name) (value : String) (optarg : Option String) (optind : String) : List Op :=
  [.assign name .global (.scalar value) none,
   (match optarg with
    | some v => .assign "OPTARG" .global (.scalar v) none
    | none => .unset "OPTARG" .global),
   .assign "OPTIND" .global (.scalar optind) none]

/-! ### the `Portable` option in `SetVariables::execute` (session 4 coverage pass) -/

/-- constants.rs `is_portable_variable_name`: not empty, no leading ASCII digit, only ASCII alphanumerics and `_` -/
def isPortableName (n : Name) : Bool :=
  match n.toList with
  | [] => false
  | c :: _ => !c.isDigit && n.toList.all (fun c => c.isAlphanum || c == '_')

/-- constants.rs `is_portable_readonly_variable_name` refuses these (generated: `nonPortableReadonlyNames`) -/
def nonPortableReadonly : List Name := ["LINENO", "OLDPWD", "OPTARG", "OPTIND", "PWD"]

/-- the body of the field loop of `SetVariables::execute` with the `portable` flag: a non-portable name
    is an error before anything is created; for a name that must stay writable the attribute loop is
    cut (with an error) where it would make the variable read-only — after the assignment and the
    earlier attributes have been applied.  Without the flag it is `executeField`. -/
def executeFieldP {σ} (I : Iface σ) (sv : SetVariables) (portable : Bool) (s : σ) (field : String) : σ × Bool :=
  let n := (splitAssign field).1
  if portable && !isPortableName n then (s, true)
  else if portable && nonPortableReadonly.contains n then
    let pre := sv.attrs.takeWhile (fun a => !(a.1 == VAttr.readOnly && a.2))
    match executeField I { sv with attrs := pre } s field with
    | (s', e) => (s', e || decide (pre.length < sv.attrs.length))
  else executeField I sv s field

/-- the generated tables of cd.rs / cd/assign.rs / getopts/report.rs say what `cdAssign`, `cdStatus` and
    `getoptsReportOps` do: names, order, scope, the status of a refused assignment -/
def cdGetoptsTablesOk : Bool :=
  Generated.VariableTables.cdWrites == [(cdOldpwdName, scopeName .global), (cdPwdName, scopeName .global)] &&
  cdStatus 1 == Generated.VariableTables.cdAssignErrorStatus && cdStatus 0 == 0 &&
  Generated.VariableTables.nonPortableReadonlyNames == nonPortableReadonly &&
  Generated.VariableTables.getoptsWrites ==
    ((getoptsReportOps "<name>" "a" (some "v") "2").take 2 ++ (getoptsReportOps "<name>" "a" none "2").drop 1).map
      (fun op => match op with
        | .assign n sc _ _ => (n, "assign", scopeName sc)
        | .unset n sc => (n, "unset", scopeName sc)
        | _ => ("?", "?", "?"))

/-- value token: `@a.b` is the array `(a b)`, `@` the empty array, anything else a scalar -/
def parseVal (v : String) : Value :=
  match v.toList with
  | ['@'] => .array []
  | '@' :: r => .array ((String.ofList r).splitOn ".")
  | _ => .scalar v

/-- value token of a prefix assignment: `$m` refers to the variable `m`, anything else is a literal -/
def parseAVal (v : String) : AVal :=
  match v.toList with
  | '$' :: r => .ref (String.ofList r)
  | _ => .lit (parseVal v)

def assigns (ts : List String) : List (Name × AVal) :=
  ts.map fun t => let (n, v) := splitAssign t; (n, parseAVal (v.getD ""))

/-- expansion of an assignment value in the current state -/
def evalA {σ} (I : Iface σ) (s : σ) : AVal → Value
  | .lit v => v
  | .ref n => valueOfVar (I.get s n)

/-- `assign::perform_assignments`: the assignments of a prefix are performed strictly in order —
    each value is expanded in the state the previous assignments left (`a=1 b=$a` gives `b` the
    value 1) — and the first refusal (read-only) ends the command -/
def runAssigns {σ} (I : Iface σ) (sc : Scope) (ex : Bool) : σ → List (Name × AVal) → σ × Bool
  | s, [] => (s, false)
  | s, (n, e) :: rest =>
    match runOps I s (assignOps sc ex n (evalA I s e)) with
    | (s', true) => (s', true)
    | (s', false) => runAssigns I sc ex s' rest

def showV (o : Option Variable) : String :=
  match o with
  | none => "-"
  | some v =>
    let val := match v.value with
      | none => "~"
      | some (.scalar x) => x
      | some (.array xs) => "@" ++ ":".intercalate xs
    s!"{val}/{if v.exported then 1 else 0}/{if v.isReadOnly then 1 else 0}"

/-- the fields of `"${n-U}"`: an array gives one field per element -/
def expand (o : Option Variable) : List String :=
  match o with
  | some { value := some (.scalar x), .. } => [x]
  | some { value := some (.array xs), .. } => xs
  | _ => ["U"]

/-- the fields `vprobe "${x-U}" "${y-U}" "${z-U}" "$#" "$*"` receives -/
def expOf {σ} (I : Iface σ) (s : σ) : String :=
  ",".intercalate (scriptNames.flatMap (fun n => expand (I.get s n)) ++
    [toString (I.params s).length, " ".intercalate (I.params s)])

/-- what `vprobe` sees in the variable set when it runs -/
def showState {σ} (I : Iface σ) (s : σ) : String :=
  ",".intercalate (scriptNames.map fun n => s!"{n}={showV (I.get s n)}") ++ " #=" ++ ",".intercalate (I.params s)

def vline {σ} (I : Iface σ) (exp : String) (s : σ) : String := s!"v {exp} {showState I s}"

/-- operand `m` or `m=v` of export/readonly/typeset: `get_or_create_variable`, `assign` -/
def operandOps (sc : Scope) (t : String) : List Op :=
  match splitAssign t with
  | (n, none) => [.getOrNew n sc]
  | (n, some v) => [.assign n sc (.scalar v) none]

def operandName (t : String) : Name := (splitAssign t).1

/-- the attribute loop of `typeset::SetVariables::execute` for one operand; `+r` on a read-only
    variable is an error that skips the remaining attributes of that operand -/
def applyAttrs {σ} (I : Iface σ) (n : Name) (sc : Scope) : List String → σ → σ
  | [], s => s
  | a :: rest, s =>
    if a = "-r" then applyAttrs I n sc rest (I.step s (.readonly n sc 1)).1
    else if a = "+r" then
      (if ((I.get s n).map (·.isReadOnly)).getD false then s else applyAttrs I n sc rest s)
    else if a = "-x" then applyAttrs I n sc rest (I.step s (.export n sc true)).1
    else if a = "+x" || a = "-X" then applyAttrs I n sc rest (I.step s (.export n sc false)).1
    else applyAttrs I n sc rest s

/-- one operand of `typeset [-g] [attrs]`: a refused assignment skips the attributes -/
def typesetField {σ} (I : Iface σ) (sc : Scope) (attrs : List String) (s : σ) (t : String) : σ :=
  match runOps I s (operandOps sc t) with
  | (s1, true) => s1
  | (s1, false) => applyAttrs I (operandName t) sc attrs s1

/-- `typeset -p` / `export -p` / `readonly -p` (`b` = t | e | r): which variables are selected and
    which attribute flags the line shows (the text format itself belongs to C07) -/
def printLines {σ} (I : Iface σ) (s : σ) (b : String) (opts names : List String) : List String :=
  let sc := if b = "t" && !opts.contains "-g" then Scope.loc else Scope.global
  let pass (v : Variable) : Bool :=
    (b != "e" || v.exported) && (b != "r" || v.isReadOnly) &&
    opts.all fun o =>
      if o = "-x" then v.exported
      else if o = "+x" || o = "-X" then !v.exported
      else if o = "-r" then v.isReadOnly
      else if o = "+r" then !v.isReadOnly
      else true
  let line (n : Name) (v : Variable) : List String :=
    let flags := if b = "t" then (if v.isReadOnly then "r" else "") ++ (if v.exported then "x" else "") else ""
    let isArray := match v.value with | some (.array _) => true | _ => false
    if !pass v then [] else if isArray && flags = "" && b = "t" then [] else ["p " ++ n ++ (if flags = "" then "" else " " ++ flags)]
  if names.isEmpty then
    scriptNames.flatMap fun n => match I.getIn s n sc with | some v => line n v | none => []
  else if names.any (fun n => (I.getIn s n sc).isNone) then []
  else names.flatMap fun n => match I.getIn s n sc with | some v => line n v | none => []

inductive Status | ok | abort | ret
  deriving DecidableEq

/-- operand `m` / `m=v` of export and readonly -/
def operandOf (t : String) : Name × Option Value :=
  match splitAssign t with
  | (n, ov) => (n, ov.map Value.scalar)

/-- a token `n=v` (as opposed to an option) in the prefix of a `TP` statement -/
def isAssignToken (t : String) : Bool := t.toList.any (· == '=')

/-- the option occurrence an option string of the `typeset` family stands for -/
def optOccOf (o : String) : Option OptOcc :=
  if o = "-g" then some ⟨'g', true⟩
  else if o = "-r" then some ⟨'r', true⟩
  else if o = "+r" then some ⟨'r', false⟩
  else if o = "-x" then some ⟨'x', true⟩
  else if o = "+x" then some ⟨'x', false⟩
  else if o = "-X" then some ⟨'X', true⟩
  else none

/-- one variable written by `read`: `get_or_create_variable(name, Global)`, `assign`; a refusal is an
    error, the built-in goes on with the next variable -/
def readAssign {σ} (I : Iface σ) (s : σ) (t : Name × Value) : σ × Bool :=
  match I.step s (.assign t.1 .global t.2 none) with
  | (s1, .readOnly _) => (s1, true)
  | (s1, _) => (s1, false)

/-- what a statement does, independently of the state: the operations come from `Exec.lean` -/
inductive Action where
  | special (as : List (Name × AVal)) (ops : List Op)
  | decl (as : List (Name × AVal)) (attr : VAttr) (operands : List String)
  | unsetv (names : List Name)
  | write (kind : String) (targets : List (Name × Value))
  | typeset (temps : List (Name × AVal)) (occs : List OptOcc) (operands : List String)
  | print (b : String) (opts names : List String)
  | regular (kind : String) (temps : List (Name × AVal))
  | call (f : String) (temps : List (Name × AVal)) (args : List String)
  | ret
  | bad

def stmtAction (st : Stmt) : Action :=
  match st.kind with
  | "A" | "S" => .special (assigns st.pre) []
  | "E" => .decl (assigns st.pre) .export st.post
  | "EX" => .decl [] .export st.pre
  | "R" => .decl [] .readOnly st.pre
  | "U" | "UV" => .unsetv st.pre
  | "FOR" => .write "for" (st.post.map fun v => (st.pre.headD "x", Value.scalar v))
  | "AR" => .write "arith" (st.post.map fun v => (st.pre.headD "x", Value.scalar v))
  | "DEF" => .write "def" ((st.post.take 1).map fun v => (st.pre.headD "x", Value.scalar v))
  | "RD" => .write "read" (st.pre.zip (st.post.map Value.scalar))
  | "GO" => .write "read" [(st.pre.headD "x", Value.scalar "a")]
  | "UF" => .special [] []
  | "SP" => .special [] [.setParams st.pre]
  | "RET" => .ret
  | "L" => .typeset [] [] st.pre
  | "G" => .typeset [] [⟨'g', true⟩] st.pre
  | "T" => .typeset [] (st.pre.filterMap optOccOf) st.post
  | "TP" =>
    .typeset (assigns (st.pre.filter isAssignToken))
      ((st.pre.filter (fun t => !isAssignToken t)).filterMap optOccOf) st.post
  | "D" => match st.pre with
    | [] => .bad
    | b :: opts => .print b opts st.post
  | "P" | "N" | "X" => .regular st.kind (assigns st.pre)
  | "C" => match st.pre with
    | [] => .bad
    | f :: temps => .call f (assigns temps) st.post
  | _ => .bad

/-- executes statements; returns the state, the lines printed (reversed) and how it ended -/
def execStmts {σ} (I : Iface σ) (funs : List (String × List Stmt)) :
    Nat → σ → List Stmt → List String → σ × List String × Status
  | _, s, [], out => (s, out, .ok)
  | 0, s, _, out => (s, "fuel" :: out, .abort)
  | fuel+1, s, st :: rest, out =>
    let out := s!"@{st.kind}" :: out
    let fin (s' : σ) (out : List String) :=
      execStmts I funs fuel s' rest (vline I (expOf I s') s' :: out)
    match stmtAction st with
    | .special as ops =>
      -- assignments at `Global` scope without export, in the current contexts, then the built-in;
      -- a refused assignment ends the shell with exit status 2 (`x2`)
      match runAssigns I .global false s as with
      | (s0, true) => (s0, "x2" :: out, Status.abort)
      | (s0, false) =>
        match runOps I s0 ops with
        | (s', true) => (s', "x2" :: out, Status.abort)
        | (s', false) => fin s' out
    | .decl as attr operands =>
      -- `export` / `readonly` (special built-ins): every operand is processed
      -- (`SetVariables::execute` goes on after a refusal); with an error the built-in fails with exit
      -- status 1, which ends the non-interactive shell (`x1`)
      match runAssigns I .global false s as with
      | (s0, true) => (s0, "x2" :: out, Status.abort)
      | (s0, false) =>
        match declMain I attr [] operands s0 with
        | (s', 0) => fin s' out
        | (s', _ + 1) => (s', "x1" :: out, Status.abort)
    | .unsetv names =>
      -- `unset` (special built-in): every operand is tried (`unset_variables`)
      match unsetVariables I names s with
      | (s', 0) => fin s' out
      | (s', _ + 1) => (s', "x1" :: out, Status.abort)
    | .write kind targets =>
      -- other paths of the language that assign, all at `Global` scope: `read` goes on after a
      -- refusal and reports exit status 2 (`r2`); a `for` loop, `$((m=v))` and `${m=v}` (only when `m`
      -- has no value) end the shell with exit status 2
      if kind = "read" then
        match foldErrors (readAssign I) targets (s, 0) with
        | (s', e) => fin s' ((if e = 0 then "r0" else "r2") :: out)
      else
        let targets := if kind = "def" then targets.filter (fun t => ((I.get s t.1).bind (·.value)).isNone)
          else targets
        match runOps I s (targets.map fun t => Op.assign t.1 .global t.2 none) with
        | (s', true) => (s', "x2" :: out, Status.abort)
        | (s', false) => fin s' out
    | .ret => (s, out, .ret)
    | .bad => (s, "bad" :: out, .abort)
    | .typeset temps occs operands =>
      -- `typeset` is a regular built-in (volatile context around it, holding the temporary
      -- assignments, if any) and survives the errors of its operands: exit status 1 (`r1`) with an error
      match runAssigns I .volatile true (I.step s (.push .volatile)).1 temps with
      | (s1, true) => (s1, "x2" :: out, .abort)
      | (s1, false) =>
        let r := typesetMain I occs operands s1
        fin (I.step r.1 .pop).1 ((if r.2 = 0 then "r0" else "r1") :: out)
    | .print b opts names =>
      let s1 := if b = "t" then (I.step s (.push .volatile)).1 else s
      -- `export -p m` / `readonly -p m` of a name that is not a variable: error in a special
      -- built-in, the shell exits
      if b != "t" && names.any (fun n => (I.getIn s n .global).isNone) then (s, "x1" :: out, .abort)
      else fin s ((printLines I s1 b opts names).reverse ++ out)
    | .regular kind temps =>
      let exp := expOf I s
      match runAssigns I .volatile true (I.step s (.push .volatile)).1 temps with
      | (s1, true) => (s1, "x2" :: out, .abort)
      | (s1, false) =>
        let out :=
          if kind = "P" then vline I exp s1 :: out
          else if kind = "X" then
            ("e " ++ ",".intercalate ((I.env s1 scriptNames).map fun (n, x) => s!"{n}={x}")) :: out
          else out
        fin (I.step s1 .pop).1 out
    | .call f temps args =>
      match funs.lookup f with
      | none => (s, "bad" :: out, .abort)
      | some body =>
        match runAssigns I .volatile true (I.step s (.push .volatile)).1 temps with
        | (s1, true) => (s1, "x2" :: out, .abort)
        | (s1, false) =>
          let s2 := (I.step s1 (.push (.regular args))).1
          match execStmts I funs fuel s2 body out with
          | (s3, out, .abort) => (s3, out, .abort)
          | (s3, out, _) => fin (I.step (I.step s3 .pop).1 .pop).1 out

/-- the shell exits from wherever it is: every context guard is dropped (popping the base context is
    a no-op in both state implementations; the script language nests at most 5 contexts) -/
def unwindAll {σ} (I : Iface σ) (s : σ) : σ :=
  (List.replicate 8 Op.pop).foldl (fun s op => (I.step s op).1) s

/-- the last line of a script case: `@END`, or `abort` followed by the variables the shell is left
    with when it exits (read from the real `Env` after the shell has ended) -/
def endLine {σ} (I : Iface σ) (s : σ) (st : Status) : String :=
  if st = .ok then "@END" else "abort " ++ showState I (unwindAll I s)

end YashModel.Variable
