/-
  C16 — script-level leg: a small statement language (rendered to shell text by the harness and run
  through the whole shell) interpreted on top of `Exec.lean`, generically over the state (the Rust
  model `VariableSet` and the Spec `SSet`).  Statements, one observation line per statement:

    A n=v…            assignment-only command           S n=v…          `n=v… :` (special built-in)
    P n=v…            `n=v… vprobe` (regular built-in)   N n=v…          `n=v… nosuchcmd`
    X n=v…            `n=v… /bin/ext` (external)          C f n=v… -- a…  function call
    E n=v… -- m|m=v…  `n=v… export m…`                    EX m|m=v        `export m`
    R m|m=v           `readonly m`                        L m|m=v         `typeset m`
    G m|m=v           `typeset -g m`                      U m…            `unset m…`
    SP a…             `set -- a…`

  A refused assignment / unset (read-only) ends the script (the non-interactive shell exits), except
  inside `typeset`, which reports the error and goes on.  Import-free, executable, total (fuel).
-/
import YashModel.Variable.Exec
import YashModel.Variable.Spec
namespace YashModel.Variable

structure Iface (σ : Type) where
  step : σ → Op → σ × Res
  get : σ → Name → Option Variable
  env : σ → List Name → List (Name × String)
  params : σ → List String

def ifaceM : Iface VariableSet := ⟨VariableSet.step, VariableSet.get, VariableSet.env, VariableSet.positionalParams⟩
def ifaceS : Iface SSet := ⟨SSet.step, lookup, SSet.env, SSet.positionalParams⟩

structure Stmt where
  kind : String
  pre : List String
  post : List String

def scriptNames : List Name := ["x", "y", "z"]

/-- runs operations until one is refused because of a read-only variable -/
def runOps {σ} (I : Iface σ) (s : σ) : List Op → σ × Bool
  | [] => (s, false)
  | op :: t =>
    match I.step s op with
    | (s', .readOnly _) => (s', true)
    | (s', _) => runOps I s' t

def splitAssign (t : String) : Name × Option String :=
  match t.splitOn "=" with
  | [n] => (n, none)
  | n :: rest => (n, some ("=".intercalate rest))
  | [] => (t, none)

def assigns (ts : List String) : List (Name × Value) :=
  ts.map fun t => let (n, v) := splitAssign t; (n, Value.scalar (v.getD ""))

def showV (o : Option Variable) : String :=
  match o with
  | none => "-"
  | some v =>
    let val := match v.value with
      | none => "~"
      | some (.scalar x) => x
      | some (.array xs) => ":".intercalate xs
    s!"{val}/{if v.exported then 1 else 0}/{if v.isReadOnly then 1 else 0}"

/-- `${n-U}` -/
def expand (o : Option Variable) : String :=
  match o with
  | some { value := some (.scalar x), .. } => x
  | some { value := some (.array xs), .. } => " ".intercalate xs
  | _ => "U"

/-- the fields `vprobe "${x-U}" "${y-U}" "${z-U}" "$#" "$*"` receives -/
def expOf {σ} (I : Iface σ) (s : σ) : String :=
  ",".intercalate (scriptNames.map (fun n => expand (I.get s n)) ++
    [toString (I.params s).length, " ".intercalate (I.params s)])

/-- what `vprobe` sees in the variable set when it runs -/
def showState {σ} (I : Iface σ) (s : σ) : String :=
  ",".intercalate (scriptNames.map fun n => s!"{n}={showV (I.get s n)}") ++ " #=" ++ ",".intercalate (I.params s)

def vline {σ} (I : Iface σ) (exp : String) (s : σ) : String := s!"v {exp} {showState I s}"

/-- operand `m` or `m=v` of export/readonly/typeset: `get_or_create_variable`, `assign` -/
def operandOps (sc : Scope) (t : String) : List Op :=
  match splitAssign t with
  | (n, none) => [.getOrNew n sc]
  | (n, some v) => [.assign n sc (.scalar v) none]

def operandName (t : String) : Name := (splitAssign t).1

/-- executes statements; returns the state, the lines printed (reversed) and whether the script was
    aborted -/
def execStmts {σ} (I : Iface σ) (funs : List (String × List Stmt)) :
    Nat → σ → List Stmt → List String → σ × List String × Bool
  | _, s, [], out => (s, out, false)
  | 0, s, _, out => (s, "fuel" :: out, true)
  | fuel+1, s, st :: rest, out =>
    let out := s!"@{st.kind}" :: out
    let fin (s' : σ) (out : List String) :=
      execStmts I funs fuel s' rest (vline I (expOf I s') s' :: out)
    let special (ops : List Op) :=
      match runOps I s ops with
      | (s', true) => (s', out, true)
      | (s', false) => fin s' out
    match st.kind with
    | "A" | "S" => special (specialCmd (assigns st.pre) [])
    | "E" =>
      special (specialCmd (assigns st.pre)
        (st.post.flatMap fun t => operandOps .global t ++ [.export (operandName t) .global true]))
    | "EX" => special (st.pre.flatMap fun t => operandOps .global t ++ [.export (operandName t) .global true])
    | "R" => special (st.pre.flatMap fun t => operandOps .global t ++ [.readonly (operandName t) .global 1])
    | "U" => special (st.pre.map fun n => Op.unset n .global)
    | "SP" => special [.setParams st.pre]
    | "L" | "G" =>
      -- `typeset` is a regular built-in (volatile context around it) and survives a refusal
      let sc := if st.kind = "L" then Scope.loc else Scope.global
      let (s1, _) := runOps I s ([Op.push .volatile] ++ st.pre.flatMap (operandOps sc))
      fin (I.step s1 .pop).1 out
    | "P" | "N" | "X" =>
      let exp := expOf I s
      match runOps I s ([Op.push .volatile] ++ tempOps (assigns st.pre)) with
      | (s1, true) => (s1, out, true)
      | (s1, false) =>
        let out :=
          if st.kind = "P" then vline I exp s1 :: out
          else if st.kind = "X" then
            ("e " ++ ",".intercalate ((I.env s1 scriptNames).map fun (n, x) => s!"{n}={x}")) :: out
          else out
        fin (I.step s1 .pop).1 out
    | "C" =>
      match st.pre with
      | [] => (s, "bad" :: out, true)
      | f :: temps =>
        match funs.lookup f with
        | none => (s, "bad" :: out, true)
        | some body =>
          match runOps I s ([Op.push .volatile] ++ tempOps (assigns temps)) with
          | (s1, true) => (s1, out, true)
          | (s1, false) =>
            let s2 := (I.step s1 (.push (.regular st.post))).1
            match execStmts I funs fuel s2 body out with
            | (s3, out, true) => (s3, out, true)
            | (s3, out, false) => fin (I.step (I.step s3 .pop).1 .pop).1 out
    | _ => (s, "bad" :: out, true)

end YashModel.Variable
