/-
  Driver for C16.  stdin: one history per line (operations separated by `;`), stdout:
  `<model observation>\t=<observation the Spec predicts>`.

  Operations (names and strings as hex, see `Proto.encStr`):
    pr [p…]          push a regular context with positional parameters p…
    pv               push a volatile context
    pop              pop (ignored when only the base context is left)
    gn N S           get_or_new            S = g | l | v
    as N S V L       get_or_new + assign   V = s:<hex> | a:<hex>,…   L = location number or -
    ex N S B         get_or_new + export(B)
    ro N S L         get_or_new + make_read_only(L)
    un N S           unset
    sp [p…]          set the positional parameters
    ee N V           extend_env([(N, V)])
    sq N S Q         get_or_new + set_quirk(Q)   Q = L (Some(LineNumber)) | - (None)
    init             VariableSet::init
    xp N LOC         Variable::expand of the visible variable at LOC = LINE:START:<hex text>[@LOC]
                     (`@LOC`: the code is the result of an alias substitution at LOC)
  After the last operation the contexts still pushed are popped one by one (`r=unwind`).
-/
import YashModel.Common.Proto
import YashModel.Variable.Model
import YashModel.Variable.Spec
import YashModel.Variable.Script
import YashModel.Variable.Observe
open YashModel YashModel.Variable YashModel.Proto

def parseScope : String → Option Scope
  | "g" => some .global
  | "l" => some .loc
  | "v" => some .volatile
  | _ => none

def parseValue (t : String) : Option Value :=
  match t.toList with
  | 's' :: ':' :: r => (decStr (String.ofList r)).map .scalar
  | 'a' :: ':' :: r =>
    if r.isEmpty then some (.array [])
    else ((String.ofList r).splitOn ",").mapM decStr |>.map .array
  | _ => none

def parseLoc (t : String) : Option (Option Nat) :=
  if t = "-" then some none else t.toNat?.map some

def parseOp (t : String) : Option Op :=
  match words t with
  | "pr" :: ps => do pure (.push (.regular (← ps.mapM decStr)))
  | ["pv"] => some (.push .volatile)
  | ["pop"] => some .pop
  | ["gn", n, s] => do pure (.getOrNew (← decStr n) (← parseScope s))
  | ["as", n, s, v, l] => do pure (.assign (← decStr n) (← parseScope s) (← parseValue v) (← parseLoc l))
  | ["ex", n, s, b] => do pure (.export (← decStr n) (← parseScope s) ((← b.toNat?) != 0))
  | ["ro", n, s, l] => do pure (.readonly (← decStr n) (← parseScope s) (← l.toNat?))
  | ["un", n, s] => do pure (.unset (← decStr n) (← parseScope s))
  | "sp" :: ps => do pure (.setParams (← ps.mapM decStr))
  | ["sq", n, s, "L"] => do pure (.quirk (← decStr n) (← parseScope s) (some .lineNumber))
  | ["sq", n, s, "-"] => do pure (.quirk (← decStr n) (← parseScope s) none)
  | _ => none

def opName : Op → Option Name
  | .getOrNew n _ | .assign n _ _ _ | .export n _ _ | .readonly n _ _ | .unset n _ | .quirk n _ _ => some n
  | _ => none

def insertSorted (a : String) : List String → List String
  | [] => [a]
  | b :: t => if a < b then a :: b :: t else if a = b then b :: t else b :: insertSorted a t

/-- names mentioned, sorted by their hex text, without duplicates -/
def namesOf (ops : List Op) : List Name :=
  let hs := (ops.filterMap opName).foldl (fun acc n => insertSorted (encStr n) acc) []
  hs.filterMap decStr

def parseSeg (t : String) : Option (Nat × String × Nat) :=
  match t.splitOn ":" with
  | [l, st, x] => do pure (← l.toNat?, ← decStr x, ← st.toNat?)
  | _ => none

/-- `SEG[@SEG…]`: the first segment is the location itself, each following one the location of the
    word whose alias substitution produced the code before it -/
def parseLocSegs : List String → Option Loc
  | [] => none
  | [t] => do
    let (l, x, st) ← parseSeg t
    pure (.plain l x st)
  | t :: rest => do
    let (l, x, st) ← parseSeg t
    pure (.alias l x st (← parseLocSegs rest))

/-- an item of the case language -/
def parseItem (t : String) : Option Item :=
  match words t with
  | ["ee", n, v] => do pure (.ee (← decStr n) (← decStr v))
  | ["init"] => some .init
  | ["xp", n, l] => do pure (.xp (← decStr n) (← parseLocSegs (l.splitOn "@")))
  | _ => (parseOp t).map .op

def itemNames : Item → List Name
  | .op op => (opName op).toList
  | .ee n _ => [n]
  | .init => initNames
  | .xp n _ => [n]

def runHistory (line : String) : String :=
  let parts := (splitTrim line ";").filter (· ≠ "")
  match parts.mapM parseItem with
  | none => "bad-case\t-"
  | some items =>
    let hs := (items.flatMap itemNames).foldl (fun acc n => insertSorted (encStr n) acc) []
    let names := hs.filterMap decStr
    let (om, os) := historyGo names VariableSet.new SSet.new items [] []
    " | ".intercalate om ++ "\t=" ++ " | ".intercalate os

/-! ### script cases: `sh f: S , S ; g: S ; main: S , S` (see `Script.lean`) -/

def parseStmt (t : String) : Option Stmt :=
  match words t with
  | [] => none
  | k :: ws =>
    let pre := ws.takeWhile (· ≠ "--")
    let post := (ws.dropWhile (· ≠ "--")).drop 1
    some ⟨k, pre, post⟩

def parsePart (t : String) : Option (String × List Stmt) :=
  match t.splitOn ":" with
  | [name, body] => do
    let stmts ← ((splitTrim body ",").filter (· ≠ "")).mapM parseStmt
    pure (name.trimAscii.toString, stmts)
  | _ => none

def runScriptWith {σ} (I : Iface σ) (s0 : σ) (parts : List (String × List Stmt)) : String :=
  match parts.lookup "main" with
  | none => "bad-case"
  | some main =>
    let (s', out, st) := execStmts I parts 10000 s0 main []
    " | ".intercalate (out.reverse ++ [endLine I s' st])

def runScript (body : String) : String :=
  match ((splitTrim body ";").filter (· ≠ "")).mapM parsePart with
  | none => "bad-case\t-"
  | some parts =>
    runScriptWith ifaceM VariableSet.new parts ++ "\t=" ++ runScriptWith ifaceS SSet.new parts

/-! ### `rop K`: `cd`, `getopts` and an assignment writing a read-only variable with a special name, on
    the transcriptions of Script.lean (`cdAssign`, `getoptsReportOps`).  After `init`, a setup, then the
    path; the line shows the status the built-in reports (`cd`: `cdStatus`; `getopts`: 2 when its report
    is cut short by a refusal; an assignment error ends the shell with 2) and the names observed. -/
inductive RopPath where
  | cd (newPwd : String)
  | getopts (name value : String) (optarg : Option String) (optind : String)
  | assign (n : Name) (v : String)
  | declPortable (attr : VAttr) (operands : List String)

def ropTable : List (String × List Op × RopPath × List Name) :=
  let ro (n : Name) := Op.readonly n .global 1
  let as (n : Name) (v : String) := Op.assign n .global (.scalar v) none
  [("cdpwd", [as "PWD" "0", .export "PWD" .global true, ro "PWD"], .cd "/", ["PWD", "OLDPWD"]),
   ("cdold", [as "OLDPWD" "0", ro "OLDPWD"], .cd "/", ["OLDPWD", "PWD"]),
   ("optind", [ro "OPTIND"], .getopts "o" "a" none "2", ["OPTIND", "o", "OPTARG"]),
   ("optarg", [as "OPTARG" "0", ro "OPTARG"], .getopts "o" "a" (some "v") "3", ["OPTARG", "o", "OPTIND"]),
   ("optargu", [as "OPTARG" "0", ro "OPTARG"], .getopts "o" "a" none "2", ["OPTARG", "o", "OPTIND"]),
   ("linenoas", [ro "LINENO"], .assign "LINENO" "5", ["LINENO"]),
   ("portexp", [], .declPortable .export ["1a=1", "o=2"], ["1a", "o"]),
   ("portro", [as "PWD" "/", .export "PWD" .global true], .declPortable .readOnly ["PWD=5", "o=1"], ["PWD", "o"])]

def runRopWith {σ} (I : Iface σ) (s0 : σ) (k : String) : String :=
  match ropTable.find? (·.1 = k) with
  | none => "bad-case"
  | some (_, setup, path, names) =>
    let s1 := (setup.foldl (fun s op => (I.step s op).1) s0)
    let (s2, line) : σ × String := match path with
      | .cd newPwd => let r := cdAssign I s1 newPwd; (r.1, s!"r{cdStatus r.2}")
      | .getopts name value optarg optind =>
        let r := runOps I s1 (getoptsReportOps name value optarg optind); (r.1, if r.2 then "r2" else "r0")
      | .assign n v =>
        let r := runOps I s1 [.assign n .global (.scalar v) none]; (r.1, if r.2 then "x2" else "r0")
      | .declPortable attr operands =>
        let r := foldErrors (executeFieldP I ⟨operands, [(attr, true)], .global⟩ true) operands (s1, 0)
        (r.1, if r.2 = 0 then "r0" else "r1")
    " | ".intercalate (line :: names.map fun n => s!"{n}={showV (I.get s2 n)}")

def runRop (k : String) : String :=
  runRopWith ifaceM VariableSet.new.init k ++ "\t=" ++ runRopWith ifaceS SSet.new.init k

def runLine (line : String) : String :=
  if line.startsWith "sh " then runScript (line.drop 3).toString
  else if line.startsWith "rop " then runRop (line.drop 4).toString.trimAscii.toString
  else runHistory line

def main : IO Unit := mainLoop runLine
