/-
  C16 — what `Script.lean` and `BuiltinModel.lean` share: the interface of a state implementation (the
  Rust model `VariableSet` and the Spec `SSet`) and the split of an operand `name[=value]`.
  Import-free, executable.
-/
import YashModel.Variable.Exec
import YashModel.Variable.Spec
namespace YashModel.Variable

structure Iface (σ : Type) where
  step : σ → Op → σ × Res
  get : σ → Name → Option Variable
  getIn : σ → Name → Scope → Option Variable
  env : σ → List Name → List (Name × String)
  params : σ → List String

def ifaceM : Iface VariableSet :=
  ⟨VariableSet.step, VariableSet.get, VariableSet.getScoped, VariableSet.env, VariableSet.positionalParams⟩
def ifaceS : Iface SSet := ⟨SSet.step, lookup, SSet.getScoped, SSet.env, SSet.positionalParams⟩

/-- `field.value.split_once('=')` -/
def splitAssign (t : String) : Name × Option String :=
  match t.splitOn "=" with
  | [n] => (n, none)
  | n :: rest => (n, some ("=".intercalate rest))
  | [] => (t, none)

end YashModel.Variable
