/-
  C16 — helper lemmas of the extension round: operations on one name leave every other name's stack
  alone (model level), `VariableSet::init`, the `LINENO` quirk, line numbers.
  Property theorems are in `Theorems.lean`.
-/
import YashModel.Variable.Lifetime
import YashModel.Variable.Init
namespace YashModel.Variable

/-- the variable an operation works on (none for context and positional-parameter operations) -/
def Op.name? : Op → Option Name
  | .getOrNew n _ | .assign n _ _ _ | .export n _ _ | .readonly n _ _ | .unset n _ | .quirk n _ _ => some n
  | .push _ | .pop | .setParams _ => none

/-! ### an operation on `m` does not touch the stack of any other name -/

theorem setStack_all_other (s : VariableSet) (m n : Name) (st : List VIC) (h : n ≠ m) :
    (s.setStack m st).all n = s.all n := by
  simp [VariableSet.setStack, h]

theorem getOrNew_all_other {s s1 : VariableSet} {m : Name} {sc : Scope} (hg : s.getOrNew m sc = some s1)
    (n : Name) (h : n ≠ m) : s1.all n = s.all n ∧ s1.contexts = s.contexts := by
  unfold VariableSet.getOrNew at hg
  cases sc with
  | global => simp only [Option.some.injEq] at hg; subst hg; exact ⟨setStack_all_other _ _ _ _ h, rfl⟩
  | loc => simp only [Option.some.injEq] at hg; subst hg; exact ⟨setStack_all_other _ _ _ _ h, rfl⟩
  | volatile =>
    simp only at hg
    split at hg
    · simp only [Option.some.injEq] at hg; subst hg; exact ⟨setStack_all_other _ _ _ _ h, rfl⟩
    · cases hg

theorem modifyLast_all_other (s : VariableSet) (m n : Name) (f : Variable → Variable) (h : n ≠ m) :
    (s.modifyLast m f).all n = s.all n ∧ (s.modifyLast m f).contexts = s.contexts :=
  ⟨setStack_all_other _ _ _ _ h, rfl⟩

theorem step_all_other (s : VariableSet) (op : Op) (m n : Name) (hm : op.name? = some m) (h : n ≠ m) :
    (s.step op).1.all n = s.all n ∧ (s.step op).1.contexts = s.contexts := by
  have key : ∀ (f : Variable → Variable) (r : VariableSet → Res),
      ∀ sc, ((match s.getOrNew m sc with
        | none => (s, Res.noVolatile)
        | some s1 => (s1.modifyLast m f, r s1)).1.all n = s.all n ∧
       (match s.getOrNew m sc with
        | none => (s, Res.noVolatile)
        | some s1 => (s1.modifyLast m f, r s1)).1.contexts = s.contexts) := by
    intro f r sc
    cases hg : s.getOrNew m sc with
    | none => exact ⟨rfl, rfl⟩
    | some s1 =>
      obtain ⟨h1, h2⟩ := getOrNew_all_other hg n h
      obtain ⟨h3, h4⟩ := modifyLast_all_other s1 m n f h
      exact ⟨by simp only []; rw [h3, h1], by simp only []; rw [h4, h2]⟩
  cases op with
  | push _ => cases hm
  | pop => cases hm
  | setParams _ => cases hm
  | getOrNew k sc =>
    simp only [Op.name?, Option.some.injEq] at hm; subst hm
    simp only [VariableSet.step]
    cases hg : s.getOrNew k sc with
    | none => exact ⟨rfl, rfl⟩
    | some s1 => exact getOrNew_all_other hg n h
  | assign k sc v loc =>
    simp only [Op.name?, Option.some.injEq] at hm; subst hm
    exact key (·.assign v loc) (fun s1 => assignRes ((s1.get k).getD {})) sc
  | «export» k sc b =>
    simp only [Op.name?, Option.some.injEq] at hm; subst hm
    exact key (·.setExport b) (fun _ => .done) sc
  | readonly k sc loc =>
    simp only [Op.name?, Option.some.injEq] at hm; subst hm
    exact key (·.makeReadOnly loc) (fun _ => .done) sc
  | quirk k sc q =>
    simp only [Op.name?, Option.some.injEq] at hm; subst hm
    exact key (·.setQuirk q) (fun _ => .done) sc
  | unset k sc =>
    simp only [Op.name?, Option.some.injEq] at hm; subst hm
    simp only [VariableSet.step, VariableSet.unset]
    split <;> rename_i heq
    · split at heq
      · cases heq
      · simp only [Prod.mk.injEq] at heq; obtain ⟨rfl, _⟩ := heq
        exact ⟨setStack_all_other _ _ _ _ h, rfl⟩
    · split at heq
      · simp only [Prod.mk.injEq] at heq; obtain ⟨rfl, _⟩ := heq; exact ⟨rfl, rfl⟩
      · cases heq

/-- a run of operations none of which names `n` leaves `n`'s stack as it was, provided no context
    is pushed or popped either -/
theorem run_all_other (ops : List Op) (s : VariableSet) (n : Name)
    (h : ∀ op ∈ ops, ∃ m, op.name? = some m ∧ n ≠ m) :
    (s.run ops).all n = s.all n ∧ (s.run ops).contexts = s.contexts := by
  induction ops generalizing s with
  | nil => exact ⟨rfl, rfl⟩
  | cons op ops ih =>
    obtain ⟨m, hm, hne⟩ := h op (by simp)
    obtain ⟨h1, h2⟩ := step_all_other s op m n hm hne
    obtain ⟨h3, h4⟩ := ih (s.step op).1 (fun o ho => h o (by simp [ho]))
    exact ⟨by simp only [VariableSet.run]; rw [h3, h1], by simp only [VariableSet.run]; rw [h4, h2]⟩

theorem get_of_all_eq {s t : VariableSet} {n : Name} (h : s.all n = t.all n) : s.get n = t.get n := by
  simp [VariableSet.get, h]

/-! ### `init` -/

theorem initOps_cons (p : Name × String) (tbl : List (Name × String)) (ln : Name) :
    initOps (p :: tbl) ln = Op.assign p.1 .global (.scalar p.2) none :: initOps tbl ln := rfl

theorem initOps_names (tbl : List (Name × String)) (ln : Name) (op : Op) (h : op ∈ initOps tbl ln) :
    ∃ m, op.name? = some m ∧ m ∈ tbl.map (·.1) ++ [ln] := by
  simp only [initOps, List.mem_append, List.mem_map, List.mem_singleton] at h
  rcases h with ⟨p, hp, rfl⟩ | rfl
  · exact ⟨p.1, rfl, by simp only [List.mem_append, List.mem_map]; exact Or.inl ⟨p, hp, rfl⟩⟩
  · exact ⟨ln, rfl, by simp⟩

/-- every name of the table has its value after `init`, unless it was read-only -/
theorem initOps_values (tbl : List (Name × String)) (ln : Name) (hnd : (tbl.map (·.1) ++ [ln]).Nodup)
    (s : VariableSet) (h : Norm s) (n : Name) (v : String) (hin : (n, v) ∈ tbl) :
    ∃ u, (s.run (initOps tbl ln)).get n = some u ∧ (u.isReadOnly = false → u.value = some (.scalar v)) := by
  induction tbl generalizing s with
  | nil => cases hin
  | cons p rest ih =>
    rw [initOps_cons]
    simp only [VariableSet.run]
    have hN1 := (step_abs h (.assign p.1 .global (.scalar p.2) none)).2.2
    simp only [List.map_cons, List.cons_append, List.nodup_cons] at hnd
    rcases List.mem_cons.mp hin with heq | hin'
    · -- this row: the value is there right after the assignment, and nobody touches the name later
      cases heq
      obtain ⟨u, hu, hv⟩ := spec_special_persists (abs s) (baseReg_abs h) n (.scalar v) none
      have hu' : (s.step (.assign n .global (.scalar v) none)).1.get n = some u := by
        rw [get_abs hN1, (step_abs h _).1]; exact hu
      refine ⟨u, ?_, hv⟩
      rw [← hu']
      apply get_of_all_eq
      refine (run_all_other _ _ n ?_).1
      intro op hop
      obtain ⟨m, hm, hmem⟩ := initOps_names rest ln op hop
      exact ⟨m, hm, fun e => hnd.1 (e ▸ hmem)⟩
    · exact ih hnd.2 _ hN1 hin'

/-- names outside the table keep their stacks, and no context is pushed or popped -/
theorem initOps_frame (tbl : List (Name × String)) (ln : Name) (s : VariableSet) (n : Name)
    (hn : n ∉ tbl.map (·.1) ++ [ln]) :
    (s.run (initOps tbl ln)).all n = s.all n ∧ (s.run (initOps tbl ln)).contexts = s.contexts := by
  apply run_all_other
  intro op hop
  obtain ⟨m, hm, hmem⟩ := initOps_names tbl ln op hop
  exact ⟨m, hm, fun e => hn (e ▸ hmem)⟩

theorem initOps_contexts (tbl : List (Name × String)) (ln : Name) (s : VariableSet) :
    (s.run (initOps tbl ln)).contexts = s.contexts := by
  have : ∀ (ops : List Op) (s : VariableSet), (∀ op ∈ ops, ∃ m, op.name? = some m) →
      (s.run ops).contexts = s.contexts := by
    intro ops
    induction ops with
    | nil => intro s _; rfl
    | cons op ops ih =>
      intro s h
      obtain ⟨m, hm⟩ := h op (by simp)
      simp only [VariableSet.run]
      rw [ih _ (fun o ho => h o (by simp [ho]))]
      -- any name other than `m` will do to read off the contexts
      exact (step_all_other s op m (m ++ "'") hm (by
        intro e
        have := congrArg String.length e
        simp [String.length_append] at this)).2
  exact this _ s (fun op hop => by obtain ⟨m, hm, _⟩ := initOps_names tbl ln op hop; exact ⟨m, hm⟩)

/-! ### the `LINENO` quirk -/

/-- the set holds exactly one instance of `ln`, in the base context, carrying the quirk -/
def LinenoOK (s : VariableSet) (ln : Name) : Prop :=
  ∃ u, s.all ln = [⟨u, 0⟩] ∧ u.quirk = some .lineNumber

theorem dec_one (r : List VIC) (h : Dec 1 r) : r = [] ∨ ∃ v, r = [⟨v, 0⟩] := by
  cases r with
  | nil => exact Or.inl rfl
  | cons a r =>
    right
    have ha : a.ctx = 0 := by have := h.1; omega
    cases r with
    | nil => exact ⟨a.var, by cases a; simp_all⟩
    | cons b r => have := h.2.1; omega

/-- `get_or_new(ln, Global).set_quirk(q)` on a set that has only the base context -/
theorem quirk_global_base (s : VariableSet) (h : Norm s) (h1 : s.contexts.length = 1) (ln : Name)
    (q : Option Quirk) : ∃ u, (s.step (.quirk ln .global q)).1.all ln = [⟨u, 0⟩] ∧ u.quirk = q := by
  obtain ⟨ps, t, hc⟩ := h.base
  have hd := h.dec ln
  rw [h1] at hd
  have hv0 : isVolatileAt s.contexts 0 = false := by simp [isVolatileAt, hc]
  simp only [VariableSet.step, VariableSet.getOrNew, VariableSet.modifyLast, VariableSet.setStack, if_true]
  rcases dec_one _ hd with hr | ⟨v, hr⟩
  · rw [hr]
    exact ⟨({} : Variable).setQuirk q, by simp [lowerLoop, modifyHead], rfl⟩
  · rw [hr]
    exact ⟨v.setQuirk q, by simp [lowerLoop, hv0, modifyHead], rfl⟩

theorem popIf_base (len : Nat) (u : Variable) (h : 0 < len) : popIf len [⟨u, 0⟩] = [⟨u, 0⟩] := by
  simp only [popIf, List.getLast?_singleton]
  split
  · omega
  · rfl

/-- no operation that does not name `ln` disturbs it: other names' operations, pushes, pops,
    positional parameters -/
theorem linenoOK_step (s : VariableSet) (ln : Name) (h : LinenoOK s ln) (op : Op) (hop : op.name? ≠ some ln) :
    LinenoOK (s.step op).1 ln := by
  obtain ⟨u, hu, hq⟩ := h
  cases hn : op.name? with
  | some m =>
    have hne : ln ≠ m := fun e => hop (e ▸ hn)
    exact ⟨u, by rw [(step_all_other s op m ln hn hne).1]; exact hu, hq⟩
  | none =>
    cases op with
    | push c => exact ⟨u, hu, hq⟩
    | setParams ps => exact ⟨u, hu, hq⟩
    | pop =>
      simp only [VariableSet.step, VariableSet.popContext]
      split
      · exact ⟨u, hu, hq⟩
      · exact ⟨u, by simp only []; rw [hu]; exact popIf_base _ u (by omega), hq⟩
    | getOrNew _ _ => cases hn
    | assign _ _ _ _ => cases hn
    | «export» _ _ _ => cases hn
    | readonly _ _ _ => cases hn
    | unset _ _ => cases hn
    | quirk _ _ _ => cases hn

theorem linenoOK_run (ops : List Op) (s : VariableSet) (ln : Name) (h : LinenoOK s ln)
    (hops : ∀ op ∈ ops, op.name? ≠ some ln) : LinenoOK (s.run ops) ln := by
  induction ops generalizing s with
  | nil => exact h
  | cons op ops ih =>
    exact ih _ (linenoOK_step s ln h op (hops op (by simp))) (fun o ho => hops o (by simp [ho]))

/-- after `init` on a set with only the base context, `ln` is in that state -/
theorem initOps_lineno (tbl : List (Name × String)) (ln : Name) (s : VariableSet) (h : Norm s)
    (h1 : s.contexts.length = 1) : LinenoOK (s.run (initOps tbl ln)) ln := by
  have hrun : s.run (initOps tbl ln) =
      ((s.run (tbl.map (fun p => Op.assign p.1 .global (.scalar p.2) none))).step
        (.quirk ln .global (some .lineNumber))).1 := by
    have : ∀ (a b : List Op) (s : VariableSet), s.run (a ++ b) = (s.run a).run b := by
      intro a
      induction a with
      | nil => intro b s; rfl
      | cons x a ih => intro b s; simp only [List.cons_append, VariableSet.run]; exact ih b _
    simp only [initOps, this, VariableSet.run]
  rw [hrun]
  have hN := (run_abs_from h (tbl.map (fun p => Op.assign p.1 .global (.scalar p.2) none))).2
  have hc : (s.run (tbl.map (fun p => Op.assign p.1 .global (.scalar p.2) none))).contexts.length = 1 := by
    have := initOps_contexts tbl ln s
    -- the assignments alone: same argument on the prefix
    have hpre : ∀ (ops : List Op) (s : VariableSet), (∀ op ∈ ops, ∃ m, op.name? = some m) →
        (s.run ops).contexts = s.contexts := by
      intro ops
      induction ops with
      | nil => intro s _; rfl
      | cons op ops ih =>
        intro s h
        obtain ⟨m, hm⟩ := h op (by simp)
        simp only [VariableSet.run]
        rw [ih _ (fun o ho => h o (by simp [ho]))]
        exact (step_all_other s op m (m ++ "'") hm (by
          intro e
          have := congrArg String.length e
          simp [String.length_append] at this)).2
    rw [hpre _ s (fun op hop => by
      simp only [List.mem_map] at hop
      obtain ⟨p, _, rfl⟩ := hop
      exact ⟨p.1, rfl⟩)]
    exact h1
  obtain ⟨u, hu, hq⟩ := quirk_global_base _ hN hc ln (some .lineNumber)
  exact ⟨u, hu, hq⟩

/-! ### the defaults of the totalised definitions are never taken -/

theorem lowerLoop_ne_nil (cs : List Context) (target : Nat) (r : List VIC) (c : Option Variable) :
    lowerLoop cs target r c ≠ [] := by
  induction r generalizing c with
  | nil => simp [lowerLoop]
  | cons v r ih =>
    simp only [lowerLoop]
    split
    · simp
    · split
      · exact ih _
      · simp

theorem volatileBranch_ne_nil (ci : Nat) (r : List VIC) : volatileBranch ci r ≠ [] := by
  cases r with
  | nil => simp [volatileBranch]
  | cons v r => simp only [volatileBranch]; split <;> simp

theorem getOrNew_get_isSome {s s1 : VariableSet} {n : Name} {sc : Scope} (hg : s.getOrNew n sc = some s1) :
    (s1.get n).isSome = true := by
  have key : ∀ st : List VIC, st ≠ [] → ((s.setStack n st.reverse).get n).isSome = true := by
    intro st hst
    simp only [VariableSet.get, VariableSet.setStack, if_true, List.getLast?_reverse, Option.isSome_map]
    cases st with
    | nil => exact absurd rfl hst
    | cons a st => rfl
  unfold VariableSet.getOrNew at hg
  cases sc with
  | global => simp only [Option.some.injEq] at hg; subst hg; exact key _ (lowerLoop_ne_nil _ _ _ _)
  | loc => simp only [Option.some.injEq] at hg; subst hg; exact key _ (lowerLoop_ne_nil _ _ _ _)
  | volatile =>
    simp only at hg
    split at hg
    · simp only [Option.some.injEq] at hg; subst hg; exact key _ (volatileBranch_ne_nil _ _)
    · cases hg

theorem rposition_isSome_of_head {α} (p : α → Bool) (a : α) (t : List α) (h : p a = true) :
    (rposition p (a :: t)).isSome = true := by
  simp only [rposition, Option.isSome_map, List.reverse_cons]
  rw [List.findIdx?_isSome]
  simp [h]

/-! ### line numbers -/

theorem lineNumber_append (start : Nat) (pre post : List Char) :
    lineNumber start (String.ofList (pre ++ post)) pre.length = start + (pre.filter (· == '\n')).length := by
  simp [lineNumber, List.take_left']

/-- a location reached through any number of alias substitutions is on the line of the innermost
    original -/
def Loc.wrap (l : Loc) : List (Nat × String × Nat) → Loc
  | [] => l
  | (a, b, c) :: rest => .alias a b c (l.wrap rest)

theorem line_wrap (l : Loc) (segs : List (Nat × String × Nat)) : (l.wrap segs).line = l.line := by
  induction segs with
  | nil => rfl
  | cons p rest ih => obtain ⟨a, b, c⟩ := p; simpa [Loc.wrap, Loc.line] using ih

end YashModel.Variable
