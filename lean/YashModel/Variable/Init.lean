/-
  C16 — the parts of the model that are *tables of the code*, taken from
  `YashModel/Generated/VariableTables.lean` (re-extracted from /repo on every run by
  `tools/tables/variable.py`):

  * `VariableSet::init` (yash-env/src/variable.rs): the `VARIABLES` table, the scope of its loop, the
    `set_quirk` call for `LINENO`;
  * the decision "which scope / export flag / context does a command's assignment prefix get"
    (yash-semantics simple_command.rs `perform_assignments`, simple_command/{builtin,function,
    external,absent}.rs), from which `prefixOfKind` rebuilds the operation prefix of a command; the
    theorems `exec_tables_*` (Theorems.lean) show that this is the compilation `Exec.lean` uses.

  Import-free apart from `YashModel.*`, executable.
-/
import YashModel.Variable.Exec
import YashModel.Variable.Spec
import YashModel.Generated.VariableTables
namespace YashModel.Variable
open YashModel.Generated

/-- variant name of `enum Scope` → the model's `Scope` -/
def scopeOfName : String → Option Scope
  | "Global" => some .global
  | "Local" => some .loc
  | "Volatile" => some .volatile
  | _ => none

/-- variant name of `enum Quirk` → the model's `Quirk` -/
def quirkOfName : String → Option Quirk
  | "LineNumber" => some .lineNumber
  | _ => none

/-- the operations of `VariableSet::init`, read off the generated tables only -/
def initOpsOfTables : Option (List Op) := do
  let sc ← scopeOfName VariableTables.initScope
  let qsc ← scopeOfName VariableTables.initQuirkScope
  let q ← quirkOfName VariableTables.initQuirk
  pure (VariableTables.initVariables.map (fun p => Op.assign p.1 sc (.scalar p.2) none) ++
    [Op.quirk VariableTables.initQuirkName qsc (some q)])

/-- the operations of `VariableSet::init` (`initOps` of Model.lean on the generated table) -/
def theInitOps : List Op := initOps VariableTables.initVariables VariableTables.initQuirkName

/-- `VariableSet::init` -/
def VariableSet.init (s : VariableSet) : VariableSet := s.run theInitOps

/-- the same operations on the stack of maps -/
def SSet.init (X : SSet) : SSet := SSet.run X theInitOps

/-- names `init` touches (the keys the hash map holds afterwards, for whoever iterates) -/
def initNames : List Name := VariableTables.initVariables.map (·.1) ++ [VariableTables.initQuirkName]

/-! ### the assignment prefix of a command, from the generated command table -/

/-- the scope `perform_assignments` chooses for a given `export` flag (generated) -/
def scopeForExport (ex : Bool) : Option Scope :=
  scopeOfName (if ex then VariableTables.assignScopeExport else VariableTables.assignScopeNoExport)

/-- what a command of the given kind (a row name of `VariableTables.commandTable`) does before its
    body: push a volatile context or not, then every assignment of the prefix through
    `perform_assignments` with the row's `export` flag -/
def prefixOfKind (kind : String) (as : List (Name × Value)) : Option (List Op) := do
  let (pushes, ex) ← VariableTables.commandTable.lookup kind
  let sc ← scopeForExport ex
  pure ((if pushes then [Op.push .volatile] else []) ++ as.flatMap (fun p => assignOps sc ex p.1 p.2))

/-- how many contexts a command of the kind pops when it ends (the guard of the volatile context) -/
def popsOfKind (kind : String) : Option (List Op) := do
  let (pushes, _) ← VariableTables.commandTable.lookup kind
  pure (if pushes then [Op.pop] else [])

end YashModel.Variable
