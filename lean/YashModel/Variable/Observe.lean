/-
  C16 — what the driver prints for an operation history: the observation after every operation,
  computed from the Rust model and from the Spec (kept apart from `Main.lean` so that theorems can
  speak about it).  Import-free apart from `YashModel.*`, executable.
-/
import YashModel.Common.Proto
import YashModel.Variable.Model
import YashModel.Variable.Spec
namespace YashModel.Variable
open YashModel.Proto

def showOptNat : Option Nat → String
  | some n => toString n
  | none => "-"

def showValue : Option Value → String
  | none => "~"
  | some (.scalar s) => "s:" ++ encStr s
  | some (.array vs) => "a:" ++ ",".intercalate (vs.map encStr)

def showVar (v : Variable) : String :=
  s!"{showValue v.value}/{if v.exported then 1 else 0}/{showOptNat v.readOnly}/{showOptNat v.lastAssigned}"

def showOptVar : Option Variable → String
  | some v => showVar v
  | none => "-"

def showRes : Res → String
  | .done => "done"
  | .noVolatile => "novol"
  | .assigned v l => s!"as({showValue v},{showOptNat l})"
  | .readOnly l => s!"ro({l})"
  | .unset v => s!"un({showOptVar v})"

/-- everything observed after an operation, from the lookups a state offers -/
def showScalar : Option String → String
  | none => "~"
  | some x => encStr x

def observeWith (r : Res) (names : List Name) (gs : Name → Option String)
    (get : Name → Option Variable) (scopedF : Name → Scope → Option Variable)
    (iter : Scope → List (Name × Variable)) (env : List (Name × String)) (pp : List String) : String :=
  let vs := names.map fun n =>
    s!"{encStr n}={showOptVar (get n)}|{showOptVar (scopedF n .global)}|{showOptVar (scopedF n .loc)}|{showOptVar (scopedF n .volatile)}|{showScalar (gs n)}"
  let it (sc : Scope) := ",".intercalate ((iter sc).map fun (n, v) => s!"{encStr n}={showVar v}")
  let ev := ",".intercalate (env.map fun (n, x) => s!"{encStr n}={encStr x}")
  " ".intercalate ([s!"r={showRes r}"] ++ vs ++
    [s!"ig={it .global}", s!"il={it .loc}", s!"iv={it .volatile}", s!"env={ev}",
     s!"pp={",".intercalate (pp.map encStr)}"])

def observeM (s : VariableSet) (r : Res) (names : List Name) : String :=
  observeWith r names s.getScalar s.get s.getScoped (fun sc => s.iter sc names) (s.env names) s.positionalParams

def observeS (X : SSet) (r : Res) (names : List Name) : String :=
  observeWith r names X.getScalar (lookup X) X.getScoped (fun sc => X.iter sc names) (X.env names) X.positionalParams


/-- runs the items of a history on both sides, collecting the observations (reversed accumulators) -/
def historyGo (names : List Name) (s : VariableSet) (X : SSet) :
    List (Op ⊕ (Name × String)) → List String → List String → List String × List String
  | [], om, os => (om.reverse, os.reverse)
  | .inl op :: rest, om, os =>
    historyGo names (s.step op).1 (X.step op).1 rest
      (observeM (s.step op).1 (s.step op).2 names :: om) (observeS (X.step op).1 (X.step op).2 names :: os)
  | .inr (n, v) :: rest, om, os =>
    historyGo names (s.extendEnv1 n v) (X.extendEnv1 n v) rest
      (observeM (s.extendEnv1 n v) .done names :: om) (observeS (X.extendEnv1 n v) .done names :: os)

end YashModel.Variable
