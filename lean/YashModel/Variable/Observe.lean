/-
  C16 — what the driver prints for an operation history: the observation after every operation,
  computed from the Rust model and from the Spec (kept apart from `Main.lean` so that theorems can
  speak about it).  Import-free apart from `YashModel.*`, executable.
-/
import YashModel.Common.Proto
import YashModel.Variable.Model
import YashModel.Variable.Spec
import YashModel.Variable.Init
namespace YashModel.Variable
open YashModel.Proto

def showOptNat : Option Nat → String
  | some n => toString n
  | none => "-"

def showValue : Option Value → String
  | none => "~"
  | some (.scalar s) => "s:" ++ encStr s
  | some (.array vs) => "a:" ++ ",".intercalate (vs.map encStr)

def showQuirk : Option Quirk → String
  | none => "-"
  | some .lineNumber => "L"

def showVar (v : Variable) : String :=
  s!"{showValue v.value}/{if v.exported then 1 else 0}/{showOptNat v.readOnly}/{showOptNat v.lastAssigned}/{showQuirk v.quirk}"

/-- text of an `Expansion` (the result of `Variable::expand`) -/
def showExpansion : Expansion → String
  | .unset => "~"
  | .scalar x => "s:" ++ encStr x
  | .array vs => "a:" ++ ",".intercalate (vs.map encStr)

def showOptExpansion : Option Expansion → String
  | some e => showExpansion e
  | none => "-"

/-- the result of an `xp` item: the expansion, then `Expansion::len`, `is_empty`, `split`, `Value::split`
    of the variable's own value (`-` without a value), and `cok`: the conversions of `Expansion`
    (`as_ref`, `From<Option<Value>>`, `From<Value>`, `From<&Expansion>`, `into_owned`, `Default`) and
    `QuotedValue::as_ref` agree with the expansion — the harness checks them on the real code and
    prints what failed instead -/
def showExpansionFull (v : Variable) (e : Expansion) : String :=
  showExpansion e ++ s!";l{e.len};e{if e.isEmpty then 1 else 0};p" ++ ",".intercalate (e.split.map encStr) ++
    ";v" ++ (match v.value with
      | some val => ",".intercalate (val.split.map encStr)
      | none => "-") ++ ";cok"

def showOptExpansionFull (o : Option Variable) (l : Loc) : String :=
  match o with
  | some v => showExpansionFull v (v.expand l)
  | none => "-"

/-- the location at which every observation expands the visible variable: character 4 of the code
    `a⏎b⏎c` that starts on line 3 (hence line 5), reached through one alias substitution -/
def obsLoc : Loc := .alias 1 "a" 0 (.plain 3 "a\nb\nc" 4)

def showOptVar : Option Variable → String
  | some v => showVar v
  | none => "-"

def showRes : Res → String
  | .done => "done"
  | .noVolatile => "novol"
  | .assigned v l => s!"as({showValue v},{showOptNat l})"
  | .readOnly l => s!"ro({l})"
  | .unset v => s!"un({showOptVar v})"

/-- everything observed after an operation, from the lookups a state offers -/
def showScalar : Option String → String
  | none => "~"
  | some x => encStr x

def observeWith (rs : String) (names : List Name) (gs : Name → Option String)
    (get : Name → Option Variable) (scopedF : Name → Scope → Option Variable)
    (iter : Scope → List (Name × Variable)) (env : List (Name × String)) (pp : List String) : String :=
  let vs := names.map fun n =>
    s!"{encStr n}={showOptVar (get n)}|{showOptVar (scopedF n .global)}|{showOptVar (scopedF n .loc)}|{showOptVar (scopedF n .volatile)}|{showScalar (gs n)}|{showOptExpansion ((get n).map (·.expand obsLoc))}"
  let it (sc : Scope) := ",".intercalate ((iter sc).map fun (n, v) => s!"{encStr n}={showVar v}")
  let ev := ",".intercalate (env.map fun (n, x) => s!"{encStr n}={encStr x}")
  " ".intercalate ([s!"r={rs}"] ++ vs ++
    [s!"ig={it .global}", s!"il={it .loc}", s!"iv={it .volatile}", s!"env={ev}",
     s!"pp={",".intercalate (pp.map encStr)}"])

/-- the observation with an arbitrary result text -/
def observeMT (s : VariableSet) (rs : String) (names : List Name) : String :=
  observeWith rs names s.getScalar s.get s.getScoped (fun sc => s.iter sc names) (s.env names) s.positionalParams

def observeST (X : SSet) (rs : String) (names : List Name) : String :=
  observeWith rs names X.getScalar (lookup X) X.getScoped (fun sc => X.iter sc names) (X.env names) X.positionalParams

def observeM (s : VariableSet) (r : Res) (names : List Name) : String := observeMT s (showRes r) names

def observeS (X : SSet) (r : Res) (names : List Name) : String := observeST X (showRes r) names

/-- an item of the case language: an operation, `ee N V` (`extend_env` of one pair), `init`
    (`VariableSet::init`), `xp N LOC` (`Variable::expand` of the visible variable at a location) -/
inductive Item where
  | op (o : Op)
  | ee (n : Name) (v : String)
  | init
  | xp (n : Name) (l : Loc)

/-- when the case ends the guards of all contexts still pushed are dropped, innermost first: one
    observation after every pop, so that every instance hidden at the end of the history is seen -/
def unwindGo (names : List Name) : Nat → VariableSet → SSet → List String × List String
  | 0, _, _ => ([], [])
  | k + 1, s, X =>
    let r := unwindGo names k (s.step .pop).1 (X.step .pop).1
    (observeMT (s.step .pop).1 "unwind" names :: r.1, observeST (X.step .pop).1 "unwind" names :: r.2)


/-- runs the items of a history on both sides, collecting the observations (reversed accumulators),
    then unwinds the contexts that are still pushed -/
def historyGo (names : List Name) (s : VariableSet) (X : SSet) :
    List Item → List String → List String → List String × List String
  | [], om, os =>
    (om.reverse ++ (unwindGo names (s.contexts.length - 1) s X).1,
     os.reverse ++ (unwindGo names (s.contexts.length - 1) s X).2)
  | .op op :: rest, om, os =>
    historyGo names (s.step op).1 (X.step op).1 rest
      (observeM (s.step op).1 (s.step op).2 names :: om) (observeS (X.step op).1 (X.step op).2 names :: os)
  | .ee n v :: rest, om, os =>
    historyGo names (s.extendEnv1 n v) (X.extendEnv1 n v) rest
      (observeM (s.extendEnv1 n v) .done names :: om) (observeS (X.extendEnv1 n v) .done names :: os)
  | .init :: rest, om, os =>
    historyGo names s.init X.init rest (observeM s.init .done names :: om) (observeS X.init .done names :: os)
  | .xp n l :: rest, om, os =>
    historyGo names s X rest
      (observeMT s ("xp(" ++ showOptExpansionFull (s.get n) l ++ ")") names :: om)
      (observeST X ("xp(" ++ showOptExpansionFull (lookup X n) l ++ ")") names :: os)

end YashModel.Variable
