/-
  C16 — helper lemmas, part 11: the assignments of one command prefix are performed left to
  right; an assignment is visible to the expansion of the next value.
-/
import YashModel.Variable.Sim
namespace YashModel.Variable

/-- `get_or_new(Global)` keeps the visible variable (it may move it to another context) -/
theorem lookup_lower_global (n : Name) (X : SSet) (hB : BaseReg X) (carried : Option Variable) :
    lookup (lower n true X carried) n = some (carried.getD ((lookup X n).getD {})) := by
  induction X generalizing carried with
  | nil => obtain ⟨c, hc, _⟩ := hB; simp at hc
  | cons c t ih =>
    have hBt : t ≠ [] → BaseReg t := by
      intro hne
      obtain ⟨d, hd, hr⟩ := hB
      cases t with
      | nil => exact absurd rfl hne
      | cons e u => exact ⟨d, by simpa [List.getLast?_cons_cons] using hd, hr⟩
    by_cases hc : c.kind.isRegular = true
    · cases hv : c.vars n with
      | some v => simp [lower, hc, hv, lookup, SCtx.set]
      | none =>
        by_cases ht : t.isEmpty = true
        · have : t = [] := by simpa using ht
          subst this
          simp [lower, hc, hv, lookup, SCtx.set]
        · have hne : t ≠ [] := by intro e; simp [e] at ht
          simp [lower, hc, hv, ht, lookup, ih (hBt hne) carried]
    · have hne : t ≠ [] := by
        intro e; subst e
        obtain ⟨d, hd, hr⟩ := hB
        simp at hd; subst hd; exact hc hr
      cases hv : c.vars n with
      | some v => simp [lower, hc, hv, lookup, SCtx.set, ih (hBt hne)]
      | none => simp [lower, hc, hv, lookup, ih (hBt hne) carried]

theorem baseReg_step_kinds {X Y : SSet} (h : Y.map (·.kind) = X.map (·.kind)) (hB : BaseReg X) : BaseReg Y :=
  baseReg_of_kinds h hB

/-- assignment at `Global` scope on the Spec: result and visible variable -/
theorem spec_assign_global (X : SSet) (hB : BaseReg X) (n : Name) (v : Value) (loc : Option Nat) :
    ∃ w, (X.step (.assign n .global v loc)).2 = assignRes w ∧
      lookup (X.step (.assign n .global v loc)).1 n = some (w.assign v loc) ∧
      BaseReg (X.step (.assign n .global v loc)).1 := by
  have hl := lookup_lower_global n X hB none
  refine ⟨(lookup X n).getD {}, ?_, ?_, ?_⟩
  · simp [SSet.step, SSet.getOrNew, hl]
  · simp [SSet.step, SSet.getOrNew, lookup_modifyVisible, hl]
  · apply baseReg_of_kinds _ hB
    simp [SSet.step, SSet.getOrNew, modifyVisible_kinds, lower_kinds]

theorem spec_export_global (X : SSet) (hB : BaseReg X) (n : Name) (b : Bool) (u : Variable)
    (hu : lookup X n = some u) :
    lookup (X.step (.export n .global b)).1 n = some (u.setExport b) := by
  have hl := lookup_lower_global n X hB none
  simp [SSet.step, SSet.getOrNew, lookup_modifyVisible, hl, hu]

theorem assignRes_not_refused {w : Variable} (h : ∀ l, assignRes w ≠ .readOnly l) : w.isReadOnly = false := by
  unfold assignRes at h
  unfold Variable.isReadOnly
  cases hw : w.readOnly with
  | none => rfl
  | some l => rw [hw] at h; exact absurd rfl (h l)

/-- the top context is volatile (the state a regular command's prefix is assigned in) -/
def TopVol (s : VariableSet) : Prop := ∃ c t, abs s = c :: t ∧ c.kind.isRegular = false

theorem topVol_push {s : VariableSet} (h : Norm s) : TopVol (s.step (.push .volatile)).1 :=
  ⟨⟨.volatile, fun _ => none⟩, abs s, (push_abs h .volatile).1, rfl⟩

theorem spec_assign_vol (c : SCtx) (t : SSet) (hc : c.kind.isRegular = false) (n : Name) (v : Value)
    (loc : Option Nat) :
    ∃ w : Variable, (SSet.step (c :: t) (.assign n .volatile v loc)).2 = assignRes w ∧
      (SSet.step (c :: t) (.assign n .volatile v loc)).1 = c.set n (some (w.assign v loc)) :: t := by
  cases hv : c.vars n with
  | some w => exact ⟨w, by simp [SSet.step, SSet.getOrNew, hc, hv, lookup], by simp [SSet.step, SSet.getOrNew, hc, hv, modifyVisible]⟩
  | none =>
    refine ⟨(lookup t n).getD {}, by simp [SSet.step, SSet.getOrNew, hc, hv, lookup, SCtx.set], ?_⟩
    simp only [SSet.step, SSet.getOrNew, hc, hv]
    simp [modifyVisible, SCtx.set]
    funext m; split <;> rfl

/-- one assignment of a prefix (`assignOps`), generically in the scope: given what the Spec does for
    `assign` and `export` in that scope under an invariant `P` of the Spec state -/
theorem assignOps_value_of {s : VariableSet} (h : Norm s) (sc : Scope) (ex : Bool) (n : Name) (v : Value)
    (P : SSet → Prop) (hP : P (abs s))
    (hA : ∀ X, P X → ∃ w, (X.step (.assign n sc v none)).2 = assignRes w ∧
      lookup (X.step (.assign n sc v none)).1 n = some (w.assign v none) ∧ P (X.step (.assign n sc v none)).1)
    (hE : ∀ X u, P X → lookup X n = some u →
      lookup (X.step (.export n sc true)).1 n = some (u.setExport true) ∧ P (X.step (.export n sc true)).1) :
    Norm (runOps ifaceM s (assignOps sc ex n v)).1 ∧ P (abs (runOps ifaceM s (assignOps sc ex n v)).1) ∧
    ((runOps ifaceM s (assignOps sc ex n v)).2 = false →
      ∃ u, (runOps ifaceM s (assignOps sc ex n v)).1.get n = some u ∧ u.value = some v) := by
  have h1 := step_abs h (.assign n sc v none)
  obtain ⟨w, hr, hl, hP1⟩ := hA (abs s) hP
  have hstepM : ∀ op, ifaceM.step s op = s.step op := fun _ => rfl
  simp only [assignOps, runOps, hstepM]
  cases hst : s.step (.assign n sc v none) with
  | mk s1 r1 =>
    rw [hst] at h1
    obtain ⟨e1, e2, hN1⟩ := h1
    simp only at e1 e2 hN1
    have hr1 : r1 = assignRes w := by rw [e2, hr]
    have hl1 : s1.get n = some (w.assign v none) := by rw [get_abs hN1, e1]; exact hl
    have hP1' : P (abs s1) := by rw [e1]; exact hP1
    have fin : ∀ (s2 : VariableSet) (u : Variable), s2.get n = some u → u.value = (w.assign v none).value →
        (∀ l, r1 ≠ .readOnly l) → ∃ u, s2.get n = some u ∧ u.value = some v := by
      intro s2 u hu hv hnr
      have hro := assignRes_not_refused (w := w) (fun l => by rw [← hr1]; exact hnr l)
      have : (w.assign v none).value = some v := by
        apply assign_value
        simp only [Variable.assign, hro, Bool.false_eq_true, if_false]
        exact hro
      exact ⟨u, hu, by rw [hv]; exact this⟩
    have hafter : ∀ (hnr : ∀ l, r1 ≠ .readOnly l),
        Norm (runOps ifaceM s1 (if ex = true then [Op.export n sc true] else [])).1 ∧
        P (abs (runOps ifaceM s1 (if ex = true then [Op.export n sc true] else [])).1) ∧
        ((runOps ifaceM s1 (if ex = true then [Op.export n sc true] else [])).2 = false →
          ∃ u, (runOps ifaceM s1 (if ex = true then [Op.export n sc true] else [])).1.get n = some u ∧
            u.value = some v) := by
      intro hnr
      cases ex with
      | false => exact ⟨hN1, hP1', fun _ => fin s1 _ hl1 rfl hnr⟩
      | true =>
        have h2 := step_abs hN1 (.export n sc true)
        obtain ⟨hx0, hP2⟩ := hE (abs s1) (w.assign v none) hP1' (by rw [← get_abs hN1]; exact hl1)
        have hx : ((s1.step (.export n sc true)).1).get n = some ((w.assign v none).setExport true) := by
          rw [get_abs h2.2.2, h2.1]; exact hx0
        have hres : (s1.step (.export n sc true)).2 = .done ∨ (s1.step (.export n sc true)).2 = .noVolatile := by
          simp only [VariableSet.step]; split <;> simp
        have hs : ∀ op, ifaceM.step s1 op = s1.step op := fun _ => rfl
        simp only [if_true, runOps, hs]
        have hP2' : P (abs (s1.step (.export n sc true)).1) := by rw [h2.1]; exact hP2
        cases hse : s1.step (.export n sc true) with
        | mk s2 r2 =>
          rw [hse] at hx hres h2 hP2'
          rcases hres with rfl | rfl <;> exact ⟨h2.2.2, hP2', fun _ => fin s2 _ hx rfl hnr⟩
    cases r1 with
    | readOnly l => exact ⟨hN1, hP1', fun hf => by cases hf⟩
    | done => exact hafter (fun l hc => by cases hc)
    | noVolatile => exact hafter (fun l hc => by cases hc)
    | assigned a b => exact hafter (fun l hc => by cases hc)
    | unset a => exact hafter (fun l hc => by cases hc)

/-- `Global` scope (command-less command, special built-in) -/
theorem assignOps_value_global {s : VariableSet} (h : Norm s) (ex : Bool) (n : Name) (v : Value) :
    Norm (runOps ifaceM s (assignOps .global ex n v)).1 ∧
    ((runOps ifaceM s (assignOps .global ex n v)).2 = false →
      ∃ u, (runOps ifaceM s (assignOps .global ex n v)).1.get n = some u ∧ u.value = some v) := by
  have := assignOps_value_of h .global ex n v BaseReg (baseReg_abs h)
    (fun X hB => spec_assign_global X hB n v none)
    (fun X u hB hu => ⟨spec_export_global X hB n true u hu, by
      apply baseReg_of_kinds _ hB
      simp [SSet.step, SSet.getOrNew, modifyVisible_kinds, lower_kinds]⟩)
  exact ⟨this.1, this.2.2⟩

/-- the Spec state has a volatile context on top -/
def TopVolS (X : SSet) : Prop := ∃ c t, X = c :: t ∧ c.kind.isRegular = false

/-- `Volatile` scope with export (regular built-in, function, external): the state is the one
    after pushing the command's volatile context and any earlier assignments of the prefix -/
theorem assignOps_value_volatile {s : VariableSet} (h : Norm s) (ht : TopVol s) (ex : Bool) (n : Name) (v : Value) :
    Norm (runOps ifaceM s (assignOps .volatile ex n v)).1 ∧ TopVol (runOps ifaceM s (assignOps .volatile ex n v)).1 ∧
    ((runOps ifaceM s (assignOps .volatile ex n v)).2 = false →
      ∃ u, (runOps ifaceM s (assignOps .volatile ex n v)).1.get n = some u ∧ u.value = some v) := by
  refine assignOps_value_of h .volatile ex n v TopVolS ht ?_ ?_
  · rintro X ⟨c, t, rfl, hc⟩
    obtain ⟨w, hr, hs⟩ := spec_assign_vol c t hc n v none
    exact ⟨w, hr, by rw [hs]; simp [lookup, SCtx.set], by rw [hs]; exact ⟨_, t, rfl, hc⟩⟩
  · rintro X u ⟨c, t, rfl, hc⟩ hu
    cases hv : c.vars n with
    | some u' =>
      have : u' = u := by simpa [lookup, hv] using hu
      subst this
      rw [step_export_vol c t hc n true u' hv]
      exact ⟨by simp [lookup, SCtx.set], ⟨_, t, rfl, hc⟩⟩
    | none =>
      -- the visible variable is below: `get_or_new(Volatile)` copies it to the top first
      have hs : (SSet.step (c :: t) (.export n .volatile true)).1 = c.set n (some (u.setExport true)) :: t := by
        have hu' : lookup t n = some u := by simpa [lookup, hv] using hu
        simp only [SSet.step, SSet.getOrNew, hc, hv, hu']
        simp [modifyVisible, SCtx.set]
        funext m; split <;> rfl
      rw [hs]
      exact ⟨by simp [lookup, SCtx.set], ⟨_, t, rfl, hc⟩⟩

/-- a whole prefix at `Volatile` scope only ever changes the command's own volatile context -/
theorem runAssigns_volatile_tail (X0 : SSet) (ex : Bool) (as : List (Name × AVal)) (s : VariableSet)
    (h : Norm s) (hP : ∃ c, abs s = c :: X0 ∧ c.kind.isRegular = false) :
    Norm (runAssigns ifaceM .volatile ex s as).1 ∧
    ∃ c, abs (runAssigns ifaceM .volatile ex s as).1 = c :: X0 ∧ c.kind.isRegular = false := by
  induction as generalizing s with
  | nil => exact ⟨h, hP⟩
  | cons p rest ih =>
    obtain ⟨n, e⟩ := p
    have := assignOps_value_of h .volatile ex n (evalA ifaceM s e)
      (fun X => ∃ c, X = c :: X0 ∧ c.kind.isRegular = false) hP
      (by
        rintro X ⟨c, rfl, hc⟩
        obtain ⟨w, hr, hs⟩ := spec_assign_vol c X0 hc n (evalA ifaceM s e) none
        exact ⟨w, hr, by rw [hs]; simp [lookup, SCtx.set], by rw [hs]; exact ⟨_, rfl, hc⟩⟩)
      (by
        rintro X u ⟨c, rfl, hc⟩ hu
        cases hv : c.vars n with
        | some u' =>
          have : u' = u := by simpa [lookup, hv] using hu
          subst this
          rw [step_export_vol c X0 hc n true u' hv]
          exact ⟨by simp [lookup, SCtx.set], ⟨_, rfl, hc⟩⟩
        | none =>
          have hs : (SSet.step (c :: X0) (.export n .volatile true)).1
              = c.set n (some (u.setExport true)) :: X0 := by
            have hu' : lookup X0 n = some u := by simpa [lookup, hv] using hu
            simp only [SSet.step, SSet.getOrNew, hc, hv, hu']
            simp [modifyVisible, SCtx.set]
            funext m; split <;> rfl
          rw [hs]
          exact ⟨by simp [lookup, SCtx.set], ⟨_, rfl, hc⟩⟩)
    simp only [runAssigns]
    cases hr : runOps ifaceM s (assignOps .volatile ex n (evalA ifaceM s e)) with
    | mk s1 b =>
      rw [hr] at this
      cases b
      · exact ih s1 this.1 this.2.1
      · exact ⟨this.1, this.2.1⟩

end YashModel.Variable
