/-
  Line-protocol helpers shared by every area driver (import-free so that drivers link as `lean_exe`).
  One case per input line; one output line per case.  Strings travel as hex of their UTF-8 bytes.
-/
namespace YashModel.Proto

def hexDigit (n : Nat) : Char :=
  if n < 10 then Char.ofNat (48 + n) else Char.ofNat (87 + n)

def hexVal (c : Char) : Option Nat :=
  if '0' ≤ c ∧ c ≤ '9' then some (c.toNat - 48)
  else if 'a' ≤ c ∧ c ≤ 'f' then some (c.toNat - 87)
  else if 'A' ≤ c ∧ c ≤ 'F' then some (c.toNat - 55)
  else none

def bytesToHex (bs : List UInt8) : String :=
  String.ofList (bs.flatMap fun b => [hexDigit (b.toNat / 16), hexDigit (b.toNat % 16)])

def hexToBytes : List Char → Option (List UInt8)
  | [] => some []
  | [_] => none
  | a :: b :: t => do
    let x ← hexVal a
    let y ← hexVal b
    let r ← hexToBytes t
    pure (UInt8.ofNat (x * 16 + y) :: r)

/-- hex of the UTF-8 encoding; the empty string is written `-` so that tokens are never empty -/
def encStr (s : String) : String :=
  if s.isEmpty then "-" else bytesToHex s.toUTF8.toList

def decStr (t : String) : Option String :=
  if t = "-" then some "" else
  match hexToBytes t.toList with
  | none => none
  | some bs => String.fromUTF8? (ByteArray.mk bs.toArray)

def encChars (cs : List Char) : String := encStr (String.ofList cs)
def decChars (t : String) : Option (List Char) := (decStr t).map (·.toList)

def words (line : String) : List String :=
  (line.trimAscii.toString.splitOn " ").filter (· ≠ "")

def splitTrim (line : String) (sep : String) : List String :=
  (line.splitOn sep).map (fun s => s.trimAscii.toString)

partial def loop (h : IO.FS.Stream) (out : IO.FS.Stream) (f : String → String) : IO Unit := do
  let line ← h.getLine
  if line.isEmpty then
    out.flush
    return ()
  let l := if line.endsWith "\n" then (line.dropEnd 1).toString else line
  out.putStrLn (f l)
  loop h out f

/-- Run a pure per-line function over stdin. -/
def mainLoop (f : String → String) : IO Unit := do
  let i ← IO.getStdin
  let o ← IO.getStdout
  loop i o f

end YashModel.Proto
