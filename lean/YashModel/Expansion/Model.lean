/-
  C01 — Impl model of word expansion and field splitting (import-free, executable).

  Transcribed from (current /repo working tree):
    yash-env/src/semantics/expansion/attr.rs            AttrChar, Origin
    yash-env/src/semantics/expansion/split/ifs.rs       Ifs::new, classify, classify_attr
    yash-env/src/semantics/expansion/split/ranges.rs    Ranges::next  (three-state machine)
    yash-env/src/semantics/expansion/split.rs           split_into
    yash-env/src/semantics/expansion/quote_removal.rs   skip_quotes;  attr_strip.rs  strip
    yash-semantics/src/expansion/phrase.rs              Phrase, append, ifs_join, for_each_char_mut
    yash-semantics/src/expansion/initial/{slice,word,text,param,tilde}.rs, param/{resolve,switch,trim}.rs
    yash-semantics/src/expansion.rs                     expand_word, expand_word_multiple
    yash-semantics/src/expansion/attr_fnmatch.rs        apply_escapes, to_pattern_chars
    yash-builtin/src/read/{input,assigning}.rs          read, assign

  Strings are `List Char`.  A `&mut` environment becomes a returned `Env`; an error keeps the
  environment reached so far (assignments made by `${x=w}` before the error persist, as in Rust).
  Command substitution is an opaque value source (`Env.cmdOut`).  Not modelled: pathname expansion
  (the harness runs with `set -f`), `LINENO`-style quirks.  Trim patterns are matched by the C04
  model of yash-fnmatch (`YashModel.Fnmatch.Model`: parser with bracket expressions, translation
  to a regular expression, leftmost-first search, literal fast path) — composed, not re-modelled.
  Constants of the code (default IFS, short option names, special-parameter characters, modifier
  characters) come from `YashModel.Generated.ExpansionTables`, re-extracted from /repo on every run.
-/
import YashModel.Fnmatch.Model
import YashModel.Arith.Shell
import YashModel.Generated.ExpansionTables
namespace YashModel.Expansion

/-! ## Characters -/

/-- Rust `char::is_whitespace` (Unicode `White_Space`), as a table.  The harness prints the set
    computed by the real `char::is_whitespace` over all code points on every run (case `WS`). -/
def whitespaceTable : List (Nat × Nat) :=
  [(0x9, 0xD), (0x20, 0x20), (0x85, 0x85), (0xA0, 0xA0), (0x1680, 0x1680), (0x2000, 0x200A),
   (0x2028, 0x2029), (0x202F, 0x202F), (0x205F, 0x205F), (0x3000, 0x3000)]

def isWhitespace (c : Char) : Bool :=
  whitespaceTable.any (fun r => r.1 ≤ c.toNat && c.toNat ≤ r.2)

/-- `attr.rs` `Origin` -/
inductive Origin | literal | hardExpansion | softExpansion
  deriving DecidableEq, Repr, Inhabited

/-- `attr.rs` `AttrChar` -/
structure AttrChar where
  value : Char
  origin : Origin
  isQuoted : Bool
  isQuoting : Bool
  deriving DecidableEq, Repr, Inhabited

/-! ## IFS and the split machine -/

/-- `ifs.rs` `Class` -/
inductive Cls | non | ws | nws
  deriving DecidableEq, Repr, Inhabited

/-- `ifs.rs` `Ifs` : the separator characters and the cached non-whitespace subset
    (`non_whitespaces(chars)` keeps, in order, the characters that are not whitespace). -/
structure Ifs where
  chars : List Char
  nonWhitespaces : List Char
  deriving Repr

/-- `Ifs::new` -/
def Ifs.new (chars : List Char) : Ifs :=
  { chars := chars, nonWhitespaces := chars.filter (fun c => !isWhitespace c) }

/-- `Ifs::DEFAULT` (`" \t\n"`; generated from `IFS_INITIAL_VALUE`) -/
def Ifs.defaultChars : List Char := Generated.ExpansionTables.ifsDefault
def Ifs.default : Ifs := Ifs.new Ifs.defaultChars

/-- `Ifs::classify` -/
def Ifs.classify (ifs : Ifs) (c : Char) : Cls :=
  if ifs.chars.contains c then
    if ifs.nonWhitespaces.contains c then .nws else .ws
  else .non

/-- `Ifs::classify_attr` -/
def Ifs.classifyAttr (ifs : Ifs) (c : AttrChar) : Cls :=
  if c.isQuoted || c.isQuoting || c.origin != .softExpansion then .non
  else ifs.classify c.value

/-- `ranges.rs` `State` -/
inductive St | mid (start : Nat) | afterWs | afterNws
  deriving DecidableEq, Repr

/-- `Ranges::next`, run to exhaustion: the index ranges `start..end` in the order produced.
    `i` is `next_index`; the initial state is `AfterIfsNonWhitespace` (`State::default()`). -/
def ranges : St → Nat → List Cls → List (Nat × Nat)
  | .mid s, i, [] => [(s, i)]
  | .afterWs, _, [] => []
  | .afterNws, _, [] => []
  | .mid s, i, .nws :: cs => (s, i) :: ranges .afterNws (i+1) cs
  | .mid s, i, .ws :: cs => (s, i) :: ranges .afterWs (i+1) cs
  | .mid s, i, .non :: cs => ranges (.mid s) (i+1) cs
  | .afterWs, i, .nws :: cs => ranges .afterNws (i+1) cs
  | .afterNws, i, .nws :: cs => (i, i) :: ranges .afterNws (i+1) cs
  | .afterWs, i, .non :: cs => ranges (.mid i) (i+1) cs
  | .afterNws, i, .non :: cs => ranges (.mid i) (i+1) cs
  | .afterWs, i, .ws :: cs => ranges .afterWs (i+1) cs
  | .afterNws, i, .ws :: cs => ranges .afterNws (i+1) cs

/-- `field.chars[range]` -/
def slice {α : Type} (xs : List α) (r : Nat × Nat) : List α :=
  (xs.drop r.1).take (r.2 - r.1)

/-- `Ifs::ranges(field)` on an arbitrary classifier -/
def rangesOf {α : Type} (cls : α → Cls) (xs : List α) : List (Nat × Nat) :=
  ranges .afterNws 0 (xs.map cls)

/-- `split_into` with an arbitrary classifier -/
def splitWith {α : Type} (cls : α → Cls) (xs : List α) : List (List α) :=
  (rangesOf cls xs).map (slice xs)

/-- `split::split_into(field, ifs, results)` -/
def splitInto (ifs : Ifs) (field : List AttrChar) : List (List AttrChar) :=
  splitWith ifs.classifyAttr field

/-! ## Quote removal and attribute stripping -/

/-- `quote_removal::skip_quotes` -/
def skipQuotes : List AttrChar → List AttrChar
  | [] => []
  | c :: cs => if c.isQuoting then skipQuotes cs else c :: skipQuotes cs

/-- `attr_strip::Strip` on a sequence -/
def strip : List AttrChar → List Char
  | [] => []
  | c :: cs => c.value :: strip cs

/-- `AttrField::remove_quotes_and_strip` -/
def removeQuotesAndStrip (cs : List AttrChar) : List Char := strip (skipQuotes cs)

/-! ## Values, variables, environment -/

/-- `yash_env::variable::Value` -/
inductive Value | scalar (s : List Char) | array (vs : List (List Char))
  deriving DecidableEq, Repr

structure Var where
  value : Option Value
  readOnly : Bool
  deriving Repr

structure Env where
  vars : List (String × Var)
  /-- positional parameters -/
  pos : List (List Char)
  /-- `set -u` in effect (option `Unset` is `Off`) -/
  nounset : Bool
  exitStatus : Nat
  arg0 : List Char
  /-- short names of further options in effect (besides `f` and, under `nounset`, `u`, which the
      harness configuration implies) -/
  flags : List Char := []
  /-- `Env::main_pid` -/
  mainPid : Nat := 2
  /-- `JobList::last_async_pid` (0 = none yet) -/
  lastAsync : Nat := 0
  /-- variable contexts of the function calls in progress, innermost first (`VariableSet::contexts`
      above the base context); `vars` is the base (global) context -/
  ctxs : List (List (String × Var)) := []
  /-- the user database as `System::getpwnam_dir` sees it: login name ↦ home directory
      (`VirtualSystem::home_dirs` in the correspondence run) -/
  homes : List (List Char × List Char) := []
  /-- command substitution as an opaque value source: the standard output of the command text when it is run in a
      subshell (`command_subst::expand`: pipe, subshell, `read_all`); a PARAMETER of the model — every theorem holds
      for every such function (the subshell cannot change the variables of this environment) -/
  cmdOut : List Char → List Char := fun _ => []

/-- the innermost function context that has the name -/
def lookupCtxs : List (List (String × Var)) → String → Option Var
  | [], _ => none
  | c :: cs, n =>
    match c.lookup n with
    | some v => some v
    | none => lookupCtxs cs n

/-- `VariableSet::get`: the visible variable — innermost context first, the base context last -/
def Env.getVar (env : Env) (name : String) : Option Var :=
  match lookupCtxs env.ctxs name with
  | some v => some v
  | none => env.vars.lookup name

/-- `VariableSet::get(name).and_then(|v| v.value)` -/
def Env.getValue (env : Env) (name : String) : Option Value :=
  (env.getVar name).bind (·.value)

/-- `VariableSet::get_scalar` -/
def Env.getScalar (env : Env) (name : String) : Option (List Char) :=
  match env.getValue name with
  | some (.scalar s) => some s
  | _ => none

def setVar : List (String × Var) → String → Var → List (String × Var)
  | [], n, v => [(n, v)]
  | (m, w) :: t, n, v => if m = n then (m, v) :: t else (m, w) :: setVar t n v

/-- replace the variable in the innermost function context that has the name (`none`: no context has it) -/
def setInCtxs : List (List (String × Var)) → String → Var → Option (List (List (String × Var)))
  | [], _, _ => none
  | c :: cs, n, v =>
    match c.lookup n with
    | some _ => some (setVar c n v :: cs)
    | none => (setInCtxs cs n v).map (c :: ·)

/-- `get_or_create_variable(name, Scope::Global).assign(value)`: the visible variable of that name
    receives the value wherever it lives; if there is none, the variable is created in the base
    (global) context — never in the context of a function call in progress.  `none` = read-only. -/
def Env.assign (env : Env) (name : String) (value : List Char) : Option Env :=
  match env.getVar name with
  | some v =>
    if v.readOnly then none
    else
      let v' : Var := { v with value := some (.scalar value) }
      match setInCtxs env.ctxs name v' with
      | some cs => some { env with ctxs := cs }
      | none => some { env with vars := setVar env.vars name v' }
  | none => some { env with vars := setVar env.vars name { value := some (.scalar value), readOnly := false } }

/-- entering a function: `push_context(Regular)` and the local variables it declares -/
def Env.pushCtx (env : Env) (locals : List (String × Var)) : Env := { env with ctxs := locals :: env.ctxs }

/-- returning from a function: the guard of `push_context` pops the context -/
def Env.popCtx (env : Env) : Env := { env with ctxs := env.ctxs.tail }

/-! ## Phrase -/

/-- `phrase.rs` `Phrase` -/
inductive Phrase
  | char (c : AttrChar)
  | field (f : List AttrChar)
  | full (fs : List (List AttrChar))
  deriving DecidableEq, Repr

def Phrase.zeroFields : Phrase := .full []
def Phrase.oneEmptyField : Phrase := .field []

/-- `left_last.append(x)` on a non-empty vector of fields -/
def appendLast {α : Type} : List (List α) → List α → List (List α)
  | [], r => [r]
  | [x], r => [x ++ r]
  | x :: y :: t, r => x :: appendLast (y :: t) r

/-- `Phrase::append` (result = new `self`), arm by arm -/
def Phrase.append : Phrase → Phrase → Phrase
  | .char l, .char r => .field [l, r]
  | .char l, .field r => .field (l :: r)
  | .field l, .char r => .field (l ++ [r])
  | .field l, .field r => .field (l ++ r)
  -- (left, Full(right))
  | .char l, .full [] => .char l
  | .char l, .full (rf :: rs) => .full ((l :: rf) :: rs)
  | .field l, .full [] => .field l
  | .field l, .full (rf :: rs) => .full ((l ++ rf) :: rs)
  | .full l, .full [] => .full l
  | .full [], .full (rf :: rs) => .full (rf :: rs)
  | .full (lf :: ls), .full (rf :: rs) => .full (appendLast (lf :: ls) rf ++ rs)
  -- (Full(left), right)
  | .full [], .char r => .char r
  | .full (lf :: ls), .char r => .full (appendLast (lf :: ls) [r])
  | .full [], .field r => .field r
  | .full (lf :: ls), .field r => .full (appendLast (lf :: ls) r)

/-- `From<Phrase> for Vec<Vec<AttrChar>>` / `IntoIterator` -/
def Phrase.toFields : Phrase → List (List AttrChar)
  | .char c => [[c]]
  | .field f => [f]
  | .full fs => fs

/-- `Phrase::for_each_char_mut` -/
def Phrase.mapChars (f : AttrChar → AttrChar) : Phrase → Phrase
  | .char c => .char (f c)
  | .field cs => .field (cs.map f)
  | .full fs => .full (fs.map (·.map f))

def softChar (c : Char) : AttrChar :=
  { value := c, origin := .softExpansion, isQuoted := false, isQuoting := false }

/-- the separator of `ifs_join`: first character of `$IFS` (scalar, or first array element),
    a space when IFS has no value, nothing when it is empty -/
def ifsSeparator (env : Env) : Option AttrChar :=
  match env.getValue "IFS" with
  | some (.scalar v) => v.head?.map softChar
  | some (.array vs) => (vs.head?.bind (·.head?)).map softChar
  | none => some (softChar ' ')

def joinWith (sep : Option AttrChar) : List (List AttrChar) → List AttrChar
  | [] => []
  | [f] => f
  | f :: g :: t => f ++ (match sep with | some s => [s] | none => []) ++ joinWith sep (g :: t)

/-- `Phrase::ifs_join` -/
def Phrase.ifsJoin (p : Phrase) (env : Env) : List AttrChar :=
  match p with
  | .char c => [c]
  | .field f => f
  | .full fs => joinWith (ifsSeparator env) fs

/-! ## Syntax (subset of `yash_syntax::syntax`) -/

inductive Param
  | var (name : String)
  | at | star | num | question | zero
  | hyphen | dollar | bang
  | pos (n : Nat)
  deriving DecidableEq, Repr

inductive SwCond | unset | unsetOrEmpty deriving DecidableEq, Repr
inductive SwAction | alter | default | assign | error deriving DecidableEq, Repr
/-- `yash_syntax::syntax::TrimSide` / `TrimLength` (the C04 model's types: `.prefix`/`.suffix`, `.shortest`/`.longest`) -/
abbrev TrimSide := Fnmatch.TrimSide
abbrev TrimLen := Fnmatch.TrimLength

mutual
  inductive TextUnit
    | lit (c : Char)
    | bs (c : Char)
    /-- `RawParam` (modifier `none`) or `BracedParam` -/
    | param (p : Param) (m : Modifier)
    /-- `CommandSubst { content }` (`$(…)`) or `Backquote { content }` (`` `…` ``, content already unquoted) -/
    | cmd (backquote : Bool) (command : List Char)
    /-- `Arith { content }`: `$((…))` -/
    | arith (content : Text)
  inductive Text
    | nil
    | cons (u : TextUnit) (t : Text)
  inductive WordUnit
    | unq (u : TextUnit)
    | sq (s : List Char)
    /-- `DollarSingleQuote`, already unquoted (`string.unquote().0`) -/
    | dsq (s : List Char)
    | dq (t : Text)
    /-- `Tilde { name, followed_by_slash }` (made by `Word::parse_tilde_front` from a leading unquoted `~`
        and the unquoted literal characters up to the first `/`) -/
    | tilde (name : List Char) (slash : Bool)
  inductive Word
    | nil
    | cons (u : WordUnit) (w : Word)
  inductive Modifier
    | none
    | length
    | switch (cond : SwCond) (act : SwAction) (w : Word)
    | trim (side : TrimSide) (len : TrimLen) (w : Word)
end

/-! ## Parameter lookup and switch table (`param/resolve.rs`, `param/switch.rs`) -/

def natToChars (n : Nat) : List Char := (toString n).toList

/-- `Option::iter()` order of the options that have a short name (`Option::short_name`; generated:
    `a C c e n f h i l m b s u v x`, each with the state it stands for) -/
def optionShortNames : List Char := Generated.ExpansionTables.optionShortNames.map (·.1)

/-- `resolve::options`: short names of the options whose state matches, in `Option::iter()` order.
    The harness runs with pathname expansion off (`f`); its virtual shell does not turn `CmdLine` on. -/
def optionFlags (env : Env) : List Char :=
  optionShortNames.filter (fun c =>
    c == 'f' || (c == 'u' && env.nounset) || env.flags.contains c)

/-- `resolve::resolve` -/
def resolve (env : Env) : Param → Option Value
  | .var name => env.getValue name
  | .at => some (.array env.pos)
  | .star => some (.array env.pos)
  | .num => some (.scalar (natToChars env.pos.length))
  | .question => some (.scalar (natToChars env.exitStatus))
  | .zero => some (.scalar env.arg0)
  | .hyphen => some (.scalar (optionFlags env))
  | .dollar => some (.scalar (natToChars env.mainPid))
  | .bang => if env.lastAsync != 0 then some (.scalar (natToChars env.lastAsync)) else none
  | .pos 0 => none
  | .pos (n+1) => env.pos[n]?.map .scalar

/-- `switch.rs` `Vacancy` -/
inductive Vacancy | unset | emptyScalar | valuelessArray | emptyValueArray
  deriving DecidableEq, Repr

/-- `Vacancy::of` -/
def Vacancy.of : Option Value → Option Vacancy
  | none => some .unset
  | some (.scalar s) => if s.isEmpty then some .emptyScalar else none
  | some (.array vs) =>
    match vs with
    | [] => some .valuelessArray
    | [v] => if v.isEmpty then some .emptyValueArray else none
    | _ => none

/-- `switch.rs` `ValueCondition` -/
inductive ValueCondition | occupied | vacant (v : Vacancy)
  deriving DecidableEq, Repr

/-- `ValueCondition::with` -/
def ValueCondition.with_ : SwCond → Option Vacancy → ValueCondition
  | _, none => .occupied
  | .unsetOrEmpty, some v => .vacant v
  | _, some .unset => .vacant .unset
  | .unset, some _ => .occupied

/-- what `switch::apply` decides to do -/
inductive SwDecision
  | skip                       -- `None`: the parameter's own value is used
  | useWord                    -- expansion of the word, re-attributed
  | assignWord (v : Vacancy)
  | fail (v : Vacancy)
  deriving DecidableEq, Repr

/-- the `match (switch.action, cond)` of `switch::apply` -/
def switchDecision : SwAction → ValueCondition → SwDecision
  | .alter, .vacant _ => .skip
  | .default, .occupied => .skip
  | .assign, .occupied => .skip
  | .error, .occupied => .skip
  | .alter, .occupied => .useWord
  | .default, .vacant _ => .useWord
  | .assign, .vacant v => .assignWord v
  | .error, .vacant v => .fail v

/-- `switch::attribute` -/
def softenChar (c : AttrChar) : AttrChar :=
  match c.origin with
  | .literal => { c with origin := .softExpansion }
  | _ => c

def reattribute (p : Phrase) : Phrase := p.mapChars softenChar

/-- `param.rs` `to_field` -/
def toField (s : List Char) : List AttrChar := s.map softChar

/-- `param.rs` `into_phrase` -/
def intoPhrase : Option Value → Phrase
  | none => Phrase.oneEmptyField
  | some (.scalar s) => .field (toField s)
  | some (.array vs) => .full (vs.map toField)

/-- `param.rs` `to_length` applied to a value -/
def lengthOf : Option Value → Option Value
  | none => some (.scalar ['0'])
  | some (.scalar s) => some (.scalar (natToChars s.length))
  | some (.array vs) => some (.array (vs.map (fun s => natToChars s.length)))

/-! ## Trim (`param/trim.rs`, `attr_fnmatch.rs`) on top of the yash-fnmatch model of C04 -/

/-- `attr_fnmatch::apply_escapes` (as of fix 9da0f0e), left to right: an unquoted, non-quoting backslash that some
    NON-QUOTING character follows becomes a quoting character, and the next non-quoting character becomes quoted — quoting
    characters in between are stepped over untouched (`quoteThis`: a backslash before is waiting for its character);
    a backslash followed by quoting characters only stays what it was.  Same recursion as the C04 model
    (`Fnmatch.applyEscapesAux`), on this area's four-field characters. -/
def applyEscapesGo (quoteThis : Bool) : List AttrChar → List AttrChar
  | [] => []
  | a :: t =>
    if a.isQuoting then a :: applyEscapesGo quoteThis t
    else
      let a' : AttrChar := if quoteThis then { a with isQuoted := true } else a
      if a'.value = '\\' ∧ a'.isQuoted = false ∧ t.any (fun c => !c.isQuoting) = true then
        { a' with isQuoting := true } :: applyEscapesGo true t
      else a' :: applyEscapesGo false t

def applyEscapes (cs : List AttrChar) : List AttrChar := applyEscapesGo false cs

/-- `yash_fnmatch::PatternChar` (the C04 model's type: `.normal c` / `.literal c`) -/
abbrev PatChar := Fnmatch.PatternChar

/-- `attr_fnmatch::to_pattern_chars` -/
def toPatternChars : List AttrChar → List PatChar
  | [] => []
  | c :: t =>
    if c.isQuoting then toPatternChars t
    else if c.isQuoted then .literal c.value :: toPatternChars t
    else .normal c.value :: toPatternChars t

/-- `trim::apply` after the pattern word has been expanded: `Pattern::parse_with_config` with the
    configuration of the trim form (a pattern that does not compile leaves the value unchanged), then
    `trim_value` on the scalar or on every element of the array — `Fnmatch.trimApply` / `trimArray`
    of the C04 model -/
def trimApply (pat : List PatChar) (side : TrimSide) (len : TrimLen) : Value → Value
  | .scalar s => .scalar (Fnmatch.trimApply side len pat s)
  | .array vs => .array (Fnmatch.trimArray side len pat vs)

/-! ## Initial expansion (`initial/{slice,word,text,param}.rs`) -/

/-- `arith.rs` `ArithError` by class, as `convert_error_cause` maps the causes of yash-arith (the two token errors
    `InvalidNumericConstant` / `InvalidCharacter` are one class of the C03 model) -/
inductive ArithErr
  | syntax (e : Arith.SynErr)
  | nonPortable
  | eval (e : Arith.EvalErr)
  /-- not produced (`Arith.evalStr_never_panics`) -/
  | model
  deriving DecidableEq, Repr

inductive Err
  | unsetParameter
  | vacant (v : Vacancy) (msg : Option (List Char))
  | nonassignable (v : Vacancy)
  | readOnly (v : Vacancy)
  /-- `ErrorCause::ArithError` -/
  | arith (e : ArithErr)
  /-- `AssignReadOnly` raised by an assignment inside `$((…))` (`vacancy: None`) -/
  | arithReadOnly
  deriving DecidableEq, Repr

abbrev Res := Env × Except Err Phrase

def quoteChar (c : Char) : AttrChar :=
  { value := c, origin := .literal, isQuoted := false, isQuoting := true }

def quotedLit (c : Char) : AttrChar :=
  { value := c, origin := .literal, isQuoted := true, isQuoting := false }

/-- `word.rs` `single_quote` -/
def singleQuote (s : List Char) : Phrase :=
  .field ([quoteChar '\''] ++ s.map quotedLit ++ [quoteChar '\''])

/-- `word.rs` `dollar_single_quote` -/
def dollarSingleQuote (s : List Char) : Phrase :=
  .field ([quoteChar '$', quoteChar '\''] ++ s.map quotedLit ++ [quoteChar '\''])

/-- `word.rs` `double_quote::quote_field` -/
def quoteField (cs : List AttrChar) : List AttrChar :=
  [quoteChar '"'] ++ cs.map (fun c => { c with isQuoted := true }) ++ [quoteChar '"']

/-- `word.rs` `double_quote` -/
def doubleQuote : Phrase → Phrase
  | .char c => .field [quoteChar '"', { c with isQuoted := true }, quoteChar '"']
  | .field cs => .field (quoteField cs)
  | .full fs => .full (fs.map quoteField)

/-! ### Tilde expansion (`initial/tilde.rs`) -/

/-- the variants of `attr.rs` `Origin` by name (the table extractor admits no other name) -/
def originOfVariant : String → Origin
  | "Literal" => .literal
  | "HardExpansion" => .hardExpansion
  | _ => .softExpansion

/-- a character of a tilde expansion: the `AttrChar { value: c, … }` literal of `tilde::finish` (generated: origin
    `HardExpansion`, not quoted, not quoting) -/
def hardChar (c : Char) : AttrChar :=
  { value := c, origin := originOfVariant Generated.ExpansionTables.tildeCharAttr.1,
    isQuoted := Generated.ExpansionTables.tildeCharAttr.2.1, isQuoting := Generated.ExpansionTables.tildeCharAttr.2.2 }

/-- the dummy quote an empty tilde expansion leaves so that the field survives field splitting (generated: `"`,
    origin `HardExpansion`, a quoting character) -/
def tildeDummyQuote : AttrChar :=
  { value := Generated.ExpansionTables.tildeDummy.1, origin := originOfVariant Generated.ExpansionTables.tildeDummy.2.1,
    isQuoted := Generated.ExpansionTables.tildeDummy.2.2.1, isQuoting := Generated.ExpansionTables.tildeDummy.2.2.2 }

/-- `tilde::expand_body`: `~` is the scalar `HOME` (`~` itself when `HOME` is unset or an array), `~name` the
    home directory `getpwnam_dir(name)` returns (`~name` itself when the name is unknown) -/
def tildeBody (env : Env) (name : List Char) : List Char :=
  if name.isEmpty then
    match env.getScalar Generated.ExpansionTables.tildeHomeVar with
    | some h => h
    | none => Generated.ExpansionTables.tildeHomeFallback
  else
    match env.homes.lookup name with
    | some dir => dir
    | none => Generated.ExpansionTables.tildeUnknownPrefix ++ name

/-- `strip_suffix('/')` when the tilde prefix is followed by a slash -/
def tildeStrip (chars : List Char) (slash : Bool) : List Char :=
  match Generated.ExpansionTables.tildeSlash with
  | some sl => if slash && chars.getLast? == some sl then chars.dropLast else chars
  | none => chars

/-- `tilde::finish`: one trailing slash dropped before a following slash; the characters are results of a
    hard expansion (never split, never a pattern); an empty result becomes a dummy quoting character -/
def tildeFinish (chars : List Char) (slash : Bool) : List AttrChar :=
  let attrChars := (tildeStrip chars slash).map hardChar
  if attrChars.isEmpty then [tildeDummyQuote] else attrChars

/-- `tilde::expand` -/
def expandTilde (env : Env) (name : List Char) (slash : Bool) : List AttrChar :=
  tildeFinish (tildeBody env name) slash

/-- tail of `ParamRef::expand`: `into_phrase`, and `$*` joined when not splitting -/
def finishParam (env : Env) (willSplit : Bool) (p : Param) (value : Option Value) : Phrase :=
  let phrase := intoPhrase value
  if !willSplit && p == .star then .field (phrase.ifsJoin env) else phrase

/-! ### Command substitution (`initial/command_subst.rs`) -/

/-- `result.trim_end_matches('\n')` -/
def stripTrailingNewlines (s : List Char) : List Char := (s.reverse.dropWhile (· == '\n')).reverse

/-- `command_subst::expand_common` once the output is read: trailing newlines removed, every character the result
    of a soft expansion, one field -/
def cmdSubstPhrase (output : List Char) : Phrase := .field (toField (stripTrailingNewlines output))

/-! ### Arithmetic expansion (`initial/arith.rs`) on top of the yash-arith model of C03 -/

/-- `impl yash_arith::Env for VarEnv` on this area's environment — the adapter to the interface `Arith.EnvI` of C03:
    `get_variable` is `get_scalar` (an unset or array variable is `None`, an error under `set -u`); `assign_variable`
    is `get_or_create_variable(name, Global).assign(value)`, i.e. `Env.assign` (read-only → error) -/
def arithI : Arith.EnvI Env where
  get := fun env name =>
    match env.getScalar (String.ofList name) with
    | some v => .ok (some v)
    | none => if env.nounset then .error .getVariableError else .ok none
  assign := fun env name v =>
    match env.assign (String.ofList name) v with
    | some env' => .ok env'
    | none => .error .assignVariableError

/-- `i64::to_string` -/
def intChars (v : Int) : List Char := (toString v).toList

/-- `convert_error_cause` -/
def errOfArith : Arith.ShErr → Err
  | .syntax e => .arith (.syntax e)
  | .portability => .arith .nonPortable
  | .eval .getVariableError => .unsetParameter
  | .eval .assignVariableError => .arithReadOnly
  | .eval e => .arith (.eval e)
  | _ => .arith .model

/-- `arith::expand` after the content has been expanded to the expression text: `eval_with_config` (the C03 model
    `Arith.evalStrG` over `arithI`, portable mode off) and the value as the characters of a soft expansion.  The
    environment after a failing evaluation is the one before it (assignments made before the failing operator are not
    modelled: C03 does not observe them either). -/
def arithEval (env : Env) (src : List Char) : Res :=
  match Arith.evalStrG arithI false src env with
  | .ok (v, env') => (env', .ok (.field (toField (intChars v))))
  | .error e => (env, .error (errOfArith e))

def Text.isNil : Text → Bool
  | .nil => true
  | _ => false

def Word.isNil : Word → Bool
  | .nil => true
  | _ => false

mutual
  /-- `impl Expand for TextUnit` -/
  def expandTextUnit (env : Env) (willSplit : Bool) : TextUnit → Res
    | .lit c => (env, .ok (.char { value := c, origin := .literal, isQuoted := false, isQuoting := false }))
    | .bs c => (env, .ok (.field [quoteChar '\\', quotedLit c]))
    | .param p m => expandParam env willSplit p (resolve env p) m
    | .cmd _ c => (env, .ok (cmdSubstPhrase (env.cmdOut c)))
    | .arith t =>
      -- `expand_text(env.inner, text)`: a fresh `initial::Env` (will_split = true), `ifs_join`, quote removal
      match (if t.isNil then (env, .ok Phrase.oneEmptyField) else expandTextGo env true Phrase.zeroFields t) with
      | (env', .error e) => (env', .error e)
      | (env', .ok ph) => arithEval env' (removeQuotesAndStrip (ph.ifsJoin env'))

  /-- `impl Expand for ParamRef` -/
  def expandParam (env : Env) (willSplit : Bool) (p : Param) (value : Option Value) : Modifier → Res
    | .none =>
      if value.isNone && env.nounset then (env, .error .unsetParameter)
      else (env, .ok (finishParam env willSplit p value))
    | .length =>
      if value.isNone && env.nounset then (env, .error .unsetParameter)
      else (env, .ok (finishParam env willSplit p (lengthOf value)))
    | .trim side len w =>
      if value.isNone && env.nounset then (env, .error .unsetParameter)
      else
        match value with
        | none => (env, .ok (finishParam env willSplit p none))
        | some v =>
          match expandWord env willSplit w with
          | (env', .error e) => (env', .error e)
          | (env', .ok ph) =>
            let pat := toPatternChars (applyEscapes (ph.ifsJoin env'))
            (env', .ok (finishParam env' willSplit p (some (trimApply pat side len v))))
    | .switch cond act w =>
      match switchDecision act (ValueCondition.with_ cond (Vacancy.of value)) with
      | .skip => (env, .ok (finishParam env willSplit p value))
      | .useWord =>
        match expandWord env willSplit w with
        | (env', .error e) => (env', .error e)
        | (env', .ok ph) => (env', .ok (reattribute ph))
      | .assignWord vac =>
        match p with
        | .var name =>
          match expandWord env willSplit w with
          | (env', .error e) => (env', .error e)
          | (env', .ok ph) =>
            let final := removeQuotesAndStrip ((reattribute ph).ifsJoin env')
            match env'.assign name final with
            | none => (env', .error (.readOnly vac))
            | some env'' => (env'', .ok (.field (toField final)))
        | _ => (env, .error (.nonassignable vac))
      | .fail vac =>
        if w.isNil then (env, .error (.vacant vac none))
        else
          -- `expand_word(env.inner, message_word)`: a fresh initial environment (will_split = true)
          match expandWord env true w with
          | (env', .error e) => (env', .error e)
          | (env', .ok ph) => (env', .error (.vacant vac (some (removeQuotesAndStrip (ph.ifsJoin env')))))

  /-- the fold of `impl Expand for [T]` over text units -/
  def expandTextGo (env : Env) (willSplit : Bool) (acc : Phrase) : Text → Res
    | .nil => (env, .ok acc)
    | .cons u t =>
      match expandTextUnit env willSplit u with
      | (env', .error e) => (env', .error e)
      | (env', .ok ph) => expandTextGo env' willSplit (acc.append ph) t

  /-- `impl Expand for WordUnit` -/
  def expandWordUnit (env : Env) (willSplit : Bool) : WordUnit → Res
    | .unq u => expandTextUnit env willSplit u
    | .sq s => (env, .ok (singleQuote s))
    | .dsq s => (env, .ok (dollarSingleQuote s))
    | .tilde name slash => (env, .ok (.field (expandTilde env name slash)))
    | .dq t =>
      match (if t.isNil then (env, .ok Phrase.oneEmptyField) else expandTextGo env false Phrase.zeroFields t) with
      | (env', .error e) => (env', .error e)
      | (env', .ok ph) => (env', .ok (doubleQuote ph))

  /-- the fold of `impl Expand for [T]` over word units -/
  def expandWordGo (env : Env) (willSplit : Bool) (acc : Phrase) : Word → Res
    | .nil => (env, .ok acc)
    | .cons u w =>
      match expandWordUnit env willSplit u with
      | (env', .error e) => (env', .error e)
      | (env', .ok ph) => expandWordGo env' willSplit (acc.append ph) w

  /-- `impl Expand for Word` (= `[WordUnit]`): no unit gives one empty field -/
  def expandWord (env : Env) (willSplit : Bool) : Word → Res
    | .nil => (env, .ok Phrase.oneEmptyField)
    | .cons u w =>
      match expandWordUnit env willSplit u with
      | (env', .error e) => (env', .error e)
      | (env', .ok ph) => expandWordGo env' willSplit (Phrase.zeroFields.append ph) w
end

/-! ## `expansion.rs` -/

/-- the IFS used for splitting: `get_scalar(IFS).map(Ifs::new).unwrap_or_default()` -/
def Env.ifs (env : Env) : Ifs :=
  match env.getScalar "IFS" with
  | some s => Ifs.new s
  | none => Ifs.default

/-- `expand_word_multiple` with pathname expansion switched off:
    initial expansion → field splitting of every field → quote removal + attribute stripping -/
def expandWordMultiple (env : Env) (w : Word) : Env × Except Err (List (List Char)) :=
  match expandWord env true w with
  | (env', .error e) => (env', .error e)
  | (env', .ok ph) =>
    let ifs := env'.ifs
    (env', .ok ((ph.toFields.flatMap (splitInto ifs)).map removeQuotesAndStrip))

/-- `expand_word`: initial expansion → `ifs_join` → quote removal (one field, never split) -/
def expandWordSingle (env : Env) (w : Word) : Env × Except Err (List Char) :=
  match expandWord env true w with
  | (env', .error e) => (env', .error e)
  | (env', .ok ph) => (env', .ok (removeQuotesAndStrip (ph.ifsJoin env')))

/-- `expand_words`: every word through `expand_word_multiple`, results appended; the first error
    stops the loop (fields produced so far are dropped, the environment reached is kept) -/
def expandWords (env : Env) : List Word → Env × Except Err (List (List Char))
  | [] => (env, .ok [])
  | w :: ws =>
    match expandWordMultiple env w with
    | (env', .error e) => (env', .error e)
    | (env', .ok fs) =>
      match expandWords env' ws with
      | (env'', .error e) => (env'', .error e)
      | (env'', .ok gs) => (env'', .ok (fs ++ gs))

/-- `expand_text` (here-document contents …): initial expansion (a fresh `initial::Env`, so
    `will_split` is true) → `ifs_join` → quote removal -/
def expandTextJoined (env : Env) (t : Text) : Env × Except Err (List Char) :=
  match (if t.isNil then (env, .ok Phrase.oneEmptyField) else expandTextGo env true Phrase.zeroFields t) with
  | (env', .error e) => (env', .error e)
  | (env', .ok ph) => (env', .ok (removeQuotesAndStrip (ph.ifsJoin env')))

/-! ## Tilde prefixes in a lexed word (`yash-syntax/src/parser/lex/tilde.rs`) -/

def Word.toList : Word → List WordUnit
  | .nil => []
  | .cons u w => u :: w.toList

def Word.ofList : List WordUnit → Word
  | [] => .nil
  | u :: us => .cons u (Word.ofList us)

/-- the loop of `parse_tilde` over the units after the tilde: unquoted literals extend the name; a slash ends it
    (`followed_by_slash`), a colon ends it when `delimit_at_colon`; any other unit means "no tilde expansion" -/
def parseTildeGo (colon : Bool) : List WordUnit → List Char → Nat → Option (Nat × List Char × Bool)
  | [], name, count => some (count, name, false)
  | .unq (.lit c) :: rest, name, count =>
    if c == '/' then some (count, name, true)
    else if c == ':' && colon then some (count, name, false)
    else parseTildeGo colon rest (name ++ [c]) (count + 1)
  | _ :: _, _, _ => none

/-- `parse_tilde(units, delimit_at_colon)`: number of units consumed, name, followed by a slash -/
def parseTilde (units : List WordUnit) (colon : Bool) : Option (Nat × List Char × Bool) :=
  match units with
  | .unq (.lit '~') :: rest => parseTildeGo colon rest [] 1
  | _ => none

/-- `Word::parse_tilde_front` -/
def parseTildeFront (units : List WordUnit) : List WordUnit :=
  match parseTilde units false with
  | some (len, name, slash) => .tilde name slash :: units.drop len
  | none => units

def isColonUnit : WordUnit → Bool
  | .unq (.lit ':') => true
  | _ => false

/-- the loop of `parse_tilde_everywhere_after` on `units[i..]`: a tilde prefix at `i` (name ended by `/`, `:` or the
    end) is replaced; then the search continues after the next unquoted colon -/
def parseTildeEverywhereGo : Nat → List WordUnit → List WordUnit
  | 0, us => us
  | fuel + 1, us =>
    let (head, tail) : List WordUnit × List WordUnit :=
      match parseTilde us true with
      | some (len, name, slash) => ([.tilde name slash], us.drop len)
      | none => ([], us)
    match tail.findIdx? isColonUnit with
    | none => head ++ tail
    | some k => head ++ tail.take (k + 1) ++ parseTildeEverywhereGo fuel (tail.drop (k + 1))

/-- `Word::parse_tilde_everywhere_after(index)` (assignment values: `index` = the unit after `=`) -/
def parseTildeEverywhereAfter (index : Nat) (units : List WordUnit) : List WordUnit :=
  units.take index ++ parseTildeEverywhereGo (units.length + 1) (units.drop index)

/-! ## The braced-parameter lexer (`yash-syntax/src/parser/lex/{braced_param,modifier}.rs`)

  Character-level transcription for sources whose inner words consist of plain characters
  (no `$`, quotes or backslashes): what follows `${` up to the closing brace, then the rest. -/

inductive SynErr
  | emptyParam | invalidParam | unclosedParam | multipleModifier | invalidModifier | nonPortable
  deriving DecidableEq, Repr

/-- `raw_param::is_portable_name_char` -/
def isNameChar (c : Char) : Bool :=
  ('0' ≤ c && c ≤ '9') || ('A' ≤ c && c ≤ 'Z') || c == '_' || ('a' ≤ c && c ≤ 'z')

/-- the variants of `SpecialParam` -/
def paramOfVariant : String → Option Param
  | "At" => some .at
  | "Asterisk" => some .star
  | "Number" => some .num
  | "Question" => some .question
  | "Hyphen" => some .hyphen
  | "Dollar" => some .dollar
  | "Exclamation" => some .bang
  | "Zero" => some .zero
  | _ => none

/-- `SpecialParam::from_char` (the generated table `@ * # ? - $ ! 0`) -/
def specialOfChar (c : Char) : Option Param :=
  (Generated.ExpansionTables.specialParams.lookup c).bind paramOfVariant

def digitsToNat (cs : List Char) : Nat := cs.foldl (fun n c => n * 10 + (c.toNat - 48)) 0

/-- `braced_param::type_of_id` (an index too large for `usize` saturates; the model keeps the number) -/
def typeOfId (id : List Char) : Option Param :=
  if id = ['0'] then some .zero
  else match id with
    | c :: _ =>
      if c.isDigit then
        if id.all Char.isDigit then some (.pos (digitsToNat id)) else none
      else some (.var (String.ofList id))
    | [] => some (.var "")

/-- `WordLexer::has_length_prefix` -/
def hasLengthPrefix : List Char → Bool
  | '#' :: rest =>
    match rest with
    | [] => true
    | c :: rest' =>
      if Generated.ExpansionTables.lengthPrefixPlain.contains c then false
      else if Generated.ExpansionTables.lengthPrefixAmbiguous.contains c then
        match rest' with
        | c' :: _ => c' == '}'
        | [] => true
      else true
  | _ => false

/-- `WordLexer::switch`: the action a switch symbol stands for (generated table `switchSymbols`) -/
def swActionOfSymbol (c : Char) : Option SwAction :=
  (Generated.ExpansionTables.switchSymbols.lookup c).bind fun v =>
    match v with
    | "Alter" => some .alter
    | "Default" => some .default
    | "Assign" => some .assign
    | "Error" => some .error
    | _ => none

/-- `WordLexer::trim`: the side a trim symbol stands for (generated table `trimSymbols`) -/
def trimSideOfSymbol (c : Char) : Option TrimSide :=
  (Generated.ExpansionTables.trimSymbols.lookup c).bind fun v =>
    match v with
    | "Prefix" => some .prefix
    | "Suffix" => some .suffix
    | _ => none

inductive LexMod
  | none
  | length
  | switch (colon : Bool) (act : Char) (word : List Char)
  | trim (side : Char) (long : Bool) (pattern : List Char)
  deriving DecidableEq, Repr

structure LexBraced where
  id : List Char
  param : Param
  modifier : LexMod
  /-- characters after the closing brace -/
  rest : List Char
  deriving Repr

/-- `WordLexer::suffix_modifier` (`modifier.rs`); the word runs to the first `}` -/
def lexSuffix (s : List Char) : Except SynErr (LexMod × List Char) :=
  let colon := s.head? == some ':'
  let r := if colon then s.tail else s
  match r with
  | c :: r' =>
    if Generated.ExpansionTables.suffixSwitchSymbols.contains c then
      .ok (.switch colon c (r'.takeWhile (· != '}')), r'.dropWhile (· != '}'))
    else if Generated.ExpansionTables.suffixTrimSymbols.contains c then
      if colon then .error .invalidModifier
      else
        let long := r'.head? == some c
        let r'' := if long then r'.tail else r'
        .ok (.trim c long (r''.takeWhile (· != '}')), r''.dropWhile (· != '}'))
    else if colon then .error .invalidModifier
    else .ok (.none, r)
  | [] => if colon then .error .invalidModifier else .ok (.none, [])

/-- `braced_param::has_non_portable_modifier` -/
def hasNonPortableModifier (p : Param) (m : LexMod) : Bool :=
  match p, m with
  | .star, .length | .at, .length => true
  | .star, .switch .. | .at, .switch .. => true
  | .num, .trim .. | .star, .trim .. | .at, .trim .. => true
  | _, _ => false

/-- `WordLexer::braced_param` on the characters that follow `${` -/
def lexBraced (portable : Bool) (s : List Char) : Except SynErr LexBraced :=
  let pre := hasLengthPrefix s
  let s1 := if pre then s.tail else s
  match s1 with
  | [] => .error .emptyParam
  | c :: s2 =>
    let named : Except SynErr (List Char × Param × List Char) :=
      if isNameChar c then
        let id := c :: s2.takeWhile isNameChar
        match typeOfId id with
        | some p => .ok (id, p, s2.dropWhile isNameChar)
        | none => .error .invalidParam
      else
        match specialOfChar c with
        | some p => .ok ([c], p, s2)
        | none => .error .emptyParam
    match named with
    | .error e => .error e
    | .ok (id, p, s3) =>
      match lexSuffix s3 with
      | .error e => .error e
      | .ok (suffix, s4) =>
        match s4 with
        | '}' :: rest =>
          let modifier : Except SynErr LexMod :=
            if pre then (if suffix = .none then .ok .length else .error .multipleModifier)
            else .ok suffix
          match modifier with
          | .error e => .error e
          | .ok m =>
            if portable && hasNonPortableModifier p m then .error .nonPortable
            else .ok { id := id, param := p, modifier := m, rest := rest }
        | _ => .error .unclosedParam

/-! ## The `read` built-in (`read/input.rs`, `read/assigning.rs`) -/

def plainChar (c : Char) : AttrChar := softChar c
def readQuoted (c : Char) : AttrChar :=
  { value := c, origin := .softExpansion, isQuoted := true, isQuoting := false }
def readQuoting (c : Char) : AttrChar :=
  { value := c, origin := .softExpansion, isQuoted := false, isQuoting := true }

/-- `input::read(env, delimiter, is_raw)`: the characters of the logical line and whether the delimiter
    (`-d`, newline by default) was found.  The delimiter test comes first (also for a backslash); a
    backslash–newline pair is a line continuation whatever the delimiter is. -/
def readInput (raw : Bool) (delim : Char) : List Char → List AttrChar × Bool
  | [] => ([], false)
  | c :: rest =>
    if c == delim then ([], true)
    else if c == '\\' && !raw then
      match rest with
      | [] => ([readQuoting '\\'], false)
      | d :: rest' =>
        if d == '\n' then readInput raw delim rest'
        else
          let r := readInput raw delim rest'
          (readQuoting '\\' :: readQuoted d :: r.1, r.2)
    else
      let r := readInput raw delim rest
      (plainChar c :: r.1, r.2)

/-- `rposition(|c| classify_attr(c) != IfsWhitespace) + 1` (0 when there is none) -/
def trimmedEnd (ifs : Ifs) (text : List AttrChar) : Nat :=
  text.length - (text.reverse.takeWhile (fun c => ifs.classifyAttr c == .ws)).length

/-- the range of the last variable in `assigning::assign` given the ranges not yet consumed -/
def lastRange (ifs : Ifs) (text : List AttrChar) : List (Nat × Nat) → Nat × Nat
  | [] => (0, 0)
  | [r] => r
  | r :: _ :: _ => (r.1, trimmedEnd ifs text)

/-- values given to the `n` variables before the last one, and the ranges left over -/
def assignFirst (text : List AttrChar) : Nat → List (Nat × Nat) → List (List Char) × List (Nat × Nat)
  | 0, rs => ([], rs)
  | n+1, [] => let r := assignFirst text n []; ([] :: r.1, r.2)
  | n+1, r :: rs => let q := assignFirst text n rs; (removeQuotesAndStrip (slice text r) :: q.1, q.2)

/-- `assigning::assign`: the values assigned to `nBefore` variables and then the last variable
    (IFS as `get_scalar(IFS).unwrap_or(Ifs::DEFAULT)`) -/
def readAssign (ifs : Ifs) (text : List AttrChar) (nBefore : Nat) : List (List Char) :=
  let rs := rangesOf ifs.classifyAttr text
  let q := assignFirst text nBefore rs
  q.1 ++ [removeQuotesAndStrip (slice text (lastRange ifs text q.2))]

end YashModel.Expansion
