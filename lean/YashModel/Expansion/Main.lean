/-
  Driver for C01.  stdin: one case per line, stdout: `<model observation>\t<spec>`.

  Case formats (tokens separated by single spaces; strings are hex of UTF-8, `-` = empty):

    W [ctx=<c>] <state>* | <word> (;; <word>)*
                                   expand the word(s) in context c (`set -f`): arg (default) `probe w…`,
                                   for `for v in w…; do probe "$v"; done`, arr `v=(w…)`, asg `v=w`,
                                   exp `export v=w`, here `cat <<E` with the (text-unit) word as content,
                                   fn: a history — words 1, 3, … inside a function call (which first
                                   declares the `@NAME=…` locals with `typeset`), words 2, 4, … at top level
                                   after the return; observation `step | step | … v=<globals afterwards>`
    P [portable=1] | <hex>         what the braced-parameter lexer makes of `${<chars>`
    R <state>* raw=<0|1> n=<k> [d=<hex char>] | <stdin hex>
                                   `read [-r] [-d c] v1 … vk` on the given standard input
    T ctx=<front|every> n=<index> | <word>
                                   `Word::parse_tilde_front` / `parse_tilde_everywhere_after(index)` on the word as lexed
                                   (units L B S Q D[ ] $p; `~` still a literal); observation: the resulting word
    H ctx=<op> <state>* | <phrase> [;; <phrase>]
                                   direct `Phrase` API: op append / soften (`for_each_char_mut` with `switch::attribute`'s
                                   function) / join (`ifs_join`) / fields; phrase := C<char> | f<field> | F<field>,… | F.
    WS                             the set of white-space code points (tie to Rust `char::is_whitespace`)

    state := NAME=s<hex> | NAME=a<n>(:<hex>)* | NAME=U | !NAME=… (read-only) | nu=<0|1> | st=<n>
           | pos=<n>(:<hex>)* | fl=<short option names> | pid=<n> ($$) | bg=<n> ($!, 0 = none)
           | pw=<hex name>:<hex dir>(,<hex name>:<hex dir>)* (user database: home directories)
             (IFS starts as " \t\n"; `IFS=U` unsets it)
    word  := unit*
    unit  := L<hex> | B<hex> | S<hex> | Q<hex> ($'…', unquoted content) | D[ tunit* ] | tunit
           | T<hex name> (tilde prefix `~name`, not followed by a slash) | T/<hex name> (followed by a slash)
    tunit := L<hex> | B<hex> | $<param> | {<param> modifier } | A[ tunit* ] (arithmetic expansion `$((…))`)
           | K<hex command> (`$(command)`) | Kb<hex command> (`` `command` ``); the commands are `emit <hex>`, a
             harness built-in that writes the decoded text
    modifier := ε | len | sw[:](-|=|?|+) unit* | tr(#|##|%|%%) unit*
    param := name | @ | * | # | ? | - | $ | ! | 0 | <digits> (positional, `00` = index 0)

  Observation of W: `n=<count> f=<hex>,…` or `err=<class>`, then ` a=<word>/<word>…`:
  the attributed initial expansion of every word before splitting — per character `<code point hex><l|h|s><0..3>`
  (origin; bit 0 = quoted, bit 1 = quoting) joined by `_`, fields by `,` (`-` empty field, `.` no field), `!` for
  the word whose expansion failed — then ` v=<name>:<value>,…` for the variables x y e u r.  Observation of R: `st=<exit status> v=v1:<hex>,…`.
  Spec column: `=<observation>` predicted by the declarative POSIX expansion of Spec.lean
  (`posixExpandArgs`, `posixExpandSingle`, `posixExpandText`: fields as lists, XCU 2.6.2 table,
  recursive splitter `specFields`) and by `specRead`.
-/
import YashModel.Common.Proto
import YashModel.Expansion.Model
import YashModel.Expansion.Spec
open YashModel YashModel.Expansion YashModel.Proto

def parseParam (t : String) : Option Param :=
  match t with
  | "@" => some .at
  | "*" => some .star
  | "#" => some .num
  | "?" => some .question
  | "0" => some .zero
  | "-" => some .hyphen
  | "$" => some .dollar
  | "!" => some .bang
  | _ =>
    match t.toNat? with
    | some n => some (.pos n)
    | none => if t.isEmpty then none else some (.var t)

def hexChar (t : String) : Option Char :=
  match decChars t with
  | some [c] => some c
  | _ => none

def mkText : List TextUnit → Text
  | [] => .nil
  | u :: t => .cons u (mkText t)

def mkWord : List WordUnit → Word
  | [] => .nil
  | u :: t => .cons u (mkWord t)

def parseSwitch (t : String) : Option (SwCond × SwAction) :=
  let (cond, rest) := if t.startsWith ":" then (SwCond.unsetOrEmpty, (t.drop 1).toString) else (SwCond.unset, t)
  match rest.toList with
  | [c] => (swActionOfSymbol c).map (fun a => (cond, a))
  | _ => none

def parseTrim (t : String) : Option (TrimSide × TrimLen) :=
  match t.toList with
  | [c] => (trimSideOfSymbol c).map (fun sd => (sd, .shortest))
  | [c, d] => if c = d then (trimSideOfSymbol c).map (fun sd => (sd, .longest)) else none
  | _ => none

mutual
  /-- parses word units up to (not including) a closing token `}` / `]` / end -/
  partial def parseUnits : List String → Option (List WordUnit × List String)
    | [] => some ([], [])
    | "}" :: rest => some ([], "}" :: rest)
    | "]" :: rest => some ([], "]" :: rest)
    | "D[" :: rest => do
      let (ts, rest) ← parseTUnits rest
      match rest with
      | "]" :: rest =>
        let (us, rest) ← parseUnits rest
        some (.dq (mkText ts) :: us, rest)
      | _ => none
    | tok :: rest =>
      if tok.startsWith "S" then do
        let s ← decChars (tok.drop 1).toString
        let (us, rest) ← parseUnits rest
        some (.sq s :: us, rest)
      else if tok.startsWith "Q" then do
        let s ← decChars (tok.drop 1).toString
        let (us, rest) ← parseUnits rest
        some (.dsq s :: us, rest)
      else if tok.startsWith "T/" then do
        let s ← decChars (tok.drop 2).toString
        let (us, rest) ← parseUnits rest
        some (.tilde s true :: us, rest)
      else if tok.startsWith "T" then do
        let s ← decChars (tok.drop 1).toString
        let (us, rest) ← parseUnits rest
        some (.tilde s false :: us, rest)
      else do
        let (u, rest) ← parseTUnit tok rest
        let (us, rest) ← parseUnits rest
        some (.unq u :: us, rest)

  partial def parseTUnits : List String → Option (List TextUnit × List String)
    | [] => some ([], [])
    | "}" :: rest => some ([], "}" :: rest)
    | "]" :: rest => some ([], "]" :: rest)
    | tok :: rest => do
      let (u, rest) ← parseTUnit tok rest
      let (us, rest) ← parseTUnits rest
      some (u :: us, rest)

  partial def parseTUnit (tok : String) (rest : List String) : Option (TextUnit × List String) :=
    if tok.startsWith "L" then do
      let c ← hexChar (tok.drop 1).toString
      some (.lit c, rest)
    else if tok.startsWith "B" then do
      let c ← hexChar (tok.drop 1).toString
      some (.bs c, rest)
    else if tok.startsWith "Kb" then do
      let c ← decChars (tok.drop 2).toString
      some (.cmd true c, rest)
    else if tok.startsWith "K" then do
      let c ← decChars (tok.drop 1).toString
      some (.cmd false c, rest)
    else if tok = "A[" then do
      let (ts, rest) ← parseTUnits rest
      match rest with
      | "]" :: rest => some (.arith (mkText ts), rest)
      | _ => none
    else if tok.startsWith "$" then do
      let p ← parseParam (tok.drop 1).toString
      some (.param p .none, rest)
    else if tok.startsWith "{" then do
      let p ← parseParam (tok.drop 1).toString
      match rest with
      | "}" :: rest => some (.param p .none, rest)
      | "len" :: "}" :: rest => some (.param p .length, rest)
      | m :: rest =>
        if m.startsWith "sw" then do
          let (cond, act) ← parseSwitch (m.drop 2).toString
          let (us, rest) ← parseUnits rest
          match rest with
          | "}" :: rest => some (.param p (.switch cond act (mkWord us)), rest)
          | _ => none
        else if m.startsWith "tr" then do
          let (side, len) ← parseTrim (m.drop 2).toString
          let (us, rest) ← parseUnits rest
          match rest with
          | "}" :: rest => some (.param p (.trim side len (mkWord us)), rest)
          | _ => none
        else none
      | [] => none
    else none
end

def parseWord (toks : List String) : Option Word :=
  match parseUnits toks with
  | some (us, []) => some (mkWord us)
  | _ => none

/-- several words separated by the token `;;` -/
def parseWords (toks : List String) : Option (List Word) :=
  let rec split (cur : List String) (acc : List (List String)) : List String → List (List String)
    | [] => (cur.reverse :: acc).reverse
    | t :: ts => if t = ";;" then split [] (cur.reverse :: acc) ts else split (t :: cur) acc ts
  (split [] [] toks).mapM parseWord

def wordToText : Word → Option (List TextUnit)
  | .nil => some []
  | .cons (.unq u) w => (wordToText w).map (u :: ·)
  | .cons _ _ => none

def parseValue (t : String) : Option (Option Value) :=
  if t = "U" then some none
  else if t.startsWith "s" then (decChars (t.drop 1).toString).map (fun s => some (.scalar s))
  else if t.startsWith "a" then
    match (t.drop 1).toString.splitOn ":" with
    | n :: vs =>
      if n.toNat? = some vs.length then (vs.mapM decChars).map (fun l => some (.array l)) else none
    | [] => none
  else none

/-- the value source of the correspondence run: the harness built-in `emit <hex>` writes the decoded text -/
def emitOutput (cmd : List Char) : List Char :=
  match (String.ofList cmd).splitOn " " with
  | ["emit", h] => (decChars h).getD []
  | _ => []

def initialEnv : Env :=
  { vars := [("IFS", { value := some (.scalar Ifs.defaultChars), readOnly := false })],
    pos := [], nounset := false, exitStatus := 0, arg0 := "yash".toList, cmdOut := emitOutput }

structure ReadOpts where
  raw : Bool := false
  n : Nat := 1
  /-- `-d`: the logical line delimiter -/
  delim : Char := '\n'
  ctx : String := "arg"
  portable : Bool := false
  /-- variables declared local (`typeset`) at the start of every function call of a `fn` history -/
  locals : List (String × Var) := []

def applyState (st : Env × ReadOpts) (tok : String) : Option (Env × ReadOpts) :=
  let (env, ro) := st
  match tok.splitOn "=" with
  | [k, v] =>
    if k = "nu" then some ({ env with nounset := v = "1" }, ro)
    else if k = "st" then v.toNat?.map (fun n => ({ env with exitStatus := n }, ro))
    else if k = "raw" then some (env, { ro with raw := v = "1" })
    else if k = "n" then v.toNat?.map (fun n => (env, { ro with n := n }))
    else if k = "d" then (hexChar v).map (fun c => (env, { ro with delim := c }))
    else if k = "ctx" then some (env, { ro with ctx := v })
    else if k = "portable" then some (env, { ro with portable := v = "1" })
    else if k = "fl" then some ({ env with flags := v.toList }, ro)
    else if k = "pid" then v.toNat?.map (fun n => ({ env with mainPid := n }, ro))
    else if k = "bg" then v.toNat?.map (fun n => ({ env with lastAsync := n }, ro))
    else if k = "pw" then
      ((v.splitOn ",").mapM fun (e : String) =>
        match e.splitOn ":" with
        | [n, d] => do some ((← decChars n), (← decChars d))
        | _ => none).map (fun l => ({ env with homes := l }, ro))
    else if k = "pos" then
      match v.splitOn ":" with
      | n :: vs => if n.toNat? = some vs.length then (vs.mapM decChars).map (fun l => ({ env with pos := l }, ro)) else none
      | [] => none
    else
      if k.startsWith "@" then
        (parseValue v).map (fun val =>
          (env, { ro with locals := ro.locals ++ [((k.drop 1).toString, { value := val, readOnly := false })] }))
      else
      let (readOnly, name) := if k.startsWith "!" then (true, (k.drop 1).toString) else (false, k)
      (parseValue v).map (fun val =>
        ({ env with vars := setVar env.vars name { value := val, readOnly := readOnly } }, ro))
  | _ => none

def showValue : Option Value → String
  | none => "U"
  | some (.scalar s) => "s" ++ encChars s
  | some (.array vs) => "a" ++ toString vs.length ++ String.join (vs.map (fun v => ":" ++ encChars v))

def showVars (env : Env) : String :=
  ",".intercalate (["x", "y", "e", "u", "r"].map (fun n => n ++ ":" ++ showValue (env.getValue n)))

def showVacancy : Vacancy → String
  | .unset => "unset"
  | .emptyScalar => "empty"
  | .valuelessArray => "noelems"
  | .emptyValueArray => "emptyelem"

def showArithErr : ArithErr → String
  | .syntax .tokenError => "token"
  | .syntax .incompleteExpression => "incomplete"
  | .syntax .missingOperator => "missingop"
  | .syntax .unclosedParenthesis => "unclosedparen"
  | .syntax .questionWithoutColon => "qnocolon"
  | .syntax .colonWithoutQuestion => "colonnoq"
  | .syntax .invalidOperator => "invalidop"
  | .syntax .fuel => "model"
  | .nonPortable => "nonportable"
  | .eval .invalidVariableValue => "badvalue"
  | .eval .overflow => "overflow"
  | .eval .divisionByZero => "divzero"
  | .eval .leftShiftingNegative => "lshiftneg"
  | .eval .reverseShifting => "revshift"
  | .eval .assignmentToValue => "assignvalue"
  | .eval _ => "model"
  | .model => "model"

def showErr : Err → String
  | .unsetParameter => "unset"
  | .vacant v none => s!"vacant:{showVacancy v}:default"
  | .vacant v (some m) => s!"vacant:{showVacancy v}:m{encChars m}"
  | .nonassignable v => s!"nonassignable:{showVacancy v}"
  | .readOnly v => s!"readonly:{showVacancy v}"
  | .arith e => s!"arith:{showArithErr e}"
  | .arithReadOnly => "readonly:none"

def showFields (fs : List (List Char)) : String :=
  s!"n={fs.length} f=" ++ (if fs.isEmpty then "." else ",".intercalate (fs.map encChars))

def hexNat (n : Nat) : String := String.ofList (Nat.toDigits 16 n)

def showAttrChar (c : AttrChar) : String :=
  hexNat c.value.toNat ++
    (match c.origin with | .literal => "l" | .hardExpansion => "h" | .softExpansion => "s") ++
    toString ((if c.isQuoted then 1 else 0) + (if c.isQuoting then 2 else 0))

def showAttrFields (fs : List (List AttrChar)) : String :=
  if fs.isEmpty then "." else
    ",".intercalate (fs.map fun f => if f.isEmpty then "-" else "_".intercalate (f.map showAttrChar))

/-- the initial expansion of one word as attributed fields: the model's `Phrase` (its fields) or the Spec's
    field list; here-document contents go through the text functions -/
def initialOf (spec : Bool) (ctx : String) (env : Env) (w : Word) : Option (Env × Except Err Fields) :=
  let den := fun (r : Res) => (r.1, match r.2 with | .ok ph => Except.ok ph.toFields | .error e => .error e)
  if ctx = "here" then
    (wordToText w).map fun ts =>
      let t := mkText ts
      if spec then (if t.isNil then (env, .ok [[]]) else posixTextGo env true [] t)
      else den (if t.isNil then (env, .ok Phrase.oneEmptyField) else expandTextGo env true Phrase.zeroFields t)
  else some (if spec then posixWord env true w else den (expandWord env true w))

/-- ` a=…`: word by word, each in the environment its predecessors left; `!` ends the list at the first error -/
def showInitial (spec : Bool) (ctx : String) (env : Env) (ws : List Word) : String :=
  let rec go (e : Env) (acc : List String) : List Word → List String
    | [] => acc.reverse
    | w :: rest =>
      match initialOf spec ctx e w with
      | none => ("?" :: acc).reverse
      | some (_, .error _) => ("!" :: acc).reverse
      | some (e', .ok fs) => go e' (showAttrFields fs :: acc) rest
  "/".intercalate (go env [] ws)

def obsW (attrs : String) (r : Env × Except Err (List (List Char))) : String :=
  match r with
  | (env, .ok fs) => showFields fs ++ " a=" ++ attrs ++ " v=" ++ showVars env
  | (env, .error e) => "err=" ++ showErr e ++ " a=" ++ attrs ++ " v=" ++ showVars env

def obsSingle (r : Env × Except Err (List Char)) : Env × Except Err (List (List Char)) :=
  match r with
  | (env, .ok v) => (env, .ok [v])
  | (env, .error e) => (env, .error e)

/-- the contexts in which the harness places the words -/
def runCtx (spec : Bool) (ctx : String) (env : Env) (ws : List Word) : Option (Env × Except Err (List (List Char))) :=
  match ctx, ws with
  | "arg", _ => some (if spec then posixExpandArgs env ws else expandWords env ws)
  | "for", _ => some (if spec then posixExpandArgs env ws else expandWords env ws)
  | "arr", _ => some (if spec then posixExpandArgs env ws else expandWords env ws)
  | "asg", [w] => some (obsSingle (if spec then posixExpandSingle env w else expandWordSingle env w))
  | "exp", [w] => some (obsSingle (if spec then posixExpandSingle env w else expandWordSingle env w))
  | "here", [w] => (wordToText w).map (fun ts =>
      obsSingle (if spec then posixExpandText env (mkText ts) else expandTextJoined env (mkText ts)))
  | _, _ => none

/-- a history of expansions across function calls: words 1, 3, … are expanded (as command
    arguments) inside a function call that first declares the given locals, words 2, 4, … at top
    level after the return.  One result per step; the first error ends the history. -/
def runHistory (spec : Bool) (locals : List (String × Var)) (env : Env) (ws : List Word) :
    Env × List String × List String :=
  let one := fun (e : Env) (w : Word) => if spec then posixExpandArg e w else expandWordMultiple e w
  -- the attributed initial expansion of the step's word, in the step's environment
  let attr := fun (e : Env) (w : Word) =>
    match initialOf spec "arg" e w with
    | some (_, .ok fs) => showAttrFields fs
    | some (_, .error _) => "!"
    | none => "?"
  let rec go (e : Env) (inside : Bool) (acc attrs : List String) : List Word → Env × List String × List String
    | [] => (e, acc.reverse, attrs.reverse)
    | w :: rest =>
      let e1 := if inside then e.pushCtx locals else e
      match one e1 w with
      | (e2, .error x) =>
        ((if inside then e2.popCtx else e2), (("err=" ++ showErr x) :: acc).reverse, (attr e1 w :: attrs).reverse)
      | (e2, .ok fs) =>
        go (if inside then e2.popCtx else e2) (!inside) (showFields fs :: acc) (attr e1 w :: attrs) rest
  go env true [] [] ws

def obsH (r : Env × List String × List String) : String :=
  " | ".intercalate r.2.1 ++ " a=" ++ "/".intercalate r.2.2 ++ " v=" ++ showVars r.1

def showRVal (o : Option (List Char)) : String :=
  match o with
  | some v => encChars v
  | none => "U"

/-- `read`: a read-only target keeps its value and makes the exit status 2 -/
def obsR (env : Env) (found : Bool) (text : List AttrChar) (vals : List (List Char)) : String :=
  let names := (List.range vals.length).map (fun k => s!"v{k+1}")
  let isRo := fun (n : String) => match env.getVar n with | some v => v.readOnly | none => false
  let anyRo := names.any isRo
  let shown := (names.zip vals).map (fun (n, v) =>
    n ++ ":" ++ (if isRo n then showRVal (env.getScalar n) else encChars v))
  s!"st={if anyRo then 2 else if found then 0 else 1} v=" ++ ",".intercalate shown ++
    " a=" ++ showAttrFields [text]

def showSynErr : SynErr → String
  | .emptyParam => "EmptyParam"
  | .invalidParam => "InvalidParam"
  | .unclosedParam => "UnclosedParam"
  | .multipleModifier => "MultipleModifier"
  | .invalidModifier => "InvalidModifier"
  | .nonPortable => "NonPortableParamModifier"

def litTokens (cs : List Char) : List String := cs.map (fun c => "L" ++ encChars [c])

/-- observation of a `P` case: the word `${<src>` as the lexer reads it -/
def obsP (portable : Bool) (src : List Char) : String :=
  match lexBraced portable src with
  | .error e => "err:" ++ showSynErr e
  | .ok b =>
    let m := match b.modifier with
      | .none => []
      | .length => ["len"]
      | .switch colon act w => [s!"sw{if colon then ":" else ""}{act}"] ++ litTokens w
      | .trim side long w => [s!"tr{side}{if long then side.toString else ""}"] ++ litTokens w
    "ok:" ++ " ".intercalate (["{" ++ String.ofList b.id] ++ m ++ ["}"] ++ litTokens b.rest)

/-! tilde-prefix parsing cases (`T`): words of simple units only -/

def showParamTok : Param → String
  | .var n => n | .at => "@" | .star => "*" | .num => "#" | .question => "?" | .zero => "0"
  | .hyphen => "-" | .dollar => "$" | .bang => "!" | .pos n => toString n

def showTUnitSimple : TextUnit → String
  | .lit c => "L" ++ encChars [c]
  | .bs c => "B" ++ encChars [c]
  | .param p .none => "$" ++ showParamTok p
  | _ => "?"

def textToList : Text → List TextUnit
  | .nil => []
  | .cons u t => u :: textToList t

def showUnitSimple : WordUnit → String
  | .unq u => showTUnitSimple u
  | .sq s => "S" ++ encChars s
  | .dsq s => "Q" ++ encChars s
  | .tilde n sl => "T" ++ (if sl then "/" else "") ++ encChars n
  | .dq t => " ".intercalate (["D["] ++ (textToList t).map showTUnitSimple ++ ["]"])

/-- `T ctx=<front|every> n=<index> | <word>`: `parse_tilde_front` / `parse_tilde_everywhere_after(index)` on the lexed word -/
def runT (mode : String) (idx : Nat) (w : Word) : String :=
  let us := w.toList
  let r := if mode = "front" then parseTildeFront us else parseTildeEverywhereAfter idx us
  " ".intercalate (r.map showUnitSimple)

/-! direct `Phrase` API cases (`H`) -/

def parseHexNat (s : String) : Option Nat :=
  s.toList.foldlM (fun n c =>
    if c.isDigit then some (n * 16 + (c.toNat - 48))
    else if 'a' ≤ c ∧ c ≤ 'f' then some (n * 16 + (c.toNat - 87)) else none) 0

/-- `<code point hex><l|h|s><0..3>` -/
def parseAttrChar (t : String) : Option AttrChar :=
  match t.toList.reverse with
  | fl :: o :: revHex =>
    let origin : Option Origin := match o with | 'l' => some .literal | 'h' => some .hardExpansion | 's' => some .softExpansion | _ => none
    let bits := fl.toNat - 48
    match origin, parseHexNat (String.ofList revHex.reverse) with
    | some og, some n =>
      if bits < 4 ∧ revHex ≠ [] then
        some { value := Char.ofNat n, origin := og, isQuoted := bits % 2 == 1, isQuoting := bits / 2 == 1 }
      else none
    | _, _ => none
  | _ => none

def parseAttrField (t : String) : Option (List AttrChar) :=
  if t = "-" then some [] else (t.splitOn "_").mapM parseAttrChar

/-- `C<char>` | `f<field>` | `F<field>,…` (`F.` = no field) -/
def parsePhrase (t : String) : Option Phrase :=
  if t.startsWith "C" then (parseAttrChar (t.drop 1).toString).map .char
  else if t.startsWith "f" then (parseAttrField (t.drop 1).toString).map .field
  else if t = "F." then some (.full [])
  else if t.startsWith "F" then (((t.drop 1).toString.splitOn ",").mapM parseAttrField).map .full
  else none

def showPhrase : Phrase → String
  | .char c => "C" ++ showAttrChar c
  | .field f => "f" ++ (if f.isEmpty then "-" else "_".intercalate (f.map showAttrChar))
  | .full fs => "F" ++ showAttrFields fs

/-- `H op=<append|soften|join|fields> <state>* | <phrase> [;; <phrase>]`: the operation on phrases of explicit shape.
    Observation: the resulting phrase WITH its shape (`join`: the field); Spec column: the operation on the
    denotations (`joinFields`, `soften`, `joinBySep`) compared with the denotation of the result. -/
def runH (op : String) (env : Env) (ps : List Phrase) : String :=
  let verdict := fun (b : Bool) => if b then "ok" else "FAIL:denotation"
  match op, ps with
  | "append", [a, b] =>
    let r := a.append b
    showPhrase r ++ "\t" ++ verdict (r.toFields == joinFields a.toFields b.toFields)
  | "soften", [a] =>
    let r := reattribute a
    showPhrase r ++ "\t" ++ verdict (r.toFields == soften a.toFields)
  | "join", [a] =>
    let r := a.ifsJoin env
    showAttrFields [r] ++ "\t" ++ verdict (r == joinBySep env a.toFields)
  | "fields", [a] =>
    let fs := a.toFields
    s!"n={fs.length} {showAttrFields fs} rq={showFields (fs.map removeQuotesAndStrip)}" ++ "\t-"
  | _, _ => "bad-case\t-"

def showWs : String :=
  ",".intercalate (whitespaceTable.map (fun r => s!"{r.1}-{r.2}"))

/-- every code point the table calls white space is one according to `isWhitespace` and the
    table is sorted and non-overlapping (sanity of the driver's own printing) -/
def runLine (line : String) : String :=
  if line = "WS" then showWs ++ "\t-" else
  match splitTrim line "|" with
  | [l, r] =>
    match words l with
    | kind :: stToks =>
      match stToks.foldlM applyState (initialEnv, ({} : ReadOpts)) with
      | none => "bad-case\t-"
      | some (env, ro) =>
        if kind = "W" then
          match parseWords (words r) with
          | none => "bad-case\t-"
          | some ws =>
            if ro.ctx = "fn" then
              -- the function definition that precedes every step leaves `$?` = 0
              let env := { env with exitStatus := 0 }
              obsH (runHistory false ro.locals env ws) ++ "\t=" ++ obsH (runHistory true ro.locals env ws)
            else
            match runCtx false ro.ctx env ws, runCtx true ro.ctx env ws with
            | some a, some b =>
              -- words with a command substitution: the harness has no attributed observation (`~`)
              if (words r).any (·.startsWith "K") then obsW "~" a ++ "\t=" ++ obsW "~" b else
              obsW (showInitial false ro.ctx env ws) a ++ "\t=" ++ obsW (showInitial true ro.ctx env ws) b
            | _, _ => "bad-case\t-"
        else if kind = "T" then
          match parseWord (words r) with
          | some w => runT ro.ctx ro.n w ++ "\t-"
          | none => "bad-case\t-"
        else if kind = "H" then
          match ((r.splitOn ";;").map (fun x => parsePhrase x.trimAscii.toString)).mapM id with
          | some ps => runH ro.ctx env ps
          | none => "bad-case\t-"
        else if kind = "P" then
          match decChars r with
          | none => "bad-case\t-"
          | some src => obsP ro.portable src ++ "\t-"
        else if kind = "R" then
          match decChars r with
          | none => "bad-case\t-"
          | some input =>
            let (text, found) := readInput ro.raw ro.delim input
            let (stext, sfound) := specReadInput ro.raw ro.delim input
            let ifs := match env.getScalar "IFS" with | some s => Ifs.new s | none => Ifs.default
            obsR env found text (readAssign ifs text (ro.n - 1)) ++ "\t=" ++
              obsR env sfound stext (specRead ifs stext (ro.n - 1))
        else "bad-case\t-"
    | [] => "bad-case\t-"
  | _ => "bad-case\t-"

def main : IO Unit := mainLoop runLine
