/-
  C01 — helper lemmas: `trimValue` removes the shortest / longest matching prefix / suffix.
-/
import YashModel.Expansion.Model
import YashModel.Expansion.Spec
namespace YashModel.Expansion

theorem find_range (p : Nat → Bool) : ∀ n,
    match (List.range n).find? p with
    | some k => p k = true ∧ k < n ∧ ∀ j, j < k → p j = false
    | none => ∀ j, j < n → p j = false := by
  intro n
  induction n with
  | zero => simp
  | succ n ih =>
    rw [List.range_succ, List.find?_append]
    cases h : (List.range n).find? p with
    | some k =>
      rw [h] at ih
      simp only [Option.some_or]
      exact ⟨ih.1, by omega, ih.2.2⟩
    | none =>
      rw [h] at ih
      simp only [Option.none_or, List.find?_cons, List.find?_nil]
      by_cases hn : p n = true
      · simp only [hn]
        exact ⟨trivial, by omega, fun j hj => ih j hj⟩
      · have hn' : p n = false := by simpa using hn
        simp only [hn']
        intro j hj
        rcases Nat.lt_or_ge j n with h' | h'
        · exact ih j h'
        · have : j = n := by omega
          subst this; exact hn'

theorem find_range_rev (p : Nat → Bool) : ∀ n,
    match (List.range n).reverse.find? p with
    | some k => p k = true ∧ k < n ∧ ∀ j, k < j → j < n → p j = false
    | none => ∀ j, j < n → p j = false := by
  intro n
  induction n with
  | zero => simp
  | succ n ih =>
    rw [List.range_succ, List.reverse_append]
    simp only [List.reverse_cons, List.reverse_nil, List.nil_append, List.singleton_append,
      List.find?_cons]
    by_cases hn : p n = true
    · simp only [hn]
      exact ⟨trivial, by omega, fun j h1 h2 => by omega⟩
    · have hn' : p n = false := by simpa using hn
      simp only [hn']
      cases h : (List.range n).reverse.find? p with
      | some k =>
        rw [h] at ih
        refine ⟨ih.1, by omega, ?_⟩
        intro j h1 h2
        rcases Nat.lt_or_ge j n with h' | h'
        · exact ih.2.2 j h1 h'
        · have : j = n := by omega
          subst this; exact hn'
      | none =>
        rw [h] at ih
        intro j hj
        rcases Nat.lt_or_ge j n with h' | h'
        · exact ih j h'
        · have : j = n := by omega
          subst this; exact hn'

/-- removing `k` characters matches the pattern (anchored at the side being trimmed) -/
def trimMatches (pat : List PatChar) (side : TrimSide) (v : List Char) (k : Nat) : Bool :=
  match side with
  | .prefix => globMatch pat (v.take k)
  | .suffix => globMatch pat (v.drop (v.length - k))

def trimRemoved (side : TrimSide) (v : List Char) (k : Nat) : List Char :=
  match side with
  | .prefix => v.drop k
  | .suffix => v.take (v.length - k)

theorem trimValue_eq (pat : List PatChar) (side : TrimSide) (len : TrimLen) (v : List Char) :
    trimValue pat side len v =
      match (match len with
             | .shortest => upTo v.length
             | .longest => (upTo v.length).reverse).find? (trimMatches pat side v) with
      | some k => trimRemoved side v k
      | none => v := by
  cases side <;> cases len <;> simp only [trimValue, trimRemoved] <;> rfl

end YashModel.Expansion
