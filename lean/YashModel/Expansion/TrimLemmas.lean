/-
  C01 — helper lemmas: prefix / suffix removal.  The model's `trimApply` is the C04 model of yash-fnmatch
  (`Fnmatch.trimApply`); C04's results turn it into the Spec's `posixTrim`.  They are used in their lemma-file
  form (`Fnmatch.Proofs.*`, `parseAtoms_eq_spec`: the proofs behind C04's audited property theorems
  `trimApply_correct`, `trimApply_suffix_correct`, `defined_compiles`, `parser_is_grammar`, `specTrim_declarative`), so
  that this file does not depend on C04's `Theorems.lean` and the files only that one imports.
-/
import YashModel.Expansion.Model
import YashModel.Expansion.Spec
import YashModel.Fnmatch.ParseSpec
import YashModel.Fnmatch.DefinedLemmas
namespace YashModel.Expansion

/-- C04 `parser_is_grammar`, second half -/
theorem parseAtoms_is_grammar (pcs : List PatChar) : Fnmatch.parseAtoms pcs = Fnmatch.specParse pcs :=
  Fnmatch.parseAtoms_eq_spec pcs.length pcs (Nat.le_refl _)

/-- C04 `trimApply_correct` -/
theorem fnmatch_trimApply_correct (pcs : List PatChar) (hd : Fnmatch.astDefined (Fnmatch.parseAtoms pcs) = true)
    (hn : Fnmatch.noMulti (Fnmatch.parseAtoms pcs) = true) (side : TrimSide) (len : TrimLen) (v : List Char) :
    Fnmatch.trimApply side len pcs v = Fnmatch.specTrim side len (Fnmatch.parseAtoms pcs) v := by
  obtain ⟨p, hp⟩ := Fnmatch.Proofs.defined_compiles (Fnmatch.parseAtoms pcs) hd (Fnmatch.trimConfig side len)
  unfold Fnmatch.trimApply Fnmatch.Pattern.parse
  rw [hp]
  exact Fnmatch.Proofs.trim_correct (Fnmatch.parseAtoms pcs) hn side len p hp v

/-- C04 `specTrim_declarative` -/
theorem fnmatch_specTrim_declarative (p : Nat → Bool) (n : Nat) :
    ((Fnmatch.leastUpTo p n = none ∧ ∀ j, j ≤ n → p j = false) ∨
     (∃ k, Fnmatch.leastUpTo p n = some k ∧ k ≤ n ∧ p k = true ∧ ∀ j, j < k → p j = false)) ∧
    ((Fnmatch.greatestUpTo p n = none ∧ ∀ j, j ≤ n → p j = false) ∨
     (∃ k, Fnmatch.greatestUpTo p n = some k ∧ k ≤ n ∧ p k = true ∧ ∀ j, k < j → j ≤ n → p j = false)) :=
  ⟨Fnmatch.Proofs.leastUpTo_spec, Fnmatch.Proofs.greatestUpTo_spec⟩

/-- on one string: what `trim::apply` computes is what the Spec says, for every pattern -/
theorem trimString_eq_posix (pcs : List PatChar) (side : TrimSide) (len : TrimLen) (v : List Char) :
    Fnmatch.trimApply side len pcs v = posixTrimString pcs side len v := by
  unfold posixTrimString
  by_cases h : patternInPosix side pcs = true
  · rw [if_pos h]
    unfold patternInPosix at h
    have hg : Fnmatch.parseAtoms pcs = Fnmatch.specParse pcs := parseAtoms_is_grammar pcs
    rw [← hg] at h ⊢
    rw [Bool.and_eq_true] at h
    obtain ⟨hd, hs⟩ := h
    cases side with
    | suffix => exact Fnmatch.Proofs.trimApply_suffix_correct pcs hd len v
    | «prefix» =>
      have hn : Fnmatch.noMulti (Fnmatch.parseAtoms pcs) = true := by simpa using hs
      exact fnmatch_trimApply_correct pcs hd hn .prefix len v
  · rw [if_neg h]

/-- scalar and array values -/
theorem trimApply_eq_posixTrim (pcs : List PatChar) (side : TrimSide) (len : TrimLen) (val : Value) :
    trimApply pcs side len val = posixTrim pcs side len val := by
  cases val with
  | scalar s => simp [trimApply, posixTrim, trimString_eq_posix]
  | array vs =>
    simp only [trimApply, posixTrim, Fnmatch.trimArray]
    congr 1
    exact List.map_congr_left (fun v _ => trimString_eq_posix pcs side len v)

/-! ## `apply_escapes` / `to_pattern_chars`: this area's transcription = C04's -/

/-- what `attr_fnmatch.rs` reads of an attributed character -/
def projAttr (c : AttrChar) : Fnmatch.AttrChar := ⟨c.value, c.isQuoted, c.isQuoting⟩

theorem any_nonQuoting_proj (t : List AttrChar) :
    (t.map projAttr).any (fun c => !c.isQuoting) = t.any (fun c => !c.isQuoting) := by
  induction t with
  | nil => rfl
  | cons c t ih => simp [List.any_cons, projAttr, ih]

theorem applyEscapesGo_proj : ∀ (cs : List AttrChar) (q : Bool),
    (applyEscapesGo q cs).map projAttr = Fnmatch.applyEscapesAux q (cs.map projAttr)
  | [], q => by simp [applyEscapesGo, Fnmatch.applyEscapesAux]
  | a :: t, q => by
    have ih1 := applyEscapesGo_proj t true
    have ih2 := applyEscapesGo_proj t false
    have hany := any_nonQuoting_proj t
    rcases a with ⟨v, o, qd, qg⟩
    cases q <;> cases qd <;> cases qg <;> by_cases hv : v = '\\' <;>
      cases hA : t.any (fun c => !c.isQuoting) <;>
      simp [applyEscapesGo, Fnmatch.applyEscapesAux, projAttr, hv, hA, hany, ← ih1, ← ih2]

theorem toPatternChars_proj : ∀ (cs : List AttrChar),
    toPatternChars cs = Fnmatch.toPatternChars (cs.map projAttr)
  | [] => rfl
  | c :: t => by
    have ih := toPatternChars_proj t
    unfold Fnmatch.toPatternChars at ih ⊢
    rw [toPatternChars, List.map_cons, List.filterMap_cons]
    by_cases h1 : c.isQuoting = true
    · simp [h1, projAttr, ih]
    · by_cases h2 : c.isQuoted = true
      · simp [h1, h2, projAttr, ih]
      · simp [h1, h2, projAttr, ih]

theorem patternChars_eq_fnmatch (cs : List AttrChar) :
    toPatternChars (applyEscapes cs) =
      Fnmatch.toPatternChars (Fnmatch.applyEscapes (cs.map fun c => ⟨c.value, c.isQuoted, c.isQuoting⟩)) := by
  rw [toPatternChars_proj]
  unfold applyEscapes Fnmatch.applyEscapes
  rw [applyEscapesGo_proj]
  rfl

/-! ## A syntactic class inside the defined notation: patterns without an unquoted `[` -/

/-- atoms that are not bracket expressions -/
def noBracketAtom : Fnmatch.Atom → Bool
  | .bracket _ => false
  | _ => true

theorem specParse_bracketFree : ∀ (n : Nat) (pcs : List PatChar), pcs.length ≤ n → bracketFree pcs = true →
    (Fnmatch.specParse pcs).all noBracketAtom = true := by
  intro n
  induction n with
  | zero =>
    intro pcs hl _
    have : pcs = [] := List.eq_nil_of_length_eq_zero (by omega)
    subst this
    simp [Fnmatch.specParse]
  | succ n ih =>
    intro pcs hl hb
    cases pcs with
    | nil => simp [Fnmatch.specParse]
    | cons pc t =>
      have hb' : (pc != Fnmatch.PatternChar.normal '[') = true ∧ bracketFree t = true := by
        simpa [bracketFree] using hb
      have hne : pc ≠ .normal '[' := by simpa using hb'.1
      have iht := ih t (by simp at hl; omega) hb'.2
      rw [Fnmatch.specParse]
      by_cases h1 : pc = .normal '?'
      · simp [h1, noBracketAtom, iht]
      · by_cases h2 : pc = .normal '*'
        · simp [h2, noBracketAtom, iht]
        · simp [h1, h2, hne, noBracketAtom, iht]

theorem defined_of_noBracket : ∀ (ast : Fnmatch.Ast), ast.all noBracketAtom = true →
    Fnmatch.astDefined ast = true ∧ Fnmatch.noMulti ast = true := by
  intro ast
  induction ast with
  | nil => intro _; simp [Fnmatch.astDefined, Fnmatch.noMulti]
  | cons a t ih =>
    intro h
    simp only [List.all_cons, Bool.and_eq_true] at h
    obtain ⟨ha, ht⟩ := h
    have := ih ht
    cases a <;> simp_all [Fnmatch.astDefined, Fnmatch.noMulti, Fnmatch.atomOk, Fnmatch.noMultiAtom, noBracketAtom]

theorem bracketFree_inPosix (pcs : List PatChar) (h : bracketFree pcs = true) (side : TrimSide) :
    patternInPosix side pcs = true := by
  have := defined_of_noBracket _ (specParse_bracketFree pcs.length pcs (Nat.le_refl _) h)
  simp [patternInPosix, this.1, this.2]

end YashModel.Expansion
