/-
  C01 — helper lemmas (no property theorems here).

  * `fieldsM`: a field-valued presentation of the split machine (the `Midfield` state carries the
    characters collected so far instead of a start index) and the bridge
    `splitWith cls xs = fieldsM cls .afterNws xs`;
  * content lemmas on `fieldsM` (partition, no IFS character inside a field, unsplittable input);
  * where empty ranges can arise in `ranges`;
  * `appendLast` / `joinFields` algebra;
  * quote removal as a filter.
-/
import YashModel.Expansion.Model
import YashModel.Expansion.Spec
import YashModel.Expansion.SplitLemmas
namespace YashModel.Expansion

/-! ## Field-valued machine -/

inductive FSt (α : Type) | mid (acc : List α) | afterWs | afterNws

def fieldsM {α : Type} (cls : α → Cls) : FSt α → List α → List (List α)
  | .mid acc, [] => [acc]
  | .afterWs, [] => []
  | .afterNws, [] => []
  | .mid acc, x :: xs =>
    match cls x with
    | .nws => acc :: fieldsM cls .afterNws xs
    | .ws => acc :: fieldsM cls .afterWs xs
    | .non => fieldsM cls (.mid (acc ++ [x])) xs
  | .afterWs, x :: xs =>
    match cls x with
    | .nws => fieldsM cls .afterNws xs
    | .ws => fieldsM cls .afterWs xs
    | .non => fieldsM cls (.mid [x]) xs
  | .afterNws, x :: xs =>
    match cls x with
    | .nws => [] :: fieldsM cls .afterNws xs
    | .ws => fieldsM cls .afterNws xs
    | .non => fieldsM cls (.mid [x]) xs

theorem slice_prefix {α : Type} (pre ys : List α) (s : Nat) :
    slice (pre ++ ys) (s, pre.length) = pre.drop s := by
  unfold slice
  simp only
  by_cases hs : s ≤ pre.length
  · rw [List.drop_append_of_le_length hs, List.take_append_of_le_length (by simp)]
    exact List.take_of_length_le (by simp)
  · have h1 : pre.length - s = 0 := by omega
    have h2 : pre.drop s = [] := List.drop_eq_nil_of_le (by omega)
    simp [h1, h2]

theorem slice_empty {α : Type} (l : List α) (i : Nat) : slice l (i, i) = [] := by
  simp [slice]

/-- the bridge between index ranges and collected fields, for all three states at once -/
theorem ranges_slice {α : Type} (cls : α → Cls) (xs : List α) :
    ∀ pre : List α,
      (∀ s, s ≤ pre.length →
        (ranges (.mid s) pre.length (xs.map cls)).map (slice (pre ++ xs)) = fieldsM cls (.mid (pre.drop s)) xs) ∧
      (ranges .afterWs pre.length (xs.map cls)).map (slice (pre ++ xs)) = fieldsM cls .afterWs xs ∧
      (ranges .afterNws pre.length (xs.map cls)).map (slice (pre ++ xs)) = fieldsM cls .afterNws xs := by
  induction xs with
  | nil =>
    intro pre
    refine ⟨?_, by simp [ranges, fieldsM], by simp [ranges, fieldsM]⟩
    intro s _
    simp only [List.map_nil, ranges, List.map_cons, fieldsM]
    rw [slice_prefix]
  | cons x xs ih =>
    intro pre
    have hre : pre ++ x :: xs = (pre ++ [x]) ++ xs := by simp
    have hlen : (pre ++ [x]).length = pre.length + 1 := by simp
    obtain ⟨ihm, ihw, ihn⟩ := ih (pre ++ [x])
    rw [hlen] at ihm ihw ihn
    have hmidx : fieldsM cls (.mid ((pre ++ [x]).drop pre.length)) xs = fieldsM cls (.mid [x]) xs := by
      simp
    refine ⟨?_, ?_, ?_⟩
    · intro s hs
      simp only [List.map_cons]
      cases hc : cls x with
      | non =>
        simp only [ranges, fieldsM, hc]
        rw [hre, ihm s (by omega), List.drop_append_of_le_length hs]
      | ws =>
        simp only [ranges, fieldsM, hc, List.map_cons]
        rw [slice_prefix, hre, ihw]
      | nws =>
        simp only [ranges, fieldsM, hc, List.map_cons]
        rw [slice_prefix, hre, ihn]
    · simp only [List.map_cons]
      cases hc : cls x with
      | non =>
        simp only [ranges, fieldsM, hc]
        rw [hre, ihm pre.length (by omega), hmidx]
      | ws =>
        simp only [ranges, fieldsM, hc]
        rw [hre, ihw]
      | nws =>
        simp only [ranges, fieldsM, hc]
        rw [hre, ihn]
    · simp only [List.map_cons]
      cases hc : cls x with
      | non =>
        simp only [ranges, fieldsM, hc]
        rw [hre, ihm pre.length (by omega), hmidx]
      | ws =>
        simp only [ranges, fieldsM, hc]
        rw [hre, ihn]
      | nws =>
        simp only [ranges, fieldsM, hc, List.map_cons]
        rw [slice_empty, hre, ihn]

theorem splitWith_eq_fieldsM {α : Type} (cls : α → Cls) (xs : List α) :
    splitWith cls xs = fieldsM cls .afterNws xs := by
  have h := (ranges_slice cls xs []).2.2
  simpa [splitWith, rangesOf] using h

/-! ## Content of the fields -/

def FSt.acc {α : Type} : FSt α → List α
  | .mid acc => acc
  | _ => []

theorem fieldsM_flatten {α : Type} (cls : α → Cls) (xs : List α) :
    ∀ st : FSt α, (fieldsM cls st xs).flatten = st.acc ++ xs.filter (fun x => decide (cls x = .non)) := by
  induction xs with
  | nil => intro st; cases st <;> simp [fieldsM, FSt.acc]
  | cons x xs ih =>
    intro st
    cases st <;> cases hc : cls x <;> simp [fieldsM, FSt.acc, hc, ih]

theorem fieldsM_non {α : Type} (cls : α → Cls) (xs : List α) :
    ∀ st : FSt α, (∀ c ∈ st.acc, cls c = .non) →
      ∀ f ∈ fieldsM cls st xs, ∀ c ∈ f, cls c = .non := by
  induction xs with
  | nil =>
    intro st hacc f hf c hcf
    cases st <;> simp [fieldsM, FSt.acc] at hf hacc
    subst hf; exact hacc c hcf
  | cons x xs ih =>
    intro st hacc f hf c hcf
    cases st with
    | mid acc =>
      simp only [FSt.acc] at hacc
      cases hc : cls x <;> simp only [fieldsM, hc] at hf
      · exact ih (.mid (acc ++ [x])) (by
          intro d hd
          simp only [FSt.acc, List.mem_append, List.mem_singleton] at hd
          rcases hd with hd | hd
          · exact hacc d hd
          · subst hd; exact hc) f hf c hcf
      · rcases List.mem_cons.mp hf with h | h
        · subst h; exact hacc c hcf
        · exact ih .afterWs (by simp [FSt.acc]) f h c hcf
      · rcases List.mem_cons.mp hf with h | h
        · subst h; exact hacc c hcf
        · exact ih .afterNws (by simp [FSt.acc]) f h c hcf
    | afterWs =>
      cases hc : cls x <;> simp only [fieldsM, hc] at hf
      · exact ih (.mid [x]) (by simp [FSt.acc, hc]) f hf c hcf
      · exact ih .afterWs (by simp [FSt.acc]) f hf c hcf
      · exact ih .afterNws (by simp [FSt.acc]) f hf c hcf
    | afterNws =>
      cases hc : cls x <;> simp only [fieldsM, hc] at hf
      · exact ih (.mid [x]) (by simp [FSt.acc, hc]) f hf c hcf
      · exact ih .afterNws (by simp [FSt.acc]) f hf c hcf
      · rcases List.mem_cons.mp hf with h | h
        · subst h; simp at hcf
        · exact ih .afterNws (by simp [FSt.acc]) f h c hcf

theorem fieldsM_mid_allNon {α : Type} (cls : α → Cls) (xs : List α) :
    ∀ acc : List α, (∀ x ∈ xs, cls x = .non) → fieldsM cls (.mid acc) xs = [acc ++ xs] := by
  induction xs with
  | nil => intro acc _; simp [fieldsM]
  | cons x xs ih =>
    intro acc h
    have hx : cls x = .non := h x (by simp)
    simp only [fieldsM, hx]
    rw [ih (acc ++ [x]) (fun y hy => h y (by simp [hy]))]
    simp

theorem fieldsM_start_allNon {α : Type} (cls : α → Cls) (xs : List α)
    (h : ∀ x ∈ xs, cls x = .non) :
    fieldsM cls .afterNws xs = if xs = [] then [] else [xs] := by
  cases xs with
  | nil => simp [fieldsM]
  | cons x xs =>
    have hx : cls x = .non := h x (by simp)
    simp only [fieldsM, hx]
    rw [fieldsM_mid_allNon cls xs [x] (fun y hy => h y (by simp [hy]))]
    simp

/-! ## Where empty ranges arise -/

/-- the last class that is not IFS white space -/
def lastNonWs (p : List Cls) : Option Cls := (p.reverse.dropWhile (fun c => c == .ws)).head?

theorem lastNonWs_snoc_ws (p : List Cls) : lastNonWs (p ++ [.ws]) = lastNonWs p := by
  simp [lastNonWs]

theorem lastNonWs_snoc_nws (p : List Cls) : lastNonWs (p ++ [.nws]) = some .nws := by
  simp [lastNonWs]

def StOk (p : List Cls) : St → Prop
  | .mid s => s < p.length
  | .afterWs => True
  | .afterNws => lastNonWs p ≠ some .non

theorem ranges_empty (cs : List Cls) :
    ∀ (st : St) (p : List Cls), StOk p st →
      ∀ k, (k, k) ∈ ranges st p.length cs →
        (p ++ cs)[k]? = some .nws ∧ lastNonWs ((p ++ cs).take k) ≠ some .non := by
  induction cs with
  | nil =>
    intro st p hok k hk
    cases st with
    | mid s =>
      simp only [ranges, List.mem_singleton, Prod.mk.injEq] at hk
      simp only [StOk] at hok
      omega
    | afterWs => simp [ranges] at hk
    | afterNws => simp [ranges] at hk
  | cons c cs ih =>
    intro st p hok k hk
    have hre : p ++ c :: cs = (p ++ [c]) ++ cs := by simp
    have hlen : (p ++ [c]).length = p.length + 1 := by simp
    have step : ∀ st', StOk (p ++ [c]) st' → (k, k) ∈ ranges st' (p.length + 1) cs →
        (p ++ c :: cs)[k]? = some .nws ∧ lastNonWs ((p ++ c :: cs).take k) ≠ some .non := by
      intro st' hok' hk'
      rw [hre]
      exact ih st' (p ++ [c]) hok' k (by rw [hlen]; exact hk')
    cases st with
    | mid s =>
      simp only [StOk] at hok
      cases c with
      | non =>
        simp only [ranges] at hk
        exact step (.mid s) (by simp only [StOk, hlen]; omega) hk
      | ws =>
        simp only [ranges, List.mem_cons, Prod.mk.injEq] at hk
        rcases hk with ⟨h1, h2⟩ | hk
        · omega
        · exact step .afterWs trivial hk
      | nws =>
        simp only [ranges, List.mem_cons, Prod.mk.injEq] at hk
        rcases hk with ⟨h1, h2⟩ | hk
        · omega
        · exact step .afterNws (by simp [StOk, lastNonWs_snoc_nws]) hk
    | afterWs =>
      cases c with
      | non =>
        simp only [ranges] at hk
        exact step (.mid p.length) (by simp [StOk]) hk
      | ws =>
        simp only [ranges] at hk
        exact step .afterWs trivial hk
      | nws =>
        simp only [ranges] at hk
        exact step .afterNws (by simp [StOk, lastNonWs_snoc_nws]) hk
    | afterNws =>
      simp only [StOk] at hok
      cases c with
      | non =>
        simp only [ranges] at hk
        exact step (.mid p.length) (by simp [StOk]) hk
      | ws =>
        simp only [ranges] at hk
        exact step .afterNws (by simp only [StOk, lastNonWs_snoc_ws]; exact hok) hk
      | nws =>
        simp only [ranges, List.mem_cons, Prod.mk.injEq] at hk
        rcases hk with ⟨h1, _⟩ | hk
        · subst h1
          refine ⟨by simp, ?_⟩
          simpa using hok
        · exact step .afterNws (by simp [StOk, lastNonWs_snoc_nws]) hk

/-! ## Phrase algebra -/

theorem appendLast_eq {α : Type} (l : List (List α)) (hl : l ≠ []) (r : List α) :
    appendLast l r = l.dropLast ++ [l.getLast hl ++ r] := by
  induction l with
  | nil => exact absurd rfl hl
  | cons x t ih =>
    cases t with
    | nil => simp [appendLast]
    | cons y t =>
      simp only [appendLast]
      rw [ih (by simp)]
      simp

theorem joinFields_nil_left {α : Type} (r : List (List α)) : joinFields [] r = r := by
  simp [joinFields]

theorem joinFields_nil_right {α : Type} (l : List (List α)) : joinFields l [] = l := by
  unfold joinFields
  cases h : l.getLast? with
  | none => simp at h; simp [h]
  | some x => rfl

theorem joinFields_cons_cons {α : Type} (x : List α) (l : List (List α)) (y : List α) (ys : List (List α)) :
    joinFields (x :: l) (y :: ys) = appendLast (x :: l) y ++ ys := by
  unfold joinFields
  rw [appendLast_eq (x :: l) (by simp)]
  rw [List.getLast?_eq_some_getLast (by simp : x :: l ≠ [])]

theorem joinFields_cons2 {α : Type} (x y : List α) (t r : List (List α)) :
    joinFields (x :: y :: t) r = x :: joinFields (y :: t) r := by
  cases r with
  | nil => simp [joinFields_nil_right]
  | cons rf rs => simp [joinFields_cons_cons, appendLast]

theorem joinFields_single {α : Type} (x y : List α) (ys : List (List α)) :
    joinFields [x] (y :: ys) = (x ++ y) :: ys := by
  simp [joinFields_cons_cons, appendLast]

theorem joinFields_ne_nil {α : Type} (x : List α) (l m : List (List α)) :
    joinFields (x :: l) m ≠ [] := by
  cases m with
  | nil => simp [joinFields_nil_right]
  | cons y ys =>
    cases l with
    | nil => simp [joinFields_single]
    | cons x2 t => simp [joinFields_cons2]

theorem joinFields_assoc {α : Type} (l m r : List (List α)) :
    joinFields (joinFields l m) r = joinFields l (joinFields m r) := by
  induction l with
  | nil => simp [joinFields_nil_left]
  | cons x t ih =>
    cases t with
    | nil =>
      cases m with
      | nil => simp [joinFields_nil_right, joinFields_nil_left]
      | cons y ys =>
        cases ys with
        | nil =>
          cases r with
          | nil => simp [joinFields_nil_right]
          | cons z zs => simp [joinFields_single]
        | cons y2 t2 => simp [joinFields_single, joinFields_cons2]
    | cons x2 t2 =>
      rw [joinFields_cons2, joinFields_cons2]
      obtain ⟨a, as, ha⟩ : ∃ a as, joinFields (x2 :: t2) m = a :: as := by
        cases h : joinFields (x2 :: t2) m with
        | nil => exact absurd h (joinFields_ne_nil _ _ _)
        | cons a as => exact ⟨a, as, rfl⟩
      rw [ha, joinFields_cons2, ← ha, ih]

/-- `Phrase::append` denotes `joinFields` (all nine shape combinations) -/
theorem append_toFields (a b : Phrase) :
    (a.append b).toFields = joinFields a.toFields b.toFields := by
  cases a with
  | char l =>
    cases b with
    | char r => simp [Phrase.append, Phrase.toFields, joinFields]
    | field r => simp [Phrase.append, Phrase.toFields, joinFields]
    | full rs => cases rs <;> simp [Phrase.append, Phrase.toFields, joinFields]
  | field l =>
    cases b with
    | char r => simp [Phrase.append, Phrase.toFields, joinFields]
    | field r => simp [Phrase.append, Phrase.toFields, joinFields]
    | full rs => cases rs <;> simp [Phrase.append, Phrase.toFields, joinFields]
  | full ls =>
    cases ls with
    | nil =>
      cases b with
      | char r => simp [Phrase.append, Phrase.toFields, joinFields]
      | field r => simp [Phrase.append, Phrase.toFields, joinFields]
      | full rs => cases rs <;> simp [Phrase.append, Phrase.toFields, joinFields]
    | cons lf ls =>
      cases b with
      | char r => simp [Phrase.append, Phrase.toFields, joinFields_cons_cons]
      | field r => simp [Phrase.append, Phrase.toFields, joinFields_cons_cons]
      | full rs =>
        cases rs with
        | nil => simp [Phrase.append, Phrase.toFields, joinFields_nil_right]
        | cons rf rs => simp [Phrase.append, Phrase.toFields, joinFields_cons_cons]

/-! ## Quote removal -/

theorem skipQuotes_eq_filter (cs : List AttrChar) :
    skipQuotes cs = cs.filter (fun c => !c.isQuoting) := by
  induction cs with
  | nil => rfl
  | cons c cs ih => by_cases h : c.isQuoting <;> simp [skipQuotes, h, ih]

theorem strip_eq_map (cs : List AttrChar) : strip cs = cs.map (·.value) := by
  induction cs with
  | nil => rfl
  | cons c cs ih => simp [strip, ih]

/-- quote removal of a parameter value's characters gives the value back -/
theorem removeQuotes_toField (s : List Char) : removeQuotesAndStrip (toField s) = s := by
  induction s with
  | nil => rfl
  | cons c t ih =>
    simp only [removeQuotesAndStrip, toField] at ih
    simp [removeQuotesAndStrip, toField, skipQuotes, strip, softChar, ih]

theorem removeQuotesAndStrip_append (a b : List AttrChar) :
    removeQuotesAndStrip (a ++ b) = removeQuotesAndStrip a ++ removeQuotesAndStrip b := by
  simp [removeQuotesAndStrip, skipQuotes_eq_filter, strip_eq_map, List.filter_append]

theorem removeQuotes_quoted_map (fs : List AttrChar) (h : ∀ c ∈ fs, c.isQuoting = false) :
    removeQuotesAndStrip (fs.map (fun c => { c with isQuoted := true })) = fs.map (·.value) := by
  induction fs with
  | nil => rfl
  | cons c t ih =>
    have hc : c.isQuoting = false := h c (by simp)
    have ih' : strip (skipQuotes (t.map (fun c => { c with isQuoted := true }))) = t.map (·.value) :=
      ih (fun d hd => h d (by simp [hd]))
    simp [removeQuotesAndStrip, skipQuotes, strip, hc, ih']

/-- quote removal undoes `double_quote::quote_field` on a field without quoting characters -/
theorem removeQuotes_quoteField (fs : List AttrChar) (h : ∀ c ∈ fs, c.isQuoting = false) :
    removeQuotesAndStrip (quoteField fs) = fs.map (·.value) := by
  unfold quoteField
  rw [removeQuotesAndStrip_append, removeQuotesAndStrip_append, removeQuotes_quoted_map fs h]
  simp [removeQuotesAndStrip, skipQuotes, strip, quoteChar]

/-- values of `joinWith` on expansion results -/
theorem joinWith_values (sep : Option Char) (ps : List (List Char)) :
    (joinWith (sep.map softChar) (ps.map toField)).map (·.value) = joinStrings sep ps := by
  induction ps with
  | nil => rfl
  | cons p t ih =>
    cases t with
    | nil => simp [joinWith, joinStrings, toField, softChar, Function.comp_def]
    | cons q r =>
      simp only [List.map_cons, joinWith, joinStrings, List.map_append] at ih ⊢
      rw [ih]
      cases sep <;> simp [toField, softChar, Function.comp_def]

theorem joinWith_not_quoting (sep : Option Char) (ps : List (List Char)) :
    ∀ c ∈ joinWith (sep.map softChar) (ps.map toField), c.isQuoting = false := by
  induction ps with
  | nil => intro c hc; simp [joinWith] at hc
  | cons p t ih =>
    cases t with
    | nil =>
      intro c hc
      simp only [List.map_cons, List.map_nil, joinWith, toField, List.mem_map] at hc
      rcases hc with ⟨_, _, rfl⟩; rfl
    | cons q r =>
      intro c hc
      simp only [List.map_cons, joinWith, List.mem_append] at hc ih
      rcases hc with (hc | hc) | hc
      · simp only [toField, List.mem_map] at hc; rcases hc with ⟨_, _, rfl⟩; rfl
      · cases sep with
        | none => simp at hc
        | some s => simp only [Option.map_some, List.mem_singleton] at hc; subst hc; rfl
      · exact ih c hc

/-- quote removal distributes over `ifs_join`'s concatenation -/
theorem removeQuotes_joinWith_fields (sep : Option Char) (fs : List (List AttrChar)) :
    removeQuotesAndStrip (joinWith (sep.map softChar) fs)
      = joinStrings sep (fs.map removeQuotesAndStrip) := by
  induction fs with
  | nil => rfl
  | cons f t ih =>
    cases t with
    | nil => simp [joinWith, joinStrings]
    | cons g r =>
      simp only [List.map_cons, joinWith, joinStrings, removeQuotesAndStrip_append] at ih ⊢
      rw [ih]
      cases sep <;> simp [removeQuotesAndStrip, skipQuotes, strip, softChar]

theorem ifsSeparator_eq (env : Env) : ifsSeparator env = (sepChar env).map softChar := by
  unfold ifsSeparator sepChar
  rcases env.getValue "IFS" with _ | v
  · rfl
  · cases v <;> rfl

/-! ## Variable contexts and `Env.assign` -/

theorem lookup_setVar (l : List (String × Var)) (n : String) (v : Var) :
    (setVar l n v).lookup n = some v := by
  induction l with
  | nil => simp [setVar]
  | cons p t ih =>
    obtain ⟨m, w⟩ := p
    by_cases h : m = n
    · subst h; simp [setVar]
    · have h' : (n == m) = false := by
        simp only [beq_eq_false_iff_ne, ne_eq]; exact fun e => h e.symm
      simp [setVar, h, List.lookup, h', ih]

theorem lookup_setVar_ne (l : List (String × Var)) (n m : String) (v : Var) (h : m ≠ n) :
    (setVar l n v).lookup m = l.lookup m := by
  induction l with
  | nil =>
    have h' : (m == n) = false := by simpa using h
    simp [setVar, List.lookup, h']
  | cons p t ih =>
    obtain ⟨k, w⟩ := p
    by_cases hk : k = n
    · subst hk
      have h' : (m == k) = false := by simpa using h
      simp [setVar, List.lookup, h']
    · simp only [setVar, hk, if_false, List.lookup]
      rw [ih]

theorem lookupCtxs_none (cs : List (List (String × Var))) (n : String)
    (h : ∀ c ∈ cs, c.lookup n = none) : lookupCtxs cs n = none := by
  induction cs with
  | nil => rfl
  | cons c t ih =>
    simp only [lookupCtxs, h c (by simp)]
    exact ih (fun d hd => h d (by simp [hd]))

theorem setInCtxs_none (cs : List (List (String × Var))) (n : String) (v : Var)
    (h : ∀ c ∈ cs, c.lookup n = none) : setInCtxs cs n v = none := by
  induction cs with
  | nil => rfl
  | cons c t ih =>
    simp only [setInCtxs, h c (by simp)]
    rw [ih (fun d hd => h d (by simp [hd]))]
    rfl

theorem lookupCtxs_setInCtxs (cs cs' : List (List (String × Var))) (n : String) (v : Var)
    (h : setInCtxs cs n v = some cs') : lookupCtxs cs' n = some v := by
  induction cs generalizing cs' with
  | nil => simp [setInCtxs] at h
  | cons c t ih =>
    simp only [setInCtxs] at h
    cases hc : c.lookup n with
    | some w =>
      simp only [hc, Option.some.injEq] at h
      subst h
      simp [lookupCtxs, lookup_setVar]
    | none =>
      simp only [hc, Option.map_eq_some_iff] at h
      obtain ⟨t', ht', rfl⟩ := h
      simp [lookupCtxs, hc, ih t' ht']

theorem lookupCtxs_none_of_setInCtxs (cs : List (List (String × Var))) (n : String) (v : Var)
    (h : setInCtxs cs n v = none) : lookupCtxs cs n = none := by
  induction cs with
  | nil => rfl
  | cons c t ih =>
    simp only [setInCtxs] at h
    cases hcl : c.lookup n with
    | some x => simp [hcl] at h
    | none =>
      simp only [hcl, Option.map_eq_none_iff] at h
      simp [lookupCtxs, hcl, ih h]

/-- a variable that no function context declares is looked up in the global context -/
theorem getValue_global (env : Env) (n : String) (h : ∀ c ∈ env.ctxs, c.lookup n = none) :
    env.getValue n = (env.vars.lookup n).bind (·.value) := by
  simp [Env.getValue, Env.getVar, lookupCtxs_none env.ctxs n h]

/-- after an assignment the value is what the variable expands to, where it was assigned … -/
theorem assign_getValue (env env' : Env) (n : String) (v : List Char)
    (h : env.assign n v = some env') : env'.getValue n = some (.scalar v) := by
  unfold Env.assign at h
  cases hg : env.getVar n with
  | none =>
    simp only [hg, Option.some.injEq] at h
    subst h
    have hl : lookupCtxs env.ctxs n = none := by
      unfold Env.getVar at hg
      cases hc : lookupCtxs env.ctxs n with
      | none => rfl
      | some w => simp [hc] at hg
    simp [Env.getValue, Env.getVar, hl, lookup_setVar]
  | some w =>
    simp only [hg] at h
    by_cases hro : w.readOnly = true
    · simp [hro] at h
    · simp only [hro, Bool.false_eq_true, if_false] at h
      split at h
      · rename_i cs hs
        simp only [Option.some.injEq] at h
        subst h
        simp [Env.getValue, Env.getVar, lookupCtxs_setInCtxs _ _ _ _ hs]
      · rename_i hs
        simp only [Option.some.injEq] at h
        subst h
        have hl : lookupCtxs env.ctxs n = none := lookupCtxs_none_of_setInCtxs _ _ _ hs
        simp [Env.getValue, Env.getVar, hl, lookup_setVar]

/-- … and, when no function call in progress has a local of that name, the value goes to the
    global context and the function contexts are untouched -/
theorem assign_global (env env' : Env) (n : String) (v : List Char)
    (h : env.assign n v = some env') (hnl : ∀ c ∈ env.ctxs, c.lookup n = none) :
    env'.ctxs = env.ctxs ∧ (env'.vars.lookup n).bind (·.value) = some (.scalar v) := by
  unfold Env.assign at h
  have hs : ∀ w, setInCtxs env.ctxs n w = none := fun w => setInCtxs_none env.ctxs n w hnl
  cases hg : env.getVar n with
  | none =>
    simp only [hg, Option.some.injEq] at h
    subst h
    simp [lookup_setVar]
  | some w =>
    simp only [hg] at h
    by_cases hro : w.readOnly = true
    · simp [hro] at h
    · simp only [hro, Bool.false_eq_true, if_false, hs, Option.some.injEq] at h
      subst h
      simp [lookup_setVar]

end YashModel.Expansion
