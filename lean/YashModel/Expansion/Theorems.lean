/-
  C01 — property theorems (and non-vacuity examples) ONLY.  Helper lemmas: `SplitLemmas.lean`,
  `Lemmas.lean`.

  Property text: "For every word and every shell state (variables set, empty or unset; positional
  parameters; any IFS), expansion produces exactly the fields of POSIX XCU 2.6: quotes and
  backslashes protect what they enclose, each parameter-expansion form (`${x}`, `${#x}`, `-` `=`
  `?` `+` with or without `:`, `#` `##` `%` `%%`) selects the documented value, only unquoted
  expansion results are split at IFS (runs of IFS whitespace merge, every other IFS character
  delimits, empty fields survive only from quotes or non-whitespace separators), and `$@`/`$*`
  quoted or not follow their special rules.  With `nounset`, an unset parameter is an error exactly
  where POSIX says so, and the `read` built-in splits a line by the same IFS rules, giving the
  remainder to the last variable."

  All theorems quantify over arbitrary class lists / character lists / IFS values / environments
  (no bound on lengths or on the number of positional parameters).
-/
import YashModel.Expansion.Lemmas
import YashModel.Expansion.FieldLemmas
import YashModel.Expansion.ReadLemmas
namespace YashModel.Expansion

/-! ## Field splitting -/

/-- ★ The split state machine (`Ranges::next`, run to exhaustion from its initial state) yields
    exactly the index ranges of the recursive POSIX splitter, for every class list. -/
theorem ranges_eq_specSplit (cs : List Cls) : ranges .afterNws 0 cs = specSplit cs :=
  ranges_eq_specSplit_cls cs

/-- … hence `split_into` cuts every field exactly as XCU 2.6.5 prescribes, for every IFS and every
    attributed field. -/
theorem splitInto_eq_spec (ifs : Ifs) (field : List AttrChar) :
    splitInto ifs field = specSplitWith ifs.classifyAttr field := by
  simp [splitInto, splitWith, rangesOf, specSplitWith, ranges_eq_specSplit]

/-- The same without indices: `split_into` equals the recursive splitter that works directly on
    the characters (drop leading IFS white space; a field is the maximal run of non-IFS characters;
    a delimiter is `ws* nws? ws*`; repeat). -/
theorem splitWith_eq_specFields {α : Type} (cls : α → Cls) (xs : List α) :
    splitWith cls xs = specFields cls xs := by
  rw [splitWith_eq_fieldsM, fieldsM_eq_specFields]

/-- The whole pipeline `expand_word_multiple` (initial expansion → split → quote removal) equals
    the pipeline with the POSIX splitter, for every word, environment and IFS. -/
theorem expandWordMultiple_eq_spec (env : Env) (w : Word) :
    expandWordMultiple env w = specExpandWordMultiple env w := by
  unfold expandWordMultiple specExpandWordMultiple
  rcases expandWord env true w with ⟨env', r⟩
  cases r with
  | error e => rfl
  | ok ph =>
    have h : splitInto env'.ifs = specFields env'.ifs.classifyAttr := by
      funext f
      exact splitWith_eq_specFields _ f
    simp only [h]

/-- Multi-word assembly (`expand_words`: `for` lists, array assignments, command arguments): the
    fields of a word list are those of the POSIX pipeline word by word, in order, each word expanded
    in the environment its predecessors left; the first error stops the list. -/
theorem expandWords_eq_spec (ws : List Word) :
    ∀ env : Env, expandWords env ws = specExpandWords env ws := by
  induction ws with
  | nil => intro env; rfl
  | cons w ws ih =>
    intro env
    simp only [expandWords, specExpandWords, expandWordMultiple_eq_spec]
    rcases specExpandWordMultiple env w with ⟨env', r⟩
    cases r with
    | error e => rfl
    | ok fs =>
      simp only
      rw [ih env']
      rfl

/-- ★ Splitting partitions the input: (1) the fields, concatenated, are exactly the non-IFS
    characters in their original order (nothing lost, duplicated or reordered; every separator
    dropped); (2) no field contains an IFS character; (3) an empty field `k..k` arises only at a
    non-white-space IFS character whose nearest preceding character other than IFS white space is
    not a field character (start of input or another non-white-space separator), i.e. runs of IFS
    white space merge and never produce empty fields. -/
theorem split_partition {α : Type} (cls : α → Cls) (xs : List α) :
    (splitWith cls xs).flatten = xs.filter (fun x => decide (cls x = .non)) ∧
    (∀ f ∈ splitWith cls xs, ∀ c ∈ f, cls c = .non) ∧
    (∀ k, (k, k) ∈ rangesOf cls xs →
        (xs.map cls)[k]? = some .nws ∧ lastNonWs ((xs.map cls).take k) ≠ some .non) := by
  refine ⟨?_, ?_, ?_⟩
  · rw [splitWith_eq_fieldsM, fieldsM_flatten]; simp [FSt.acc]
  · rw [splitWith_eq_fieldsM]
    exact fieldsM_non cls xs .afterNws (by simp [FSt.acc])
  · intro k hk
    have h := ranges_empty (xs.map cls) .afterNws [] (by simp [StOk, lastNonWs]) k
      (by simpa [rangesOf] using hk)
    simpa using h

/-- `split_partition` for the real classifier -/
theorem splitInto_partition (ifs : Ifs) (field : List AttrChar) :
    (splitInto ifs field).flatten = field.filter (fun c => decide (ifs.classifyAttr c = .non)) ∧
    (∀ f ∈ splitInto ifs field, ∀ c ∈ f, ifs.classifyAttr c = .non) :=
  ⟨(split_partition ifs.classifyAttr field).1, (split_partition ifs.classifyAttr field).2.1⟩

example : rangesOf (Ifs.new [':', ' ']).classify ":a: :b".toList = [(0, 0), (1, 2), (4, 4), (5, 6)] := by
  decide

/-- ★ Quotes protect what they enclose: a field all of whose characters are quoted, quoting, or
    not the result of a parameter expansion is never split, whatever IFS is. -/
theorem quoted_never_split (ifs : Ifs) (cs : List AttrChar)
    (h : ∀ c ∈ cs, c.isQuoted = true ∨ c.isQuoting = true ∨ c.origin ≠ .softExpansion) :
    splitInto ifs cs = if cs = [] then [] else [cs] := by
  unfold splitInto
  rw [splitWith_eq_fieldsM]
  apply fieldsM_start_allNon
  intro c hc
  rcases h c hc with h1 | h1 | h1
  · simp [Ifs.classifyAttr, h1]
  · simp [Ifs.classifyAttr, h1]
  · simp only [Ifs.classifyAttr]
    have : (c.origin != .softExpansion) = true := by simpa using h1
    simp [this]

example : ∀ c ∈ quoteField (toField "a b".toList),
    c.isQuoted = true ∨ c.isQuoting = true ∨ c.origin ≠ .softExpansion := by decide

/-! ## Phrase algebra -/

/-- ★ `Phrase::append` denotes concatenation of field lists where the last field of the left
    operand is glued to the first field of the right one — for all nine shape combinations. -/
theorem append_denote (a b : Phrase) :
    (a.append b).toFields = joinFields a.toFields b.toFields := by
  cases a with
  | char l =>
    cases b with
    | char r => simp [Phrase.append, Phrase.toFields, joinFields]
    | field r => simp [Phrase.append, Phrase.toFields, joinFields]
    | full rs => cases rs <;> simp [Phrase.append, Phrase.toFields, joinFields]
  | field l =>
    cases b with
    | char r => simp [Phrase.append, Phrase.toFields, joinFields]
    | field r => simp [Phrase.append, Phrase.toFields, joinFields]
    | full rs => cases rs <;> simp [Phrase.append, Phrase.toFields, joinFields]
  | full ls =>
    cases ls with
    | nil =>
      cases b with
      | char r => simp [Phrase.append, Phrase.toFields, joinFields]
      | field r => simp [Phrase.append, Phrase.toFields, joinFields]
      | full rs => cases rs <;> simp [Phrase.append, Phrase.toFields, joinFields]
    | cons lf ls =>
      cases b with
      | char r => simp [Phrase.append, Phrase.toFields, joinFields_cons_cons]
      | field r => simp [Phrase.append, Phrase.toFields, joinFields_cons_cons]
      | full rs =>
        cases rs with
        | nil => simp [Phrase.append, Phrase.toFields, joinFields_nil_right]
        | cons rf rs => simp [Phrase.append, Phrase.toFields, joinFields_cons_cons]

/-- ☆ Appending is associative on denotations: the fold of `impl Expand for [T]` over the units of
    a word gives the same fields however the partial results are grouped. -/
theorem append_assoc (a b c : Phrase) :
    ((a.append b).append c).toFields = (a.append (b.append c)).toFields := by
  simp only [append_denote, joinFields_assoc]

/-! ## Switch modifiers -/

/-- ★ The decision taken by `switch::apply` is the entry of the XCU 2.6.2 table, for every action,
    with and without colon, and every vacancy class of the value (the quantifier is finite: the
    whole table is checked by case analysis). -/
theorem switch_table (act : SwAction) (cond : SwCond) (vac : Option Vacancy) :
    outcomeOf (switchDecision act (ValueCondition.with_ cond vac)) (PState.ofVacancy vac)
      = posixTable act cond (PState.ofVacancy vac) := by
  cases act <;> cases cond <;> rcases vac with _ | v <;> (try cases v) <;> rfl

/-- the same for every parameter value -/
theorem switch_table_value (act : SwAction) (cond : SwCond) (v : Option Value) :
    outcomeOf (switchDecision act (ValueCondition.with_ cond (Vacancy.of v))) (PState.of v)
      = posixTable act cond (PState.of v) :=
  switch_table act cond (Vacancy.of v)

/-- With `nounset`, an unset parameter is an error exactly in the forms without a switch
    modifier (`$p`, `${p}`, `${#p}`, `${p#w}` …), before anything else is evaluated … -/
theorem nounset_error_plain (env : Env) (ws : Bool) (p : Param) (m : Modifier)
    (hm : ∀ cond act w, m ≠ .switch cond act w) (hn : env.nounset = true) :
    expandParam env ws p none m = (env, .error .unsetParameter) := by
  cases m with
  | none => simp [expandParam, hn]
  | length => simp [expandParam, hn]
  | trim side len w => simp [expandParam, hn]
  | switch cond act w => exact absurd rfl (hm cond act w)

/-- … and a set parameter never is, whatever the option says -/
theorem nounset_no_error_when_set (env : Env) (ws : Bool) (p : Param) (v : Value) :
    expandParam env ws p (some v) .none = (env, .ok (finishParam env ws p (some v))) ∧
    expandParam env ws p (some v) .length = (env, .ok (finishParam env ws p (lengthOf (some v)))) := by
  simp [expandParam]

/-- … while a switch modifier is never a `nounset` error: when the table says "substitute
    parameter / null" the expansion is the parameter's own (possibly absent) value, even for an
    unset parameter under `set -u` (e.g. `${u+w}`). -/
theorem switch_skip_no_error (env : Env) (ws : Bool) (p : Param) (v : Option Value)
    (cond : SwCond) (act : SwAction) (w : Word)
    (h : switchDecision act (ValueCondition.with_ cond (Vacancy.of v)) = .skip) :
    expandParam env ws p v (.switch cond act w) = (env, .ok (finishParam env ws p v)) := by
  simp [expandParam, h]

example : switchDecision .alter (ValueCondition.with_ .unset (Vacancy.of none)) = .skip := by decide

/-! ## `"$@"` and `"$*"` -/

/-- the word `"$@"` -/
def wordDqAt : Word := .cons (.dq (.cons (.param .at .none) .nil)) .nil
/-- the word `"$*"` -/
def wordDqStar : Word := .cons (.dq (.cons (.param .star .none) .nil)) .nil

theorem removeQuotes_quoteField_toField (p : List Char) :
    removeQuotesAndStrip (quoteField (toField p)) = p := by
  simp only [removeQuotesAndStrip, skipQuotes_eq_filter, strip_eq_map, quoteField, toField]
  simp [List.filter_append, List.filter_map, quoteChar, softChar, Function.comp_def]

theorem quoteField_protected (cs : List AttrChar) :
    ∀ c ∈ quoteField cs, c.isQuoted = true ∨ c.isQuoting = true ∨ c.origin ≠ .softExpansion := by
  intro c hc
  simp only [quoteField, List.mem_append, List.mem_singleton, List.mem_map] at hc
  rcases hc with (hc | ⟨d, _, hd⟩) | hc
  · subst hc; simp [quoteChar]
  · subst hd; simp
  · subst hc; simp [quoteChar]

/-- ★ `"$@"` expands, in every environment and for every IFS, to exactly the positional
    parameters: zero fields when there are none, otherwise one field per parameter with exactly
    its value (empty parameters stay as empty fields; nothing is split). -/
theorem dquote_at_fields (env : Env) :
    expandWordMultiple env wordDqAt = (env, .ok env.pos) := by
  have h1 : expandWord env true wordDqAt
      = (env, .ok (.full (env.pos.map (fun p => quoteField (toField p))))) := by
    simp only [wordDqAt, expandWord, expandWordUnit, Text.isNil, expandTextGo, expandTextUnit,
      resolve, expandParam]
    simp only [Option.isNone, Bool.false_and, Bool.false_eq_true, if_false, finishParam]
    have hne : (Param.at == Param.star) = false := by decide
    simp only [hne, Bool.and_false, Bool.false_eq_true, if_false, intoPhrase, Phrase.zeroFields]
    cases hp : env.pos with
    | nil => simp [Phrase.append, doubleQuote, expandWordGo]
    | cons a t => simp [Phrase.append, doubleQuote, expandWordGo]
  simp only [expandWordMultiple, h1, Phrase.toFields]
  congr 1
  congr 1
  induction env.pos with
  | nil => rfl
  | cons p ps ih =>
    simp only [List.map_cons, List.flatMap_cons, List.map_append]
    rw [ih, quoted_never_split _ _ (quoteField_protected _)]
    have hne : quoteField (toField p) ≠ [] := by simp [quoteField]
    simp [hne, removeQuotes_quoteField_toField]

/-- ★ `"$@"` with no positional parameters denotes zero fields; `"$*"` always denotes exactly one
    field (here: the empty one). -/
theorem dquote_at_zero_params (env : Env) (h : env.pos = []) :
    expandWordMultiple env wordDqAt = (env, .ok []) ∧
    expandWordMultiple env wordDqStar = (env, .ok [[]]) := by
  refine ⟨by rw [dquote_at_fields, h], ?_⟩
  have h1 : expandWord env true wordDqStar = (env, .ok (.field (quoteField []))) := by
    simp only [wordDqStar, expandWord, expandWordUnit, Text.isNil, expandTextGo, expandTextUnit,
      resolve, expandParam]
    simp only [Option.isNone, Bool.false_and, Bool.false_eq_true, if_false, finishParam]
    simp [h, intoPhrase, Phrase.ifsJoin, joinWith, Phrase.zeroFields, Phrase.append,
      doubleQuote, expandWordGo]
  simp only [expandWordMultiple, h1, Phrase.toFields, List.flatMap_cons, List.flatMap_nil,
    List.append_nil]
  rw [quoted_never_split _ _ (quoteField_protected _)]
  simp [quoteField, removeQuotesAndStrip, skipQuotes, strip, quoteChar]

example : (expandWordMultiple
    { vars := [], pos := ["a b".toList, [], ":".toList], nounset := true, exitStatus := 0, arg0 := [] }
    wordDqAt).2 = .ok ["a b".toList, [], ":".toList] := by rw [dquote_at_fields]

/-- In a single-field context (scalar assignment `v=…`, declaration utilities, here-documents:
    `expand_word`) `"$*"` and `"$@"` both give the positional parameters joined by the first
    character of IFS (a space when IFS is unset, nothing when it is empty), for every environment
    and any number of parameters. -/
theorem single_field_dquote_params (env : Env) :
    expandWordSingle env wordDqStar = (env, .ok (joinStrings (sepChar env) env.pos)) ∧
    expandWordSingle env wordDqAt = (env, .ok (joinStrings (sepChar env) env.pos)) := by
  constructor
  · have h1 : expandWord env true wordDqStar
        = (env, .ok (.field (quoteField (joinWith (ifsSeparator env) (env.pos.map toField))))) := by
      simp only [wordDqStar, expandWord, expandWordUnit, Text.isNil, expandTextGo, expandTextUnit,
        resolve, expandParam]
      simp [finishParam, intoPhrase, Phrase.ifsJoin, Phrase.zeroFields, Phrase.append,
        doubleQuote, expandWordGo]
    simp only [expandWordSingle, h1, Phrase.ifsJoin, ifsSeparator_eq]
    rw [removeQuotes_quoteField _ (joinWith_not_quoting _ _), joinWith_values]
  · have h1 : expandWord env true wordDqAt
        = (env, .ok (.full (env.pos.map (fun p => quoteField (toField p))))) := by
      simp only [wordDqAt, expandWord, expandWordUnit, Text.isNil, expandTextGo, expandTextUnit,
        resolve, expandParam]
      simp only [Option.isNone, Bool.false_and, Bool.false_eq_true, if_false, finishParam]
      have hne : (Param.at == Param.star) = false := by decide
      simp only [hne, Bool.and_false, Bool.false_eq_true, if_false, intoPhrase, Phrase.zeroFields]
      cases hp : env.pos with
      | nil => simp [Phrase.append, doubleQuote, expandWordGo]
      | cons a t => simp [Phrase.append, doubleQuote, expandWordGo]
    simp only [expandWordSingle, h1, Phrase.ifsJoin, ifsSeparator_eq]
    rw [removeQuotes_joinWith_fields]
    have : (env.pos.map (fun p => quoteField (toField p))).map removeQuotesAndStrip = env.pos := by
      simp [Function.comp_def, removeQuotes_quoteField_toField]
    rw [this]

/-! ## The braced-parameter lexer -/

/-- The `${#…}` ambiguity is resolved as XCU 2.6.2 requires: `${#}` is `$#`; `${##}`, `${#-}`,
    `${#?}` are the lengths of `$#`, `$-`, `$?`; `${#x}` is a length and `${x#p}` a trim; `${#-w}`,
    `${#:-w}`, `${##p}`, `${#%p}` apply a switch/trim to `$#`; a length prefix together with a suffix
    modifier is an error.  (Finite table of the special cases, checked by evaluation.) -/
theorem lex_hash_forms :
    (lexBraced false "#}".toList).map (fun b => (b.id, b.modifier)) = .ok (['#'], .none) ∧
    (lexBraced false "##}".toList).map (fun b => (b.id, b.modifier)) = .ok (['#'], .length) ∧
    (lexBraced false "#-}".toList).map (fun b => (b.id, b.modifier)) = .ok (['-'], .length) ∧
    (lexBraced false "#?}".toList).map (fun b => (b.id, b.modifier)) = .ok (['?'], .length) ∧
    (lexBraced false "#x}".toList).map (fun b => (b.id, b.modifier)) = .ok (['x'], .length) ∧
    (lexBraced false "x#p}".toList).map (fun b => (b.id, b.modifier)) = .ok (['x'], .trim '#' false ['p']) ∧
    (lexBraced false "#-w}".toList).map (fun b => (b.id, b.modifier)) = .ok (['#'], .switch false '-' ['w']) ∧
    (lexBraced false "#:-w}".toList).map (fun b => (b.id, b.modifier)) = .ok (['#'], .switch true '-' ['w']) ∧
    (lexBraced false "##p}".toList).map (fun b => (b.id, b.modifier)) = .ok (['#'], .trim '#' false ['p']) ∧
    (lexBraced false "#%p}".toList).map (fun b => (b.id, b.modifier)) = .ok (['#'], .trim '%' false ['p']) ∧
    (lexBraced false "#x-w}".toList).map (fun b => (b.id, b.modifier)) = .error .multipleModifier ∧
    (lexBraced false "x:#p}".toList).map (fun b => (b.id, b.modifier)) = .error .invalidModifier ∧
    (lexBraced false "00}".toList).map (fun b => (b.id, b.param)) = .ok (['0', '0'], .pos 0) ∧
    (lexBraced false "10}".toList).map (fun b => (b.id, b.param)) = .ok (['1', '0'], .pos 10) ∧
    (lexBraced false "0}".toList).map (fun b => (b.id, b.param)) = .ok (['0'], .zero) ∧
    (lexBraced true "@-w}".toList).map (fun b => (b.id, b.modifier)) = .error .nonPortable :=
  ⟨rfl, rfl, rfl, rfl, rfl, rfl, rfl, rfl, rfl, rfl, rfl, rfl, rfl, rfl, rfl, rfl⟩

/-- `${p:-w}` versus `${p-w}` (and `= ? +`): after any parameter, an optional colon followed by one
    of the four switch symbols starts a switch whose condition is "unset or empty" exactly when the
    colon is present, and whose word runs to the first closing brace — for every word without `}`. -/
theorem lexSuffix_switch (colon : Bool) (act : Char) (w rest : List Char)
    (ha : act = '+' ∨ act = '-' ∨ act = '=' ∨ act = '?') (hw : ∀ c ∈ w, c ≠ '}') :
    lexSuffix ((if colon then [':'] else []) ++ act :: (w ++ '}' :: rest))
      = .ok (.switch colon act w, '}' :: rest) := by
  have aux : ∀ v : List Char, (∀ c ∈ v, c ≠ '}') →
      (v ++ '}' :: rest).takeWhile (· != '}') = v ∧
      (v ++ '}' :: rest).dropWhile (· != '}') = '}' :: rest := by
    intro v
    induction v with
    | nil => intro _; simp
    | cons c t ih =>
      intro hv
      have hc : c ≠ '}' := hv c (by simp)
      have ⟨h1, h2⟩ := ih (fun d hd => hv d (by simp [hd]))
      simp only [List.cons_append, List.takeWhile_cons, List.dropWhile_cons]
      simp [hc, h1, h2]
  have ⟨htw, hdw⟩ := aux w hw
  have hne : act ≠ ':' := by rcases ha with h | h | h | h <;> subst h <;> decide
  have hact : (act == '+' || act == '-' || act == '=' || act == '?') = true := by
    rcases ha with h | h | h | h <;> subst h <;> decide
  cases colon with
  | true =>
    simp only [if_true, List.singleton_append, lexSuffix, List.head?_cons, List.tail_cons]
    simp [hact, htw, hdw]
  | false =>
    simp only [Bool.false_eq_true, if_false, List.nil_append, lexSuffix, List.head?_cons]
    have : (some act == some ':') = false := by simp [hne]
    simp [this, hact, htw, hdw]

example : lexSuffix ":-a b}c".toList = .ok (.switch true '-' "a b".toList, "}c".toList) := rfl

/-! ## Quote removal -/

/-- ★ Quote removal and attribute stripping output exactly the values of the characters that are
    not quoting characters, in order (nothing else is removed, nothing is added). -/
theorem quoteRemoval_exact (cs : List AttrChar) :
    removeQuotesAndStrip cs = (cs.filter (fun c => !c.isQuoting)).map (·.value) := by
  simp [removeQuotesAndStrip, skipQuotes_eq_filter, strip_eq_map]

/-- Quotes and backslashes protect what they enclose: a single-quoted string, as a whole word,
    expands to exactly one field containing exactly the enclosed characters, for every IFS. -/
theorem single_quote_exact (env : Env) (s : List Char) :
    expandWordMultiple env (.cons (.sq s) .nil) = (env, .ok [s]) := by
  simp only [expandWordMultiple, expandWord, expandWordUnit, expandWordGo, singleQuote,
    Phrase.zeroFields, Phrase.append, Phrase.toFields, List.flatMap_cons, List.flatMap_nil,
    List.append_nil]
  rw [quoted_never_split]
  · simp [removeQuotesAndStrip, skipQuotes_eq_filter, strip_eq_map, List.filter_append,
      List.filter_map, quoteChar, quotedLit, Function.comp_def]
  · intro c hc
    simp only [List.mem_append, List.mem_singleton, List.mem_map] at hc
    rcases hc with (hc | ⟨d, _, hd⟩) | hc
    · subst hc; simp [quoteChar]
    · subst hd; simp [quotedLit]
    · subst hc; simp [quoteChar]

/-! ## `read` -/

/-- ☆ The `read` built-in's assignment (`assigning::assign`: fields from the split machine, the
    last variable's range extended to the last character that is not IFS white space) gives every
    variable exactly what XCU `read` prescribes on the POSIX field splitting of the line: variable
    `k` receives field `k` (empty if there is none) and the last variable receives its field, or —
    when more fields follow — the rest of the line from the start of its field without trailing
    IFS white space.  For every IFS, every line and every number of variables. -/
theorem read_eq_specRead (ifs : Ifs) (text : List AttrChar) (nBefore : Nat) :
    readAssign ifs text nBefore = specRead ifs text nBefore :=
  readAssign_eq_specRead ifs text nBefore

example : readAssign (Ifs.new [' ', ':']) ((" a: b c  ".toList).map plainChar) 1
    = ["a".toList, "b c".toList] := by decide

end YashModel.Expansion
