/-
  C01 — property theorems (and non-vacuity examples) ONLY.  Helper lemmas: `SplitLemmas.lean`,
  `Lemmas.lean`.

  Property text: "For every word and every shell state (variables set, empty or unset; positional
  parameters; any IFS), expansion produces exactly the fields of POSIX XCU 2.6: quotes and
  backslashes protect what they enclose, each parameter-expansion form (`${x}`, `${#x}`, `-` `=`
  `?` `+` with or without `:`, `#` `##` `%` `%%`) selects the documented value, only unquoted
  expansion results are split at IFS (runs of IFS whitespace merge, every other IFS character
  delimits, empty fields survive only from quotes or non-whitespace separators), and `$@`/`$*`
  quoted or not follow their special rules.  With `nounset`, an unset parameter is an error exactly
  where POSIX says so, and the `read` built-in splits a line by the same IFS rules, giving the
  remainder to the last variable."

  All theorems quantify over arbitrary class lists / character lists / IFS values / environments
  (no bound on lengths or on the number of positional parameters).
-/
import YashModel.Expansion.WordBridge
import YashModel.Expansion.Lemmas
import YashModel.Expansion.FieldLemmas
import YashModel.Expansion.ReadLemmas
import YashModel.Expansion.PipelineLemmas
import YashModel.Expansion.QuoteLemmas
import YashModel.Expansion.TrimLemmas
import YashModel.Expansion.LexLemmas
namespace YashModel.Expansion

/-! ## Field splitting -/

/-- ★ The split state machine (`Ranges::next`, run to exhaustion from its initial state) yields
    exactly the index ranges of the recursive POSIX splitter, for every class list. -/
theorem ranges_eq_specSplit (cs : List Cls) : ranges .afterNws 0 cs = specSplit cs :=
  ranges_eq_specSplit_cls cs

/-- … hence `split_into` cuts every field exactly as XCU 2.6.5 prescribes, for every IFS and every
    attributed field. -/
theorem splitInto_eq_spec (ifs : Ifs) (field : List AttrChar) :
    splitInto ifs field = specSplitWith ifs.classifyAttr field := by
  simp [splitInto, splitWith, rangesOf, specSplitWith, ranges_eq_specSplit]

/-- The same without indices: `split_into` equals the recursive splitter that works directly on
    the characters (drop leading IFS white space; a field is the maximal run of non-IFS characters;
    a delimiter is `ws* nws? ws*`; repeat). -/
theorem splitWith_eq_specFields {α : Type} (cls : α → Cls) (xs : List α) :
    splitWith cls xs = specFields cls xs := by
  rw [splitWith_eq_fieldsM, fieldsM_eq_specFields]

/-- The whole pipeline `expand_word_multiple` (initial expansion → split → quote removal) equals
    the pipeline with the POSIX splitter, for every word, environment and IFS. -/
theorem expandWordMultiple_eq_spec (env : Env) (w : Word) :
    expandWordMultiple env w = specExpandWordMultiple env w := by
  unfold expandWordMultiple specExpandWordMultiple
  rcases expandWord env true w with ⟨env', r⟩
  cases r with
  | error e => rfl
  | ok ph =>
    have h : splitInto env'.ifs = specFields env'.ifs.classifyAttr := by
      funext f
      exact splitWith_eq_specFields _ f
    simp only [h]

/-- Multi-word assembly (`expand_words`: `for` lists, array assignments, command arguments): the
    fields of a word list are those of the POSIX pipeline word by word, in order, each word expanded
    in the environment its predecessors left; the first error stops the list. -/
theorem expandWords_eq_spec (ws : List Word) :
    ∀ env : Env, expandWords env ws = specExpandWords env ws := by
  induction ws with
  | nil => intro env; rfl
  | cons w ws ih =>
    intro env
    simp only [expandWords, specExpandWords, expandWordMultiple_eq_spec]
    rcases specExpandWordMultiple env w with ⟨env', r⟩
    cases r with
    | error e => rfl
    | ok fs =>
      simp only
      rw [ih env']
      rfl

/-- ★ Splitting partitions the input: (1) the fields, concatenated, are exactly the non-IFS
    characters in their original order (nothing lost, duplicated or reordered; every separator
    dropped); (2) no field contains an IFS character; (3) an empty field `k..k` arises only at a
    non-white-space IFS character whose nearest preceding character other than IFS white space is
    not a field character (start of input or another non-white-space separator), i.e. runs of IFS
    white space merge and never produce empty fields. -/
theorem split_partition {α : Type} (cls : α → Cls) (xs : List α) :
    (splitWith cls xs).flatten = xs.filter (fun x => decide (cls x = .non)) ∧
    (∀ f ∈ splitWith cls xs, ∀ c ∈ f, cls c = .non) ∧
    (∀ k, (k, k) ∈ rangesOf cls xs →
        (xs.map cls)[k]? = some .nws ∧ lastNonWs ((xs.map cls).take k) ≠ some .non) := by
  refine ⟨?_, ?_, ?_⟩
  · rw [splitWith_eq_fieldsM, fieldsM_flatten]; simp [FSt.acc]
  · rw [splitWith_eq_fieldsM]
    exact fieldsM_non cls xs .afterNws (by simp [FSt.acc])
  · intro k hk
    have h := ranges_empty (xs.map cls) .afterNws [] (by simp [StOk, lastNonWs]) k
      (by simpa [rangesOf] using hk)
    simpa using h

/-- `split_partition` for the real classifier -/
theorem splitInto_partition (ifs : Ifs) (field : List AttrChar) :
    (splitInto ifs field).flatten = field.filter (fun c => decide (ifs.classifyAttr c = .non)) ∧
    (∀ f ∈ splitInto ifs field, ∀ c ∈ f, ifs.classifyAttr c = .non) :=
  ⟨(split_partition ifs.classifyAttr field).1, (split_partition ifs.classifyAttr field).2.1⟩

example : rangesOf (Ifs.new [':', ' ']).classify ":a: :b".toList = [(0, 0), (1, 2), (4, 4), (5, 6)] := by
  decide

/-- ★ Quotes protect what they enclose: a field all of whose characters are quoted, quoting, or
    not the result of a parameter expansion is never split, whatever IFS is. -/
theorem quoted_never_split (ifs : Ifs) (cs : List AttrChar)
    (h : ∀ c ∈ cs, c.isQuoted = true ∨ c.isQuoting = true ∨ c.origin ≠ .softExpansion) :
    splitInto ifs cs = if cs = [] then [] else [cs] := by
  unfold splitInto
  rw [splitWith_eq_fieldsM]
  apply fieldsM_start_allNon
  intro c hc
  rcases h c hc with h1 | h1 | h1
  · simp [Ifs.classifyAttr, h1]
  · simp [Ifs.classifyAttr, h1]
  · simp only [Ifs.classifyAttr]
    have : (c.origin != .softExpansion) = true := by simpa using h1
    simp [this]

example : ∀ c ∈ quoteField (toField "a b".toList),
    c.isQuoted = true ∨ c.isQuoting = true ∨ c.origin ≠ .softExpansion := by decide

/-! ## Phrase algebra -/

/-- ★ `Phrase::append` denotes concatenation of field lists where the last field of the left
    operand is glued to the first field of the right one — for all nine shape combinations. -/
theorem append_denote (a b : Phrase) :
    (a.append b).toFields = joinFields a.toFields b.toFields :=
  append_toFields a b

/-- ☆ Appending is associative on denotations: the fold of `impl Expand for [T]` over the units of
    a word gives the same fields however the partial results are grouped. -/
theorem append_assoc (a b c : Phrase) :
    ((a.append b).append c).toFields = (a.append (b.append c)).toFields := by
  simp only [append_denote, joinFields_assoc]

/-- ★ Every operation on a `Phrase` commutes with its denotation (`toFields`), for every constructor shape — a single
    `Char`, one `Field` (empty or not), `Full` with no, one or several fields: `for_each_char_mut` (`mapChars`, hence the
    re-attribution `switch::attribute`) maps every character of every field; `append` glues last to first; `ifs_join`
    joins with the `$*` separator; `double_quote` wraps every field; the conversion to fields, field splitting and quote
    removal only look at the denotation. -/
theorem phrase_operations_denote (p q : Phrase) (f : AttrChar → AttrChar) (env : Env) :
    (p.mapChars f).toFields = p.toFields.map (·.map f) ∧
    (reattribute p).toFields = soften p.toFields ∧
    (p.append q).toFields = joinFields p.toFields q.toFields ∧
    p.ifsJoin env = joinBySep env p.toFields ∧
    (doubleQuote p).toFields = p.toFields.map quoteField := by
  refine ⟨?_, toFields_reattribute p, append_toFields p q, ifsJoin_eq p env, toFields_doubleQuote p⟩
  cases p <;> simp [Phrase.mapChars, Phrase.toFields]

/-- ★ Representation independence: two phrases that denote the same fields — whatever their shapes — are
    indistinguishable by every operation of the expansion: re-attribution, `for_each_char_mut` with any function,
    appending on either side, `$*` joining, double-quoting, and the final splitting / quote removal of
    `expand_word_multiple` (which reads `toFields` only). -/
theorem phrase_representation_independent (p q : Phrase) (h : p.toFields = q.toFields) :
    (∀ f, (p.mapChars f).toFields = (q.mapChars f).toFields) ∧
    (reattribute p).toFields = (reattribute q).toFields ∧
    (∀ r : Phrase, (p.append r).toFields = (q.append r).toFields) ∧
    (∀ r : Phrase, (r.append p).toFields = (r.append q).toFields) ∧
    (∀ env, p.ifsJoin env = q.ifsJoin env) ∧
    (doubleQuote p).toFields = (doubleQuote q).toFields ∧
    (∀ ifs, (p.toFields.flatMap (splitInto ifs)).map removeQuotesAndStrip =
            (q.toFields.flatMap (splitInto ifs)).map removeQuotesAndStrip) := by
  refine ⟨fun f => ?_, ?_, fun r => ?_, fun r => ?_, fun env => ?_, ?_, fun ifs => by rw [h]⟩
  · have hm : ∀ x : Phrase, (x.mapChars f).toFields = x.toFields.map (·.map f) := by
      intro x; cases x <;> simp [Phrase.mapChars, Phrase.toFields]
    rw [hm p, hm q, h]
  · rw [toFields_reattribute, toFields_reattribute, h]
  · rw [append_toFields, append_toFields, h]
  · rw [append_toFields, append_toFields, h]
  · rw [ifsJoin_eq, ifsJoin_eq, h]
  · rw [toFields_doubleQuote, toFields_doubleQuote, h]

/-- A one-character phrase in its three representations — `Char(c)`, `Field([c])`, `Full([[c]])` — denotes the same
    single field, so by `phrase_representation_independent` a one-character word behaves like the one-element field
    everywhere; in particular its re-attribution softens that character in all three shapes. -/
theorem one_char_shapes (c : AttrChar) :
    (Phrase.char c).toFields = [[c]] ∧ (Phrase.field [c]).toFields = [[c]] ∧ (Phrase.full [[c]]).toFields = [[c]] ∧
    reattribute (.char c) = .char (softenChar c) ∧ reattribute (.field [c]) = .field [softenChar c] ∧
    reattribute (.full [[c]]) = .full [[softenChar c]] ∧
    (∀ env, (Phrase.char c).ifsJoin env = [c] ∧ (Phrase.field [c]).ifsJoin env = [c] ∧ (Phrase.full [[c]]).ifsJoin env = [c]) :=
  ⟨rfl, rfl, rfl, rfl, rfl, rfl, fun _ => ⟨rfl, rfl, rfl⟩⟩

/-- The seeded mistake of round 7 as a statement: the word of a switch that consists of ONE literal character is
    substituted as a soft expansion — it is split like any other expansion result.  `${u-c}` with `u` unset and `c` an
    IFS character yields no field at all (one delimiter), for every environment whose IFS contains `c`. -/
theorem one_char_switch_word_is_soft (env : Env) (c : Char) (hu : env.getValue "u" = none) :
    (expandWord env true (.cons (.unq (.param (.var "u") (.switch .unset .default (.cons (.unq (.lit c)) .nil)))) .nil)).2
      = .ok (.char (softChar c)) := by
  simp [expandWord, expandWordUnit, expandTextUnit, expandParam, resolve, hu, Vacancy.of, ValueCondition.with_,
    switchDecision, expandWordGo, reattribute, Phrase.mapChars, softenChar, softChar, Phrase.zeroFields, Phrase.append]

/-! ## Switch modifiers -/

def vacancyName : Vacancy → String
  | .unset => "Unset" | .emptyScalar => "EmptyScalar" | .valuelessArray => "ValuelessArray" | .emptyValueArray => "EmptyValueArray"

def valueConditionName : ValueCondition → String
  | .occupied => "Occupied"
  | .vacant v => "Vacant:" ++ vacancyName v

/-- `ValueCondition::with` of the code — evaluated from param/switch.rs on every run, on every pair (condition,
    vacancy), whatever the grouping of its match arms — IS the model's `ValueCondition.with_`. -/
theorem value_condition_table_agrees :
    Generated.ExpansionTables.valueConditionTable =
      ([(SwCond.unset, "Unset"), (SwCond.unsetOrEmpty, "UnsetOrEmpty")].flatMap fun c =>
        ([(none, "None"), (some Vacancy.unset, "Unset"), (some .emptyScalar, "EmptyScalar"),
          (some .valuelessArray, "ValuelessArray"), (some .emptyValueArray, "EmptyValueArray")].map fun v =>
          (c.2, v.2, valueConditionName (ValueCondition.with_ c.1 v.1)))) := by
  decide

/-- ★ The decision taken by `switch::apply` is the entry of the XCU 2.6.2 table, for every action,
    with and without colon, and every vacancy class of the value (the quantifier is finite: the
    whole table is checked by case analysis). -/
theorem switch_table (act : SwAction) (cond : SwCond) (vac : Option Vacancy) :
    outcomeOf (switchDecision act (ValueCondition.with_ cond vac)) (PState.ofVacancy vac)
      = posixTable act cond (PState.ofVacancy vac) := by
  cases act <;> cases cond <;> rcases vac with _ | v <;> (try cases v) <;> rfl

/-- the same for every parameter value -/
theorem switch_table_value (act : SwAction) (cond : SwCond) (v : Option Value) :
    outcomeOf (switchDecision act (ValueCondition.with_ cond (Vacancy.of v))) (PState.of v)
      = posixTable act cond (PState.of v) :=
  switch_table act cond (Vacancy.of v)

/-- With `nounset`, an unset parameter is an error exactly in the forms without a switch
    modifier (`$p`, `${p}`, `${#p}`, `${p#w}` …), before anything else is evaluated … -/
theorem nounset_error_plain (env : Env) (ws : Bool) (p : Param) (m : Modifier)
    (hm : ∀ cond act w, m ≠ .switch cond act w) (hn : env.nounset = true) :
    expandParam env ws p none m = (env, .error .unsetParameter) := by
  cases m with
  | none => simp [expandParam, hn]
  | length => simp [expandParam, hn]
  | trim side len w => simp [expandParam, hn]
  | switch cond act w => exact absurd rfl (hm cond act w)

/-- … and a set parameter never is, whatever the option says -/
theorem nounset_no_error_when_set (env : Env) (ws : Bool) (p : Param) (v : Value) :
    expandParam env ws p (some v) .none = (env, .ok (finishParam env ws p (some v))) ∧
    expandParam env ws p (some v) .length = (env, .ok (finishParam env ws p (lengthOf (some v)))) := by
  simp [expandParam]

/-- … while a switch modifier is never a `nounset` error: when the table says "substitute
    parameter / null" the expansion is the parameter's own (possibly absent) value, even for an
    unset parameter under `set -u` (e.g. `${u+w}`). -/
theorem switch_skip_no_error (env : Env) (ws : Bool) (p : Param) (v : Option Value)
    (cond : SwCond) (act : SwAction) (w : Word)
    (h : switchDecision act (ValueCondition.with_ cond (Vacancy.of v)) = .skip) :
    expandParam env ws p v (.switch cond act w) = (env, .ok (finishParam env ws p v)) := by
  simp [expandParam, h]

example : switchDecision .alter (ValueCondition.with_ .unset (Vacancy.of none)) = .skip := by decide

/-! ## `"$@"` and `"$*"` -/

/-- the word `"$@"` -/
def wordDqAt : Word := .cons (.dq (.cons (.param .at .none) .nil)) .nil
/-- the word `"$*"` -/
def wordDqStar : Word := .cons (.dq (.cons (.param .star .none) .nil)) .nil

theorem removeQuotes_quoteField_toField (p : List Char) :
    removeQuotesAndStrip (quoteField (toField p)) = p := by
  simp only [removeQuotesAndStrip, skipQuotes_eq_filter, strip_eq_map, quoteField, toField]
  simp [List.filter_append, List.filter_map, quoteChar, softChar, Function.comp_def]

theorem quoteField_protected (cs : List AttrChar) :
    ∀ c ∈ quoteField cs, c.isQuoted = true ∨ c.isQuoting = true ∨ c.origin ≠ .softExpansion := by
  intro c hc
  simp only [quoteField, List.mem_append, List.mem_singleton, List.mem_map] at hc
  rcases hc with (hc | ⟨d, _, hd⟩) | hc
  · subst hc; simp [quoteChar]
  · subst hd; simp
  · subst hc; simp [quoteChar]

/-- ★ `"$@"` expands, in every environment and for every IFS, to exactly the positional
    parameters: zero fields when there are none, otherwise one field per parameter with exactly
    its value (empty parameters stay as empty fields; nothing is split). -/
theorem dquote_at_fields (env : Env) :
    expandWordMultiple env wordDqAt = (env, .ok env.pos) := by
  have h1 : expandWord env true wordDqAt
      = (env, .ok (.full (env.pos.map (fun p => quoteField (toField p))))) := by
    simp only [wordDqAt, expandWord, expandWordUnit, Text.isNil, expandTextGo, expandTextUnit,
      resolve, expandParam]
    simp only [Option.isNone, Bool.false_and, Bool.false_eq_true, if_false, finishParam]
    have hne : (Param.at == Param.star) = false := by decide
    simp only [hne, Bool.and_false, Bool.false_eq_true, if_false, intoPhrase, Phrase.zeroFields]
    cases hp : env.pos with
    | nil => simp [Phrase.append, doubleQuote, expandWordGo]
    | cons a t => simp [Phrase.append, doubleQuote, expandWordGo]
  simp only [expandWordMultiple, h1, Phrase.toFields]
  congr 1
  congr 1
  induction env.pos with
  | nil => rfl
  | cons p ps ih =>
    simp only [List.map_cons, List.flatMap_cons, List.map_append]
    rw [ih, quoted_never_split _ _ (quoteField_protected _)]
    have hne : quoteField (toField p) ≠ [] := by simp [quoteField]
    simp [hne, removeQuotes_quoteField_toField]

/-- ★ `"$@"` with no positional parameters denotes zero fields; `"$*"` always denotes exactly one
    field (here: the empty one). -/
theorem dquote_at_zero_params (env : Env) (h : env.pos = []) :
    expandWordMultiple env wordDqAt = (env, .ok []) ∧
    expandWordMultiple env wordDqStar = (env, .ok [[]]) := by
  refine ⟨by rw [dquote_at_fields, h], ?_⟩
  have h1 : expandWord env true wordDqStar = (env, .ok (.field (quoteField []))) := by
    simp only [wordDqStar, expandWord, expandWordUnit, Text.isNil, expandTextGo, expandTextUnit,
      resolve, expandParam]
    simp only [Option.isNone, Bool.false_and, Bool.false_eq_true, if_false, finishParam]
    simp [h, intoPhrase, Phrase.ifsJoin, joinWith, Phrase.zeroFields, Phrase.append,
      doubleQuote, expandWordGo]
  simp only [expandWordMultiple, h1, Phrase.toFields, List.flatMap_cons, List.flatMap_nil,
    List.append_nil]
  rw [quoted_never_split _ _ (quoteField_protected _)]
  simp [quoteField, removeQuotesAndStrip, skipQuotes, strip, quoteChar]

example : (expandWordMultiple
    { vars := [], pos := ["a b".toList, [], ":".toList], nounset := true, exitStatus := 0, arg0 := [] }
    wordDqAt).2 = .ok ["a b".toList, [], ":".toList] := by rw [dquote_at_fields]

/-- In a single-field context (scalar assignment `v=…`, declaration utilities, here-documents:
    `expand_word`) `"$*"` and `"$@"` both give the positional parameters joined by the first
    character of IFS (a space when IFS is unset, nothing when it is empty), for every environment
    and any number of parameters. -/
theorem single_field_dquote_params (env : Env) :
    expandWordSingle env wordDqStar = (env, .ok (joinStrings (sepChar env) env.pos)) ∧
    expandWordSingle env wordDqAt = (env, .ok (joinStrings (sepChar env) env.pos)) := by
  constructor
  · have h1 : expandWord env true wordDqStar
        = (env, .ok (.field (quoteField (joinWith (ifsSeparator env) (env.pos.map toField))))) := by
      simp only [wordDqStar, expandWord, expandWordUnit, Text.isNil, expandTextGo, expandTextUnit,
        resolve, expandParam]
      simp [finishParam, intoPhrase, Phrase.ifsJoin, Phrase.zeroFields, Phrase.append,
        doubleQuote, expandWordGo]
    simp only [expandWordSingle, h1, Phrase.ifsJoin, ifsSeparator_eq]
    rw [removeQuotes_quoteField _ (joinWith_not_quoting _ _), joinWith_values]
  · have h1 : expandWord env true wordDqAt
        = (env, .ok (.full (env.pos.map (fun p => quoteField (toField p))))) := by
      simp only [wordDqAt, expandWord, expandWordUnit, Text.isNil, expandTextGo, expandTextUnit,
        resolve, expandParam]
      simp only [Option.isNone, Bool.false_and, Bool.false_eq_true, if_false, finishParam]
      have hne : (Param.at == Param.star) = false := by decide
      simp only [hne, Bool.and_false, Bool.false_eq_true, if_false, intoPhrase, Phrase.zeroFields]
      cases hp : env.pos with
      | nil => simp [Phrase.append, doubleQuote, expandWordGo]
      | cons a t => simp [Phrase.append, doubleQuote, expandWordGo]
    simp only [expandWordSingle, h1, Phrase.ifsJoin, ifsSeparator_eq]
    rw [removeQuotes_joinWith_fields]
    have : (env.pos.map (fun p => quoteField (toField p))).map removeQuotesAndStrip = env.pos := by
      simp [Function.comp_def, removeQuotes_quoteField_toField]
    rw [this]

/-! ## The braced-parameter lexer -/

/-- The `${#…}` ambiguity is resolved as XCU 2.6.2 requires: `${#}` is `$#`; `${##}`, `${#-}`,
    `${#?}` are the lengths of `$#`, `$-`, `$?`; `${#x}` is a length and `${x#p}` a trim; `${#-w}`,
    `${#:-w}`, `${##p}`, `${#%p}` apply a switch/trim to `$#`; a length prefix together with a suffix
    modifier is an error.  (Finite table of the special cases, checked by evaluation.) -/
theorem lex_hash_forms :
    (lexBraced false "#}".toList).map (fun b => (b.id, b.modifier)) = .ok (['#'], .none) ∧
    (lexBraced false "##}".toList).map (fun b => (b.id, b.modifier)) = .ok (['#'], .length) ∧
    (lexBraced false "#-}".toList).map (fun b => (b.id, b.modifier)) = .ok (['-'], .length) ∧
    (lexBraced false "#?}".toList).map (fun b => (b.id, b.modifier)) = .ok (['?'], .length) ∧
    (lexBraced false "#x}".toList).map (fun b => (b.id, b.modifier)) = .ok (['x'], .length) ∧
    (lexBraced false "x#p}".toList).map (fun b => (b.id, b.modifier)) = .ok (['x'], .trim '#' false ['p']) ∧
    (lexBraced false "#-w}".toList).map (fun b => (b.id, b.modifier)) = .ok (['#'], .switch false '-' ['w']) ∧
    (lexBraced false "#:-w}".toList).map (fun b => (b.id, b.modifier)) = .ok (['#'], .switch true '-' ['w']) ∧
    (lexBraced false "##p}".toList).map (fun b => (b.id, b.modifier)) = .ok (['#'], .trim '#' false ['p']) ∧
    (lexBraced false "#%p}".toList).map (fun b => (b.id, b.modifier)) = .ok (['#'], .trim '%' false ['p']) ∧
    (lexBraced false "#x-w}".toList).map (fun b => (b.id, b.modifier)) = .error .multipleModifier ∧
    (lexBraced false "x:#p}".toList).map (fun b => (b.id, b.modifier)) = .error .invalidModifier ∧
    (lexBraced false "00}".toList).map (fun b => (b.id, b.param)) = .ok (['0', '0'], .pos 0) ∧
    (lexBraced false "10}".toList).map (fun b => (b.id, b.param)) = .ok (['1', '0'], .pos 10) ∧
    (lexBraced false "0}".toList).map (fun b => (b.id, b.param)) = .ok (['0'], .zero) ∧
    (lexBraced true "@-w}".toList).map (fun b => (b.id, b.modifier)) = .error .nonPortable :=
  ⟨rfl, rfl, rfl, rfl, rfl, rfl, rfl, rfl, rfl, rfl, rfl, rfl, rfl, rfl, rfl, rfl⟩

/-- `${p:-w}` versus `${p-w}` (and `= ? +`): after any parameter, an optional colon followed by one
    of the switch symbols (the characters `suffix_modifier` dispatches to `switch`: the generated table,
    `+ - = ?` in the current code) starts a switch whose condition is "unset or empty" exactly when the
    colon is present, and whose word runs to the first closing brace — for every word without `}`. -/
theorem lexSuffix_switch (colon : Bool) (act : Char) (w rest : List Char)
    (ha : act ∈ Generated.ExpansionTables.suffixSwitchSymbols) (hw : ∀ c ∈ w, c ≠ '}') :
    lexSuffix ((if colon then [':'] else []) ++ act :: (w ++ '}' :: rest))
      = .ok (.switch colon act w, '}' :: rest) := by
  have aux : ∀ v : List Char, (∀ c ∈ v, c ≠ '}') →
      (v ++ '}' :: rest).takeWhile (· != '}') = v ∧
      (v ++ '}' :: rest).dropWhile (· != '}') = '}' :: rest := by
    intro v
    induction v with
    | nil => intro _; simp
    | cons c t ih =>
      intro hv
      have hc : c ≠ '}' := hv c (by simp)
      have ⟨h1, h2⟩ := ih (fun d hd => hv d (by simp [hd]))
      simp only [List.cons_append, List.takeWhile_cons, List.dropWhile_cons]
      simp [hc, h1, h2]
  have ⟨htw, hdw⟩ := aux w hw
  have hne : act ≠ ':' := by
    intro h; subst h; exact absurd ha (by decide)
  cases colon with
  | true =>
    simp only [if_true, List.singleton_append, lexSuffix, List.head?_cons, List.tail_cons]
    simp [ha, htw, hdw]
  | false =>
    simp only [Bool.false_eq_true, if_false, List.nil_append, lexSuffix, List.head?_cons]
    have : (some act == some ':') = false := by simp [hne]
    simp [this, ha, htw, hdw]

example : lexSuffix ":-a b}c".toList = .ok (.switch true '-' "a b".toList, "}c".toList) := rfl

/-- the tables as the code has them today (re-extracted on every run; an edit of the Rust tables changes
    these definitions and re-checks every theorem stated over them) -/
example : Generated.ExpansionTables.suffixSwitchSymbols = ['+', '-', '=', '?'] ∧
    Generated.ExpansionTables.suffixTrimSymbols = ['#', '%'] ∧
    Generated.ExpansionTables.lengthPrefixPlain = ['%', '+', ':', '=', '}'] ∧
    Generated.ExpansionTables.lengthPrefixAmbiguous = ['#', '-', '?'] ∧
    Generated.ExpansionTables.ifsDefault = [' ', '\t', '\n'] ∧
    optionShortNames = "aCcenfhilmbsuvx".toList ∧
    "@*#?-$!0".toList.map specialOfChar =
      [some .at, some .star, some .num, some .question, some .hyphen, some .dollar, some .bang, some .zero] := by
  decide

/-- ★ `${name}` for EVERY name (portable name characters, not starting with a digit) and whatever follows the
    closing brace: the lexer yields the variable of exactly that name, no modifier, in both modes — the general
    counterpart of the finite table `lex_hash_forms` (a name never triggers the `#` ambiguity, `}` is in none
    of the generated modifier tables). -/
theorem lexBraced_name (portable : Bool) (c : Char) (s2 rest : List Char)
    (hc : isNameChar c = true) (hnd : c.isDigit = false) (hs : ∀ d ∈ s2, isNameChar d = true) :
    (lexBraced portable (c :: s2 ++ '}' :: rest)).toOption.map (fun b => (b.id, b.param, b.modifier, b.rest)) =
      some (c :: s2, .var (String.ofList (c :: s2)), .none, rest) := by
  have hne : c ≠ '#' := by intro h; subst h; revert hc; decide
  have hpre : hasLengthPrefix (c :: s2 ++ '}' :: rest) = false := by
    unfold hasLengthPrefix
    split
    · rename_i heq; simp at heq; exact absurd heq.1 hne
    · rfl
  have ⟨htw, hdw⟩ := takeWhile_dropWhile_name s2 rest hs
  have hid : typeOfId (c :: s2) = some (.var (String.ofList (c :: s2))) := by
    unfold typeOfId
    have h0 : c :: s2 ≠ ['0'] := by
      intro h; simp at h; have := h.1; subst this; revert hnd; decide
    simp [h0, hnd]
  have hsuf : lexSuffix ('}' :: rest) = .ok (.none, '}' :: rest) := by
    have n1 : ¬ ('}' ∈ Generated.ExpansionTables.suffixSwitchSymbols) := by decide
    have n2 : ¬ ('}' ∈ Generated.ExpansionTables.suffixTrimSymbols) := by decide
    simp [lexSuffix, n1, n2]
  have hpre' : hasLengthPrefix (c :: (s2 ++ '}' :: rest)) = false := hpre
  simp [lexBraced, hpre', hc, htw, hdw, hid, hsuf, hasNonPortableModifier, Except.toOption]

example : (lexBraced true "foo_1}bar".toList).toOption.map (fun b => (b.id, b.param, b.modifier, b.rest)) =
    some ("foo_1".toList, .var "foo_1", .none, "bar".toList) := by decide +kernel

/-- The symbol tables of the lexer agree with each other and with XCU 2.6.2: every symbol `suffix_modifier` dispatches
    to `switch` / `trim` has an action / a side there (and no other symbol has), and the assignment is the standard's:
    `-` default, `=` assign, `?` error, `+` alternative, `#` prefix, `%` suffix.  (The tables are re-extracted from
    modifier.rs on every run; the driver decodes the case syntax through them.) -/
theorem symbol_tables_agree :
    (∀ c, c ∈ Generated.ExpansionTables.suffixSwitchSymbols ↔ (swActionOfSymbol c).isSome = true) ∧
    (∀ c, c ∈ Generated.ExpansionTables.suffixTrimSymbols ↔ (trimSideOfSymbol c).isSome = true) ∧
    "-=?+".toList.map swActionOfSymbol = [some .default, some .assign, some .error, some .alter] ∧
    "#%".toList.map trimSideOfSymbol = [some .prefix, some .suffix] := by
  refine ⟨fun c => ?_, fun c => ?_, by decide, by decide⟩
  · constructor
    · intro h
      simp only [Generated.ExpansionTables.suffixSwitchSymbols] at h
      simp at h
      rcases h with h | h | h | h <;> subst h <;> decide
    · intro h
      unfold swActionOfSymbol at h
      cases hl : Generated.ExpansionTables.switchSymbols.lookup c with
      | none => simp [hl] at h
      | some v =>
        have hm : c ∈ Generated.ExpansionTables.switchSymbols.map (·.1) := by
          have := List.lookup_eq_some_iff.mp hl
          obtain ⟨l1, l2, heq, _⟩ := this
          rw [heq]; simp
        revert hm; simp only [Generated.ExpansionTables.switchSymbols, Generated.ExpansionTables.suffixSwitchSymbols]
        simp
  · constructor
    · intro h
      simp only [Generated.ExpansionTables.suffixTrimSymbols] at h
      simp at h
      rcases h with h | h <;> subst h <;> decide
    · intro h
      unfold trimSideOfSymbol at h
      cases hl : Generated.ExpansionTables.trimSymbols.lookup c with
      | none => simp [hl] at h
      | some v =>
        have hm : c ∈ Generated.ExpansionTables.trimSymbols.map (·.1) := by
          have := List.lookup_eq_some_iff.mp hl
          obtain ⟨l1, l2, heq, _⟩ := this
          rw [heq]; simp
        revert hm; simp only [Generated.ExpansionTables.trimSymbols, Generated.ExpansionTables.suffixTrimSymbols]
        simp

/-- `${p#w}`, `${p##w}`, `${p%w}`, `${p%%w}`: after any parameter, a trim symbol (the characters `suffix_modifier`
    dispatches to `trim`: the generated table, `# %` in the current code), doubled for "longest", starts a trim whose
    pattern runs to the first closing brace — for every pattern without `}` (a "shortest" pattern does not start with
    the symbol itself: that is the doubled form); and a colon before a trim symbol is an invalid modifier. -/
theorem lexSuffix_trim (side : Char) (long : Bool) (w rest : List Char)
    (hs : side ∈ Generated.ExpansionTables.suffixTrimSymbols) (hw : ∀ c ∈ w, c ≠ '}')
    (hshort : long = false → w.head? ≠ some side) :
    lexSuffix (side :: (if long then [side] else []) ++ w ++ '}' :: rest) = .ok (.trim side long w, '}' :: rest) ∧
    lexSuffix (':' :: side :: (if long then [side] else []) ++ w ++ '}' :: rest) = .error .invalidModifier := by
  have ⟨htw, hdw⟩ := span_until_brace w rest hw
  have hnsw : side ∉ Generated.ExpansionTables.suffixSwitchSymbols := by
    intro h
    have : side ∈ Generated.ExpansionTables.suffixTrimSymbols ∧ side ∈ Generated.ExpansionTables.suffixSwitchSymbols := ⟨hs, h⟩
    revert this; simp only [Generated.ExpansionTables.suffixTrimSymbols, Generated.ExpansionTables.suffixSwitchSymbols]
    simp; intro h1; rcases h1 with h1 | h1 <;> subst h1 <;> decide
  have hne : side ≠ ':' := by intro h; subst h; exact absurd hs (by decide)
  have hc : (some side == some ':') = false := by simp [hne]
  refine ⟨?_, ?_⟩
  · cases long with
    | true =>
      simp [lexSuffix, hne, hnsw, hs, htw, hdw]
    | false =>
      have hh : ((w ++ '}' :: rest).head? == some side) = false := by
        cases w with
        | nil =>
          have : side ≠ '}' := by intro h; subst h; exact absurd hs (by decide)
          simp [Ne.symm this]
        | cons d w' =>
          have := hshort rfl
          simp only [List.head?_cons, ne_eq, Option.some.injEq] at this
          simp [this]
      have hg : ¬ (w.head?.getD '}' = side) := by simpa using hh
      simp [lexSuffix, hne, hnsw, hs, hg, htw, hdw]
  · simp [lexSuffix, hnsw, hs]

/-- ★ The general form `${<id><suffix>}` for every identifier made of name characters (a variable name, a positional
    index of any number of digits, `0`): the lexer reads the longest run of name characters as the identifier,
    classifies it with `type_of_id`, hands what follows to `suffix_modifier` and requires the closing brace — the result
    has exactly that parameter, exactly the modifier `suffix_modifier` returns and exactly the text after the brace;
    no identifier of this kind is rejected in portable mode. -/
theorem lexBraced_id_general (portable : Bool) (c : Char) (s2 s3 rest : List Char) (p : Param) (m : LexMod)
    (hc : isNameChar c = true) (hs : ∀ d ∈ s2, isNameChar d = true)
    (hstop : ∀ d, s3.head? = some d → isNameChar d = false)
    (hid : typeOfId (c :: s2) = some p)
    (hsuf : lexSuffix (s3 ++ '}' :: rest) = .ok (m, '}' :: rest)) :
    lexBraced portable (c :: s2 ++ (s3 ++ '}' :: rest)) =
      .ok { id := c :: s2, param := p, modifier := m, rest := rest } := by
  have hne : c ≠ '#' := by intro h; subst h; revert hc; decide
  have hpre : hasLengthPrefix (c :: (s2 ++ (s3 ++ '}' :: rest))) = false := hasLengthPrefix_not_hash c _ hne
  have ht : ∀ d, (s3 ++ '}' :: rest).head? = some d → isNameChar d = false := by
    intro d hd
    cases s3 with
    | nil => simp at hd; subst hd; decide
    | cons e s3' => exact hstop d (by simpa using hd)
  have ⟨htw, hdw⟩ := takeWhile_dropWhile_stop s2 (s3 ++ '}' :: rest) hs ht
  have hnp := typeOfId_not_special (c :: s2) p hid m
  simp [lexBraced, hpre, hc, htw, hdw, hid, hsuf, hnp]

/-- ★ … and for every special parameter `@ * ? - $ !` (the generated `SpecialParam::from_char` table; `#` has its own
    table `lex_hash_forms`): one character, then the suffix; in portable mode exactly the combinations
    `has_non_portable_modifier` lists are rejected. -/
theorem lexBraced_special_general (portable : Bool) (c : Char) (s3 rest : List Char) (p : Param) (m : LexMod)
    (hc : isNameChar c = false) (hne : c ≠ '#') (hsp : specialOfChar c = some p)
    (hsuf : lexSuffix (s3 ++ '}' :: rest) = .ok (m, '}' :: rest)) :
    lexBraced portable (c :: (s3 ++ '}' :: rest)) =
      if portable && hasNonPortableModifier p m then .error .nonPortable
      else .ok { id := [c], param := p, modifier := m, rest := rest } := by
  have hpre : hasLengthPrefix (c :: (s3 ++ '}' :: rest)) = false := hasLengthPrefix_not_hash c _ hne
  simp [lexBraced, hpre, hc, hsp, hsuf]

/-- `${#<id>}` is the length of the parameter, for every identifier of name characters. -/
theorem lexBraced_length_id (portable : Bool) (c : Char) (s2 rest : List Char) (p : Param)
    (hc : isNameChar c = true) (hs : ∀ d ∈ s2, isNameChar d = true) (hid : typeOfId (c :: s2) = some p) :
    lexBraced portable ('#' :: c :: s2 ++ '}' :: rest) =
      .ok { id := c :: s2, param := p, modifier := .length, rest := rest } := by
  have h1 : c ∉ Generated.ExpansionTables.lengthPrefixPlain := by
    intro h; revert hc; revert h
    simp only [Generated.ExpansionTables.lengthPrefixPlain]; simp
    intro h; rcases h with h | h | h | h | h <;> subst h <;> decide
  have h2 : c ∉ Generated.ExpansionTables.lengthPrefixAmbiguous := by
    intro h; revert hc; revert h
    simp only [Generated.ExpansionTables.lengthPrefixAmbiguous]; simp
    intro h; rcases h with h | h | h <;> subst h <;> decide
  have hpre : hasLengthPrefix ('#' :: c :: (s2 ++ '}' :: rest)) = true := by
    simp [hasLengthPrefix, h1, h2]
  have ⟨htw, hdw⟩ := takeWhile_dropWhile_name s2 rest hs
  have hsuf : lexSuffix ('}' :: rest) = .ok (.none, '}' :: rest) := by
    have n1 : ¬ ('}' ∈ Generated.ExpansionTables.suffixSwitchSymbols) := by decide
    have n2 : ¬ ('}' ∈ Generated.ExpansionTables.suffixTrimSymbols) := by decide
    simp [lexSuffix, n1, n2]
  have hnp := typeOfId_not_special (c :: s2) p hid .length
  simp [lexBraced, hpre, hc, htw, hdw, hid, hsuf, hnp]

/-- `type_of_id` on digits: `0` is the special parameter, every other all-digit identifier (any length, leading
    zeros allowed) the positional parameter of that decimal number; an identifier starting with a digit that contains
    another name character is invalid; everything else is a variable name. -/
theorem typeOfId_cases (c : Char) (s2 : List Char) :
    (c :: s2 = ['0'] → typeOfId (c :: s2) = some .zero) ∧
    (c.isDigit = true → (c :: s2).all Char.isDigit = true → c :: s2 ≠ ['0'] →
      typeOfId (c :: s2) = some (.pos (digitsToNat (c :: s2)))) ∧
    (c.isDigit = true → (c :: s2).all Char.isDigit = false → typeOfId (c :: s2) = none) ∧
    (c.isDigit = false → typeOfId (c :: s2) = some (.var (String.ofList (c :: s2)))) := by
  refine ⟨fun h => by simp [typeOfId, h], fun hd ha h0 => ?_, fun hd ha => ?_, fun hd => ?_⟩
  · unfold typeOfId; simp only [h0, if_false, hd, if_true, ha]
  · unfold typeOfId
    have h0 : c :: s2 ≠ ['0'] := by
      intro h; rw [h] at ha; revert ha; decide
    simp only [h0, if_false, hd, if_true, ha]; simp
  · unfold typeOfId
    have h0 : c :: s2 ≠ ['0'] := by
      intro h; simp at h; have := h.1; subst this; revert hd; decide
    simp [h0, hd]

example : lexBraced true "12%%a*}z".toList = .ok { id := "12".toList, param := .pos 12, modifier := .trim '%' true "a*".toList, rest := ['z'] } := by
  have h := lexBraced_id_general true '1' ['2'] "%%a*".toList ['z'] (.pos 12) (.trim '%' true "a*".toList)
    (by decide) (by decide) (by decide) (by decide) rfl
  simpa using h


example : lexBraced true "@%a}".toList = .error .nonPortable ∧
    lexBraced false "@%a}".toList = .ok { id := ['@'], param := .at, modifier := .trim '%' false ['a'], rest := [] } := by
  have h := fun pt => lexBraced_special_general pt '@' "%a".toList [] .at (.trim '%' false ['a']) (by decide) (by decide)
    (by decide) rfl
  exact ⟨by simpa [hasNonPortableModifier] using h true, by simpa using h false⟩

example : lexSuffix "##a*}c".toList = .ok (.trim '#' true "a*".toList, "}c".toList) :=
  (lexSuffix_trim '#' true "a*".toList ['c'] (by decide) (by decide) (by simp)).1

/-! ## Quote removal -/

/-- ★ Quote removal and attribute stripping output exactly the values of the characters that are
    not quoting characters, in order (nothing else is removed, nothing is added). -/
theorem quoteRemoval_exact (cs : List AttrChar) :
    removeQuotesAndStrip cs = (cs.filter (fun c => !c.isQuoting)).map (·.value) := by
  simp [removeQuotesAndStrip, skipQuotes_eq_filter, strip_eq_map]

/-- Quotes and backslashes protect what they enclose: a single-quoted string, as a whole word,
    expands to exactly one field containing exactly the enclosed characters, for every IFS. -/
theorem single_quote_exact (env : Env) (s : List Char) :
    expandWordMultiple env (.cons (.sq s) .nil) = (env, .ok [s]) := by
  simp only [expandWordMultiple, expandWord, expandWordUnit, expandWordGo, singleQuote,
    Phrase.zeroFields, Phrase.append, Phrase.toFields, List.flatMap_cons, List.flatMap_nil,
    List.append_nil]
  rw [quoted_never_split]
  · simp [removeQuotesAndStrip, skipQuotes_eq_filter, strip_eq_map, List.filter_append,
      List.filter_map, quoteChar, quotedLit, Function.comp_def]
  · intro c hc
    simp only [List.mem_append, List.mem_singleton, List.mem_map] at hc
    rcases hc with (hc | ⟨d, _, hd⟩) | hc
    · subst hc; simp [quoteChar]
    · subst hd; simp [quotedLit]
    · subst hc; simp [quoteChar]

/-! ## The whole pipeline against the declarative POSIX expansion -/

/-- ★★ Initial expansion: for every word of the modelled fragment (literals, backslashes, `'…'`,
    `$'…'`, `"…"`, `$p`, `${p}`, `${#p}`, the eight switches, the four trims, all nested to any
    depth), every environment and both splitting contexts, the fields the implementation's
    `Phrase` denotes, the environment it leaves (assignments by `${p=w}`) and the error it raises
    are those of the declarative expansion `posixWord` (fields as lists, adjacent units glued
    last-to-first, double-quoted content expanded in a non-splitting context whatever surrounds the
    quotes and followed by units expanded in the surrounding context again, `$*` joined exactly
    where no splitting will happen, switches by the XCU 2.6.2 table, `nounset` only in the
    switch-less forms). -/
theorem initial_expansion_eq_posix (w : Word) (env : Env) (willSplit : Bool) :
    den (expandWord env willSplit w) = posixWord env willSplit w :=
  word_den w env willSplit

/-- ★★ End to end, the function the driver runs for a command argument: `expand_word_multiple`
    = declarative initial expansion → recursive POSIX splitter on every field under the IFS in
    force after the expansion → quote removal.  Every word, every environment, every IFS. -/
theorem expandWordMultiple_eq_posix (env : Env) (w : Word) :
    expandWordMultiple env w = posixExpandArg env w := by
  rw [expandWordMultiple_eq_spec]
  unfold specExpandWordMultiple posixExpandArg
  have h := word_den w env true
  rcases hx : expandWord env true w with ⟨env', r⟩
  rw [hx] at h
  cases r with
  | error e => simp only [den_error] at h; simp [← h]
  | ok ph => simp only [den_ok] at h; simp [← h]

/-- … for word lists (`expand_words`: arguments, `for` lists, array assignments) … -/
theorem expandWords_eq_posix (ws : List Word) :
    ∀ env : Env, expandWords env ws = posixExpandArgs env ws := by
  induction ws with
  | nil => intro env; rfl
  | cons w ws ih =>
    intro env
    simp only [expandWords, posixExpandArgs, expandWordMultiple_eq_posix]
    rcases posixExpandArg env w with ⟨env', r⟩
    cases r with
    | error e => rfl
    | ok fs =>
      simp only
      rw [ih env']
      rfl

/-- … in a single-field context (`expand_word`: scalar assignment, declaration utilities) … -/
theorem expandWordSingle_eq_posix (env : Env) (w : Word) :
    expandWordSingle env w = posixExpandSingle env w := by
  unfold expandWordSingle posixExpandSingle
  have h := word_den w env true
  rcases hx : expandWord env true w with ⟨env', r⟩
  rw [hx] at h
  cases r with
  | error e => simp only [den_error] at h; simp [← h]
  | ok ph => simp only [den_ok] at h; simp [← h, ifsJoin_eq]

/-- … and for here-document contents (`expand_text`). -/
theorem expandTextJoined_eq_posix (env : Env) (t : Text) :
    expandTextJoined env t = posixExpandText env t := by
  unfold expandTextJoined posixExpandText
  by_cases hn : t.isNil = true
  · simp [hn, Phrase.oneEmptyField, Phrase.ifsJoin, joinBySep, List.intercalate]
  · simp only [hn, if_false, Bool.false_eq_true]
    have h := textGo_den t env true Phrase.zeroFields
    have hz : Phrase.zeroFields.toFields = [] := rfl
    rw [hz] at h
    rcases hx : expandTextGo env true Phrase.zeroFields t with ⟨env', r⟩
    rw [hx] at h
    cases r with
    | error e => simp only [den_error] at h; simp [← h]
    | ok ph => simp only [den_ok] at h; simp [← h, ifsJoin_eq]

/-! ## Quotes and backslashes protect what they enclose -/

/-- ★★ A word built from literal characters, backslash escapes, `'…'`, `$'…'` and `"…"` (any
    number of units, in any order, double quotes containing literals and escapes) expands, as a
    command argument, to exactly one field whose value is exactly the enclosed text — for every
    IFS and environment: nothing is split, nothing is lost, no quote character survives. -/
theorem quotes_protect (env : Env) (w : Word) (s : List Char) (hw : w ≠ .nil)
    (h : w.plain = some s) : expandWordMultiple env w = (env, .ok [s]) := by
  rw [expandWordMultiple_eq_posix]
  obtain ⟨cs, hcs, hgood, hne⟩ := word_plain w s h
  cases w with
  | nil => exact absurd rfl hw
  | cons u w' =>
    have hne' : cs ≠ [] := hne (by simp)
    unfold posixExpandArg
    rw [posixWord_pchars env true u w' cs hcs]
    simp only [List.flatMap_cons, List.flatMap_nil, List.append_nil]
    rw [← splitWith_eq_specFields]
    have hs : splitWith env.ifs.classifyAttr cs = [cs] := by
      have := quoted_never_split env.ifs cs (fun c hc => Or.inr (Or.inr (by simp [hgood.1 c hc])))
      simpa [splitInto, hne'] using this
    simp [hs, hgood.2]

/-- … and in a single-field context (assignment) to exactly that text. -/
theorem quotes_protect_single (env : Env) (w : Word) (s : List Char) (h : w.plain = some s) :
    expandWordSingle env w = (env, .ok s) := by
  rw [expandWordSingle_eq_posix]
  obtain ⟨cs, hcs, hgood, _⟩ := word_plain w s h
  cases w with
  | nil =>
    simp only [Word.pchars, Option.some.injEq] at hcs; subst hcs
    simp only [Word.plain, Option.some.injEq] at h; subst h
    simp [posixExpandSingle, posixWord, joinBySep, List.intercalate, removeQuotesAndStrip, skipQuotes, strip]
  | cons u w' =>
    unfold posixExpandSingle
    rw [posixWord_pchars env true u w' cs hcs]
    simp [joinBySep, List.intercalate, hgood.2]

example : (Word.cons (.unq (.lit 'a')) (.cons (.dq (.cons (.lit ' ') (.cons (.bs '$') .nil)))
    (.cons (.sq ['b', ' ']) (.cons (.unq (.bs ' ')) .nil)))).plain = some ['a', ' ', '$', 'b', ' ', ' '] := rfl

/-! ## Tilde expansion (XCU 2.6.1; `initial/tilde.rs`) -/

/-- ★ A tilde-prefix at the front of a word, followed by any text made of literal characters and quoting forms,
    expands as a command argument to exactly ONE field: the text the prefix stands for (`tildeText`: the directory,
    one trailing slash dropped before a slash) followed by the enclosed text — for every environment, whatever
    characters the directory contains and whatever IFS is (a blank or an IFS character inside HOME never splits;
    an empty directory still yields one — empty — field). -/
theorem tilde_word_one_field (env : Env) (name : List Char) (slash : Bool) (w : Word) (s : List Char)
    (h : w.plain = some s) :
    expandWordMultiple env (.cons (.tilde name slash) w) = (env, .ok [tildeText env name slash ++ s]) := by
  rw [expandWordMultiple_eq_posix]
  obtain ⟨cs, hcs, hgood, _⟩ := word_plain w s h
  obtain ⟨horig, hne, hrq⟩ := posixTilde_facts env name slash
  unfold posixExpandArg
  simp only [posixWord, posixWordUnit]
  rw [posixWordGo_pchars env true w cs _ hcs]
  simp only [List.flatMap_cons, List.flatMap_nil, List.append_nil]
  rw [← splitWith_eq_specFields]
  have hs : splitWith env.ifs.classifyAttr (posixTilde env name slash ++ cs) = [posixTilde env name slash ++ cs] := by
    have := quoted_never_split env.ifs (posixTilde env name slash ++ cs) (fun c hc => by
      rcases List.mem_append.mp hc with hc | hc
      · exact Or.inr (Or.inr (by simp [horig c hc]))
      · exact Or.inr (Or.inr (by simp [hgood.1 c hc])))
    simpa [splitInto, hne] using this
  simp [hs, removeQuotesAndStrip_append, hrq, hgood.2]

/-- … and in a single-field context (assignment) to exactly that text. -/
theorem tilde_word_single (env : Env) (name : List Char) (slash : Bool) (w : Word) (s : List Char)
    (h : w.plain = some s) :
    expandWordSingle env (.cons (.tilde name slash) w) = (env, .ok (tildeText env name slash ++ s)) := by
  rw [expandWordSingle_eq_posix]
  obtain ⟨cs, hcs, hgood, _⟩ := word_plain w s h
  obtain ⟨_, _, hrq⟩ := posixTilde_facts env name slash
  unfold posixExpandSingle
  simp only [posixWord, posixWordUnit]
  rw [posixWordGo_pchars env true w cs _ hcs]
  simp [joinBySep, List.intercalate, removeQuotesAndStrip_append, hrq, hgood.2]

/-- What the prefix stands for when XCU 2.6.1 defines it (HOME set for `~`, login name known for `~name`): the directory
    itself; and when the prefix is followed by a slash and the directory ends in one, the directory without that slash —
    so that prefix + `/` reads exactly as the directory (no doubled slash). -/
theorem tilde_directory (env : Env) (name dir : List Char) (slash : Bool) (h : tildeDir env name = some dir) :
    (slash = false → tildeText env name slash = dir) ∧
    (slash = true → dir.getLast? ≠ some '/' → tildeText env name slash = dir) ∧
    (slash = true → dir.getLast? = some '/' → tildeText env name slash ++ ['/'] = dir) := by
  unfold tildeText
  rw [h]
  refine ⟨fun hs => by simp [hs], fun hs hl => by simp [hl], fun hs hl => ?_⟩
  simp only [hs, hl, and_self, if_true]
  have hne : dir ≠ [] := by intro hd; simp [hd] at hl
  have := List.dropLast_concat_getLast hne
  rw [List.getLast?_eq_some_getLast hne] at hl
  simp only [Option.some.injEq] at hl
  rw [hl] at this
  exact this

/-- Where POSIX leaves the result unspecified (HOME unset, unknown login name) the prefix is left as it is — for every
    name the parser can produce (a tilde name never contains a slash). -/
theorem tilde_unspecified_unchanged (env : Env) (name : List Char) (slash : Bool) (hs : '/' ∉ name)
    (h : tildeDir env name = none) : tildeText env name slash = '~' :: name := by
  unfold tildeText
  rw [h]
  have : ('~' :: name).getLast? ≠ some '/' := by
    intro hl
    have hm := List.mem_of_getLast? hl
    simp at hm
    exact hs hm
  simp [this]

def envHome (h : String) : Env :=
  { vars := [("IFS", { value := some (.scalar Ifs.defaultChars), readOnly := false }),
             ("HOME", { value := some (.scalar h.toList), readOnly := false })],
    pos := [], nounset := false, exitStatus := 0, arg0 := [], homes := [("a".toList, "/u v/".toList)] }

/-- `~/c` with HOME = `/a b` under the default IFS: one field, the blank inside the directory does not split -/
example : expandWordMultiple (envHome "/a b") (.cons (.tilde [] true) (.cons (.unq (.lit '/')) (.cons (.unq (.lit 'c')) .nil)))
    = (envHome "/a b", .ok ["/a b/c".toList]) := by
  rw [tilde_word_one_field _ _ _ _ "/c".toList rfl]
  have : tildeText (envHome "/a b") [] true = "/a b".toList := by decide +kernel
  rw [this]; rfl
/-- an empty HOME: `~` is one empty field (not zero fields) -/
example : expandWordMultiple (envHome "") (.cons (.tilde [] false) .nil) = (envHome "", .ok [[]]) := by
  rw [tilde_word_one_field _ _ _ _ [] rfl]
  have : tildeText (envHome "") [] false = [] := by decide +kernel
  rw [this]; rfl
/-- `~a/` where the user database gives `/u v/`: the trailing slash of the directory is dropped before the slash -/
example : expandWordMultiple (envHome "") (.cons (.tilde "a".toList true) (.cons (.unq (.lit '/')) .nil))
    = (envHome "", .ok ["/u v/".toList]) := by
  rw [tilde_word_one_field _ _ _ _ "/".toList rfl]
  have : tildeText (envHome "") "a".toList true = "/u v".toList := by decide +kernel
  rw [this]; rfl
/-- an unknown login name: the tilde-prefix stays -/
example : tildeText (envHome "/h") "zz".toList false = "~zz".toList ∧ tildeDir (envHome "/h") "zz".toList = none := by
  decide +kernel
/-- inside double quotes `~` is an ordinary character (`quotes_protect`) -/
example : expandWordMultiple (envHome "/h") (.cons (.dq (.cons (.lit '~') .nil)) .nil) = (envHome "/h", .ok ["~".toList]) :=
  quotes_protect _ _ _ (by simp) rfl

/-! ## This model and C04's word model (`Fnmatch/Word.lean`) are the same transcription -/

/-- ★ The two transcriptions of word.rs / text.rs cannot drift apart: whenever C04's environment-free pattern word `pw`
    describes the word `w` in `env` (`corrW`: same units; `param v` ↔ a parameter whose value is the scalar `v`;
    `alt pw'` ↔ `${p+w'}` / `${p:+w'}` taking its word), this area's initial expansion of `w` — in both splitting contexts —
    leaves the environment unchanged and denotes exactly ONE field: the attributed characters of `Fnmatch.PWord.expand pw`
    (origin, quoted and quoting flag of every character). -/
theorem expandWord_eq_PWord (env : Env) (ws : Bool) (pw : Fnmatch.PWord) (w : Word) (h : corrW env pw w = true) :
    den (expandWord env ws w) = (env, .ok [pw.expand.map convChar]) := by
  rw [word_den]; exact w_bridge pw w env ws h

/-- … hence the pattern characters a trim / `case` pattern gets from the word are C04's `patternOfWord`: the same
    word read by either model gives the same pattern. -/
theorem pattern_of_word_agrees (env : Env) (ws : Bool) (pw : Fnmatch.PWord) (w : Word) (ph : Phrase) (env' : Env)
    (h : corrW env pw w = true) (hx : expandWord env ws w = (env', .ok ph)) :
    env' = env ∧ toPatternChars (applyEscapes (ph.ifsJoin env')) = Fnmatch.patternOfWord pw := by
  have hd := expandWord_eq_PWord env ws pw w h
  rw [hx] at hd
  simp only [den_ok, Prod.mk.injEq, Except.ok.injEq] at hd
  obtain ⟨he, hf⟩ := hd
  refine ⟨he, ?_⟩
  rw [ifsJoin_eq, hf, patternChars_eq_fnmatch]
  have hl : (joinBySep env' [pw.expand.map convChar]).map (fun c => (⟨c.value, c.isQuoted, c.isQuoting⟩ : Fnmatch.AttrChar))
      = pw.expand.map Fnmatch.PAttrChar.reduce := by
    simp only [joinBySep, List.intercalate_singleton, List.map_map]
    apply List.map_congr_left
    intro c _
    rfl
  rw [hl]
  rfl

def envXY : Env :=
  { vars := [("x", { value := some (.scalar "a*".toList), readOnly := false })],
    pos := ["b c".toList], nounset := false, exitStatus := 0, arg0 := [] }

/-- `"\$$x"'q'${1+"$x"\*}` : every kind of unit, a parameter and a nested switch word -/
example : corrW envXY
    (.cons (.dq (.cons (.bs '$') (.cons (.param "a*".toList) .nil)))
      (.cons (.sq ['q']) (.cons (.unq (.alt (.cons (.dq (.cons (.param "a*".toList) .nil)) (.cons (.unq (.bs '*')) .nil)))) .nil)))
    (.cons (.dq (.cons (.bs '$') (.cons (.param (.var "x") .none) .nil)))
      (.cons (.sq ['q']) (.cons (.unq (.param (.pos 1) (.switch .unset .alter
        (.cons (.dq (.cons (.param (.var "x") .none) .nil)) (.cons (.unq (.bs '*')) .nil))))) .nil))) = true := by
  decide +kernel

/-! ## Which `~` is a tilde prefix (`parser/lex/tilde.rs`) -/

/-- In a word without an unquoted colon the two readings coincide: `parse_tilde_everywhere_after(0)` (assignment
    values) finds exactly the tilde prefix `parse_tilde_front` (command words) finds. -/
theorem tilde_everywhere_eq_front (us : List WordUnit) (h : ∀ u ∈ us, isColonUnit u = false) :
    parseTildeEverywhereAfter 0 us = parseTildeFront us := by
  have hnone : ∀ l : List WordUnit, (∀ u ∈ l, isColonUnit u = false) → l.findIdx? isColonUnit = none := by
    intro l hl
    rw [List.findIdx?_eq_none_iff]; exact hl
  have hpt : parseTilde us true = parseTilde us false := by
    unfold parseTilde
    split
    · rename_i rest
      exact parseTildeGo_no_colon rest (fun u hu => h u (by simp [hu])) [] 1
    · rfl
  simp only [parseTildeEverywhereAfter, List.take_zero, List.nil_append, List.drop_zero, parseTildeEverywhereGo,
    parseTildeFront, hpt]
  cases hp : parseTilde us false with
  | none => simp [hnone us h]
  | some r =>
    obtain ⟨len, name, slash⟩ := r
    have hd : ∀ u ∈ us.drop len, isColonUnit u = false := fun u hu => h u (List.mem_of_mem_drop hu)
    simp [hnone _ hd]

/-- the example of tilde.rs: `~=~a/b:~c` read from unit 2 on -/
example : parseTildeEverywhereAfter 2 ("~=~a/b:~c".toList.map fun c => WordUnit.unq (.lit c)) =
    [.unq (.lit '~'), .unq (.lit '='), .tilde ['a'] true, .unq (.lit '/'), .unq (.lit 'b'), .unq (.lit ':'), .tilde ['c'] false] := by
  rfl

/-! ## Command substitution as an opaque value source (XCU 2.6.3; `initial/command_subst.rs`) -/

/-- "removing sequences of one or more <newline> characters at the end of the substitution": what is removed is a run
    of newlines, and what is left does not end in a newline — for every output. -/
theorem strip_trailing_newlines_spec (s : List Char) :
    (∃ k, s = stripTrailingNewlines s ++ List.replicate k '\n') ∧ (stripTrailingNewlines s).getLast? ≠ some '\n' := by
  unfold stripTrailingNewlines
  have hsplit := List.takeWhile_append_dropWhile (p := (· == '\n')) (l := s.reverse)
  constructor
  · refine ⟨(s.reverse.takeWhile (· == '\n')).length, ?_⟩
    have hall : ∀ (l : List Char), ∀ c ∈ l.takeWhile (· == '\n'), c = '\n' := by
      intro l
      induction l with
      | nil => simp
      | cons d t ih =>
        intro c hc
        by_cases hd : d = '\n'
        · simp only [List.takeWhile_cons, hd, beq_self_eq_true, if_true, List.mem_cons] at hc
          rcases hc with hc | hc
          · exact hc
          · exact ih c hc
        · simp [List.takeWhile_cons, hd] at hc
    have hrep : (s.reverse.takeWhile (· == '\n')).reverse = List.replicate (s.reverse.takeWhile (· == '\n')).length '\n' := by
      rw [List.eq_replicate_iff]
      exact ⟨by simp, fun c hc => hall _ c (by simpa using hc)⟩
    have := congrArg List.reverse hsplit
    rw [List.reverse_append, List.reverse_reverse] at this
    rw [← hrep]; exact this.symm
  · intro h
    have hne : s.reverse.dropWhile (· == '\n') ≠ [] := by
      intro he; rw [he] at h; simp at h
    rw [List.getLast?_reverse] at h
    have hh := List.head?_dropWhile_not (p := (· == '\n')) (l := s.reverse)
    rw [h] at hh
    simp at hh

/-- ★ Command substitution for EVERY output: `$(…)` as a command argument is the output without its trailing
    newlines, as characters of a soft expansion, split at the IFS in force — whatever the command writes. -/
theorem cmdsubst_is_split (env : Env) (bq : Bool) (c : List Char) :
    expandWordMultiple env (.cons (.unq (.cmd bq c)) .nil) =
      (env, .ok ((splitInto env.ifs (toField (stripTrailingNewlines (env.cmdOut c)))).map removeQuotesAndStrip)) := by
  simp [expandWordMultiple, expandWord, expandWordUnit, expandTextUnit, cmdSubstPhrase, expandWordGo,
    Phrase.zeroFields, Phrase.append, Phrase.toFields]

/-- … and `"$(…)"` is exactly one field, the output without its trailing newlines (inner newlines, blanks and IFS
    characters kept), for every output and every IFS. -/
theorem cmdsubst_in_dquotes_one_field (env : Env) (bq : Bool) (c : List Char) :
    expandWordMultiple env (.cons (.dq (.cons (.cmd bq c) .nil)) .nil) =
      (env, .ok [stripTrailingNewlines (env.cmdOut c)]) := by
  have hq := quoteField_protected (toField (stripTrailingNewlines (env.cmdOut c)))
  have hs := quoted_never_split env.ifs _ hq
  have hne : quoteField (toField (stripTrailingNewlines (env.cmdOut c))) ≠ [] := by simp [quoteField]
  simp only [expandWordMultiple, expandWord, expandWordUnit, Text.isNil, expandTextGo, expandTextUnit, cmdSubstPhrase,
    expandWordGo, Phrase.zeroFields, Phrase.append, Phrase.toFields, doubleQuote, List.flatMap_cons, List.flatMap_nil,
    List.append_nil, Bool.false_eq_true, if_false]
  rw [hs]
  simp [hne, removeQuotes_quoteField_toField]

/-- The backquote form expands like `$(…)` (the difference is in the lexer's unquoting of the command text), in every
    context; and a command substitution never changes the environment. -/
theorem cmdsubst_backquote_same (env : Env) (ws : Bool) (c : List Char) :
    expandTextUnit env ws (.cmd true c) = expandTextUnit env ws (.cmd false c) ∧
    (expandTextUnit env ws (.cmd false c)).1 = env := by
  simp [expandTextUnit]

def envOut (out : String) : Env :=
  { vars := [("IFS", { value := some (.scalar ": ".toList), readOnly := false })],
    pos := [], nounset := false, exitStatus := 0, arg0 := [], cmdOut := fun _ => out.toList }

example : (expandWordMultiple (envOut "a:b c\n\n") (.cons (.unq (.cmd false [])) .nil)).2.toOption
    = some ["a".toList, "b".toList, "c".toList] := by decide +kernel
example : (expandWordMultiple (envOut "a:b\nc\n\n") (.cons (.dq (.cons (.cmd true []) .nil)) .nil)).2.toOption
    = some ["a:b\nc".toList] := by decide +kernel

/-! ## Arithmetic expansion (XCU 2.6.4; `initial/arith.rs` composed with the yash-arith model of C03) -/

/-- ★ `$((…))` yields the value in decimal as characters of a SOFT expansion: as a command argument it IS split at
    the IFS in force after the evaluation (e.g. at a digit or the minus sign when IFS holds one), for every content,
    environment and value. -/
theorem arith_expansion_is_split (env env1 env2 : Env) (t : Text) (src : List Char) (v : Int)
    (h1 : expandTextJoined env t = (env1, .ok src))
    (h2 : Arith.evalStrG arithI false src env1 = .ok (v, env2)) :
    expandWordMultiple env (.cons (.unq (.arith t)) .nil) =
      (env2, .ok ((splitInto env2.ifs (toField (intChars v))).map removeQuotesAndStrip)) := by
  simp [expandWordMultiple, expandWord, expandWordUnit, arith_unit env env1 env2 true t src v h1 h2, expandWordGo,
    Phrase.zeroFields, Phrase.append, Phrase.toFields]

/-- … and inside double quotes it is one field, the decimal value, whatever IFS is. -/
theorem arith_in_dquotes_one_field (env env1 env2 : Env) (t : Text) (src : List Char) (v : Int)
    (h1 : expandTextJoined env t = (env1, .ok src))
    (h2 : Arith.evalStrG arithI false src env1 = .ok (v, env2)) :
    expandWordMultiple env (.cons (.dq (.cons (.arith t) .nil)) .nil) = (env2, .ok [intChars v]) := by
  have hq : ∀ c ∈ quoteField (toField (intChars v)), c.isQuoted = true ∨ c.isQuoting = true ∨ c.origin ≠ .softExpansion :=
    quoteField_protected _
  have hs := quoted_never_split env2.ifs _ hq
  have hne : quoteField (toField (intChars v)) ≠ [] := by simp [quoteField]
  simp only [expandWordMultiple, expandWord, expandWordUnit, Text.isNil, expandTextGo,
    arith_unit env env1 env2 false t src v h1 h2, expandWordGo, Phrase.zeroFields, Phrase.append, Phrase.toFields,
    doubleQuote, List.flatMap_cons, List.flatMap_nil, List.append_nil, Bool.false_eq_true, if_false]
  rw [hs]
  simp [hne, removeQuotes_quoteField_toField]

/-- ★ Assignments made inside `$((…))` are visible to the later units of the same word, left to right: what follows
    the arithmetic expansion is expanded in the environment the evaluation left, glued to the value. -/
theorem arith_assignment_visible_later (env env1 env2 : Env) (ws : Bool) (t : Text) (src : List Char) (v : Int) (w : Word)
    (h1 : expandTextJoined env t = (env1, .ok src))
    (h2 : Arith.evalStrG arithI false src env1 = .ok (v, env2)) :
    expandWord env ws (.cons (.unq (.arith t)) w) = expandWordGo env2 ws (.field (toField (intChars v))) w := by
  simp [expandWord, expandWordUnit, arith_unit env env1 env2 ws t src v h1 h2, Phrase.zeroFields, Phrase.append]

/-- the adapter: the interface C03's evaluator uses reads `get_scalar` and writes through `Env.assign` -/
theorem arithI_is_the_environment (env : Env) (name : List Char) (val : List Char) :
    (arithI.assign env name val = match env.assign (String.ofList name) val with
      | some e => .ok e | none => .error .assignVariableError) ∧
    (arithI.get env name = match env.getScalar (String.ofList name) with
      | some s => .ok (some s) | none => if env.nounset then .error .getVariableError else .ok none) :=
  ⟨rfl, rfl⟩

def envX (x : String) (ifs : String) : Env :=
  { vars := [("IFS", { value := some (.scalar ifs.toList), readOnly := false }),
             ("x", { value := some (.scalar x.toList), readOnly := false })],
    pos := [], nounset := false, exitStatus := 0, arg0 := [] }

def litText (s : String) : Text := s.toList.foldr (fun c t => .cons (.lit c) t) .nil

/-- `$((x=5))$x` with x = 3: the later `$x` sees 5 -/
example : ((expandWordSingle (envX "3" " ") (.cons (.unq (.arith (litText "x=5"))) (.cons (.unq (.param (.var "x") .none)) .nil))).2.toOption)
    = some "55".toList := by decide +kernel
/-- `$((100+1))` with IFS = `0`: split at the zero -/
example : ((expandWordMultiple (envX "3" "0") (.cons (.unq (.arith (litText "100+1"))) .nil)).2.toOption)
    = some ["1".toList, "1".toList] := by decide +kernel
/-- `"$((x++))$x"$x` -/
example : ((expandWordMultiple (envX "3" " ") (.cons (.dq (.cons (.arith (litText "x++")) (.cons (.param (.var "x") .none) .nil)))
      (.cons (.unq (.param (.var "x") .none)) .nil))).2.toOption) = some ["344".toList] := by decide +kernel

/-! ## `${p}` and `${#p}` -/

/-- `$p` / `${p}` select the parameter's value and `${#p}` its length in characters (a parameter
    that is unset, `nounset` being off, counts as empty / `0`) — shown in a single-field context,
    where no splitting interferes; for every scalar-valued parameter of any kind. -/
theorem value_and_length_forms (env : Env) (p : Param) (hn : env.nounset = false)
    (hv : ∀ vs, resolve env p ≠ some (.array vs)) :
    expandWordSingle env (.cons (.unq (.param p .none)) .nil)
      = (env, .ok (match resolve env p with | some (.scalar s) => s | _ => [])) ∧
    expandWordSingle env (.cons (.unq (.param p .length)) .nil)
      = (env, .ok (match resolve env p with | some (.scalar s) => natToChars s.length | _ => ['0'])) := by
  have hstar : p ≠ .star := by
    intro h; subst h; exact hv _ rfl
  have hs : (p == Param.star) = false := by simpa using hstar
  cases hr : resolve env p with
  | none =>
    simp [expandWordSingle, expandWord, expandWordUnit, expandTextUnit, expandParam, hr, hn,
      finishParam, hs, intoPhrase, lengthOf, Phrase.oneEmptyField, Phrase.zeroFields, Phrase.append,
      expandWordGo, Phrase.ifsJoin, removeQuotesAndStrip, skipQuotes, strip, toField, softChar]
  | some v =>
    cases v with
    | array vs => exact absurd hr (hv vs)
    | scalar s =>
      have h1 := removeQuotes_toField s
      have h2 := removeQuotes_toField (natToChars s.length)
      simp [expandWordSingle, expandWord, expandWordUnit, expandTextUnit, expandParam, hr,
        finishParam, hs, intoPhrase, lengthOf, Phrase.zeroFields, Phrase.append,
        expandWordGo, Phrase.ifsJoin, h1, h2]

example : resolve
    { vars := [("x", { value := some (.scalar ['a', 'b']), readOnly := false })],
      pos := [], nounset := false, exitStatus := 0, arg0 := [] }
    (.var "x") = some (.scalar ['a', 'b']) := rfl

/-! ## Trims (composed with the C04 model and theorems of yash-fnmatch) -/

/-- ★ `trim::apply` — `Pattern::parse_with_config`, regex translation, `find` / `rfind`, literal fast path,
    fallback for a pattern that does not compile, scalar and array values (the C04 model, run by the driver) —
    is the Spec's `posixTrim` for EVERY pattern-character string and value: inside the notation POSIX defines
    the removal of the shortest / longest prefix / suffix that matches in the glob language of the grammar
    (next theorem); outside it (no hypothesis needed) the documented fallback. -/
theorem trim_eq_posix (pcs : List PatChar) (side : TrimSide) (len : TrimLen) (val : Value) :
    trimApply pcs side len val = posixTrim pcs side len val :=
  trimApply_eq_posixTrim pcs side len val

/-- ★ `${p#w} ${p##w} ${p%w} ${p%%w}` in the literal sense of XCU 2.6.2, against POSIX pattern matching
    (`Fnmatch.posixMatch`: the XCU 2.13 grammar with bracket expressions, ranges, classes, complements, quoted
    characters, then the glob language): for a pattern inside the defined notation the result is the value
    cut at a split point whose removed part matches, the removed part being the shortest (`#`, `%`) / longest
    (`##`, `%%`) among ALL matching prefixes (`#`) / suffixes (`%`); and the value itself exactly when no
    prefix / suffix matches. -/
theorem trim_removes_shortest_longest (pcs : List PatChar) (side : TrimSide) (len : TrimLen) (v : List Char)
    (h : patternInPosix side pcs = true) :
    (∃ i, i ≤ v.length ∧ Fnmatch.posixMatch pcs (trimRemovedPart side v i) = true ∧
        Fnmatch.trimApply side len pcs v = trimKeptPart side v i ∧
        ∀ j, j ≤ v.length → Fnmatch.posixMatch pcs (trimRemovedPart side v j) = true →
          (len = .shortest → trimRemovedLen side v i ≤ trimRemovedLen side v j) ∧
          (len = .longest → trimRemovedLen side v j ≤ trimRemovedLen side v i)) ∨
    ((∀ j, j ≤ v.length → Fnmatch.posixMatch pcs (trimRemovedPart side v j) = false) ∧
      Fnmatch.trimApply side len pcs v = v) := by
  rw [trimString_eq_posix, posixTrimString, if_pos h]
  unfold Fnmatch.posixMatch
  generalize Fnmatch.specParse pcs = ast
  have hcontra : ∀ {b : Bool}, b = true → b = false → False := by intro b h1 h2; rw [h1] at h2; cases h2
  cases side <;> cases len <;>
    simp only [Fnmatch.specTrim, trimRemovedPart, trimKeptPart, trimRemovedLen]
  · -- `#`: least matching prefix length
    rcases (fnmatch_specTrim_declarative (fun k => Fnmatch.globMatch ast (v.take k)) v.length).1 with
      ⟨hn, hall⟩ | ⟨k, hk, hle, hp, hmin⟩
    · rw [hn]; exact Or.inr ⟨hall, rfl⟩
    · rw [hk]
      refine Or.inl ⟨k, hle, hp, rfl, fun j _ hm => ?_⟩
      have : k ≤ j := by
        rcases Nat.lt_or_ge j k with hlt | hge
        · exact (hcontra hm (hmin j hlt)).elim
        · exact hge
      simp [this]
  · -- `##`: greatest matching prefix length
    rcases (fnmatch_specTrim_declarative (fun k => Fnmatch.globMatch ast (v.take k)) v.length).2 with
      ⟨hn, hall⟩ | ⟨k, hk, hle, hp, hmax⟩
    · rw [hn]; exact Or.inr ⟨hall, rfl⟩
    · rw [hk]
      refine Or.inl ⟨k, hle, hp, rfl, fun j hj hm => ?_⟩
      have : j ≤ k := by
        rcases Nat.lt_or_ge k j with hlt | hge
        · exact (hcontra hm (hmax j hlt hj)).elim
        · exact hge
      simp [this]
  · -- `%`: greatest matching suffix start
    rcases (fnmatch_specTrim_declarative (fun k => Fnmatch.globMatch ast (v.drop k)) v.length).2 with
      ⟨hn, hall⟩ | ⟨k, hk, hle, hp, hmax⟩
    · rw [hn]; exact Or.inr ⟨hall, rfl⟩
    · rw [hk]
      refine Or.inl ⟨k, hle, hp, rfl, fun j hj hm => ?_⟩
      have : j ≤ k := by
        rcases Nat.lt_or_ge k j with hlt | hge
        · exact (hcontra hm (hmax j hlt hj)).elim
        · exact hge
      have : v.length - k ≤ v.length - j := by omega
      simp [this]
  · -- `%%`: least matching suffix start
    rcases (fnmatch_specTrim_declarative (fun k => Fnmatch.globMatch ast (v.drop k)) v.length).1 with
      ⟨hn, hall⟩ | ⟨k, hk, hle, hp, hmin⟩
    · rw [hn]; exact Or.inr ⟨hall, rfl⟩
    · rw [hk]
      refine Or.inl ⟨k, hle, hp, rfl, fun j _ hm => ?_⟩
      have : k ≤ j := by
        rcases Nat.lt_or_ge j k with hlt | hge
        · exact (hcontra hm (hmin j hlt)).elim
        · exact hge
      have : v.length - j ≤ v.length - k := by omega
      simp [this]

/-- non-vacuity, with a bracket expression: `[a-c]*` is inside the defined notation; `##` removes all of
    `bxbx`, `#` only `b`; `%[!x]` removes nothing from `bx`, `%%[[:alpha:]]` removes the `x` -/
example :
    let p1 : List PatChar := [.normal '[', .normal 'a', .normal '-', .normal 'c', .normal ']', .normal '*']
    let p2 : List PatChar := [.normal '[', .normal '!', .normal 'x', .normal ']']
    let p3 : List PatChar := "[[:alpha:]]".toList.map .normal
    patternInPosix .prefix p1 = true ∧ patternInPosix .suffix p2 = true ∧ patternInPosix .suffix p3 = true ∧
    Fnmatch.trimApply .prefix .longest p1 "bxbx".toList = [] ∧
    Fnmatch.trimApply .prefix .shortest p1 "bxbx".toList = "xbx".toList ∧
    Fnmatch.trimApply .suffix .shortest p2 "bx".toList = "bx".toList ∧
    Fnmatch.trimApply .suffix .longest p3 "bx".toList = "b".toList := by decide +kernel

/-- outside the defined notation the fallback branch of the Spec is taken: `[z-a]` (inverted range) does not
    compile and leaves the value unchanged; `[a[.ab.]]` (multi-character collating element, prefix form) -/
example :
    patternInPosix .prefix ("[z-a]".toList.map .normal) = false ∧
    Fnmatch.trimApply .prefix .shortest ("[z-a]".toList.map .normal) "za".toList = "za".toList ∧
    patternInPosix .prefix ("[a[.ab.]]".toList.map .normal) = false ∧
    patternInPosix .suffix ("[a[.ab.]]".toList.map .normal) = true := by decide +kernel

/-- ★ a syntactically described class inside the defined notation: a pattern without an unquoted `[` —
    ordinary characters, quoted characters of any kind (also quoted `[`, `*`, `?`), `?` and `*` — for both
    sides; so for these the two theorems above hold without any semantic hypothesis.  (The driver evaluates
    `patternInPosix` on every trim of every case and reports it; bracket patterns are decided per case.) -/
theorem bracketFree_patterns_in_posix (pcs : List PatChar) (h : bracketFree pcs = true) (side : TrimSide) :
    patternInPosix side pcs = true :=
  bracketFree_inPosix pcs h side

example : bracketFree [.normal 'a', .literal '[', .normal '*', .normal '?'] = true := by decide

/-- ★ the pattern characters: in the expanded pattern word a quoting character (`'`, `"`, `\`) is dropped, a
    quoted character is a literal pattern character and any other one keeps its special meaning — and the
    model's `apply_escapes` / `to_pattern_chars` are C04's (same functions on the projection of the
    attributed characters), so the trim patterns of this property and the `case` patterns of C04 are read by
    the same kernel-checked chain. -/
theorem pattern_chars_compose (cs : List AttrChar) :
    toPatternChars (applyEscapes cs) =
      Fnmatch.toPatternChars (Fnmatch.applyEscapes (cs.map fun c => ⟨c.value, c.isQuoted, c.isQuoting⟩)) :=
  patternChars_eq_fnmatch cs

/-- ★ the trim inside the expansion: `${x<op>w}` on a set scalar variable yields the one field `posixTrim`
    describes, the pattern being the expansion of `w` joined, escapes applied; in every context, for every
    pattern word. -/
theorem trim_expansion (env : Env) (ws : Bool) (name : String) (v : List Char) (side : TrimSide) (len : TrimLen)
    (w : Word) (hv : env.getValue name = some (.scalar v)) :
    posixParam env ws (.var name) (resolve env (.var name)) (.trim side len w) =
      match posixWord env ws w with
      | (env', .error e) => (env', .error e)
      | (env', .ok fs) =>
        (env', .ok [toField (posixTrimString (toPatternChars (applyEscapes (joinBySep env' fs))) side len v)]) := by
  simp only [resolve, hv, posixParam]
  rcases posixWord env ws w with ⟨env', r⟩
  cases r with
  | error e => simp
  | ok fs => simp [paramFields, valueFields, posixTrim]

/-- non-vacuity, end to end through the function the driver runs: `${x%%[.:]*}` with `x=a.b:c` is the one field
    `a`; `${x#*[.:]}` is `b:c`; `"${@#[!a]}"` with the parameters `ba` `ab` gives `a` and `ab` -/
example :
    let env : Env := { vars := [("x", { value := some (.scalar "a.b:c".toList), readOnly := false })],
                       pos := ["ba".toList, "ab".toList], nounset := false, exitStatus := 0, arg0 := [] }
    let lits := fun (s : String) => s.toList.foldr (fun c w => Word.cons (.unq (.lit c)) w) Word.nil
    env.getValue "x" = some (.scalar "a.b:c".toList) ∧
    (expandWordMultiple env (.cons (.unq (.param (.var "x") (.trim .suffix .longest (lits "[.:]*")))) .nil)).2.toOption
      = some ["a".toList] ∧
    (expandWordMultiple env (.cons (.unq (.param (.var "x") (.trim .prefix .shortest (lits "*[.:]")))) .nil)).2.toOption
      = some ["b:c".toList] ∧
    (expandWordMultiple env (.cons (.dq (.cons (.param .at (.trim .prefix .shortest (lits "[!a]"))) .nil)) .nil)).2.toOption
      = some ["a".toList, "ab".toList] := by decide +kernel

/-! ## `${p=w}` / `${p:=w}` assign to the parameter -/

/-- ★ "The expansion of word shall be assigned to parameter" (XCU 2.6.2): when `${name=w}` /
    `${name:=w}` finds the variable vacant, the expansion succeeds with the quote-removed value of
    the word, and from then on that value is what `name` expands to — in the context where the
    expansion happened and, provided no function call in progress has declared `name` local, in
    EVERY context afterwards: after the running functions return (`popCtx`), in later calls, at top
    level (`ctxs'` is any stack of function contexts that do not declare `name`).  The value goes to
    the global variable, never into the context of the function call in progress. -/
theorem assign_switch_effect (env env1 : Env) (ws : Bool) (name : String) (cond : SwCond) (w : Word)
    (ph : Phrase) (vac : Vacancy)
    (hd : switchDecision .assign (ValueCondition.with_ cond (Vacancy.of (env.getValue name))) = .assignWord vac)
    (hw : expandWord env ws w = (env1, .ok ph))
    (hro : ∀ v, env1.getVar name = some v → v.readOnly = false) :
    ∃ env2,
      expandParam env ws (.var name) (env.getValue name) (.switch cond .assign w)
        = (env2, .ok (.field (toField (removeQuotesAndStrip ((reattribute ph).ifsJoin env1))))) ∧
      env2.getValue name = some (.scalar (removeQuotesAndStrip ((reattribute ph).ifsJoin env1))) ∧
      ((∀ c ∈ env1.ctxs, c.lookup name = none) →
        ∀ ctxs', (∀ c ∈ ctxs', c.lookup name = none) →
          ({ env2 with ctxs := ctxs' }).getValue name
            = some (.scalar (removeQuotesAndStrip ((reattribute ph).ifsJoin env1)))) := by
  have hassign : ∃ env2, env1.assign name (removeQuotesAndStrip ((reattribute ph).ifsJoin env1)) = some env2 := by
    unfold Env.assign
    cases hg : env1.getVar name with
    | none => exact ⟨_, rfl⟩
    | some v =>
      have := hro v hg
      simp only [this, Bool.false_eq_true, if_false]
      split <;> exact ⟨_, rfl⟩
  obtain ⟨env2, h2⟩ := hassign
  refine ⟨env2, ?_, assign_getValue _ _ _ _ h2, ?_⟩
  · simp only [expandParam, hd, hw, h2]
  · intro hnl ctxs' hnl'
    obtain ⟨_, hv⟩ := assign_global _ _ _ _ h2 hnl
    rw [getValue_global _ _ (by simpa using hnl')]
    exact hv

/-- the history of the property: inside a function call (no locals) `${u=q}` with `u` unset, then the
    return, then `$u` at top level gives `q` -/
example :
    let env : Env := { vars := [], pos := [], nounset := true, exitStatus := 0, arg0 := [], ctxs := [[]] }
    let r := expandWordMultiple env (.cons (.unq (.param (.var "u") (.switch .unset .assign (.cons (.unq (.lit 'q')) .nil)))) .nil)
    (expandWordMultiple r.1.popCtx (.cons (.unq (.param (.var "u") .none)) .nil)).2 = .ok [['q']] := by
  rfl

/-- a local declared by the function in progress receives the value instead, and the global stays
    as it was: after the return `u` is unset again -/
example :
    let env : Env := { vars := [], pos := [], nounset := false, exitStatus := 0, arg0 := [],
                       ctxs := [[("u", { value := none, readOnly := false })]] }
    let r := expandWordMultiple env (.cons (.unq (.param (.var "u") (.switch .unset .assign (.cons (.unq (.lit 'q')) .nil)))) .nil)
    r.2 = .ok [['q']] ∧ r.1.getValue "u" = some (.scalar ['q']) ∧ r.1.popCtx.getValue "u" = none := by
  refine ⟨rfl, rfl, rfl⟩

/-! ## Field splitting uses the IFS in force after the word's expansions -/

/-- ★ XCU 2.6: all parameter expansions of a word happen first, field splitting afterwards — the
    separators are those of the variable state the initial expansion LEFT (`env'`), not of the
    state it started from. -/
theorem split_uses_ifs_after_expansion (env env' : Env) (w : Word) (ph : Phrase)
    (h : expandWord env true w = (env', .ok ph)) :
    expandWordMultiple env w
      = (env', .ok ((ph.toFields.flatMap (splitInto env'.ifs)).map removeQuotesAndStrip)) := by
  simp [expandWordMultiple, h]

/-- ★ … which shows when the word itself assigns IFS: with IFS unset and `x` a scalar, the word
    `${IFS=:}$x` is split at colons — the separator assigned while the word was being expanded —
    and not at the blanks of the default IFS that was in force before (`unset IFS; x='a:b c'` gives
    the three fields `''`, `a`, `b c`).  For every value of `x` and every such environment. -/
theorem ifs_assigned_in_word_is_used (env : Env) (s : List Char)
    (hifs : env.getVar "IFS" = none) (hx : env.getValue "x" = some (.scalar s)) :
    (expandWordMultiple env
        (.cons (.unq (.param (.var "IFS") (.switch .unset .assign (.cons (.unq (.lit ':')) .nil))))
          (.cons (.unq (.param (.var "x") .none)) .nil))).2
      = .ok ((splitInto (Ifs.new [':']) (toField [':'] ++ toField s)).map removeQuotesAndStrip) := by
  have hv : env.getValue "IFS" = none := by simp [Env.getValue, hifs]
  have hl : lookupCtxs env.ctxs "IFS" = none := by
    unfold Env.getVar at hifs
    cases hc : lookupCtxs env.ctxs "IFS" with
    | none => rfl
    | some v => simp [hc] at hifs
  -- the environment after the assignment
  let env2 : Env := { env with vars := setVar env.vars "IFS" { value := some (.scalar [':']), readOnly := false } }
  have hassign : env.assign "IFS" [':'] = some env2 := by simp [Env.assign, hifs, env2]
  have hx2 : env2.getValue "x" = some (.scalar s) := by
    have hne : ("x" : String) ≠ "IFS" := by decide
    have : env2.getVar "x" = env.getVar "x" := by
      simp [Env.getVar, env2, lookup_setVar_ne _ _ _ _ hne]
    simpa [Env.getValue, this] using hx
  have hifs2 : env2.ifs = Ifs.new [':'] := by
    simp [Env.ifs, Env.getScalar, Env.getValue, Env.getVar, env2, hl, lookup_setVar]
  have hrq : removeQuotesAndStrip [softenChar { value := ':', origin := .literal, isQuoted := false, isQuoting := false }]
      = [':'] := by
    simp [removeQuotesAndStrip, skipQuotes, strip, softenChar]
  have hexp : expandWord env true
        (.cons (.unq (.param (.var "IFS") (.switch .unset .assign (.cons (.unq (.lit ':')) .nil))))
          (.cons (.unq (.param (.var "x") .none)) .nil))
      = (env2, .ok (.field (toField [':'] ++ toField s))) := by
    simp [expandWord, expandWordUnit, expandTextUnit, expandParam, resolve, hv, Vacancy.of,
      ValueCondition.with_, switchDecision, expandWordGo, Phrase.zeroFields, Phrase.append,
      reattribute, Phrase.mapChars, Phrase.ifsJoin, hrq, hassign, hx2, finishParam, intoPhrase]
  rw [split_uses_ifs_after_expansion _ _ _ _ hexp, hifs2]
  simp [Phrase.toFields]

example :
    (expandWordMultiple
      { vars := [("x", { value := some (.scalar ['a', ':', 'b', ' ', 'c']), readOnly := false })],
        pos := [], nounset := false, exitStatus := 0, arg0 := [] }
      (.cons (.unq (.param (.var "IFS") (.switch .unset .assign (.cons (.unq (.lit ':')) .nil))))
        (.cons (.unq (.param (.var "x") .none)) .nil))).2
    = .ok [[], ['a'], ['b', ' ', 'c']] := by rfl

/-! ## `nounset` exactly where POSIX says -/

/-- which parameters can be unset at all: a variable without value, a positional parameter beyond
    the last one (or index 0), `$!` before any asynchronous command — never `$@ $* $# $? $- $$ $0` -/
theorem resolve_none_iff (env : Env) (p : Param) :
    resolve env p = none ↔
      match p with
      | .var name => env.getValue name = none
      | .pos 0 => True
      | .pos (k+1) => env.pos.length ≤ k
      | .bang => env.lastAsync = 0
      | _ => False := by
  cases p with
  | pos n =>
    cases n with
    | zero => simp [resolve]
    | succ k => simp [resolve]
  | bang => simp [resolve]
  | _ => simp [resolve]

/-- ★ `set -u`: a parameter expansion without a switch modifier fails with "unset parameter" if and
    only if the option is on and the parameter is unset; nothing else about the expansion matters,
    and the environment is untouched. -/
theorem nounset_error_iff (env : Env) (ws : Bool) (p : Param) (v : Option Value) :
    (expandParam env ws p v .none = (env, .error .unsetParameter) ↔ (env.nounset = true ∧ v = none)) ∧
    (expandParam env ws p v .length = (env, .error .unsetParameter) ↔ (env.nounset = true ∧ v = none)) := by
  constructor
  · cases v <;> cases hn : env.nounset <;> simp [expandParam, hn]
  · cases v <;> cases hn : env.nounset <;> simp [expandParam, hn]

/-- ★ `$@` and `$*` are exempt: with no positional parameters — `nounset` on or off — they expand,
    unquoted, to zero fields and never to an error (XCU 2.5.2; `"$@"`/`"$*"`: `dquote_at_zero_params`). -/
theorem at_star_zero_params_unquoted (env : Env) (h : env.pos = []) :
    expandWordMultiple env (.cons (.unq (.param .at .none)) .nil) = (env, .ok []) ∧
    expandWordMultiple env (.cons (.unq (.param .star .none)) .nil) = (env, .ok []) := by
  constructor <;>
    simp [expandWordMultiple, expandWord, expandWordUnit, expandTextUnit, expandParam, resolve, h,
      finishParam, intoPhrase, Phrase.zeroFields, Phrase.append, expandWordGo, Phrase.toFields]

/-- `$@ $* $# $? $- $$ $0` are never a `nounset` error, in any form without a switch -/
theorem special_params_never_unset (env : Env) (ws : Bool) (p : Param)
    (hp : p = .at ∨ p = .star ∨ p = .num ∨ p = .question ∨ p = .hyphen ∨ p = .dollar ∨ p = .zero) :
    expandParam env ws p (resolve env p) .none = (env, .ok (finishParam env ws p (resolve env p))) := by
  rcases hp with h | h | h | h | h | h | h <;> subst h <;> simp [expandParam, resolve]

example : (expandWordMultiple
    { vars := [], pos := [], nounset := true, exitStatus := 0, arg0 := [] }
    (.cons (.unq (.param .at .none)) .nil)).2 = .ok [] := by
  rw [(at_star_zero_params_unquoted _ rfl).1]

/-! ## Double quotes and the splitting context -/

/-- ★ What double quotes enclose is expanded in a non-splitting context whatever context the quotes
    stand in: the result of a double-quoted unit does not depend on the `will_split` flag around it … -/
theorem dquote_ignores_context (env : Env) (ws ws' : Bool) (t : Text) :
    expandWordUnit env ws (.dq t) = expandWordUnit env ws' (.dq t) := by
  simp only [expandWordUnit]

/-- ★ … and what follows the closing quote is expanded in the surrounding context again:
    `"$*"$*` (as a command argument) is the quoted join of the positional parameters glued to the
    first of the parameters as separate fields — for every environment and IFS. -/
theorem star_after_dquote_splits (env : Env) :
    den (expandWord env true
      (.cons (.dq (.cons (.param .star .none) .nil)) (.cons (.unq (.param .star .none)) .nil)))
    = (env, .ok (joinFields [quoteField (joinBySep env (env.pos.map toField))] (env.pos.map toField))) := by
  rw [initial_expansion_eq_posix]
  simp [posixWord, posixWordUnit, posixWordGo, posixTextGo, posixTextUnit, posixParam, resolve,
    Text.isNil, paramFields, valueFields, joinFields_nil_left]

/-- the same inside: `"${u-"$*"}$*"` with `u` unset — the nested quotes do not turn splitting on
    for the rest of the outer quotes (both `$*` are joined) -/
theorem star_after_nested_dquote_joined (env : Env) (hu : env.getValue "u" = none) :
    den (expandWord env true
      (.cons (.dq (.cons (.param (.var "u") (.switch .unset .default
              (.cons (.dq (.cons (.param .star .none) .nil)) .nil)))
            (.cons (.param .star .none) .nil))) .nil))
    = (env, .ok [quoteField
        ((quoteField (joinBySep env (env.pos.map toField))).map
            (fun c => if c.origin = .literal then { c with origin := .softExpansion } else c)
          ++ joinBySep env (env.pos.map toField))]) := by
  rw [initial_expansion_eq_posix]
  simp [posixWord, posixWordUnit, posixWordGo, posixTextGo, posixTextUnit, posixParam, resolve, hu,
    Text.isNil, paramFields, valueFields, joinFields, PState.of, Vacancy.of, PState.ofVacancy,
    posixTable, soften, quoteField, quoteChar]

example :
    (expandWordMultiple
      { vars := [("IFS", { value := some (.scalar []), readOnly := false })],
        pos := ["a".toList, "b".toList], nounset := false, exitStatus := 0, arg0 := [] }
      (.cons (.dq (.cons (.param .star .none) .nil)) (.cons (.unq (.param .star .none)) .nil))).2
    = .ok [['a', 'b', 'a'], ['b']] := by rfl

/-! ## `read` -/

/-- ☆ The `read` built-in's assignment (`assigning::assign`: fields from the split machine, the
    last variable's range extended to the last character that is not IFS white space) gives every
    variable exactly what XCU `read` prescribes on the POSIX field splitting of the line: variable
    `k` receives field `k` (empty if there is none) and the last variable receives its field, or —
    when more fields follow — the rest of the line from the start of its field without trailing
    IFS white space.  For every IFS, every line and every number of variables. -/
theorem read_eq_specRead (ifs : Ifs) (text : List AttrChar) (nBefore : Nat) :
    readAssign ifs text nBefore = specRead ifs text nBefore :=
  readAssign_eq_specRead ifs text nBefore

/-- ★ `input::read` — one pass over the input with the delimiter test first, a backslash consuming the next
    character, backslash–newline skipped — is the logical line of XCU `read`: lex the WHOLE input into items
    (ordinary character, escaped character, line continuation, dangling backslash, delimiter), keep the items
    before the first delimiter, let every escaped character be quoted and its backslash quoting; the exit
    status's "delimiter found" is "the input has a delimiter item".  For every input, delimiter (`-d`) and
    both settings of `-r`. -/
theorem readInput_eq_specReadInput_all (raw : Bool) (delim : Char) (input : List Char) :
    readInput raw delim input = specReadInput raw delim input :=
  readInput_eq_specReadInput raw delim input

/-- ★ with `-r` the line is the input up to the first delimiter, every character ordinary (a backslash too) -/
theorem read_raw_line (delim : Char) (input : List Char) :
    readInput true delim input =
      ((input.takeWhile (· != delim)).map plainChar, input.contains delim) := by
  rw [readInput_eq_specReadInput, specReadInput, readItems_raw]
  induction input with
  | nil => rfl
  | cons c t ih =>
    simp only [Prod.mk.injEq] at ih
    by_cases hd : c = delim
    · subst hd; simp [List.takeWhile]
    · have hd' : (c == delim) = false := by simpa using hd
      have hd'' : (c != delim) = true := by simpa using hd
      have h1 : (decide (RItem.plain c ≠ RItem.delimiter)) = true := by simp
      have h2 : (RItem.delimiter == RItem.plain c) = false := by simp
      have h3 : (delim == c) = false := by
        rw [beq_eq_false_iff_ne]; exact fun h => hd h.symm
      simp only [List.map_cons, hd', List.takeWhile_cons, hd'', if_true, Bool.false_eq_true, if_false, h1,
        List.flatMap_cons, RItem.chars, List.singleton_append, List.contains_cons, h2, h3, Bool.false_or,
        Prod.mk.injEq, List.cons.injEq, true_and]
      exact ih

example : readInput true '\n' "a\\ b\nc".toList = ("a\\ b".toList.map plainChar, true) := by decide +kernel

/-- ★ what the variables can receive: quote removal of the logical line is the line with every continuation
    and every escaping backslash removed and every escaped character kept literally -/
theorem read_line_value (raw : Bool) (delim : Char) (input : List Char) :
    removeQuotesAndStrip (readInput raw delim input).1 =
      ((readItems raw delim input).takeWhile (· ≠ .delimiter)).flatMap RItem.value := by
  rw [readInput_eq_specReadInput, specReadInput]
  exact removeQuotes_items _

/-- `a\<newline>b\ c\\` then newline: one logical line `ab c\`, the escaped space and backslash literal -/
example : removeQuotesAndStrip (readInput false '\n' "a\\\nb\\ c\\\\\nrest".toList).1 = "ab c\\".toList ∧
    (readInput false '\n' "a\\\nb\\ c\\\\\nrest".toList).2 = true ∧
    (readInput false ':' "a\\:b:c".toList) =
      ([plainChar 'a', readQuoting '\\', readQuoted ':', plainChar 'b'], true) := by decide +kernel

/-- ★ a backslash-escaped character is never a field separator and neither is its backslash — whatever IFS
    is; together with `quoted_never_split` / `read_eq_specRead`: `read` never splits at an escaped character -/
theorem read_escaped_never_separator (ifs : Ifs) (c : Char) :
    ifs.classifyAttr (readQuoted c) = .non ∧ ifs.classifyAttr (readQuoting '\\') = .non := by
  simp [Ifs.classifyAttr, readQuoted, readQuoting]

/-- ★ end to end for `read [-r] [-d c] v1 … vn`: what the driver computes (`input::read`, then
    `assigning::assign`) is the Spec column (logical line by items, XCU `read` on the recursive splitter) -/
theorem read_end_to_end (ifs : Ifs) (raw : Bool) (delim : Char) (input : List Char) (nBefore : Nat) :
    readAssign ifs (readInput raw delim input).1 nBefore =
      specRead ifs (specReadInput raw delim input).1 nBefore ∧
    (readInput raw delim input).2 = (specReadInput raw delim input).2 := by
  rw [readInput_eq_specReadInput]
  exact ⟨readAssign_eq_specRead ifs _ nBefore, rfl⟩

/-- "`read` splits by the same IFS rules": variable `k` (not the last) receives field `k` of the very
    splitting that word expansion uses (`split_into`), quote-removed — empty if there is none … -/
theorem read_field_k (ifs : Ifs) (text : List AttrChar) (n k : Nat) (hk : k < n) :
    (readAssign ifs text n)[k]? =
      some (removeQuotesAndStrip ((splitInto ifs text)[k]?.getD [])) :=
  readAssign_index ifs text n k hk

/-- … and the last variable receives its field when no more follow, and otherwise the line from the
    start of that field on, without trailing IFS white space (`restTrimmed`, characterised below). -/
theorem read_last_variable (ifs : Ifs) (text : List AttrChar) (n : Nat) :
    (readAssign ifs text n)[n]? =
      some (if (splitInto ifs text).length ≤ n + 1
            then removeQuotesAndStrip ((splitInto ifs text)[n]?.getD [])
            else removeQuotesAndStrip
              (restTrimmed ifs text (((rangesOf ifs.classifyAttr text)[n]?.getD (0, 0)).1))) :=
  readAssign_last ifs text n

/-- `restTrimmed` is the rest of the line minus exactly its trailing IFS white space -/
theorem restTrimmed_spec (ifs : Ifs) (text : List AttrChar) (start : Nat) :
    ∃ tail, text.drop start = restTrimmed ifs text start ++ tail ∧
      (∀ c ∈ tail, ifs.classifyAttr c = .ws) ∧
      (∀ c, (restTrimmed ifs text start).getLast? = some c → ifs.classifyAttr c ≠ .ws) := by
  obtain ⟨tail, h1, h2, h3⟩ := rstrip_spec (fun c => ifs.classifyAttr c == .ws) (text.drop start)
  refine ⟨tail, h1, ?_, ?_⟩
  · intro c hc; simpa using h2 c hc
  · intro c hc; have := h3 c hc; simpa using this

example : readAssign (Ifs.new [' ', ':']) ((" a: b c  ".toList).map plainChar) 1
    = ["a".toList, "b c".toList] := by decide

end YashModel.Expansion
