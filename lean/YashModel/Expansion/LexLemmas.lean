/-
  C01 — helper lemmas for the braced-parameter lexer model (`lexBraced`).
-/
import YashModel.Expansion.Model
namespace YashModel.Expansion

theorem takeWhile_dropWhile_name (s2 rest : List Char) (h : ∀ c ∈ s2, isNameChar c = true) :
    (s2 ++ '}' :: rest).takeWhile isNameChar = s2 ∧ (s2 ++ '}' :: rest).dropWhile isNameChar = '}' :: rest := by
  induction s2 with
  | nil => exact ⟨by simp [show isNameChar '}' = false by decide],
                  by simp [show isNameChar '}' = false by decide]⟩
  | cons c t ih =>
    have hc : isNameChar c = true := h c (by simp)
    have ⟨h1, h2⟩ := ih (fun d hd => h d (by simp [hd]))
    simp [hc, h1, h2]

theorem takeWhile_dropWhile_stop (s2 t : List Char) (hs : ∀ d ∈ s2, isNameChar d = true)
    (ht : ∀ d, t.head? = some d → isNameChar d = false) :
    (s2 ++ t).takeWhile isNameChar = s2 ∧ (s2 ++ t).dropWhile isNameChar = t := by
  induction s2 with
  | nil =>
    cases t with
    | nil => simp
    | cons d t' =>
      have := ht d rfl
      simp [this]
  | cons c r ih =>
    have hc := hs c (by simp)
    have ⟨h1, h2⟩ := ih (fun d hd => hs d (by simp [hd]))
    simp [hc, h1, h2]

theorem typeOfId_not_special (id : List Char) (p : Param) (h : typeOfId id = some p) (m : LexMod) :
    hasNonPortableModifier p m = false := by
  unfold typeOfId at h
  split at h
  · simp only [Option.some.injEq] at h; subst h; cases m <;> rfl
  · split at h
    · split at h
      · split at h
        · simp only [Option.some.injEq] at h; subst h; cases m <;> rfl
        · simp at h
      · simp only [Option.some.injEq] at h; subst h; cases m <;> rfl
    · simp only [Option.some.injEq] at h; subst h; cases m <;> rfl

theorem span_until_brace (v rest : List Char) (hv : ∀ c ∈ v, c ≠ '}') :
    (v ++ '}' :: rest).takeWhile (· != '}') = v ∧ (v ++ '}' :: rest).dropWhile (· != '}') = '}' :: rest := by
  induction v with
  | nil => simp
  | cons c t ih =>
    have hc : c ≠ '}' := hv c (by simp)
    have ⟨h1, h2⟩ := ih (fun d hd => hv d (by simp [hd]))
    simp only [List.cons_append, List.takeWhile_cons, List.dropWhile_cons]
    simp [hc, h1, h2]

theorem hasLengthPrefix_not_hash (c : Char) (t : List Char) (h : c ≠ '#') : hasLengthPrefix (c :: t) = false := by
  unfold hasLengthPrefix
  split
  · rename_i heq; simp at heq; exact absurd heq.1 h
  · rfl

end YashModel.Expansion
