/-
  C01 — helper lemmas for the braced-parameter lexer model (`lexBraced`).
-/
import YashModel.Expansion.Model
namespace YashModel.Expansion

theorem takeWhile_dropWhile_name (s2 rest : List Char) (h : ∀ c ∈ s2, isNameChar c = true) :
    (s2 ++ '}' :: rest).takeWhile isNameChar = s2 ∧ (s2 ++ '}' :: rest).dropWhile isNameChar = '}' :: rest := by
  induction s2 with
  | nil => exact ⟨by simp [show isNameChar '}' = false by decide],
                  by simp [show isNameChar '}' = false by decide]⟩
  | cons c t ih =>
    have hc : isNameChar c = true := h c (by simp)
    have ⟨h1, h2⟩ := ih (fun d hd => h d (by simp [hd]))
    simp [hc, h1, h2]

end YashModel.Expansion
