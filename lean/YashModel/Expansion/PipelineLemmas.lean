/-
  C01 — helper lemmas: the Impl model's initial expansion (`expandWord` … on `Phrase`) denotes the
  declarative expansion on field lists (`posixWord` …, Spec), for every word of the modelled
  fragment, every environment and both splitting contexts.
-/
import YashModel.Expansion.Lemmas
import YashModel.Expansion.TrimLemmas
namespace YashModel.Expansion

/-- denotation of a model result: the phrase as its list of fields -/
def den (r : Res) : SRes :=
  (r.1, match r.2 with
        | .ok ph => .ok ph.toFields
        | .error e => .error e)

@[simp] theorem den_ok (env : Env) (ph : Phrase) : den (env, .ok ph) = (env, .ok ph.toFields) := rfl
@[simp] theorem den_error (env : Env) (e : Err) : den (env, .error e) = (env, .error e) := rfl

theorem joinFields_nil_left' (r : Fields) : joinFields [] r = r := joinFields_nil_left r

theorem joinWith_eq_intercalate (sep : Option AttrChar) (fs : Fields) :
    joinWith sep fs = List.intercalate sep.toList fs := by
  induction fs with
  | nil => rfl
  | cons f t ih =>
    cases t with
    | nil => simp [joinWith, List.intercalate]
    | cons g r =>
      simp only [joinWith, ih]
      cases sep <;> simp [List.intercalate, List.intersperse]

theorem ifsJoin_eq (ph : Phrase) (env : Env) : ph.ifsJoin env = joinBySep env ph.toFields := by
  cases ph with
  | char c => simp [Phrase.ifsJoin, joinBySep, Phrase.toFields, List.intercalate]
  | field f => simp [Phrase.ifsJoin, joinBySep, Phrase.toFields, List.intercalate]
  | full fs =>
    simp only [Phrase.ifsJoin, joinBySep, Phrase.toFields, sepAttr, ifsSeparator_eq]
    exact joinWith_eq_intercalate _ fs

theorem toFields_doubleQuote (ph : Phrase) :
    (doubleQuote ph).toFields = ph.toFields.map quoteField := by
  cases ph <;> simp [doubleQuote, Phrase.toFields, quoteField]

theorem softenChar_eq (c : AttrChar) :
    softenChar c = if c.origin = .literal then { c with origin := .softExpansion } else c := by
  unfold softenChar
  cases h : c.origin <;> simp

theorem toFields_reattribute (ph : Phrase) : (reattribute ph).toFields = soften ph.toFields := by
  have hf : softenChar = (fun c => if c.origin = .literal then { c with origin := .softExpansion } else c) :=
    funext softenChar_eq
  cases ph <;> simp [reattribute, Phrase.mapChars, Phrase.toFields, soften, hf]

theorem toFields_intoPhrase (v : Option Value) : (intoPhrase v).toFields = valueFields v := by
  rcases v with _ | v
  · rfl
  · cases v <;> rfl

theorem toFields_finishParam (env : Env) (ws : Bool) (p : Param) (v : Option Value) :
    (finishParam env ws p v).toFields = paramFields env ws p v := by
  unfold finishParam paramFields
  by_cases hp : p = .star
  · subst hp
    cases ws with
    | false =>
      simp only [Bool.not_false, Bool.true_and, beq_self_eq_true, if_true, and_self]
      show [(intoPhrase v).ifsJoin env] = _
      rw [ifsJoin_eq, toFields_intoPhrase]
    | true => simp [toFields_intoPhrase]
  · have : (p == Param.star) = false := by simpa using hp
    cases ws <;> simp [this, hp, toFields_intoPhrase]

/-- what the implementation's switch decision means in the table, with the vacancy it reports -/
theorem switch_decision_table (act : SwAction) (cond : SwCond) (vo : Option Vacancy) :
    match switchDecision act (ValueCondition.with_ cond vo) with
    | .skip => posixTable act cond (PState.ofVacancy vo) = .substituteParameter ∨
               posixTable act cond (PState.ofVacancy vo) = .substituteNull
    | .useWord => posixTable act cond (PState.ofVacancy vo) = .substituteWord
    | .assignWord vac => posixTable act cond (PState.ofVacancy vo) = .assignWord ∧ vo.getD .unset = vac
    | .fail vac => posixTable act cond (PState.ofVacancy vo) = .error ∧ vo.getD .unset = vac := by
  cases act <;> cases cond <;> rcases vo with _ | v <;> (try cases v) <;> simp [switchDecision,
    ValueCondition.with_, posixTable, PState.ofVacancy]

theorem vacancyOf_eq (v : Option Value) : vacancyOf v = (Vacancy.of v).getD .unset := rfl

/-- the constants of `initial/tilde.rs` as the code has them today (generated on every run) are the ones XCU 2.6.1 and
    the yash documentation name: the variable `HOME`, the tilde itself as stand-in and as kept prefix, the slash,
    characters that are unquoted results of a hard expansion, a quoting `"` as the mark of an empty pathname -/
theorem tilde_constants_today :
    Generated.ExpansionTables.tildeHomeVar = "HOME" ∧ Generated.ExpansionTables.tildeHomeFallback = ['~'] ∧
    Generated.ExpansionTables.tildeUnknownPrefix = ['~'] ∧ Generated.ExpansionTables.tildeSlash = some '/' ∧
    (∀ c, hardChar c = protectedChar c) ∧ tildeDummyQuote = emptyPathnameMark :=
  ⟨rfl, rfl, rfl, rfl, fun _ => rfl, rfl⟩

/-- `tilde::expand` = the declarative tilde expansion: directory looked up as XCU 2.6.1 says, one trailing slash
    dropped before a slash, the prefix itself where the result is unspecified, a dummy quote for an empty result -/
theorem expandTilde_eq_posixTilde (env : Env) (name : List Char) (slash : Bool) :
    expandTilde env name slash = posixTilde env name slash := by
  obtain ⟨h1, h2, h3, h4, h5, h6⟩ := tilde_constants_today
  have hbody : tildeStrip (tildeBody env name) slash = tildeText env name slash := by
    unfold tildeBody tildeText tildeDir tildeStrip
    rw [h1, h2, h3, h4]
    by_cases hn : name = []
    · subst hn
      cases env.getScalar "HOME" <;> simp
    · have hne : name.isEmpty = false := by cases name <;> simp_all
      cases env.homes.lookup name <;> simp [hn, hne]
  unfold expandTilde tildeFinish posixTilde
  rw [hbody, h6]
  have h5' : hardChar = protectedChar := funext h5
  rw [h5']
  cases tildeText env name slash <;> simp

theorem arithEval_den (env : Env) (src : List Char) : den (arithEval env src) = posixArith env src := by
  unfold arithEval posixArith
  cases Arith.evalStrG arithI false src env with
  | error e => simp
  | ok r => simp [Phrase.toFields]

mutual
  theorem textUnit_den : ∀ (u : TextUnit) (env : Env) (ws : Bool),
      den (expandTextUnit env ws u) = posixTextUnit env ws u
    | .lit c, env, ws => by simp [expandTextUnit, posixTextUnit, Phrase.toFields]
    | .bs c, env, ws => by simp [expandTextUnit, posixTextUnit, Phrase.toFields]
    | .param p m, env, ws => by
      simp only [expandTextUnit, posixTextUnit]
      exact param_den m env ws p (resolve env p)
    | .cmd b c, env, ws => by simp [expandTextUnit, posixTextUnit, cmdSubstPhrase, Phrase.toFields]
    | .arith t, env, ws => by
      simp only [expandTextUnit, posixTextUnit]
      by_cases hn : t.isNil = true
      · simp [hn, Phrase.oneEmptyField, Phrase.ifsJoin, joinBySep, List.intercalate, arithEval_den]
      · simp only [hn, if_false, Bool.false_eq_true]
        have ht := textGo_den t env true Phrase.zeroFields
        have hz : Phrase.zeroFields.toFields = [] := rfl
        rw [hz] at ht
        rcases hx : expandTextGo env true Phrase.zeroFields t with ⟨env', r⟩
        rw [hx] at ht
        cases r with
        | error e => simp only [den_error] at ht; simp [← ht]
        | ok ph => simp only [den_ok] at ht; simp [← ht, ifsJoin_eq, arithEval_den]

  theorem param_den : ∀ (m : Modifier) (env : Env) (ws : Bool) (p : Param) (v : Option Value),
      den (expandParam env ws p v m) = posixParam env ws p v m
    | .none, env, ws, p, v => by
      simp only [expandParam, posixParam]
      by_cases h : v = none ∧ env.nounset = true
      · obtain ⟨h1, h2⟩ := h; subst h1; simp [h2]
      · have h' : ¬ ((v.isNone && env.nounset) = true) := by
          intro hh; apply h; simpa [Option.isNone_iff_eq_none] using hh
        simp [h, h', toFields_finishParam]
    | .length, env, ws, p, v => by
      simp only [expandParam, posixParam]
      by_cases h : v = none ∧ env.nounset = true
      · obtain ⟨h1, h2⟩ := h; subst h1; simp [h2]
      · have h' : ¬ ((v.isNone && env.nounset) = true) := by
          intro hh; apply h; simpa [Option.isNone_iff_eq_none] using hh
        simp [h, h', toFields_finishParam]
    | .trim side len w, env, ws, p, v => by
      simp only [expandParam, posixParam]
      by_cases h : v = none ∧ env.nounset = true
      · obtain ⟨h1, h2⟩ := h; subst h1; simp [h2]
      · have h' : ¬ ((v.isNone && env.nounset) = true) := by
          intro hh; apply h; simpa [Option.isNone_iff_eq_none] using hh
        simp only [h, h', if_false]
        cases v with
        | none => simp [toFields_finishParam]
        | some val =>
          have hw := word_den w env ws
          rcases hx : expandWord env ws w with ⟨env', r⟩
          rw [hx] at hw
          cases r with
          | error e => simp only [den_error] at hw; simp [← hw]
          | ok ph => simp only [den_ok] at hw; simp [← hw, toFields_finishParam, ifsJoin_eq, trimApply_eq_posixTrim]
    | .switch cond act w, env, ws, p, v => by
      simp only [expandParam, posixParam]
      have htab := switch_decision_table act cond (Vacancy.of v)
      have hw := word_den w env ws
      have hwt := word_den w env true
      cases hd : switchDecision act (ValueCondition.with_ cond (Vacancy.of v)) with
      | skip =>
        rw [hd] at htab
        simp only at htab
        rcases htab with ht | ht <;> simp [PState.of, ht, toFields_finishParam]
      | useWord =>
        rw [hd] at htab
        simp only at htab
        simp only [PState.of, htab]
        rcases hx : expandWord env ws w with ⟨env', r⟩
        rw [hx] at hw
        cases r with
        | error e => simp only [den_error] at hw; simp [← hw]
        | ok ph => simp only [den_ok] at hw; simp [← hw, toFields_reattribute]
      | assignWord vac =>
        rw [hd] at htab
        simp only at htab
        obtain ⟨ht, hv⟩ := htab
        simp only [PState.of, ht, vacancyOf_eq, hv]
        cases p <;> try (simp; done)
        rename_i name
        rcases hx : expandWord env ws w with ⟨env', r⟩
        rw [hx] at hw
        cases r with
        | error e => simp only [den_error] at hw; simp [← hw]
        | ok ph =>
          simp only [den_ok] at hw
          simp only [← hw, ifsJoin_eq, toFields_reattribute]
          cases env'.assign name (removeQuotesAndStrip (joinBySep env' (soften ph.toFields))) with
          | none => simp
          | some env'' => simp [Phrase.toFields]
      | fail vac =>
        rw [hd] at htab
        simp only at htab
        obtain ⟨ht, hv⟩ := htab
        simp only [PState.of, ht, vacancyOf_eq, hv]
        by_cases hn : w.isNil = true
        · simp [hn]
        · simp only [hn, if_false, Bool.false_eq_true]
          rcases hx : expandWord env true w with ⟨env', r⟩
          rw [hx] at hwt
          cases r with
          | error e => simp only [den_error] at hwt; simp [← hwt]
          | ok ph => simp only [den_ok] at hwt; simp [← hwt, ifsJoin_eq]

  theorem textGo_den : ∀ (t : Text) (env : Env) (ws : Bool) (acc : Phrase),
      den (expandTextGo env ws acc t) = posixTextGo env ws acc.toFields t
    | .nil, env, ws, acc => by simp [expandTextGo, posixTextGo]
    | .cons u t, env, ws, acc => by
      simp only [expandTextGo, posixTextGo]
      have hu := textUnit_den u env ws
      rcases hx : expandTextUnit env ws u with ⟨env', r⟩
      rw [hx] at hu
      cases r with
      | error e => simp only [den_error] at hu; simp [← hu]
      | ok ph =>
        simp only [den_ok] at hu
        simp only [← hu, ← append_toFields]
        exact textGo_den t env' ws (acc.append ph)

  theorem wordUnit_den : ∀ (u : WordUnit) (env : Env) (ws : Bool),
      den (expandWordUnit env ws u) = posixWordUnit env ws u
    | .unq u, env, ws => by
      simp only [expandWordUnit, posixWordUnit]
      exact textUnit_den u env ws
    | .sq s, env, ws => by simp [expandWordUnit, posixWordUnit, singleQuote, Phrase.toFields]
    | .dsq s, env, ws => by simp [expandWordUnit, posixWordUnit, dollarSingleQuote, Phrase.toFields]
    | .tilde name slash, env, ws => by
      simp only [expandWordUnit, posixWordUnit, den_ok, Phrase.toFields, expandTilde_eq_posixTilde]
    | .dq t, env, ws => by
      simp only [expandWordUnit, posixWordUnit]
      by_cases hn : t.isNil = true
      · simp [hn, Phrase.oneEmptyField, doubleQuote, Phrase.toFields]
      · simp only [hn, if_false, Bool.false_eq_true]
        have ht := textGo_den t env false Phrase.zeroFields
        rcases hx : expandTextGo env false Phrase.zeroFields t with ⟨env', r⟩
        rw [hx] at ht
        have hz : Phrase.zeroFields.toFields = [] := rfl
        rw [hz] at ht
        cases r with
        | error e => simp only [den_error] at ht; simp [← ht]
        | ok ph => simp only [den_ok] at ht; simp [← ht, toFields_doubleQuote]

  theorem wordGo_den : ∀ (w : Word) (env : Env) (ws : Bool) (acc : Phrase),
      den (expandWordGo env ws acc w) = posixWordGo env ws acc.toFields w
    | .nil, env, ws, acc => by simp [expandWordGo, posixWordGo]
    | .cons u w, env, ws, acc => by
      simp only [expandWordGo, posixWordGo]
      have hu := wordUnit_den u env ws
      rcases hx : expandWordUnit env ws u with ⟨env', r⟩
      rw [hx] at hu
      cases r with
      | error e => simp only [den_error] at hu; simp [← hu]
      | ok ph =>
        simp only [den_ok] at hu
        simp only [← hu, ← append_toFields]
        exact wordGo_den w env' ws (acc.append ph)

  theorem word_den : ∀ (w : Word) (env : Env) (ws : Bool),
      den (expandWord env ws w) = posixWord env ws w
    | .nil, env, ws => by simp [expandWord, posixWord, Phrase.oneEmptyField, Phrase.toFields]
    | .cons u w, env, ws => by
      simp only [expandWord, posixWord]
      have hu := wordUnit_den u env ws
      rcases hx : expandWordUnit env ws u with ⟨env', r⟩
      rw [hx] at hu
      cases r with
      | error e => simp only [den_error] at hu; simp [← hu]
      | ok ph =>
        simp only [den_ok] at hu
        have hz : (Phrase.zeroFields.append ph).toFields = ph.toFields := by
          rw [append_toFields]; exact joinFields_nil_left _
        simp only [← hu, ← hz]
        exact wordGo_den w env' ws (Phrase.zeroFields.append ph)
end

/-- the arithmetic unit in terms of `expand_text` of its content and the evaluator of C03 over the adapter -/
theorem arith_unit (env env1 env2 : Env) (ws : Bool) (t : Text) (src : List Char) (v : Int)
    (h1 : expandTextJoined env t = (env1, .ok src))
    (h2 : Arith.evalStrG arithI false src env1 = .ok (v, env2)) :
    expandTextUnit env ws (.arith t) = (env2, .ok (.field (toField (intChars v)))) := by
  unfold expandTextJoined at h1
  simp only [expandTextUnit]
  rcases hx : (if t.isNil = true then (env, Except.ok Phrase.oneEmptyField)
      else expandTextGo env true Phrase.zeroFields t) with ⟨e', r⟩
  rw [hx] at h1
  cases r with
  | error e => simp at h1
  | ok ph =>
    simp only [Prod.mk.injEq, Except.ok.injEq] at h1
    obtain ⟨he, hs⟩ := h1
    subst he
    simp only [hs, arithEval, h2]

theorem parseTildeGo_no_colon (us : List WordUnit) (h : ∀ u ∈ us, isColonUnit u = false) :
    ∀ (name : List Char) (count : Nat), parseTildeGo true us name count = parseTildeGo false us name count := by
  induction us with
  | nil => intro name count; rfl
  | cons u rest ih =>
    intro name count
    have hu := h u (by simp)
    have hr := ih (fun v hv => h v (by simp [hv]))
    cases u with
    | unq t =>
      cases t with
      | lit c =>
        have hc : c ≠ ':' := by intro hc; subst hc; simp [isColonUnit] at hu
        simp [parseTildeGo, hc, hr]
      | bs c => rfl
      | param p m => rfl
      | arith t => rfl
      | cmd b c => rfl
    | sq s => rfl
    | dsq s => rfl
    | dq t => rfl
    | tilde n sl => rfl

end YashModel.Expansion
