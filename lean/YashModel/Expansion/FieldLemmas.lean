/-
  C01 — helper lemmas: the field-valued machine `fieldsM` (hence `splitWith`) equals the
  index-free recursive POSIX splitter `specFields`.
-/
import YashModel.Expansion.Lemmas
namespace YashModel.Expansion

variable {α : Type}

theorem dropWsF_len (cls : α → Cls) (xs : List α) : (dropWsF cls xs).length ≤ xs.length := by
  induction xs with
  | nil => simp [dropWsF]
  | cons x xs ih => by_cases h : cls x = .ws <;> simp [dropWsF, h] ; omega

theorem dropWsF_head (cls : α → Cls) (xs : List α) :
    ∀ y ys, dropWsF cls xs = y :: ys → cls y ≠ .ws := by
  induction xs with
  | nil => intro y ys h; simp [dropWsF] at h
  | cons x xs ih =>
    intro y ys h
    by_cases hx : cls x = .ws
    · simp only [dropWsF, hx, if_true] at h; exact ih y ys h
    · simp only [dropWsF, hx, if_false] at h
      cases h; exact hx

theorem spanNon_len (cls : α → Cls) (xs : List α) : (spanNon cls xs).2.length ≤ xs.length := by
  induction xs with
  | nil => simp [spanNon]
  | cons x xs ih => by_cases h : cls x = .non <;> simp [spanNon, h] ; omega

theorem spanNon_head (cls : α → Cls) (xs : List α) :
    ∀ y ys, (spanNon cls xs).2 = y :: ys → cls y ≠ .non := by
  induction xs with
  | nil => intro y ys h; simp [spanNon] at h
  | cons x xs ih =>
    intro y ys h
    by_cases hx : cls x = .non
    · simp only [spanNon, hx, if_true] at h; exact ih y ys h
    · simp only [spanNon, hx, if_false] at h
      cases h; exact hx

theorem fieldsM_skip_afterWs (cls : α → Cls) (xs : List α) :
    fieldsM cls .afterWs xs = fieldsM cls .afterWs (dropWsF cls xs) := by
  induction xs with
  | nil => simp [dropWsF]
  | cons x xs ih =>
    cases hc : cls x <;> simp [dropWsF, fieldsM, hc]
    exact ih

theorem fieldsM_skip_afterNws (cls : α → Cls) (xs : List α) :
    fieldsM cls .afterNws xs = fieldsM cls .afterNws (dropWsF cls xs) := by
  induction xs with
  | nil => simp [dropWsF]
  | cons x xs ih =>
    cases hc : cls x <;> simp [dropWsF, fieldsM, hc]
    exact ih

/-- continuation of the machine after a field ended in front of `rest` -/
def contF (cls : α → Cls) : List α → List (List α)
  | [] => []
  | y :: ys =>
    match cls y with
    | .ws => fieldsM cls .afterWs ys
    | .nws => fieldsM cls .afterNws ys
    | .non => fieldsM cls (.mid [y]) ys

theorem fieldsM_mid (cls : α → Cls) (xs : List α) :
    ∀ acc, fieldsM cls (.mid acc) xs
      = (acc ++ (spanNon cls xs).1) :: contF cls (spanNon cls xs).2 := by
  induction xs with
  | nil => intro acc; simp [fieldsM, spanNon, contF]
  | cons x xs ih =>
    intro acc
    cases hc : cls x with
    | non => simp only [fieldsM, spanNon, hc, if_true]; rw [ih]; simp
    | ws =>
      have hne : ¬ (Cls.ws = Cls.non) := by decide
      simp only [fieldsM, spanNon, hc, hne, if_false, List.append_nil]
      simp [contF, hc]
    | nws =>
      have hne : ¬ (Cls.nws = Cls.non) := by decide
      simp only [fieldsM, spanNon, hc, hne, if_false, List.append_nil]
      simp [contF, hc]

theorem specFieldsGo_nil (cls : α → Cls) (fuel : Nat) : specFieldsGo cls fuel [] = [] := by
  cases fuel <;> simp [specFieldsGo]

def FIH (cls : α → Cls) (fuel : Nat) : Prop :=
  ∀ xs : List α, xs.length < fuel → (∀ y ys, xs = y :: ys → cls y ≠ .ws) →
    fieldsM cls .afterNws xs = specFieldsGo cls fuel xs ∧
    ((∀ y ys, xs = y :: ys → cls y ≠ .nws) → fieldsM cls .afterWs xs = specFieldsGo cls fuel xs)

theorem contF_spec (cls : α → Cls) (fuel : Nat) (ih : FIH cls fuel) (rest : List α)
    (hlen : rest.length < fuel + 1) (hnon : ∀ y ys, rest = y :: ys → cls y ≠ .non) :
    contF cls rest = specFieldsGo cls fuel (dropDelim cls rest) := by
  cases rest with
  | nil => simp [contF, dropDelim, dropWsF, specFieldsGo_nil]
  | cons y ys =>
    simp only [List.length_cons] at hlen
    cases hc : cls y with
    | non => exact absurd hc (hnon y ys rfl)
    | nws =>
      have hd : dropDelim cls (y :: ys) = dropWsF cls ys := by
        simp [dropDelim, dropWsF, hc]
      rw [hd]
      simp only [contF, hc]
      rw [fieldsM_skip_afterNws]
      have hl := dropWsF_len cls ys
      exact (ih _ (by omega) (dropWsF_head cls ys)).1
    | ws =>
      simp only [contF, hc]
      rw [fieldsM_skip_afterWs]
      have hl := dropWsF_len cls ys
      have hh := dropWsF_head cls ys
      simp only [dropDelim, dropWsF, hc, if_true]
      generalize dropWsF cls ys = ks at hl hh
      cases ks with
      | nil => simp [fieldsM, specFieldsGo_nil]
      | cons z zs =>
        simp only [List.length_cons] at hl
        cases hz : cls z with
        | ws => exact absurd hz (hh z zs rfl)
        | nws =>
          simp only [fieldsM, hz, if_true]
          rw [fieldsM_skip_afterNws]
          have hl2 := dropWsF_len cls zs
          exact (ih _ (by omega) (dropWsF_head cls zs)).1
        | non =>
          have hne : ¬ (Cls.non = Cls.nws) := by decide
          simp only [hz, hne, if_false]
          exact (ih _ (by simp only [List.length_cons]; omega)
            (by intro a as h; cases h; simp [hz])).2
            (by intro a as h; cases h; simp [hz])

theorem fields_main (cls : α → Cls) (fuel : Nat) : FIH cls fuel := by
  induction fuel with
  | zero => intro xs h; omega
  | succ fuel ih =>
    intro xs hlen hws
    cases xs with
    | nil => simp [fieldsM, specFieldsGo]
    | cons x xs =>
      simp only [List.length_cons] at hlen
      cases hc : cls x with
      | ws => exact absurd hc (hws x xs rfl)
      | nws =>
        refine ⟨?_, fun h => absurd hc (h x xs rfl)⟩
        have hd : dropDelim cls (x :: xs) = dropWsF cls xs := by
          simp [dropDelim, dropWsF, hc]
        simp only [fieldsM, hc, specFieldsGo, spanNon]
        have hne : ¬ (Cls.nws = Cls.non) := by decide
        simp only [hne, if_false, hd]
        rw [fieldsM_skip_afterNws]
        have hl := dropWsF_len cls xs
        congr 1
        exact (ih _ (by omega) (dropWsF_head cls xs)).1
      | non =>
        have key : fieldsM cls (.mid [x]) xs = specFieldsGo cls (fuel + 1) (x :: xs) := by
          rw [fieldsM_mid]
          have hl := spanNon_len cls xs
          have := contF_spec cls fuel ih (spanNon cls xs).2 (by omega) (spanNon_head cls xs)
          rw [this]
          simp [specFieldsGo, spanNon, hc]
        exact ⟨by simp only [fieldsM, hc]; exact key, fun _ => by simp only [fieldsM, hc]; exact key⟩

theorem fieldsM_eq_specFields (cls : α → Cls) (xs : List α) :
    fieldsM cls .afterNws xs = specFields cls xs := by
  unfold specFields
  rw [fieldsM_skip_afterNws]
  have hl := dropWsF_len cls xs
  exact (fields_main cls _ _ (by omega) (dropWsF_head cls xs)).1

end YashModel.Expansion
