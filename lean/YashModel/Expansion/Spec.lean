/-
  C01 — Spec: the simplest statement of what POSIX XCU 2.6 says (import-free, executable).

  * `specSplit`   — XCU 2.6.5 field splitting as a recursive function on the class list:
                    skip leading IFS white space; stop if nothing is left; a field is the maximal
                    run of non-IFS characters; a delimiter is `ws* nws? ws*`; repeat.
                    (A trailing delimiter therefore never opens a new field; a non-white-space
                    IFS character right at a field start delimits an empty field.)
  * `specFields`  — the same, directly on the characters (no indices).
  * `joinFields`  — what concatenating two multi-field expansions means: the last field of the
                    left operand is glued to the first field of the right one.
  * `posixTable`  — the table of XCU 2.6.2 for `${p-w} ${p:-w} ${p=w} ${p:=w} ${p?w} ${p:?w}
                    ${p+w} ${p:+w}` against {set and not null, set but null, unset}.
  * `specRead`    — XCU `read`: one field per variable, the last variable receives the rest of the
                    line (its field, the following delimiters and fields) without trailing IFS
                    white space.
-/
import YashModel.Expansion.Model
import YashModel.Fnmatch.Spec
namespace YashModel.Expansion

/-! ## Field splitting on index ranges -/

def dropWs : Nat → List Cls → Nat × List Cls
  | i, .ws :: cs => dropWs (i+1) cs
  | i, cs => (i, cs)

def takeNon : Nat → List Cls → Nat × List Cls
  | i, .non :: cs => takeNon (i+1) cs
  | i, cs => (i, cs)

def specGo : Nat → Nat → List Cls → List (Nat × Nat)
  | 0, _, _ => []
  | _+1, _, [] => []
  | fuel+1, i, c :: cs =>
      let jr := takeNon i (c :: cs)
      let kr := dropWs jr.1 jr.2
      match kr.2 with
      | .nws :: rest2 =>
        let lr := dropWs (kr.1+1) rest2
        (i, jr.1) :: specGo fuel lr.1 lr.2
      | rest1 => (i, jr.1) :: specGo fuel kr.1 rest1

/-- POSIX field splitting of a class list: index ranges of the fields -/
def specSplit (cs : List Cls) : List (Nat × Nat) :=
  let ir := dropWs 0 cs
  specGo (cs.length + 1) ir.1 ir.2

/-- POSIX field splitting of a field with a given classifier: the fields cut out of `xs` -/
def specSplitWith {α : Type} (cls : α → Cls) (xs : List α) : List (List α) :=
  (specSplit (xs.map cls)).map (slice xs)

/-! ## Field splitting directly on characters -/

def dropWsF {α : Type} (cls : α → Cls) : List α → List α
  | x :: xs => if cls x = .ws then dropWsF cls xs else x :: xs
  | [] => []

/-- the maximal run of non-IFS characters and the rest -/
def spanNon {α : Type} (cls : α → Cls) : List α → List α × List α
  | x :: xs => if cls x = .non then let r := spanNon cls xs; (x :: r.1, r.2) else ([], x :: xs)
  | [] => ([], [])

/-- skip one delimiter `ws* nws? ws*` -/
def dropDelim {α : Type} (cls : α → Cls) (xs : List α) : List α :=
  match dropWsF cls xs with
  | y :: ys => if cls y = .nws then dropWsF cls ys else y :: ys
  | [] => []

def specFieldsGo {α : Type} (cls : α → Cls) : Nat → List α → List (List α)
  | 0, _ => []
  | _+1, [] => []
  | fuel+1, x :: xs =>
    let r := spanNon cls (x :: xs)
    r.1 :: specFieldsGo cls fuel (dropDelim cls r.2)

/-- POSIX field splitting: the fields themselves -/
def specFields {α : Type} (cls : α → Cls) (xs : List α) : List (List α) :=
  specFieldsGo cls (xs.length + 1) (dropWsF cls xs)

/-- `expand_word_multiple` as POSIX describes it: initial expansion, then every field split by the
    recursive splitter `specFields` under the IFS in force after the expansion, then quote removal -/
def specExpandWordMultiple (env : Env) (w : Word) : Env × Except Err (List (List Char)) :=
  match expandWord env true w with
  | (env', .error e) => (env', .error e)
  | (env', .ok ph) =>
    (env', .ok ((ph.toFields.flatMap (specFields env'.ifs.classifyAttr)).map removeQuotesAndStrip))

/-- a list of words as POSIX describes it: each word in turn, in the environment its predecessors
    left, fields appended in order -/
def specExpandWords (env : Env) : List Word → Env × Except Err (List (List Char))
  | [] => (env, .ok [])
  | w :: ws =>
    match specExpandWordMultiple env w with
    | (env', .error e) => (env', .error e)
    | (env', .ok fs) =>
      match specExpandWords env' ws with
      | (env'', .error e) => (env'', .error e)
      | (env'', .ok gs) => (env'', .ok (fs ++ gs))

/-- the separator used when positional parameters are joined: first character of IFS, a space when
    IFS is unset, nothing when it is empty (XCU 2.5.2 `*`) -/
def sepChar (env : Env) : Option Char :=
  match env.getValue "IFS" with
  | some (.scalar v) => v.head?
  | some (.array vs) => vs.head?.bind (·.head?)
  | none => some ' '

def joinStrings (sep : Option Char) : List (List Char) → List Char
  | [] => []
  | [s] => s
  | s :: t :: r => s ++ (match sep with | some c => [c] | none => []) ++ joinStrings sep (t :: r)

/-! ## Phrase denotation -/

/-- concatenation of two lists of fields: last of the left glued to first of the right -/
def joinFields {α : Type} (l r : List (List α)) : List (List α) :=
  match l.getLast?, r with
  | none, _ => r
  | some _, [] => l
  | some x, y :: ys => l.dropLast ++ [x ++ y] ++ ys

/-! ## XCU 2.6.2 table -/

/-- state of the parameter as the table's columns -/
inductive PState | setNotNull | setNull | unset
  deriving DecidableEq, Repr

/-- outcome named by the table -/
inductive POutcome
  | substituteParameter
  | substituteWord
  | assignWord
  | error
  | substituteNull
  deriving DecidableEq, Repr

/-- XCU 2.6.2, the table following "${parameter:-word}" … "${parameter+word}" -/
def posixTable : SwAction → SwCond → PState → POutcome
  -- ${parameter:-word}
  | .default, .unsetOrEmpty, .setNotNull => .substituteParameter
  | .default, .unsetOrEmpty, .setNull => .substituteWord
  | .default, .unsetOrEmpty, .unset => .substituteWord
  -- ${parameter-word}
  | .default, .unset, .setNotNull => .substituteParameter
  | .default, .unset, .setNull => .substituteNull
  | .default, .unset, .unset => .substituteWord
  -- ${parameter:=word}
  | .assign, .unsetOrEmpty, .setNotNull => .substituteParameter
  | .assign, .unsetOrEmpty, .setNull => .assignWord
  | .assign, .unsetOrEmpty, .unset => .assignWord
  -- ${parameter=word}
  | .assign, .unset, .setNotNull => .substituteParameter
  | .assign, .unset, .setNull => .substituteNull
  | .assign, .unset, .unset => .assignWord
  -- ${parameter:?word}
  | .error, .unsetOrEmpty, .setNotNull => .substituteParameter
  | .error, .unsetOrEmpty, .setNull => .error
  | .error, .unsetOrEmpty, .unset => .error
  -- ${parameter?word}
  | .error, .unset, .setNotNull => .substituteParameter
  | .error, .unset, .setNull => .substituteNull
  | .error, .unset, .unset => .error
  -- ${parameter:+word}
  | .alter, .unsetOrEmpty, .setNotNull => .substituteWord
  | .alter, .unsetOrEmpty, .setNull => .substituteNull
  | .alter, .unsetOrEmpty, .unset => .substituteNull
  -- ${parameter+word}
  | .alter, .unset, .setNotNull => .substituteWord
  | .alter, .unset, .setNull => .substituteWord
  | .alter, .unset, .unset => .substituteNull

/-- the table column a value falls into ("null" = the vacancies other than unset) -/
def PState.ofVacancy : Option Vacancy → PState
  | none => .setNotNull
  | some .unset => .unset
  | some _ => .setNull

def PState.of (v : Option Value) : PState := PState.ofVacancy (Vacancy.of v)

/-- what the implementation's decision means in the table's vocabulary: a skipped switch
    substitutes the parameter's own value, which is null when the parameter is vacant -/
def outcomeOf (d : SwDecision) (st : PState) : POutcome :=
  match d with
  | .skip => if st = .setNotNull then .substituteParameter else .substituteNull
  | .useWord => .substituteWord
  | .assignWord _ => .assignWord
  | .fail _ => .error


/-! ## The initial expansion, declaratively (XCU 2.6.1–2.6.4 on the modelled fragment)

  The result of expanding a word is a *list of fields* of attributed characters (no `Phrase`
  shapes).  Adjacent units are concatenated with `joinFields`; double quotes expand their
  content in a non-splitting context and wrap every resulting field; a parameter's value gives one
  field (scalar), one field per element (`$@`, `$*`, arrays) or the elements joined by the first
  IFS character (`$*` where no splitting will happen); switches follow `posixTable`. -/

abbrev Fields := List (List AttrChar)
abbrev SRes := Env × Except Err Fields

/-- the separator of `$*` as an attributed character -/
def sepAttr (env : Env) : List AttrChar := ((sepChar env).map softChar).toList

/-- fields joined into one by the separator -/
def joinBySep (env : Env) (fs : Fields) : List AttrChar := List.intercalate (sepAttr env) fs

/-- the fields a (possibly absent) value stands for -/
def valueFields : Option Value → Fields
  | none => [[]]
  | some (.scalar s) => [toField s]
  | some (.array vs) => vs.map toField

/-- `$*` is joined where the result will not be split; everything else is the value's fields -/
def paramFields (env : Env) (willSplit : Bool) (p : Param) (v : Option Value) : Fields :=
  if willSplit = false ∧ p = .star then [joinBySep env (valueFields v)] else valueFields v

/-- characters produced by a switch word count as results of the parameter expansion -/
def soften (fs : Fields) : Fields :=
  fs.map (·.map fun c => if c.origin = .literal then { c with origin := .softExpansion } else c)

/-! ### Prefix / suffix removal (XCU 2.6.2 `#` `##` `%` `%%`, pattern notation of XCU 2.13)

  The pattern characters are read by the grammar of the C04 Spec (`Fnmatch.specParse`: unquoted `?`, `*`, a
  closed bracket expression; everything else an ordinary character) and matched by its glob language
  (`Fnmatch.globMatch`); `Fnmatch.specTrim` removes the shortest / longest matching prefix / suffix. -/

/-- the patterns for which POSIX defines the result: every bracket expression is inside the defined notation
    (defined class names, no class as range bound, no empty symbol, no inverted range), and — for the prefix
    forms — no bracket holds a multi-character collating element (outside the POSIX locale's repertoire;
    there yash-fnmatch tries the alternatives in the order written) -/
def patternInPosix (side : TrimSide) (pcs : List PatChar) : Bool :=
  Fnmatch.astDefined (Fnmatch.specParse pcs) &&
    (side == .suffix || Fnmatch.noMulti (Fnmatch.specParse pcs))

/-- `${p#w}` … `${p%%w}` on one string: inside the defined notation the shortest / longest matching prefix /
    suffix is removed (nothing when none matches); outside it POSIX leaves the result open and the Spec
    records what the shell documents: the result of its own matcher (an undefined pattern matches nothing) -/
def posixTrimString (pcs : List PatChar) (side : TrimSide) (len : TrimLen) (v : List Char) : List Char :=
  if patternInPosix side pcs then Fnmatch.specTrim side len (Fnmatch.specParse pcs) v
  else Fnmatch.trimApply side len pcs v

/-- a trim cuts the value at a split point `i`: the part removed … -/
def trimRemovedPart (side : TrimSide) (v : List Char) (i : Nat) : List Char :=
  match side with
  | .prefix => v.take i
  | .suffix => v.drop i

/-- … and the part kept -/
def trimKeptPart (side : TrimSide) (v : List Char) (i : Nat) : List Char :=
  match side with
  | .prefix => v.drop i
  | .suffix => v.take i

/-- number of characters removed at split point `i` -/
def trimRemovedLen (side : TrimSide) (v : List Char) (i : Nat) : Nat :=
  match side with
  | .prefix => i
  | .suffix => v.length - i

/-- no unquoted opening bracket: the pattern consists of ordinary (quoted or unquoted) characters, `?` and `*` -/
def bracketFree (pcs : List PatChar) : Bool := pcs.all (fun pc => pc != .normal '[')

/-- a scalar is trimmed; of `$@`, `$*` and arrays every element is -/
def posixTrim (pcs : List PatChar) (side : TrimSide) (len : TrimLen) : Value → Value
  | .scalar s => .scalar (posixTrimString pcs side len s)
  | .array vs => .array (vs.map (posixTrimString pcs side len))

/-! ### Tilde expansion (XCU 2.6.1) -/

/-- a character that is the result of an expansion not subject to field splitting or pathname expansion -/
def protectedChar (c : Char) : AttrChar :=
  { value := c, origin := .hardExpansion, isQuoted := false, isQuoting := false }

/-- the quoting character that stands for an empty pathname until quote removal -/
def emptyPathnameMark : AttrChar :=
  { value := '"', origin := .hardExpansion, isQuoted := false, isQuoting := true }

/-- the directory a tilde-prefix names: the value of `HOME` for `~`, the initial working directory of the login
    name in the user database for `~name`; `none` where POSIX leaves the result unspecified (`HOME` unset —
    or, in this shell, an array — and a login name the system does not know) -/
def tildeDir (env : Env) (name : List Char) : Option (List Char) :=
  if name = [] then env.getScalar "HOME" else env.homes.lookup name

/-- the text that replaces the tilde-prefix: the directory — without its trailing slash when the prefix is
    followed by a slash and the directory ends in one (XCU 2.6.1, Issue 8) —, and the tilde-prefix itself where
    the result is unspecified (what the yash documentation states; a name never contains a slash, so nothing is
    dropped there: `tilde_unspecified_unchanged`) -/
def tildeText (env : Env) (name : List Char) (slash : Bool) : List Char :=
  match tildeDir env name with
  | some dir => if slash = true ∧ dir.getLast? = some '/' then dir.dropLast else dir
  | none => if slash = true ∧ ('~' :: name).getLast? = some '/' then ('~' :: name).dropLast else '~' :: name

/-- "The pathname resulting from tilde expansion shall be treated as if quoted to prevent it being altered by
    field splitting and pathname expansion": the characters are hard-expansion results; an empty pathname still
    yields a (then empty) field, which the quoting character stands for until quote removal -/
def posixTilde (env : Env) (name : List Char) (slash : Bool) : List AttrChar :=
  if tildeText env name slash = [] then [emptyPathnameMark] else (tildeText env name slash).map protectedChar

/-- XCU 2.6.4: the expression text (already expanded) is evaluated — by the arithmetic of C03's model over this area's
    variables (`arithI`; what the value is, is C03's subject) —, assignments made by the expression stay in the environment,
    and the value in decimal is the result of the expansion: ONE field of characters that are results of an expansion
    (hence subject to field splitting where the context splits) -/
def posixArith (env : Env) (src : List Char) : SRes :=
  match Arith.evalStrG arithI false src env with
  | .ok (v, env') => (env', .ok [toField (intChars v)])
  | .error e => (env, .error (errOfArith e))

/-- the vacancy reported in error messages -/
def vacancyOf (v : Option Value) : Vacancy := (Vacancy.of v).getD .unset

mutual
  def posixTextUnit (env : Env) (willSplit : Bool) : TextUnit → SRes
    | .lit c => (env, .ok [[{ value := c, origin := .literal, isQuoted := false, isQuoting := false }]])
    | .bs c => (env, .ok [[quoteChar '\\', quotedLit c]])
    | .param p m => posixParam env willSplit p (resolve env p) m
    | .cmd _ c =>
      -- XCU 2.6.3: the standard output of the command, "removing sequences of one or more <newline> characters at the
      -- end of the substitution"; one field of expansion results (split where the context splits)
      (env, .ok [toField (stripTrailingNewlines (env.cmdOut c))])
    | .arith t =>
      -- the content is expanded like the content of a here-document: one string, no field splitting
      match (if t.isNil then (env, .ok [[]]) else posixTextGo env true [] t) with
      | (env', .error e) => (env', .error e)
      | (env', .ok fs) => posixArith env' (removeQuotesAndStrip (joinBySep env' fs))

  def posixParam (env : Env) (willSplit : Bool) (p : Param) (v : Option Value) : Modifier → SRes
    | .none =>
      if v = none ∧ env.nounset = true then (env, .error .unsetParameter)
      else (env, .ok (paramFields env willSplit p v))
    | .length =>
      if v = none ∧ env.nounset = true then (env, .error .unsetParameter)
      else (env, .ok (paramFields env willSplit p (lengthOf v)))
    | .trim side len w =>
      if v = none ∧ env.nounset = true then (env, .error .unsetParameter)
      else
        match v with
        | none => (env, .ok (paramFields env willSplit p none))
        | some val =>
          match posixWord env willSplit w with
          | (env', .error e) => (env', .error e)
          | (env', .ok pat) =>
            let pattern := toPatternChars (applyEscapes (joinBySep env' pat))
            (env', .ok (paramFields env' willSplit p (some (posixTrim pattern side len val))))
    | .switch cond act w =>
      match posixTable act cond (PState.of v) with
      | .substituteParameter => (env, .ok (paramFields env willSplit p v))
      | .substituteNull => (env, .ok (paramFields env willSplit p v))
      | .substituteWord =>
        match posixWord env willSplit w with
        | (env', .error e) => (env', .error e)
        | (env', .ok fs) => (env', .ok (soften fs))
      | .assignWord =>
        match p with
        | .var name =>
          match posixWord env willSplit w with
          | (env', .error e) => (env', .error e)
          | (env', .ok fs) =>
            let final := removeQuotesAndStrip (joinBySep env' (soften fs))
            match env'.assign name final with
            | none => (env', .error (.readOnly (vacancyOf v)))
            | some env'' => (env'', .ok [toField final])
        | _ => (env, .error (.nonassignable (vacancyOf v)))
      | .error =>
        if w.isNil then (env, .error (.vacant (vacancyOf v) none))
        else
          match posixWord env true w with
          | (env', .error e) => (env', .error e)
          | (env', .ok fs) =>
            (env', .error (.vacant (vacancyOf v) (some (removeQuotesAndStrip (joinBySep env' fs)))))

  def posixTextGo (env : Env) (willSplit : Bool) (acc : Fields) : Text → SRes
    | .nil => (env, .ok acc)
    | .cons u t =>
      match posixTextUnit env willSplit u with
      | (env', .error e) => (env', .error e)
      | (env', .ok fs) => posixTextGo env' willSplit (joinFields acc fs) t

  def posixWordUnit (env : Env) (willSplit : Bool) : WordUnit → SRes
    | .unq u => posixTextUnit env willSplit u
    | .sq s => (env, .ok [[quoteChar '\''] ++ s.map quotedLit ++ [quoteChar '\'']])
    | .dsq s => (env, .ok [[quoteChar '$', quoteChar '\''] ++ s.map quotedLit ++ [quoteChar '\'']])
    | .tilde name slash => (env, .ok [posixTilde env name slash])
    | .dq t =>
      -- the content never splits, whatever the context of the quotes; an empty content is one empty field
      match (if t.isNil then (env, .ok [[]]) else posixTextGo env false [] t) with
      | (env', .error e) => (env', .error e)
      | (env', .ok fs) => (env', .ok (fs.map quoteField))

  def posixWordGo (env : Env) (willSplit : Bool) (acc : Fields) : Word → SRes
    | .nil => (env, .ok acc)
    | .cons u w =>
      match posixWordUnit env willSplit u with
      | (env', .error e) => (env', .error e)
      | (env', .ok fs) => posixWordGo env' willSplit (joinFields acc fs) w

  /-- a word: its units in order, each in the environment its predecessors left and in the same
      splitting context; no unit at all is one empty field -/
  def posixWord (env : Env) (willSplit : Bool) : Word → SRes
    | .nil => (env, .ok [[]])
    | .cons u w =>
      match posixWordUnit env willSplit u with
      | (env', .error e) => (env', .error e)
      | (env', .ok fs) => posixWordGo env' willSplit fs w
end

/-- XCU 2.6 for a word used as a command argument (pathname expansion off): initial expansion,
    field splitting of every field with the recursive splitter under the IFS then in force, quote
    removal -/
def posixExpandArg (env : Env) (w : Word) : Env × Except Err (List (List Char)) :=
  match posixWord env true w with
  | (env', .error e) => (env', .error e)
  | (env', .ok fs) => (env', .ok ((fs.flatMap (specFields env'.ifs.classifyAttr)).map removeQuotesAndStrip))

/-- a list of words (command arguments, `for` list, array assignment): word by word, each in the
    environment its predecessors left; the first error ends the list -/
def posixExpandArgs (env : Env) : List Word → Env × Except Err (List (List Char))
  | [] => (env, .ok [])
  | w :: ws =>
    match posixExpandArg env w with
    | (env', .error e) => (env', .error e)
    | (env', .ok fs) =>
      match posixExpandArgs env' ws with
      | (env'', .error e) => (env'', .error e)
      | (env'', .ok gs) => (env'', .ok (fs ++ gs))

/-- here-document contents: text units only, one field -/
def posixExpandText (env : Env) (t : Text) : Env × Except Err (List Char) :=
  match (if t.isNil then (env, .ok [[]]) else posixTextGo env true [] t) with
  | (env', .error e) => (env', .error e)
  | (env', .ok fs) => (env', .ok (removeQuotesAndStrip (joinBySep env' fs)))

/-- XCU 2.9.1 assignment / here-document context: no splitting, fields joined by the `$*` separator -/
def posixExpandSingle (env : Env) (w : Word) : Env × Except Err (List Char) :=
  match posixWord env true w with
  | (env', .error e) => (env', .error e)
  | (env', .ok fs) => (env', .ok (removeQuotesAndStrip (joinBySep env' fs)))

/-! ## Words made of quoting forms only -/

/-- the character a literal or backslash-escaped text unit stands for -/
def TextUnit.plain : TextUnit → Option Char
  | .lit c => some c
  | .bs c => some c
  | .param _ _ => none
  | .cmd _ _ => none
  | .arith _ => none

def Text.plain : Text → Option (List Char)
  | .nil => some []
  | .cons u t =>
    match u.plain, t.plain with
    | some c, some r => some (c :: r)
    | _, _ => none

/-- what a unit encloses, when it contains no expansion -/
def WordUnit.plain : WordUnit → Option (List Char)
  | .unq u => u.plain.map (fun c => [c])
  | .sq s => some s
  | .dsq s => some s
  | .tilde _ _ => none
  | .dq t => t.plain

/-- the string a word without expansions stands for: the enclosed characters, in order -/
def Word.plain : Word → Option (List Char)
  | .nil => some []
  | .cons u w =>
    match u.plain, w.plain with
    | some a, some r => some (a ++ r)
    | _, _ => none

/-! ## `read`: the logical line (XCU `read`: "<backslash> shall act as an escape character … the
    <backslash><newline> shall be removed … the terminating logical line delimiter (if any) shall be removed") -/

/-- what the input consists of, read left to right -/
inductive RItem
  /-- an ordinary character -/
  | plain (c : Char)
  /-- a backslash and the character whose literal value it preserves -/
  | escaped (c : Char)
  /-- backslash–newline: a line continuation -/
  | continuation
  /-- a backslash at the very end of the input -/
  | dangling
  /-- the logical line delimiter (unescaped) -/
  | delimiter
  deriving DecidableEq, Repr

/-- the WHOLE input as items (`raw` = option `-r`: a backslash is an ordinary character) -/
def readItems (raw : Bool) (delim : Char) : List Char → List RItem
  | [] => []
  | c :: rest =>
    if c == delim then .delimiter :: readItems raw delim rest
    else if c == '\\' && !raw then
      match rest with
      | [] => [.dangling]
      | d :: rest' => (if d == '\n' then .continuation else .escaped d) :: readItems raw delim rest'
    else .plain c :: readItems raw delim rest

/-- the attributed characters an item contributes to the line: an escaped character is quoted (never a
    separator), its backslash is a quoting character (removed by quote removal); a continuation contributes
    nothing -/
def RItem.chars : RItem → List AttrChar
  | .plain c => [plainChar c]
  | .escaped c => [readQuoting '\\', readQuoted c]
  | .continuation => []
  | .dangling => [readQuoting '\\']
  | .delimiter => []

/-- the value an item stands for once the backslashes are removed -/
def RItem.value : RItem → List Char
  | .plain c => [c]
  | .escaped c => [c]
  | _ => []

/-- the logical line: the items before the first delimiter; and whether there is a delimiter -/
def specReadInput (raw : Bool) (delim : Char) (input : List Char) : List AttrChar × Bool :=
  let items := readItems raw delim input
  ((items.takeWhile (· ≠ .delimiter)).flatMap RItem.chars, items.contains .delimiter)

/-! ## `read`: assignment -/

/-- the text from `start` to the end without trailing IFS white space -/
def restTrimmed (ifs : Ifs) (text : List AttrChar) (start : Nat) : List AttrChar :=
  ((text.drop start).reverse.dropWhile (fun c => ifs.classifyAttr c == .ws)).reverse

/-- XCU `read` on the index ranges of POSIX field splitting: variable `k < n` receives field `k`
    (empty when there is none); the last variable receives field `n` if it is the last field,
    and otherwise everything from the start of field `n` to the end of the line minus trailing
    IFS white space -/
def specRead (ifs : Ifs) (text : List AttrChar) (nBefore : Nat) : List (List Char) :=
  let rs := specSplit (text.map ifs.classifyAttr)
  let first := (List.range nBefore).map (fun k =>
    match rs[k]? with
    | some r => removeQuotesAndStrip (slice text r)
    | none => [])
  let last :=
    match rs[nBefore]? with
    | none => []
    | some r =>
      if rs.length = nBefore + 1 then removeQuotesAndStrip (slice text r)
      else removeQuotesAndStrip (restTrimmed ifs text r.1)
  first ++ [last]

end YashModel.Expansion
