/-
  C01 — Spec: the simplest statement of what POSIX XCU 2.6 says (import-free, executable).

  * `specSplit`   — XCU 2.6.5 field splitting as a recursive function on the class list:
                    skip leading IFS white space; stop if nothing is left; a field is the maximal
                    run of non-IFS characters; a delimiter is `ws* nws? ws*`; repeat.
                    (A trailing delimiter therefore never opens a new field; a non-white-space
                    IFS character right at a field start delimits an empty field.)
  * `specFields`  — the same, directly on the characters (no indices).
  * `joinFields`  — what concatenating two multi-field expansions means: the last field of the
                    left operand is glued to the first field of the right one.
  * `posixTable`  — the table of XCU 2.6.2 for `${p-w} ${p:-w} ${p=w} ${p:=w} ${p?w} ${p:?w}
                    ${p+w} ${p:+w}` against {set and not null, set but null, unset}.
  * `specRead`    — XCU `read`: one field per variable, the last variable receives the rest of the
                    line (its field, the following delimiters and fields) without trailing IFS
                    white space.
-/
import YashModel.Expansion.Model
namespace YashModel.Expansion

/-! ## Field splitting on index ranges -/

def dropWs : Nat → List Cls → Nat × List Cls
  | i, .ws :: cs => dropWs (i+1) cs
  | i, cs => (i, cs)

def takeNon : Nat → List Cls → Nat × List Cls
  | i, .non :: cs => takeNon (i+1) cs
  | i, cs => (i, cs)

def specGo : Nat → Nat → List Cls → List (Nat × Nat)
  | 0, _, _ => []
  | _+1, _, [] => []
  | fuel+1, i, c :: cs =>
      let jr := takeNon i (c :: cs)
      let kr := dropWs jr.1 jr.2
      match kr.2 with
      | .nws :: rest2 =>
        let lr := dropWs (kr.1+1) rest2
        (i, jr.1) :: specGo fuel lr.1 lr.2
      | rest1 => (i, jr.1) :: specGo fuel kr.1 rest1

/-- POSIX field splitting of a class list: index ranges of the fields -/
def specSplit (cs : List Cls) : List (Nat × Nat) :=
  let ir := dropWs 0 cs
  specGo (cs.length + 1) ir.1 ir.2

/-- POSIX field splitting of a field with a given classifier: the fields cut out of `xs` -/
def specSplitWith {α : Type} (cls : α → Cls) (xs : List α) : List (List α) :=
  (specSplit (xs.map cls)).map (slice xs)

/-! ## Field splitting directly on characters -/

def dropWsF {α : Type} (cls : α → Cls) : List α → List α
  | x :: xs => if cls x = .ws then dropWsF cls xs else x :: xs
  | [] => []

/-- the maximal run of non-IFS characters and the rest -/
def spanNon {α : Type} (cls : α → Cls) : List α → List α × List α
  | x :: xs => if cls x = .non then let r := spanNon cls xs; (x :: r.1, r.2) else ([], x :: xs)
  | [] => ([], [])

/-- skip one delimiter `ws* nws? ws*` -/
def dropDelim {α : Type} (cls : α → Cls) (xs : List α) : List α :=
  match dropWsF cls xs with
  | y :: ys => if cls y = .nws then dropWsF cls ys else y :: ys
  | [] => []

def specFieldsGo {α : Type} (cls : α → Cls) : Nat → List α → List (List α)
  | 0, _ => []
  | _+1, [] => []
  | fuel+1, x :: xs =>
    let r := spanNon cls (x :: xs)
    r.1 :: specFieldsGo cls fuel (dropDelim cls r.2)

/-- POSIX field splitting: the fields themselves -/
def specFields {α : Type} (cls : α → Cls) (xs : List α) : List (List α) :=
  specFieldsGo cls (xs.length + 1) (dropWsF cls xs)

/-- `expand_word_multiple` as POSIX describes it: initial expansion, then every field split by the
    recursive splitter `specFields` under the IFS in force after the expansion, then quote removal -/
def specExpandWordMultiple (env : Env) (w : Word) : Env × Except Err (List (List Char)) :=
  match expandWord env true w with
  | (env', .error e) => (env', .error e)
  | (env', .ok ph) =>
    (env', .ok ((ph.toFields.flatMap (specFields env'.ifs.classifyAttr)).map removeQuotesAndStrip))

/-- a list of words as POSIX describes it: each word in turn, in the environment its predecessors
    left, fields appended in order -/
def specExpandWords (env : Env) : List Word → Env × Except Err (List (List Char))
  | [] => (env, .ok [])
  | w :: ws =>
    match specExpandWordMultiple env w with
    | (env', .error e) => (env', .error e)
    | (env', .ok fs) =>
      match specExpandWords env' ws with
      | (env'', .error e) => (env'', .error e)
      | (env'', .ok gs) => (env'', .ok (fs ++ gs))

/-- the separator used when positional parameters are joined: first character of IFS, a space when
    IFS is unset, nothing when it is empty (XCU 2.5.2 `*`) -/
def sepChar (env : Env) : Option Char :=
  match env.getValue "IFS" with
  | some (.scalar v) => v.head?
  | some (.array vs) => vs.head?.bind (·.head?)
  | none => some ' '

def joinStrings (sep : Option Char) : List (List Char) → List Char
  | [] => []
  | [s] => s
  | s :: t :: r => s ++ (match sep with | some c => [c] | none => []) ++ joinStrings sep (t :: r)

/-! ## Phrase denotation -/

/-- concatenation of two lists of fields: last of the left glued to first of the right -/
def joinFields {α : Type} (l r : List (List α)) : List (List α) :=
  match l.getLast?, r with
  | none, _ => r
  | some _, [] => l
  | some x, y :: ys => l.dropLast ++ [x ++ y] ++ ys

/-! ## XCU 2.6.2 table -/

/-- state of the parameter as the table's columns -/
inductive PState | setNotNull | setNull | unset
  deriving DecidableEq, Repr

/-- outcome named by the table -/
inductive POutcome
  | substituteParameter
  | substituteWord
  | assignWord
  | error
  | substituteNull
  deriving DecidableEq, Repr

/-- XCU 2.6.2, the table following "${parameter:-word}" … "${parameter+word}" -/
def posixTable : SwAction → SwCond → PState → POutcome
  -- ${parameter:-word}
  | .default, .unsetOrEmpty, .setNotNull => .substituteParameter
  | .default, .unsetOrEmpty, .setNull => .substituteWord
  | .default, .unsetOrEmpty, .unset => .substituteWord
  -- ${parameter-word}
  | .default, .unset, .setNotNull => .substituteParameter
  | .default, .unset, .setNull => .substituteNull
  | .default, .unset, .unset => .substituteWord
  -- ${parameter:=word}
  | .assign, .unsetOrEmpty, .setNotNull => .substituteParameter
  | .assign, .unsetOrEmpty, .setNull => .assignWord
  | .assign, .unsetOrEmpty, .unset => .assignWord
  -- ${parameter=word}
  | .assign, .unset, .setNotNull => .substituteParameter
  | .assign, .unset, .setNull => .substituteNull
  | .assign, .unset, .unset => .assignWord
  -- ${parameter:?word}
  | .error, .unsetOrEmpty, .setNotNull => .substituteParameter
  | .error, .unsetOrEmpty, .setNull => .error
  | .error, .unsetOrEmpty, .unset => .error
  -- ${parameter?word}
  | .error, .unset, .setNotNull => .substituteParameter
  | .error, .unset, .setNull => .substituteNull
  | .error, .unset, .unset => .error
  -- ${parameter:+word}
  | .alter, .unsetOrEmpty, .setNotNull => .substituteWord
  | .alter, .unsetOrEmpty, .setNull => .substituteNull
  | .alter, .unsetOrEmpty, .unset => .substituteNull
  -- ${parameter+word}
  | .alter, .unset, .setNotNull => .substituteWord
  | .alter, .unset, .setNull => .substituteWord
  | .alter, .unset, .unset => .substituteNull

/-- the table column a value falls into ("null" = the vacancies other than unset) -/
def PState.ofVacancy : Option Vacancy → PState
  | none => .setNotNull
  | some .unset => .unset
  | some _ => .setNull

def PState.of (v : Option Value) : PState := PState.ofVacancy (Vacancy.of v)

/-- what the implementation's decision means in the table's vocabulary: a skipped switch
    substitutes the parameter's own value, which is null when the parameter is vacant -/
def outcomeOf (d : SwDecision) (st : PState) : POutcome :=
  match d with
  | .skip => if st = .setNotNull then .substituteParameter else .substituteNull
  | .useWord => .substituteWord
  | .assignWord _ => .assignWord
  | .fail _ => .error

/-! ## `read` -/

/-- the text from `start` to the end without trailing IFS white space -/
def restTrimmed (ifs : Ifs) (text : List AttrChar) (start : Nat) : List AttrChar :=
  ((text.drop start).reverse.dropWhile (fun c => ifs.classifyAttr c == .ws)).reverse

/-- XCU `read` on the index ranges of POSIX field splitting: variable `k < n` receives field `k`
    (empty when there is none); the last variable receives field `n` if it is the last field,
    and otherwise everything from the start of field `n` to the end of the line minus trailing
    IFS white space -/
def specRead (ifs : Ifs) (text : List AttrChar) (nBefore : Nat) : List (List Char) :=
  let rs := specSplit (text.map ifs.classifyAttr)
  let first := (List.range nBefore).map (fun k =>
    match rs[k]? with
    | some r => removeQuotesAndStrip (slice text r)
    | none => [])
  let last :=
    match rs[nBefore]? with
    | none => []
    | some r =>
      if rs.length = nBefore + 1 then removeQuotesAndStrip (slice text r)
      else removeQuotesAndStrip (restTrimmed ifs text r.1)
  first ++ [last]

end YashModel.Expansion
